import QibProofs.Properties.C07Model
import QibProofs.Lemmas.TNetTreeTotalPerm
/-!
C07 — TOTALITY of tree contraction on the executable model (`QibModel/TNet.lean`, driver `drv_tnet`): on every valid
input the modelled `build_contraction_tree` / `contract_tree` / `perform_tree_contraction` RETURN – they never reach one of
their assertions or refusals – and, composed with the soundness theorems of `C07Model.lean`, return the dense defining sum.
Statements only; proofs are in `QibProofs/Lemmas/TNetTreeTotalScan.lean`, `TNetTreeTotalAssign.lean`,
`TNetTreeTotalNode.lean`, `TNetTreeTotalPrep.lean`, `TNetTreeTotalEval.lean`, `TNetTreeTotalDriver.lean`,
`TNetTreeTotalLeaf.lean`, `TNetTreeTotalPerm.lean`.

Domain (DESIGN §6, C07): a consistent network (`RepOK net`, `isConsistent net = .ok true`), every open bond touching at
least one real tensor (`openTouch net = true`; otherwise the code refuses with "cannot track open axis",
`C07_refuse_untouched_open_bond`), and a scaffold without malformed entries (`noBad s = true`) that is a binary tree over
all real tensor ids, each exactly once (`ScaffoldFull net s`, the predicate of `C07_tree_total`). Scaffolds with at least
two leaves are `.node sl sr`; the single-leaf scaffold is treated separately (`C07_leaf_*`): there the code additionally
refuses a tensor that carries one bond on two axes.
-/
namespace Qib.C07
open Qib.TNet

/-- **The tree builder returns** (`_build_contraction_tree`): consistent network, a scaffold without malformed entries
whose leaves are pairwise distinct ids of real tensors – they need NOT cover all tensors –, any start value of the id
counter. None of its refusals is reachable: the disjointness assertion on the open axes of the two subtrees, the
`KeyError`s / `get_bond_axes` assertion of the bond scan, `openaxes.remove` (`ValueError`) for a fully contracted bond, the
index look-ups and `idxout.remove` of the label assignment, `idxout.index` and the final `assert False` of the tracking. -/
theorem C07_buildTree_total {net : Net} (hrep : RepOK net) (hcons : isConsistent net = .ok true) (s : Scaffold)
    (hnb : noBad s = true) (hnd : (scaffoldLeaves s).Nodup)
    (hreal : ∀ t ∈ scaffoldLeaves s, t ≠ -1 ∧ t ∈ dkeys net.tensors) (k : Int) :
    ∃ t, buildTree net s k = .ok t :=
  buildTree_total (wf_of_consistent hrep hcons) s k hnb hnd hreal

/-- `build_contraction_tree` returns on a full scaffold (single leaf included) -/
theorem C07_buildContractionTree_total {net : Net} (hrep : RepOK net) (hcons : isConsistent net = .ok true)
    (s : Scaffold) (hnb : noBad s = true) (hfull : ScaffoldFull net s) : ∃ t, buildContractionTree net s = .ok t :=
  buildTree_total (wf_of_consistent hrep hcons) s _ hnb hfull.1 (scaffoldFull_leaves (wf_of_consistent hrep hcons) hfull)

section Stages
variable {α : Type} [CommSemiring α]

/-- **Pairwise evaluation returns** (`perform_tree_contraction`) on every tree all of whose nodes are certified, when the
dictionary serves every leaf with a tensor of the leaf's shape: none of the refusals of `numpy.einsum` (operand rank ≠
number of labels, one label with two dimensions, repeated output label, output label in no operand) is reachable. The value
has the shape of the root. -/
theorem C07_treeEval_total {net : Net} (dict : Int → Option (DT α)) (t : Tree)
    (hok : ∀ x ∈ treeOKList net t, x = true)
    (hdata : ∀ i ∈ leafInfos t, ∃ d, dict i.tid = some d ∧ d.shape = nodeShape net i) :
    ∃ r, treeEval dict t = .ok r ∧ r.shape = nodeShape net t.info :=
  treeEval_total dict t hok hdata

/-- **The three stages of tree contraction all return** (`build_contraction_tree`; the axes map, the numbering of the root
legs with its `assert c == tree.ndim`, and the root permutation of `contract_tree`; `perform_tree_contraction`), for data
of the right shapes over any commutative semiring; the evaluated tree and its axes map are certified. -/
theorem C07_tree_stages_total {net : Net} (hrep : RepOK net) (hcons : isConsistent net = .ok true)
    (htouch : openTouch net = true) {sl sr : Scaffold} (hnb : noBad (.node sl sr) = true)
    (hfull : ScaffoldFull net (.node sl sr)) (dict : Int → Option (DT α))
    (hdict : ∀ tid T, tid ≠ -1 → dget net.tensors tid = some T → ∃ d, dict tid = some d ∧ d.shape = T.shape) :
    ∃ tree t perm am r, buildContractionTree net (.node sl sr) = .ok tree ∧
      contractTreePrep net tree = .ok (t, perm, am) ∧ treeEval dict t = .ok r ∧
      (∀ x ∈ treeOKList net t, x = true) ∧ rootOK net t am = true := by
  obtain ⟨tree, t, perm, am, r, h1, h2, h3, h4, h5, _⟩ :=
    pipeline_total (wf_of_consistent hrep hcons) htouch hnb hfull dict hdict
  exact ⟨tree, t, perm, am, r, h1, h2, h3, h4, h5⟩

/-- **The three stages return the dense defining sum** (any commutative semiring, any dictionary carrying the network's
data `D`): they return, and the expansion of the value along the axes map is `fullTensor net D` – unconditionally on the
domain. -/
theorem C07_tree_stages_complete {net : Net} (hrep : RepOK net) (hcons : isConsistent net = .ok true)
    (htouch : openTouch net = true) {sl sr : Scaffold} (hnb : noBad (.node sl sr) = true)
    (hfull : ScaffoldFull net (.node sl sr)) (D : Option Int → List Nat → α) (dict : Int → Option (DT α))
    (hdict : ∀ tid T, tid ≠ -1 → dget net.tensors tid = some T →
      ∃ d, dict tid = some d ∧ d.shape = T.shape ∧ ∀ idx, d.get idx = D T.dataref idx) :
    ∃ tree t perm am r, buildContractionTree net (.node sl sr) = .ok tree ∧
      contractTreePrep net tree = .ok (t, perm, am) ∧ treeEval dict t = .ok r ∧
      toFullTensor r am = fullTensor net D :=
  pipeline_complete (wf_of_consistent hrep hcons) htouch hnb hfull D dict hdict

end Stages

/-- the axes map, the numbering of the root legs and the root permutation of `contract_tree` return on the tree built
from a full scaffold with at least two leaves -/
theorem C07_prep_total {net : Net} (hrep : RepOK net) (hcons : isConsistent net = .ok true)
    (htouch : openTouch net = true) {sl sr : Scaffold} (hnb : noBad (.node sl sr) = true)
    (hfull : ScaffoldFull net (.node sl sr)) {tree : Tree} (hb : buildContractionTree net (.node sl sr) = .ok tree) :
    ∃ t perm am, contractTreePrep net tree = .ok (t, perm, am) := by
  obtain ⟨tree', t, perm, am, _, h1, h2, _⟩ := pipeline_total (α := Int) (wf_of_consistent hrep hcons) htouch hnb hfull
    (fun tid => (dget net.tensors tid).map (fun T => DT.ofFn T.shape (fun _ => 0)))
    (fun tid T _ hT => ⟨_, by rw [hT]; rfl, rfl⟩)
  rw [hb] at h1
  cases h1
  exact ⟨t, perm, am, h2⟩

/-- **`contract_tree` returns** (the driver's `contractTree`: builder, axes map and root permutation, data dictionary,
pairwise evaluation) for every scaffold with at least two leaves on the domain. -/
theorem C07_contractTree_total {net : Net} {data : Data} (hrep : RepOK net)
    (hcd : isConsistentData net data = .ok true) (htouch : openTouch net = true) {sl sr : Scaffold}
    (hnb : noBad (.node sl sr) = true) (hfull : ScaffoldFull net (.node sl sr)) :
    ∃ r am t, contractTree net data (.node sl sr) = .ok (r, am, t) :=
  contractTree_returns hrep hcd htouch hnb hfull

/-- **Tree contraction, complete**: on every consistent network with consistent data in which every open bond touches a
real tensor, for every binary scaffold with at least two leaves over all real tensors, `contract_tree` returns and the
expansion of its result along its axes map IS the dense tensor of the defining sum (composition of
`C07_contractTree_total` with `C07_tree_total`; the tree counterpart of `C07_einsum_complete`). -/
theorem C07_contractTree_complete {net : Net} {data : Data} (hrep : RepOK net)
    (hcd : isConsistentData net data = .ok true) (htouch : openTouch net = true) {sl sr : Scaffold}
    (hnb : noBad (.node sl sr) = true) (hfull : ScaffoldFull net (.node sl sr)) :
    ∃ r am t, contractTree net data (.node sl sr) = .ok (r, am, t) ∧
      toFullTensor r am = fullTensor net (dataAcc data) := by
  obtain ⟨r, am, t, h⟩ := C07_contractTree_total hrep hcd htouch hnb hfull
  exact ⟨r, am, t, h, C07_tree_total hrep hcd h hfull⟩

/-- **Strategy independence, unconditional**: on the domain, single-shot contraction and tree contraction along ANY two
scaffolds with at least two leaves all return, and their results expand to the same dense tensor, the defining sum. -/
theorem C07_strategies_complete {net : Net} {data : Data} (hrep : RepOK net)
    (hcd : isConsistentData net data = .ok true) (htouch : openTouch net = true) {sl sr sl' sr' : Scaffold}
    (hnb : noBad (.node sl sr) = true) (hfull : ScaffoldFull net (.node sl sr))
    (hnb' : noBad (.node sl' sr') = true) (hfull' : ScaffoldFull net (.node sl' sr')) :
    ∃ r0 am0 r1 am1 t1 r2 am2 t2, contractEinsum net data = .ok (r0, am0) ∧
      contractTree net data (.node sl sr) = .ok (r1, am1, t1) ∧
      contractTree net data (.node sl' sr') = .ok (r2, am2, t2) ∧
      toFullTensor r0 am0 = fullTensor net (dataAcc data) ∧ toFullTensor r1 am1 = fullTensor net (dataAcc data) ∧
      toFullTensor r2 am2 = fullTensor net (dataAcc data) := by
  obtain ⟨r0, am0, h0, e0⟩ := C07_einsum_complete hrep hcd
  obtain ⟨r1, am1, t1, h1, e1⟩ := C07_contractTree_complete hrep hcd htouch hnb hfull
  obtain ⟨r2, am2, t2, h2, e2⟩ := C07_contractTree_complete hrep hcd htouch hnb' hfull'
  exact ⟨r0, am0, r1, am1, t1, r2, am2, t2, h0, h1, h2, e0, e1, e2⟩

/-- **Logical shape of the tree result**: on the domain `contract_tree` returns, its expansion along the axes map does
not fail, equals the dense defining sum and has the shape the network reports (`netShape`). -/
theorem C07_contractTree_shape {net : Net} {data : Data} (hrep : RepOK net)
    (hcd : isConsistentData net data = .ok true) (htouch : openTouch net = true) {sl sr : Scaffold}
    (hnb : noBad (.node sl sr) = true) (hfull : ScaffoldFull net (.node sl sr)) :
    ∃ r am t ft, contractTree net data (.node sl sr) = .ok (r, am, t) ∧ toFullTensor r am = .ok ft ∧
      fullTensor net (dataAcc data) = .ok ft ∧ netShape net = .ok ft.shape := by
  have hwf : WF net := wf_of_consistent hrep (isConsistentData_ok hcd).1
  obtain ⟨v, hvm⟩ := exists_mem_of_mem_dkeys hwf.virt
  have hv := dget_of_mem hwf.tnodup hvm
  simp only at hv
  obtain ⟨r, am, t, h, e⟩ := C07_contractTree_complete hrep hcd htouch hnb hfull
  refine ⟨r, am, t, DT.ofFn v.shape (full net (dataAcc data)), h, ?_, ?_, ?_⟩
  · rw [e]; simp [fullTensor, virt, hv, bind, Except.bind, pure, Except.pure]
  · simp [fullTensor, virt, hv, bind, Except.bind, pure, Except.pure]
  · simp [netShape, virt, hv, bind, Except.bind, pure, Except.pure, DT.ofFn]

/-! ### the refusals (converse direction) -/

/-- a malformed scaffold entry (not an id, not a pair): `AssertionError` -/
theorem C07_refuse_bad (net : Net) (k : Int) : buildTree net .bad k = .error .assertion :=
  buildTree_bad net k

/-- **a malformed entry anywhere in an otherwise valid scaffold: `AssertionError`** (so `noBad` is necessary) -/
theorem C07_refuse_bad_inside {net : Net} {data : Data} (hrep : RepOK net) (hcons : isConsistent net = .ok true)
    (s : Scaffold) (hnb : noBad s = false) (hnd : (scaffoldLeaves s).Nodup)
    (hreal : ∀ t ∈ scaffoldLeaves s, t ≠ -1 ∧ t ∈ dkeys net.tensors) :
    buildContractionTree net s = .error .assertion ∧ contractTree net data s = .error .assertion := by
  have h := buildTree_noBad_false (wf_of_consistent hrep hcons) s (maxKey (dkeys net.tensors) + 1) hnb hnd hreal
  exact ⟨h, contractTree_error_build h⟩

/-- **refusals propagate in depth-first order** (left subtree first): whatever the builder raises inside a subtree is
what it raises for the whole scaffold; with this, the leaf refusals below apply at any depth. -/
theorem C07_refuse_propagates {net : Net} {sl sr : Scaffold} {k : Int} {e : Err} :
    (buildTree net sl k = .error e → buildTree net (.node sl sr) k = .error e) ∧
    (∀ tL, buildTree net sl k = .ok tL →
      buildTree net sr (if tL.info.tid ≥ k then tL.info.tid + 1 else k) = .error e →
      buildTree net (.node sl sr) k = .error e) :=
  ⟨buildTree_error_left, fun _ hL h => buildTree_error_right hL h⟩

/-- the virtual tensor `-1` as a leaf: `ValueError` -/
theorem C07_refuse_virtual_leaf (net : Net) (data : Data) :
    buildContractionTree net (.leaf (-1)) = .error .valueError ∧ contractTree net data (.leaf (-1)) = .error .valueError :=
  ⟨buildTree_leaf_virtual net _, contractTree_error_build (buildTree_leaf_virtual net _)⟩

/-- an id that is not a tensor of the network as a leaf: `KeyError` -/
theorem C07_refuse_unknown_leaf {net : Net} (data : Data) {t : Int} (hne : t ≠ -1) (hk : t ∉ dkeys net.tensors) :
    buildContractionTree net (.leaf t) = .error .keyError ∧ contractTree net data (.leaf t) = .error .keyError :=
  ⟨buildTree_leaf_unknown hne hk _, contractTree_error_build (buildTree_leaf_unknown hne hk _)⟩

/-- **an open bond touching no real tensor: `RuntimeError`** ("cannot track open axis"), for every tree with certified
root tracking – in particular every tree the builder returns (so `openTouch` is necessary) -/
theorem C07_refuse_untouched_open_bond_prep {net : Net} (hrep : RepOK net) (hcons : isConsistent net = .ok true)
    (htouch : openTouch net = false) {s : Scaffold} {tree : Tree} (hb : buildContractionTree net s = .ok tree) :
    contractTreePrep net tree = .error .runtimeError :=
  prep_untouched (wf_of_consistent hrep hcons) htouch (buildTree_ok (wf_of_consistent hrep hcons) _ _ tree hb).2

/-- the same refusal of `contract_tree`, for every scaffold the builder accepts -/
theorem C07_refuse_untouched_open_bond {net : Net} {data : Data} (hrep : RepOK net)
    (hcons : isConsistent net = .ok true) (htouch : openTouch net = false) {s : Scaffold} (hnb : noBad s = true)
    (hnd : (scaffoldLeaves s).Nodup) (hreal : ∀ t ∈ scaffoldLeaves s, t ≠ -1 ∧ t ∈ dkeys net.tensors) :
    contractTree net data s = .error .runtimeError :=
  contractTree_untouched hrep hcons htouch hnb hnd hreal

/-- **`openTouch` is exactly the condition on the network**: for a consistent network with consistent data and a full
scaffold with at least two leaves, `contract_tree` returns iff every open bond touches a real tensor. -/
theorem C07_contractTree_returns_iff {net : Net} {data : Data} (hrep : RepOK net)
    (hcd : isConsistentData net data = .ok true) {sl sr : Scaffold} (hnb : noBad (.node sl sr) = true)
    (hfull : ScaffoldFull net (.node sl sr)) :
    (∃ r am t, contractTree net data (.node sl sr) = .ok (r, am, t)) ↔ openTouch net = true := by
  constructor
  · rintro ⟨r, am, t, h⟩
    cases ht : openTouch net with
    | true => rfl
    | false =>
      have hwf : WF net := wf_of_consistent hrep (isConsistentData_ok hcd).1
      rw [C07_refuse_untouched_open_bond hrep (isConsistentData_ok hcd).1 ht hnb hfull.1
        (scaffoldFull_leaves hwf hfull)] at h
      cases h
  · exact fun ht => C07_contractTree_total hrep hcd ht hnb hfull

/-! ### the single-leaf scaffold (a network with one real tensor), exactly -/

/-- **single leaf, complete**: when the only real tensor `T` carries no bond twice, `contract_tree` returns on the
single-leaf scaffold and the result expands to the dense defining sum. -/
theorem C07_leaf_complete {net : Net} {data : Data} (hrep : RepOK net) (hcd : isConsistentData net data = .ok true)
    (htouch : openTouch net = true) {tid : Int} (hfull : ScaffoldFull net (.leaf tid)) {T : STensor}
    (hT : dget net.tensors tid = some T) (hnd : T.bids.Nodup) :
    ∃ r am t, contractTree net data (.leaf tid) = .ok (r, am, t) ∧
      toFullTensor r am = fullTensor net (dataAcc data) := by
  obtain ⟨r, am, t, h⟩ := contractTree_leaf_returns hrep hcd htouch hfull hT hnd
  exact ⟨r, am, t, h, C07_tree_total_any hrep hcd (.leaf tid) h hfull⟩

/-- **single leaf, an OPEN bond on two axes of `T`: `RuntimeError`** ("inconsistency when tracking open axis"; the dense
value would need a Kronecker delta the leaf tensor does not have) -/
theorem C07_leaf_refuse_open_dup {net : Net} {data : Data} (hrep : RepOK net) (hcons : isConsistent net = .ok true)
    {tid : Int} (hfull : ScaffoldFull net (.leaf tid)) {v T : STensor} (hv : dget net.tensors (-1) = some v)
    (hT : dget net.tensors tid = some T) {b : Int} (hb : b ∈ v.bids) (hdup : 2 ≤ T.bids.count b) :
    contractTree net data (.leaf tid) = .error .runtimeError :=
  contractTree_leaf_dup_open hrep hcons hfull hv hT hb hdup

/-- **single leaf, only bonds without open leg (traces) twice on `T`: `AssertionError`** (`assert c == tree.ndim`: a leaf
is never traced). Together with `C07_leaf_complete` and `C07_leaf_refuse_open_dup` this describes the single-leaf scaffold
exactly: it returns iff `T.bids` has no repetition. -/
theorem C07_leaf_refuse_trace {net : Net} {data : Data} (hrep : RepOK net) (hcons : isConsistent net = .ok true)
    (htouch : openTouch net = true) {tid : Int} (hfull : ScaffoldFull net (.leaf tid)) {v T : STensor}
    (hv : dget net.tensors (-1) = some v) (hT : dget net.tensors tid = some T) (hdup : ¬ T.bids.Nodup)
    (hclosed : ∀ b ∈ v.bids, T.bids.count b ≤ 1) :
    contractTree net data (.leaf tid) = .error .assertion :=
  contractTree_leaf_dup_closed hrep hcons htouch hfull hv hT hdup hclosed

/-- **single leaf, exactly**: on a consistent one-tensor network with consistent data in which every open bond touches the
tensor, `contract_tree` with the single-leaf scaffold returns iff the tensor carries no bond on two axes. -/
theorem C07_leaf_returns_iff {net : Net} {data : Data} (hrep : RepOK net) (hcd : isConsistentData net data = .ok true)
    (htouch : openTouch net = true) {tid : Int} (hfull : ScaffoldFull net (.leaf tid)) {T : STensor}
    (hT : dget net.tensors tid = some T) :
    (∃ r am t, contractTree net data (.leaf tid) = .ok (r, am, t)) ↔ T.bids.Nodup := by
  have hcons := (isConsistentData_ok hcd).1
  have hwf : WF net := wf_of_consistent hrep hcons
  obtain ⟨v, hvm⟩ := exists_mem_of_mem_dkeys hwf.virt
  have hv := dget_of_mem hwf.tnodup hvm
  simp only at hv
  constructor
  · rintro ⟨r, am, t, h⟩
    by_contra hnd
    by_cases hopen : ∃ b ∈ v.bids, 2 ≤ T.bids.count b
    · obtain ⟨b, hb, hc⟩ := hopen
      rw [C07_leaf_refuse_open_dup hrep hcons hfull hv hT hb hc] at h
      cases h
    · have hclosed : ∀ b ∈ v.bids, T.bids.count b ≤ 1 := by
        intro b hb
        by_contra hc
        exact hopen ⟨b, hb, by omega⟩
      rw [C07_leaf_refuse_trace hrep hcons htouch hfull hv hT hnd hclosed] at h
      cases h
  · intro hnd
    obtain ⟨r, am, t, h, _⟩ := C07_leaf_complete hrep hcd htouch hfull hT hnd
    exact ⟨r, am, t, h⟩

/-! ### `permute_axes` -/

section Permute
variable {α : Type} [CommSemiring α]

omit [CommSemiring α] in
/-- **`permute_axes` returns** on every node (`nodeAt t path = some j`) of every certified tree – in particular of every
tree the builder returns – for every permutation of the node's legs. -/
theorem C07_permute_axes_total {net : Net} {sort : List Nat} (hs : sort.Perm (List.range sort.length)) (t : Tree)
    (path : List Bool) {j : NodeInfo} (hok : ∀ x ∈ treeOKList net t, x = true) (hj : nodeAt t path = some j)
    (hlen : sort.length = j.idxout.length) : ∃ t', permuteAt t path sort = .ok t' :=
  permuteAt_total hs t path j hok hj hlen

omit [CommSemiring α] in
/-- an index sequence of the wrong length: `ValueError` -/
theorem C07_permute_axes_wrong_length {sort : List Nat} (t : Tree) (path : List Bool) {j : NodeInfo}
    (hj : nodeAt t path = some j) (hlen : sort.length ≠ j.idxout.length) :
    permuteAt t path sort = .error .valueError :=
  permuteAt_wrong_length t path j hj hlen

omit [CommSemiring α] in
/-- a path that does not lead to a node (it runs through a leaf): the model's `KeyError` -/
theorem C07_permute_axes_no_node {sort : List Nat} (t : Tree) (path : List Bool) (hj : nodeAt t path = none) :
    permuteAt t path sort = .error .keyError :=
  permuteAt_no_node t path hj

/-- **Build, re-order any node, evaluate – everything returns and the value is unchanged** (transposed when the root is
re-ordered): for the tree built from any valid scaffold (distinct real leaves, not necessarily all tensors), any node of
it, any permutation of that node's legs, data of the right shapes and the caller's leaf-transposition protocol
`permDict`. -/
theorem C07_permute_axes_complete {net : Net} (hrep : RepOK net) (hcons : isConsistent net = .ok true) (s : Scaffold)
    (hnb : noBad s = true) (hnd : (scaffoldLeaves s).Nodup)
    (hreal : ∀ t ∈ scaffoldLeaves s, t ≠ -1 ∧ t ∈ dkeys net.tensors) (dict : Int → Option (DT α))
    (hdict : ∀ tid T, tid ≠ -1 → dget net.tensors tid = some T → ∃ d, dict tid = some d ∧ d.shape = T.shape)
    {sort : List Nat} (hs : sort.Perm (List.range sort.length)) (path : List Bool) :
    ∃ t r, buildContractionTree net s = .ok t ∧ treeEval dict t = .ok r ∧
      ∀ j, nodeAt t path = some j → sort.length = j.idxout.length →
        ∃ t', permuteAt t path sort = .ok t' ∧
          treeEval (permDict dict t path sort) t' = .ok (if path = [] then r.transpose sort else r) := by
  have hwf : WF net := wf_of_consistent hrep hcons
  obtain ⟨t, ht⟩ := buildTree_total hwf s (maxKey (dkeys net.tensors) + 1) hnb hnd hreal
  have hok := (buildTree_ok hwf s _ t ht).1
  have hlv := buildTree_leaves s _ t ht
  have hleafs : ∀ i ∈ leafInfos t, ∃ T d, dget net.tensors i.tid = some T ∧ i.idxout.length = T.shape.length ∧
      dict i.tid = some d ∧ d.shape = T.shape ∧ nodeShape net i = T.shape := by
    intro i hi
    have hlc := leafOK_cert (hok _ (leafOK_mem_treeOKList _ i hi))
    obtain ⟨T, hT, hlen, hopen, htrack⟩ := buildTree_leafId s _ t ht i hi
    obtain ⟨d, hd, hsd⟩ := hdict i.tid T hlc.ne hT
    exact ⟨T, d, hT, hlen, hd, hsd, nodeShape_of_leafId hwf hlc.info hT hlen hopen htrack⟩
  obtain ⟨r, hr, _⟩ := treeEval_total (net := net) dict t hok (fun i hi => by
    obtain ⟨T, d, _, _, hd, hsd, hns⟩ := hleafs i hi
    exact ⟨d, hd, by rw [hsd, hns]⟩)
  refine ⟨t, r, ht, hr, ?_⟩
  intro j hj hlen
  obtain ⟨t', ht'⟩ := permuteAt_total hs t path j hok hj hlen
  refine ⟨t', ht', ?_⟩
  refine C07_permute_axes_invariant dict sort hs t path ht' (by rw [hlv]; exact hnd) ?_ hr
  intro i hi d hd
  obtain ⟨T, d', _, hlen', hd', hsd, _⟩ := hleafs i hi
  rw [hd] at hd'
  cases hd'
  rw [hsd, hlen']

end Permute

/-! ### non-vacuity (tests, not proofs): the hypotheses are satisfiable, the functions return, and a refusal of each kind

`Example.exNet` (from `C07Model.lean`): two real tensors joined by the hyper-bond 5 (four legs, two open), open legs on
bonds 6 and 7, one inner bond 8. -/
namespace TotalExample
open Qib.C07.Example

/-- the exception class raised, if any (the results themselves have no decidable equality) -/
def errOf {γ : Type} : Except Err γ → Option Err
  | .ok _ => none
  | .error e => some e

example : RepOK exNet := ⟨by decide, by decide, by decide, by decide⟩
example : isConsistentData exNet exData = .ok true := by decide +kernel
example : openTouch exNet = true := by decide +kernel
example : noBad (.node (.leaf 1) (.leaf 0)) = true := by decide
example : ScaffoldFull exNet (.node (.leaf 1) (.leaf 0)) := ⟨by decide, by decide +kernel⟩
/-- the three stages return on the example -/
example : (match buildContractionTree exNet (.node (.leaf 1) (.leaf 0)) with
    | .ok tree => (match contractTreePrep exNet tree with
      | .ok (t, _, _) => (treeEval (tensorDict exNet exData) t).toBool
      | .error _ => false)
    | .error _ => false) = true := by decide +kernel
example : (contractTree exNet exData (.node (.leaf 1) (.leaf 0))).toBool = true := by decide +kernel

/-- a network with an open bond (5) that touches no real tensor, next to two real tensors joined by bond 8 -/
def idleNet : Net :=
  ⟨[(-1, ⟨-1, [2, 2, 3], [5, 5, 6], none⟩), (0, ⟨0, [3, 2], [6, 8], some 0⟩), (1, ⟨1, [2], [8], some 1⟩)],
   [(5, ⟨5, [-1, -1]⟩), (6, ⟨6, [-1, 0]⟩), (8, ⟨8, [0, 1]⟩)]⟩
def idleData : Data := [(0, DT.ofFn [3, 2] (fun i => Int.ofNat (i.foldl (fun a x => 2 * a + x) 1))),
  (1, DT.ofFn [2] (fun i => Int.ofNat (i.foldl (fun a x => a + x) 1)))]

example : RepOK idleNet := ⟨by decide, by decide, by decide, by decide⟩
example : isConsistentData idleNet idleData = .ok true := by decide +kernel
example : ScaffoldFull idleNet (.node (.leaf 0) (.leaf 1)) := ⟨by decide, by decide +kernel⟩
example : openTouch idleNet = false := by decide +kernel
/-- single-shot contraction returns on it, tree contraction refuses: "cannot track open axis" -/
example : (contractEinsum idleNet idleData).toBool = true := by decide +kernel
example : errOf (contractTree idleNet idleData (.node (.leaf 0) (.leaf 1))) = some .runtimeError := by decide +kernel

/-- refusals of the builder -/
example : errOf (contractTree exNet exData (.node (.leaf 0) (.node (.leaf 1) .bad))) = some .assertion := by decide +kernel
example : errOf (contractTree exNet exData (.node (.leaf 0) (.leaf (-1)))) = some .valueError := by decide +kernel
example : errOf (contractTree exNet exData (.node (.leaf 0) (.leaf 7))) = some .keyError := by decide +kernel
/-- the same tensor twice: the open axes of the two subtrees are not disjoint -/
example : errOf (contractTree exNet exData (.node (.leaf 0) (.leaf 0))) = some .assertion := by decide +kernel

/-- single-leaf scaffolds: accepted (`oneNet`), open bond on two axes (`cexNet`), trace (`traceNet`) -/
example : openTouch oneNet = true := by decide +kernel
example : (contractTree oneNet oneData (.leaf 4)).toBool = true := by decide +kernel
example : errOf (contractTree cexNet cexData (.leaf 0)) = some .runtimeError := by decide +kernel
def traceNet : Net :=
  ⟨[(-1, ⟨-1, [3], [7], none⟩), (0, ⟨0, [2, 3, 2], [5, 7, 5], some 0⟩)], [(5, ⟨5, [0, 0]⟩), (7, ⟨7, [-1, 0]⟩)]⟩
def traceData : Data := [(0, DT.ofFn [2, 3, 2] (fun i => Int.ofNat (i.foldl (fun a x => 3 * a + x) 1)))]
example : isConsistentData traceNet traceData = .ok true := by decide +kernel
example : ScaffoldFull traceNet (.leaf 0) := ⟨by decide, by decide +kernel⟩
example : openTouch traceNet = true := by decide +kernel
example : errOf (contractTree traceNet traceData (.leaf 0)) = some .assertion := by decide +kernel
/-- … although single-shot contraction returns the traced tensor on the same input -/
example : (contractEinsum traceNet traceData).toBool = true := by decide +kernel

/-- `permute_axes`: a valid node and permutation; a wrong length; a path through a leaf -/
example : (match buildContractionTree exNet (.node (.leaf 1) (.leaf 0)) with
    | .ok t => (nodeAt t [true]).isSome && (permuteAt t [true] [2, 0, 1]).toBool &&
        errOf (permuteAt t [true] [1, 0]) == some .valueError && (nodeAt t [true, false]).isNone &&
        errOf (permuteAt t [true, false] [0]) == some .keyError
    | .error _ => false) = true := by decide +kernel

end TotalExample

end Qib.C07
