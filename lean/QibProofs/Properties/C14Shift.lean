import QibModel.LatticeShift
import QibProofs.Lemmas.LatticeGrid
/-!
C14, the per-axis / per-shift summands of the adjacency matrix of a rectangular grid:
`IntegerLattice.adjacency_matrix_axis_shift(d, s)` (model `QibModel/LatticeShift.lean`). Property theorems only.
-/
namespace Qib.Lattice

/-- the guard of the call: accepted exactly for `s = 1` and `s = -1`, `ValueError` otherwise -/
theorem C14_axisShift_accepts_iff (shape : List Nat) (pbc : List Bool) (d : Nat) (s : Int) :
    (∃ m, axisShiftCall shape pbc d s = .ok m) ↔ (s = 1 ∨ s = -1) := by
  unfold axisShiftCall
  split
  · rename_i h; exact ⟨fun _ => h, fun _ => ⟨_, rfl⟩⟩
  · rename_i h; exact ⟨fun ⟨m, hm⟩ => by simp at hm, fun h' => absurd h' h⟩

theorem C14_axisShift_rejects (shape : List Nat) (pbc : List Bool) (d : Nat) (s : Int) (h1 : s ≠ 1) (h2 : s ≠ -1) :
    axisShiftCall shape pbc d s = .error .valueError := by
  unfold axisShiftCall; simp [h1, h2]

/-- the returned matrix is `nsites x nsites` with entries 0/1 given by `axisShift` -/
theorem C14_axisShift_matrix (shape : List Nat) (pbc : List Bool) (d : Nat) (s : Int) (m : List (List Nat))
    (h : axisShiftCall shape pbc d s = .ok m) :
    m.length = sprod shape ∧ ∀ i, i < sprod shape → ∀ j, j < sprod shape →
      (m.getD i []).getD j 0 = if axisShift shape pbc d (decide (s = 1)) i j then 1 else 0 := by
  unfold axisShiftCall at h
  split at h
  · simp only [Except.ok.injEq] at h
    subst h
    refine ⟨by simp, ?_⟩
    intro i hi j hj
    simp [List.getD_eq_getElem?_getD, hi, hj]
  · simp at h

/-- **decomposition**: the adjacency matrix is the entrywise OR of the `2 · ndim` axis/shift matrices -/
theorem C14_adjacency_is_or_of_axis_shifts (shape : List Nat) (pbc : List Bool) (i j : Nat) :
    gridAdj shape pbc i j =
      (List.range shape.length).any fun d => axisShift shape pbc d false i j || axisShift shape pbc d true i j := by
  unfold gridAdj axisShift axisAdj
  by_cases hi : i < sprod shape <;> by_cases hj : j < sprod shape <;> simp [hi, hj]

/-- every axis/shift matrix lies below the adjacency matrix -/
theorem C14_axisShift_le_adjacency (shape : List Nat) (pbc : List Bool) (d : Nat) (plus : Bool) (i j : Nat)
    (hd : d < shape.length) (h : axisShift shape pbc d plus i j = true) : gridAdj shape pbc i j = true := by
  rw [C14_adjacency_is_or_of_axis_shifts]
  simp only [List.any_eq_true, List.mem_range, Bool.or_eq_true]
  exact ⟨d, hd, by cases plus <;> simp [h]⟩

/-- what one axis/shift matrix says in coordinates: `j` is `i` with digit `d` replaced by the rolled digit, the wrap-around pair
kept on a periodic axis (except self-pairs) and cut on an open one -/
theorem C14_axisShift_iff (shape : List Nat) (pbc : List Bool) (d : Nat) (plus : Bool) (i j : Nat) (hd : d < shape.length) :
    axisShift shape pbc d plus i j = true ↔
      i < sprod shape ∧ j < sprod shape ∧
      (if pbc.getD d false = true then i ≠ j else keptByCut (shape.getD d 1) plus ((unravel shape i).getD d 0) = true) ∧
      unravel shape j = (unravel shape i).set d (rollSrc (shape.getD d 1) plus ((unravel shape i).getD d 0)) := by
  unfold axisShift
  simp only [Bool.and_eq_true, decide_eq_true_eq]
  constructor
  · rintro ⟨⟨hi, hj⟩, h⟩
    exact ⟨hi, hj, (rollPair_iff shape d _ plus i j hi hj hd).mp h⟩
  · rintro ⟨hi, hj, h⟩
    exact ⟨⟨hi, hj⟩, (rollPair_iff shape d _ plus i j hi hj hd).mpr h⟩

/-- each row of an axis/shift matrix has at most one entry 1 (the matrix is a partial permutation) -/
theorem C14_axisShift_row_functional (shape : List Nat) (pbc : List Bool) (d : Nat) (plus : Bool) (i j j' : Nat)
    (hd : d < shape.length) (h : axisShift shape pbc d plus i j = true) (h' : axisShift shape pbc d plus i j' = true) : j = j' := by
  obtain ⟨_, hj, _, hu⟩ := (C14_axisShift_iff shape pbc d plus i j hd).mp h
  obtain ⟨_, hj', _, hu'⟩ := (C14_axisShift_iff shape pbc d plus i j' hd).mp h'
  exact unravel_injective hj hj' (hu.trans hu'.symm)

/-- rolling back: the opposite shift undoes the shift of a digit -/
theorem C14_rollSrc_back (n x : Nat) (plus : Bool) (hx : x < n) : rollSrc n (!plus) (rollSrc n plus x) = x := by
  cases plus
  · simp only [Bool.not_false]
    rw [rollSrc_minus hx]
    by_cases h : x + 1 = n
    · simp only [h, if_true]
      rw [rollSrc_plus (by omega)]; simp; omega
    · simp only [h, if_false]
      rw [rollSrc_plus (by omega)]; simp
  · simp only [Bool.not_true]
    rw [rollSrc_plus hx]
    by_cases h : x = 0
    · simp only [h, if_true]
      rw [rollSrc_minus (by omega)]; simp; omega
    · simp only [h, if_false]
      rw [rollSrc_minus (by omega)]
      split <;> omega

/-- **transpose**: the matrix of the opposite shift is the transpose, `A(d, -s) = A(d, s)ᵀ` -/
theorem C14_axisShift_transpose (shape : List Nat) (pbc : List Bool) (d : Nat) (plus : Bool) (i j : Nat) (hd : d < shape.length) :
    axisShift shape pbc d plus i j = axisShift shape pbc d (!plus) j i := by
  have key : ∀ (plus : Bool) (i j : Nat), axisShift shape pbc d plus i j = true → axisShift shape pbc d (!plus) j i = true := by
    intro plus i j h
    obtain ⟨hi, hj, hc, hu⟩ := (C14_axisShift_iff shape pbc d plus i j hd).mp h
    rw [C14_axisShift_iff shape pbc d (!plus) j i hd]
    have hvi := validCoord_unravel shape i hi
    have hx : (unravel shape i).getD d 0 < shape.getD d 1 := validCoord_getD_lt hvi hd
    have hdi : d < (unravel shape i).length := by simpa [unravel_length] using hd
    -- digit d of j
    have hjd : (unravel shape j).getD d 0 = rollSrc (shape.getD d 1) plus ((unravel shape i).getD d 0) := by
      rw [hu]; exact getD_set_self hdi
    -- rolling back
    have hback := C14_rollSrc_back (shape.getD d 1) ((unravel shape i).getD d 0) plus hx
    refine ⟨hj, hi, ?_, ?_⟩
    · by_cases hp : pbc.getD d false = true
      · simp only [hp, if_true] at hc ⊢; exact fun e => hc e.symm
      · simp only [hp] at hc ⊢
        simp only [Bool.false_eq_true, if_false] at hc ⊢
        rw [hjd]
        cases plus
        · simp only [keptByCut, Bool.false_eq_true, if_false, decide_eq_true_eq] at hc
          simp only [Bool.not_false, keptByCut, if_true, decide_eq_true_eq]
          rw [rollSrc_minus hx]; split <;> omega
        · simp only [keptByCut, if_true, decide_eq_true_eq] at hc
          simp only [Bool.not_true, keptByCut, Bool.false_eq_true, if_false, decide_eq_true_eq]
          rw [rollSrc_plus hx]; split <;> omega
    · rw [hjd, hback, hu]
      apply list_ext_getD (by simp [unravel_length])
      intro e
      by_cases he : e = d
      · subst he
        rw [getD_set_self (by simpa using hdi)]
      · rw [getD_set_ne he, getD_set_ne he]
  cases hb : axisShift shape pbc d plus i j
  · cases hb' : axisShift shape pbc d (!plus) j i
    · rfl
    · have := key (!plus) j i hb'
      simp only [Bool.not_not] at this
      rw [this] at hb; exact absurd hb (by simp)
  · exact (key plus i j hb).symm

/-- the adjacency matrix is the sum over the axes of `A(d, +1) + A(d, +1)ᵀ`, entrywise as Booleans -/
theorem C14_adjacency_from_plus_shifts (shape : List Nat) (pbc : List Bool) (i j : Nat) :
    gridAdj shape pbc i j =
      (List.range shape.length).any fun d => axisShift shape pbc d true i j || axisShift shape pbc d true j i := by
  rw [C14_adjacency_is_or_of_axis_shifts]
  apply Bool.eq_iff_iff.mpr
  simp only [List.any_eq_true, List.mem_range, Bool.or_eq_true]
  constructor
  · rintro ⟨d, hd, h | h⟩
    · refine ⟨d, hd, Or.inr ?_⟩
      rw [C14_axisShift_transpose shape pbc d true j i hd]; simpa using h
    · exact ⟨d, hd, Or.inl h⟩
  · rintro ⟨d, hd, h | h⟩
    · exact ⟨d, hd, Or.inr h⟩
    · refine ⟨d, hd, Or.inl ?_⟩
      rw [C14_axisShift_transpose shape pbc d false i j hd]; simpa using h

/-- non-vacuity: a 2 x 3 grid, periodic along axis 1 only -/
example : axisShiftCall [2, 3] [false, true] 1 1 =
    .ok [[0, 0, 1, 0, 0, 0], [1, 0, 0, 0, 0, 0], [0, 1, 0, 0, 0, 0], [0, 0, 0, 0, 0, 1], [0, 0, 0, 1, 0, 0], [0, 0, 0, 0, 1, 0]] := by
  decide +kernel
example : axisShiftCall [2, 3] [false, true] 0 (-1) =
    .ok [[0, 0, 0, 1, 0, 0], [0, 0, 0, 0, 1, 0], [0, 0, 0, 0, 0, 1], [0, 0, 0, 0, 0, 0], [0, 0, 0, 0, 0, 0], [0, 0, 0, 0, 0, 0]] := by
  decide +kernel
example : axisShiftCall [2, 3] [false, true] 0 2 = .error .valueError := by decide

end Qib.Lattice
