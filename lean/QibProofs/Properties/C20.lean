import QibProofs.Lemmas.VqeCluster
import QibProofs.Lemmas.VqePauli
import QibProofs.Lemmas.VqeNumber
/-!
C20 — VQE energies are true expectation values of a unitary ansatz.

Property theorems only; proofs are short uses of `Lemmas/VqeExpect.lean` (quadratic form, Rayleigh bounds through
Mathlib's spectral theorem), `Lemmas/VqeQucc.lean` (skew-adjoint exponentials, graded matrices, sectors),
`Lemmas/VqeBridge.lean` (executable arrays ↔ Mathlib), `Lemmas/VqeCluster.lean` (the executable cluster operator is
number balanced), `Lemmas/VqePauli.lean` (Pauli operators, C09 denotation) and `Lemmas/VqeNumber.lean` (`N = Σ a†a`).
The shape of the code that the model follows (conjugated factor / product order of the expectation, accepted settings,
operator kinds and order of the cluster terms, sign and conjugation of the exponent, `num_parameters`) is
`QibGen/VqeTables.lean`, regenerated from the source by `harness/translators/vqe.py` on every run; the bridging
facts over these tables (`cj_left`, `cj_right`, `adjPart_eq`, `genSign_toC`, `branches_balanced`, `C20_source_tables`)
are re-checked with the theorems. Two layers:

* **general statements** over ℂ for *all* state vectors `ψ : n → ℂ`, all matrices `P : Matrix n n ℂ` on an arbitrary
  finite index type `n`, all skew generators – these are the property itself;
* **model statements** about the definitions the driver `drv_algo` executes (`Qib.Vqe.expect`, `quccTerms`,
  `quccGenerator`, `numberOp` of `QibModel/Vqe.lean`, on Gaussian rationals) through the proved bridge
  `GQ.toC`, `vecC`, `Mat.toM`; the model is tied to the repaired code (`ψ†Pψ`, commit `cbb2ef1`; zero amplitudes and
  excitation-setting check, commits `9bcabf2`, `76a5098`) by the correspondence check on every run.

Notation: `ev ψ P = star ψ ⬝ᵥ P *ᵥ ψ` (the energy), `nrm ψ = star ψ ⬝ᵥ ψ` (squared norm), `wt L b` = number of occupied
sites of basis state `b`, `Graded w d M` = every non-zero entry of `M` raises the weight `w` by `d`,
`InSector w k ψ` = `ψ` is supported on basis states of weight `k`, `ansatzMat L Ts` = `∏ exp(T − Tᴴ)` over the cluster
matrices `Ts` (`scipy.linalg.expm` ↦ `NormedSpace.exp`).
-/
open Matrix Complex NormedSpace
open scoped ComplexConjugate

namespace Qib.Vqe
open Qib Qib.VqeLemmas

variable {n : Type*} [Fintype n]

/-! ### the energy is `ψ† P ψ` -/

/-- the energy in its three readings: Mathlib's `star ψ ⬝ᵥ P *ᵥ ψ`, the double sum `Σᵢⱼ conj ψᵢ · Pᵢⱼ · ψⱼ`
(conjugate on the *left* factor), and the code's order of evaluation `(ψ† P) ψ` -/
theorem C20_expect_def (ψ : n → ℂ) (P : Matrix n n ℂ) :
    ev ψ P = star ψ ⬝ᵥ P *ᵥ ψ ∧ ev ψ P = ∑ i, ∑ j, conj (ψ i) * P i j * ψ j ∧ ev ψ P = (star ψ ᵥ* P) ⬝ᵥ ψ :=
  ⟨rfl, ev_sum ψ P, ev_two_step ψ P⟩

/-- bridge: whenever the executable `expect` (mirror of `measure_expectation_statevector`) returns a value, that value
is `ψ† P ψ` of the embedded state and matrix; it also equals the executable double sum *exactly* (in ℚ[i]) -/
theorem C20_expect_model (ψ : Array GQ) (P : Mat) (v : GQ) (h : expect ψ P = .ok v) :
    v.toC = star (vecC ψ.size ψ) ⬝ᵥ (P.toM ψ.size) *ᵥ vecC ψ.size ψ ∧ v = expectSpec ψ P ∧
    P.n = ψ.size ∧ P.m = ψ.size := by
  obtain ⟨h1, h2, rfl⟩ := expect_ok ψ P v h
  have e1 := expectRaw_toC ψ.size ψ P rfl ⟨h1, h2⟩
  refine ⟨e1, ?_, h1, h2⟩
  apply GQ.toC_injective
  rw [e1, expectSpec_toC ψ.size ψ P rfl]

/-- the model refuses exactly what NumPy refuses: a state whose length is not the matrix dimension -/
theorem C20_expect_rejects (ψ : Array GQ) (P : Mat) :
    (∃ v, expect ψ P = .ok v) ↔ (P.n = ψ.size ∧ P.m = ψ.size) := by
  unfold expect
  constructor
  · rintro ⟨v, h⟩
    split at h
    · cases h
    · split at h
      · cases h
      · rename_i h1 h2; exact ⟨(not_not.mp h1).symm, not_not.mp h2⟩
  · rintro ⟨h1, h2⟩
    rw [if_neg (not_not.mpr h1.symm), if_neg (not_not.mpr h2)]
    exact ⟨_, rfl⟩

/-! ### real for Hermitian operators -/

theorem C20_expect_real_of_hermitian (ψ : n → ℂ) (P : Matrix n n ℂ) (hP : P.IsHermitian) :
    (ev ψ P).im = 0 ∧ ev ψ P = ((ev ψ P).re : ℂ) := by
  have h := ev_im_of_hermitian ψ hP
  exact ⟨h, Complex.ext rfl (by simp [h])⟩

/-- in general the conjugate energy is the energy of the adjoint operator -/
theorem C20_expect_conj (ψ : n → ℂ) (P : Matrix n n ℂ) : conj (ev ψ P) = ev ψ Pᴴ := ev_conj ψ P

/-- model instance: for a Hermitian matrix the executable result has imaginary part exactly `0 : ℚ` -/
theorem C20_expect_model_real (ψ : Array GQ) (P : Mat) (v : GQ) (h : expect ψ P = .ok v)
    (hP : (P.toM ψ.size).IsHermitian) : v.im = 0 := by
  have h1 := (C20_expect_model ψ P v h).1
  have h2 := ev_im_of_hermitian (vecC ψ.size ψ) hP
  rw [ev, ← h1, GQ.toC_im] at h2
  exact_mod_cast h2

/-! ### Pauli operators (the argument type of `measure_expectation_statevector`) -/

/-- model: for a `PauliOperator` given as (string, weight) list on `n` sites, the executable result is `ψ†Pψ` where
`P = Σ weight • (matrix of the string)` is the C09 denotation `PauliOp.mat` (bit-function indices; `bitsEquiv` is the
flat index with site 0 most significant); the state must have length `2^n` -/
theorem C20_expect_pauli_model (n : ℕ) (ψ : Array GQ) (op : Qib.Pauli.PauliOp Qib.Pauli.GQ)
    (h : ∀ e ∈ op, e.1.HasLen n) (v : GQ) (hv : expectPauli ψ op = .ok v) :
    ψ.size = 2 ^ n ∧
    v.toC = ev (vecC (2 ^ n) ψ ∘ bitsEquiv n) (Qib.Pauli.PauliOp.mat Qib.Pauli.GQ.toC n op) := by
  cases op with
  | nil => cases hv
  | cons e op =>
    obtain ⟨P, w⟩ := e
    have hn : P.z.length = n := (h (P, w) (List.mem_cons_self ..)).1
    simp only [expectPauli, hn] at hv
    obtain ⟨h1, h2, rfl⟩ := expect_ok ψ _ v hv
    have hs : ψ.size = 2 ^ n := h1.symm
    refine ⟨hs, ?_⟩
    rw [expectRaw_toC (2 ^ n) ψ _ hs (pauliMat_sq n _), toM_pauliMat n _ h, ev_reindex]

/-- the empty operator has no matrix (`as_matrix()` is the integer 0): the call fails, it does not return an energy -/
theorem C20_expect_pauli_empty (ψ : Array GQ) : expectPauli ψ [] = .error "AttributeError" := rfl

/-- model: if `PauliOperator.is_hermitian()` holds (every weighted string reports Hermitian) then the operator's
matrix is Hermitian and the executable energy has imaginary part exactly `0 : ℚ` -/
theorem C20_expect_pauli_real (n : ℕ) (ψ : Array GQ) (op : Qib.Pauli.PauliOp Qib.Pauli.GQ)
    (h : ∀ e ∈ op, e.1.HasLen n) (hh : Qib.Pauli.PauliOp.isHermitian op = true) (v : GQ)
    (hv : expectPauli ψ op = .ok v) :
    (Qib.Pauli.PauliOp.mat Qib.Pauli.GQ.toC n op).IsHermitian ∧ v.im = 0 := by
  have hH := op_hermitian n op hh
  refine ⟨hH, ?_⟩
  have h1 := (C20_expect_pauli_model n ψ op h v hv).2
  have h2 := ev_im_of_hermitian (vecC (2 ^ n) ψ ∘ bitsEquiv n) hH
  rw [← h1, GQ.toC_im] at h2
  exact_mod_cast h2

/-! ### invariant under a global phase -/

theorem C20_expect_phase_invariant (u : ℂ) (hu : ‖u‖ = 1) (ψ : n → ℂ) (P : Matrix n n ℂ) :
    ev (u • ψ) P = ev ψ P := by
  rw [ev_smul, Complex.conj_mul', hu]; simp

/-- for an arbitrary scalar the energy scales with `|u|²` -/
theorem C20_expect_scale (u : ℂ) (ψ : n → ℂ) (P : Matrix n n ℂ) :
    ev (u • ψ) P = ((‖u‖ ^ 2 : ℝ) : ℂ) * ev ψ P := by
  rw [ev_smul, Complex.conj_mul']; push_cast; rfl

/-! ### eigenvectors -/

/-- on a normalised eigenvector the energy is the eigenvalue (any complex eigenvalue, any matrix) -/
theorem C20_expect_eigen (ψ : n → ℂ) (P : Matrix n n ℂ) (ev0 : ℂ) (h : P *ᵥ ψ = ev0 • ψ) (hn : star ψ ⬝ᵥ ψ = 1) :
    ev ψ P = ev0 := by
  rw [ev_eigen ψ P ev0 h, nrm, hn, mul_one]

theorem C20_expect_eigen_unnormalised (ψ : n → ℂ) (P : Matrix n n ℂ) (ev0 : ℂ) (h : P *ᵥ ψ = ev0 • ψ) :
    ev ψ P = ev0 * (star ψ ⬝ᵥ ψ) := ev_eigen ψ P ev0 h

/-! ### Rayleigh bounds (Mathlib's spectral theorem) -/

section Rayleigh
variable [DecidableEq n] {A : Matrix n n ℂ}

/-- `ψ†Aψ ≥ m · ψ†ψ` for every `m` below all eigenvalues – elementary notion of eigenvalue (`A v = μ v`, `v ≠ 0`) -/
theorem C20_expect_ge_min (hA : A.IsHermitian) (ψ : n → ℂ) (hn : star ψ ⬝ᵥ ψ = 1) (m : ℝ)
    (hm : ∀ (μ : ℝ) (v : n → ℂ), v ≠ 0 → A *ᵥ v = (μ : ℂ) • v → m ≤ μ) : m ≤ (ev ψ A).re := by
  have := ev_ge_min hA ψ m hm
  rwa [nrm, hn, Complex.one_re, mul_one] at this

theorem C20_expect_le_max (hA : A.IsHermitian) (ψ : n → ℂ) (hn : star ψ ⬝ᵥ ψ = 1) (m : ℝ)
    (hm : ∀ (μ : ℝ) (v : n → ℂ), v ≠ 0 → A *ᵥ v = (μ : ℂ) • v → μ ≤ m) : (ev ψ A).re ≤ m := by
  have := ev_le_max hA ψ m hm
  rwa [nrm, hn, Complex.one_re, mul_one] at this

/-- the same with Mathlib's enumeration `hA.eigenvalues` of the spectrum: the energy of a normalised state lies
between the smallest and the largest eigenvalue -/
theorem C20_expect_in_spectral_range [Nonempty n] (hA : A.IsHermitian) (ψ : n → ℂ) (hn : star ψ ⬝ᵥ ψ = 1) :
    ∃ i j, hA.eigenvalues i ≤ (ev ψ A).re ∧ (ev ψ A).re ≤ hA.eigenvalues j := by
  obtain ⟨i, hi⟩ := Finite.exists_min hA.eigenvalues
  obtain ⟨j, hj⟩ := Finite.exists_max hA.eigenvalues
  refine ⟨i, j, ?_, ?_⟩
  · have := ev_ge_of_le_eigenvalues hA ψ _ hi
    rwa [nrm, hn, Complex.one_re, mul_one] at this
  · have := ev_le_of_eigenvalues_le hA ψ _ hj
    rwa [nrm, hn, Complex.one_re, mul_one] at this

/-- Mathlib's `eigenvalues` are eigenvalues in the elementary sense (so the two formulations agree) -/
theorem C20_eigenvalues_are_eigenvalues (hA : A.IsHermitian) (i : n) :
    ∃ v : n → ℂ, v ≠ 0 ∧ A *ᵥ v = ((hA.eigenvalues i : ℝ) : ℂ) • v := eigenvalues_spec hA i

/-- spectral decomposition of the energy: `ψ†Aψ = Σᵢ λᵢ |(U†ψ)ᵢ|²` with `Σᵢ |(U†ψ)ᵢ|² = ψ†ψ` -/
theorem C20_expect_spectral (hA : A.IsHermitian) (ψ : n → ℂ) :
    (ev ψ A).re = ∑ i, hA.eigenvalues i * Complex.normSq (coords hA ψ i) ∧
    ∑ i, Complex.normSq (coords hA ψ i) = (star ψ ⬝ᵥ ψ).re :=
  ⟨ev_re_spectral hA ψ, nrm_re_coords hA ψ⟩

end Rayleigh

/-! ### the ansatz: generator, unitarity -/

section Ansatz
variable [DecidableEq n]

/-- `(T − Tᴴ)ᴴ = −(T − Tᴴ)` for every matrix `T` (every parameter vector) -/
theorem C20_qucc_generator_skew (T : Matrix n n ℂ) : (T - Tᴴ)ᴴ = -(T - Tᴴ) := gen_skew T

/-- model: the executable generator `T_mat - T_mat.conjugate().T` embeds to `T − Tᴴ`, hence is skew-adjoint -/
theorem C20_qucc_generator_model (d : ℕ) (T : Mat) (hT : T.Sq d) :
    (quccGenerator T).toM d = T.toM d - (T.toM d)ᴴ ∧ ((quccGenerator T).toM d)ᴴ = -(quccGenerator T).toM d :=
  ⟨toM_quccGenerator d T hT, generator_skew d T hT⟩

/-- the exponential of a skew-adjoint matrix is unitary -/
theorem C20_qucc_unitary (G : Matrix n n ℂ) (hG : Gᴴ = -G) :
    (exp G)ᴴ * exp G = 1 ∧ exp G * (exp G)ᴴ = 1 ∧ exp G ∈ Matrix.unitaryGroup n ℂ :=
  ⟨exp_skew_conjTranspose_mul G hG, exp_skew_mul_conjTranspose G hG, exp_skew_mem_unitaryGroup G hG⟩

/-- `"s"` / `"d"`: `exp(T − Tᴴ)` is unitary for every `T` -/
theorem C20_qucc_unitary_single (T : Matrix n n ℂ) :
    (exp (T - Tᴴ))ᴴ * exp (T - Tᴴ) = 1 ∧ exp (T - Tᴴ) * (exp (T - Tᴴ))ᴴ = 1 :=
  ⟨exp_skew_conjTranspose_mul _ (gen_skew T), exp_skew_mul_conjTranspose _ (gen_skew T)⟩

/-- `"sd"`: the product `exp(T₁ − T₁ᴴ) · exp(T₂ − T₂ᴴ)` is unitary for every `T₁`, `T₂` -/
theorem C20_qucc_unitary_sd (T₁ T₂ : Matrix n n ℂ) :
    (exp (T₁ - T₁ᴴ) * exp (T₂ - T₂ᴴ))ᴴ * (exp (T₁ - T₁ᴴ) * exp (T₂ - T₂ᴴ)) = 1 ∧
    (exp (T₁ - T₁ᴴ) * exp (T₂ - T₂ᴴ)) * (exp (T₁ - T₁ᴴ) * exp (T₂ - T₂ᴴ))ᴴ = 1 :=
  ⟨unitary_mul_left (C20_qucc_unitary_single T₁).1 (C20_qucc_unitary_single T₂).1,
   unitary_mul_right (C20_qucc_unitary_single T₁).2 (C20_qucc_unitary_single T₂).2⟩

/-- a unitary keeps the norm of the state -/
theorem C20_unitary_preserves_norm (U : Matrix n n ℂ) (hU : Uᴴ * U = 1) (ψ : n → ℂ) :
    star (U *ᵥ ψ) ⬝ᵥ (U *ᵥ ψ) = star ψ ⬝ᵥ ψ := nrm_mulVec U hU ψ

/-! ### particle-number conservation -/

/-- `[N, T] = 0` for a Hermitian `N` ⇒ `[N, exp(T − Tᴴ)] = 0` (`Commute.exp_right`) -/
theorem C20_qucc_conserves_N (N T : Matrix n n ℂ) (hN : Nᴴ = N) (h : Commute N T) : Commute N (exp (T - Tᴴ)) := by
  apply commute_exp
  apply h.sub_right
  have := congrArg conjTranspose h.eq
  rw [conjTranspose_mul, conjTranspose_mul, hN] at this
  exact this.symm

/-- commuting with the diagonal number operator = having non-zero entries only between states of equal particle
number; such a matrix maps every particle sector into itself -/
theorem C20_commute_iff_graded (w : n → ℤ) (M : Matrix n n ℂ) :
    Commute (diagonal fun i => ((w i : ℤ) : ℂ)) M ↔ Graded w 0 M :=
  ⟨Graded.of_commute, Graded.commute⟩

theorem C20_sector_invariant (w : n → ℤ) (k : ℤ) (U : Matrix n n ℂ) (hU : Commute (diagonal fun i => ((w i : ℤ) : ℂ)) U)
    (ψ : n → ℂ) (hψ : (diagonal fun i => ((w i : ℤ) : ℂ)) *ᵥ ψ = ((k : ℤ) : ℂ) • ψ) :
    (diagonal fun i => ((w i : ℤ) : ℂ)) *ᵥ (U *ᵥ ψ) = ((k : ℤ) : ℂ) • (U *ᵥ ψ) := by
  rw [← inSector_iff_eigen] at hψ ⊢
  exact hψ.mulVec (Graded.of_commute hU)

end Ansatz

/-! ### the code's cluster operator (executable model) -/

/-- the number operator of the model is the diagonal matrix of the particle numbers `wt L b` -/
theorem C20_numberOp_model (L : ℕ) :
    (numberOp L).toM (2 ^ L) = diagonal fun b => ((wt L b : ℤ) : ℂ) := toM_numberOp L

/-- the model's `N` is the particle-number operator of the model's own Jordan–Wigner ladder matrices: `N = Σᵢ a†ᵢ aᵢ` -/
theorem C20_numberOp_is_sum (L : ℕ) :
    (numberOp L).toM (2 ^ L) = ∑ i : Fin L, (cre L i).toM (2 ^ L) * (ann L i).toM (2 ^ L) := numberOp_eq_sum L

/-- ladder matrices: `a†ᵢ` raises and `aᵢ = (a†ᵢ)ᴴ` lowers the particle number by exactly one (`i < L`) -/
theorem C20_ladder_graded (L i : ℕ) (hi : i < L) :
    Graded (wt L) 1 ((cre L i).toM (2 ^ L)) ∧ Graded (wt L) (-1) ((ann L i).toM (2 ^ L)) ∧
    (ann L i).toM (2 ^ L) = ((cre L i).toM (2 ^ L))ᴴ :=
  ⟨cre_graded L i hi, ann_graded L i hi, toM_ann L i⟩

/-- the tables regenerated from the current source say what the theorems below need: the constructor accepts exactly
`"s"`, `"d"`, `"sd"`; the cluster terms are `a†a` (`"s"`), `a†a†aa` (`"d"`) and both in this order (`"sd"`); the exponent is
`T_mat − conj(T_mat)ᵀ`; the expectation conjugates the left state factor only -/
theorem C20_source_tables :
    QibGen.Vqe.excSettings = ["s", "d", "sd"] ∧
    QibGen.Vqe.branches = [("s", [[true, false]]), ("d", [[true, true, false, false]]),
      ("sd", [[true, false], [true, true, false, false]])] ∧
    QibGen.Vqe.genAdjointSign = -1 ∧ QibGen.Vqe.genAdjointConj = true ∧
    QibGen.Vqe.expectConjLeft = true ∧ QibGen.Vqe.expectConjRight = false :=
  ⟨rfl, rfl, rfl, rfl, rfl, rfl⟩

/-- every excitation term of the cluster operator is number balanced: in every branch of `as_matrix` (generated table)
each term has as many creators as annihilators, and every operator string `fstring` of such a term (`a†ᵢ aⱼ`,
`a†ᵢ a†ⱼ aₖ aₗ`, all site indices `< L`) has grade 0, i.e. commutes with `N` -/
theorem C20_excitation_terms_balanced (L : ℕ) :
    (∀ b ∈ QibGen.Vqe.branches, ∀ k ∈ b.2, gradeOf k = 0) ∧
    (∀ (kinds : List Bool) (js : List ℕ), gradeOf kinds = 0 → js.length = kinds.length → (∀ j ∈ js, j < L) →
      Graded (wt L) 0 ((fstring L kinds js).toM (2 ^ L))) := by
  refine ⟨branches_balanced, fun kinds js h0 hlen hjs => ?_⟩
  have := (fstring_sq_graded L kinds js hlen hjs).2
  rwa [h0] at this

/-- a general field-operator term is graded by (#creators − #annihilators), for every coefficient array -/
theorem C20_term_graded (L : ℕ) (kinds : List Bool) (coeffs : Array GQ) :
    Graded (wt L) (gradeOf kinds) ((termMat L kinds coeffs).toM (2 ^ L)) := (termMat_sq_graded L kinds coeffs).2

/-- `as_matrix` returns a matrix exactly for a setting that has a branch and a parameter vector with one `(L,…,L)`
coefficient array per cluster term (`n²`, `n⁴`, `n² + n⁴` entries); it then exponentiates one generator per term -/
theorem C20_qucc_accepts (L : ℕ) (exc : String) (params : Array GQ) :
    ((∃ Ts, quccTerms L exc params = .ok Ts) ↔ ∃ kss, kindsOf exc = some kss ∧ params.size = paramCount L kss) ∧
    (∀ Ts, quccTerms L exc params = .ok Ts → ∃ kss, kindsOf exc = some kss ∧ Ts.length = kss.length) := by
  refine ⟨quccTerms_ok_iff L exc params, fun Ts h => ?_⟩
  obtain ⟨kss, hk, _, rfl⟩ := quccTerms_ok L exc params Ts h
  exact ⟨kss, hk, sliceTerms_length L kss params 0⟩

/-- the three settings in closed form, for every `L`: required lengths `L²`, `L⁴`, `L² + L⁴` -/
theorem C20_qucc_param_counts (L : ℕ) :
    (kindsOf "s").map (paramCount L) = some (L ^ 2) ∧ (kindsOf "d").map (paramCount L) = some (L ^ 4) ∧
    (kindsOf "sd").map (paramCount L) = some (L ^ 2 + L ^ 4) ∧
    numParameters L "s" = L ^ 2 ∧ numParameters L "d" = L ^ 4 ∧ numParameters L "sd" = L ^ 2 + L ^ 4 :=
  ⟨rfl, rfl, rfl, rfl, rfl, rfl⟩

/-- the constructor accepts exactly the settings listed in the source, and every accepted setting has a branch in
`as_matrix` (so `as_matrix` never falls through and returns `None`) -/
theorem C20_qucc_settings (s : String) :
    ((∃ e, parseExc s = .ok e) ↔ s ∈ QibGen.Vqe.excSettings) ∧
    (∀ t ∈ QibGen.Vqe.excSettings, (kindsOf t).isSome = true) := by
  refine ⟨?_, by decide⟩
  unfold parseExc
  constructor
  · rintro ⟨e, h⟩
    split at h
    · assumption
    · cases h
  · intro h
    rw [if_pos h]
    exact ⟨_, rfl⟩

/-- for every number of sites, every excitation setting and every parameter vector the cluster matrices built by the
model commute with the number operator -/
theorem C20_cluster_commutes_N (L : ℕ) (exc : String) (params : Array GQ) (Ts : List Mat)
    (h : quccTerms L exc params = .ok Ts) :
    ∀ T ∈ Ts, T.Sq (2 ^ L) ∧ Commute ((numberOp L).toM (2 ^ L)) (T.toM (2 ^ L)) ∧
      Commute ((numberOp L).toM (2 ^ L)) ((quccGenerator T).toM (2 ^ L)) := by
  intro T hT
  obtain ⟨hsq, hg⟩ := quccTerms_sq_graded L exc params Ts h T hT
  rw [toM_numberOp]
  exact ⟨hsq, hg.commute, (generator_graded L T hsq hg).commute⟩

/-- **the ansatz matrix of the model is unitary and conserves the particle number**, for every number of sites, every
excitation setting and every parameter vector -/
theorem C20_ansatz_unitary_conserves_N (L : ℕ) (exc : String) (params : Array GQ) (Ts : List Mat)
    (h : quccTerms L exc params = .ok Ts) :
    (ansatzMat L Ts)ᴴ * ansatzMat L Ts = 1 ∧ ansatzMat L Ts * (ansatzMat L Ts)ᴴ = 1 ∧
    Commute ((numberOp L).toM (2 ^ L)) (ansatzMat L Ts) := by
  obtain ⟨h1, h2, h3⟩ := ansatzMat_props L Ts (quccTerms_sq_graded L exc params Ts h)
  rw [toM_numberOp]
  exact ⟨h1, h2, h3.commute⟩

/-! ### composition: energies never undercut the lowest eigenvalue of the particle sector -/

/-- **Rayleigh bound inside a particle sector** (general form). `H` Hermitian and number conserving, `U` unitary and
number conserving, `ψ₀` normalised in the sector of weight `k`: the energy `(Uψ₀)† H (Uψ₀)` is real and is at least
every `m` that is below all eigenvalues of `H` possessing an eigenvector inside that sector. -/
theorem C20_energy_ge_sector_min [DecidableEq n] (w : n → ℤ) (k : ℤ) (H U : Matrix n n ℂ) (hH : H.IsHermitian)
    (hHN : Commute (diagonal fun i => ((w i : ℤ) : ℂ)) H) (hU : Uᴴ * U = 1)
    (hUN : Commute (diagonal fun i => ((w i : ℤ) : ℂ)) U)
    (ψ₀ : n → ℂ) (hn : star ψ₀ ⬝ᵥ ψ₀ = 1) (hs : InSector w k ψ₀) (m : ℝ)
    (hm : ∀ (μ : ℝ) (v : n → ℂ), v ≠ 0 → InSector w k v → H *ᵥ v = (μ : ℂ) • v → m ≤ μ) :
    m ≤ (ev (U *ᵥ ψ₀) H).re ∧ (ev (U *ᵥ ψ₀) H).im = 0 ∧ InSector w k (U *ᵥ ψ₀) ∧
    star (U *ᵥ ψ₀) ⬝ᵥ (U *ᵥ ψ₀) = 1 := by
  have hsec : InSector w k (U *ᵥ ψ₀) := hs.mulVec (Graded.of_commute hUN)
  have hnorm : nrm (U *ᵥ ψ₀) = 1 := by rw [nrm_mulVec U hU, nrm, hn]
  refine ⟨?_, ev_im_of_hermitian _ hH, hsec, hnorm⟩
  have := ev_ge_sector_min w k hH (Graded.of_commute hHN) hsec m hm
  rwa [hnorm, Complex.one_re, mul_one] at this

/-- **energies reported by the optimiser** (model form). Every energy the optimiser evaluates is
`energy = (U(params) ψ₀)† H (U(params) ψ₀)` with `U(params) = ansatzMat L (quccTerms L exc params)`. For every site
count, excitation setting and parameter vector of the right length, every Hermitian number-conserving `H` and every
normalised `ψ₀` in the `k`-particle sector: the energy is real and `≥ m` for each lower bound `m` of the eigenvalues
of `H` that have an eigenvector in the `k`-particle sector (in particular for the lowest such eigenvalue). -/
theorem C20_optimiser_energy_ge_sector_min (L : ℕ) (exc : String) (params : Array GQ) (Ts : List Mat)
    (h : quccTerms L exc params = .ok Ts) (k : ℤ) (H : Matrix (Fin (2 ^ L)) (Fin (2 ^ L)) ℂ) (hH : H.IsHermitian)
    (hHN : Commute ((numberOp L).toM (2 ^ L)) H) (ψ₀ : Fin (2 ^ L) → ℂ) (hn : star ψ₀ ⬝ᵥ ψ₀ = 1)
    (hs : InSector (wt L) k ψ₀) (m : ℝ)
    (hm : ∀ (μ : ℝ) (v : Fin (2 ^ L) → ℂ), v ≠ 0 → InSector (wt L) k v → H *ᵥ v = (μ : ℂ) • v → m ≤ μ) :
    m ≤ (ev (ansatzMat L Ts *ᵥ ψ₀) H).re ∧ (ev (ansatzMat L Ts *ᵥ ψ₀) H).im = 0 := by
  obtain ⟨h1, _, h3⟩ := C20_ansatz_unitary_conserves_N L exc params Ts h
  rw [toM_numberOp] at hHN h3
  have := C20_energy_ge_sector_min (wt L) k H (ansatzMat L Ts) hH hHN h1 h3 ψ₀ hn hs m hm
  exact ⟨this.1, this.2.1⟩

/-! ### non-vacuity -/

/-- the model evaluates `ψ†Zψ` on `ψ = (1, i)`: `1·1 + (−i)(−1)(i) = 0`, and on `ψ = (0, 2i)`: `−4` -/
example : expect #[⟨1, 0⟩, ⟨0, 1⟩] ⟨2, 2, #[1, 0, 0, ⟨-1, 0⟩]⟩ = .ok 0 := by decide +kernel
example : expect #[0, ⟨0, 2⟩] ⟨2, 2, #[1, 0, 0, ⟨-1, 0⟩]⟩ = .ok ⟨-4, 0⟩ := by decide +kernel
/-- the missing-conjugate variant `ψᵀPψ` would give `1 + i·(−1)·i = 2` on `(1, i)`: the conjugate matters -/
example : expectSpec #[⟨1, 0⟩, ⟨0, 1⟩] ⟨2, 2, #[1, 0, 0, ⟨-1, 0⟩]⟩ ≠ ⟨2, 0⟩ := by decide +kernel
/-- wrong state length is refused -/
example : expect #[1, 0, 0] ⟨2, 2, #[1, 0, 0, 1]⟩ = .error "ValueError" := by decide +kernel
/-- one site: `a†` is `|1⟩⟨0|`, two sites: the hopping generator `a†₀a₁ − a†₁a₀` is non-zero, skew and commutes with `N` -/
example : (cre 1 0).data = #[0, 0, 1, 0] := by decide +kernel
example : (quccTerms 1 "s" #[⟨1, 2⟩]).toOption.map (fun Ts => Ts.map fun T => (T.n, T.m, T.data)) =
    some [(2, 2, #[0, 0, 0, ⟨1, 2⟩])] := by decide +kernel
example : (quccTerms 2 "s" #[0, 1, 0, 0]).toOption.map (fun Ts => Ts.map fun T => (quccGenerator T).data) =
    some [#[0, 0, 0, 0, 0, 0, ⟨-1, 0⟩, 0, 0, 1, 0, 0, 0, 0, 0, 0]] := by decide +kernel
example : (quccTerms 2 "s" #[0, 1, 0, 0]).toOption.map (fun Ts => Ts.map fun T =>
    (isSkewAdjoint (quccGenerator T), commutesWithN 2 T, commutesWithN 2 (quccGenerator T))) =
    some [(true, true, true)] := by decide +kernel
example : (match quccTerms 2 "sd" #[0, 1, 0] with | .error e => e | .ok _ => "accepted") = "ValueError" := by decide +kernel
example : parseExc "ds" = .error "ValueError" ∧ parseExc "sd" = .ok "sd" := by decide +kernel
/-- the sector hypotheses are satisfiable: the basis state `|01⟩` lies in the one-particle sector of two sites -/
example : InSector (wt 2) 1 (fun b : Fin (2 ^ 2) => if b = 1 then (1 : ℂ) else 0) := by
  intro i hi
  have : i ≠ 1 := by
    intro h; subst h; exact hi (by decide +kernel)
  simp [this]

/-- the hypotheses of the sector bound are satisfiable and the bound is attained: for `H = N` (Hermitian, commutes with
itself) every eigenvector inside the `k`-particle sector has eigenvalue `k`, so `m = k` is admissible and the theorem
yields `k ≤ (Uψ₀)† N (Uψ₀)` for every parameter vector -/
example (L : ℕ) (exc : String) (params : Array GQ) (Ts : List Mat) (h : quccTerms L exc params = .ok Ts) (k : ℤ)
    (ψ₀ : Fin (2 ^ L) → ℂ) (hn : star ψ₀ ⬝ᵥ ψ₀ = 1) (hs : InSector (wt L) k ψ₀) :
    (k : ℝ) ≤ (ev (ansatzMat L Ts *ᵥ ψ₀) ((numberOp L).toM (2 ^ L))).re := by
  have hH : ((numberOp L).toM (2 ^ L)).IsHermitian := by
    rw [toM_numberOp]
    exact Matrix.isHermitian_diagonal_of_self_adjoint _ (by
      funext i; simp)
  refine (C20_optimiser_energy_ge_sector_min L exc params Ts h k _ hH (Commute.refl _) ψ₀ hn hs k ?_).1
  intro μ v hv0 hvs hv
  rw [toM_numberOp, (inSector_iff_eigen (wt L) k v).mp hvs] at hv
  obtain ⟨i, hi⟩ := Function.ne_iff.mp hv0
  have := congrFun hv i
  simp only [Pi.smul_apply, smul_eq_mul, Pi.zero_apply] at this hi
  have h2 : ((k : ℤ) : ℂ) = (μ : ℂ) := mul_right_cancel₀ hi this
  have h3 : ((k : ℝ) : ℂ) = (μ : ℂ) := by rw [← h2]; push_cast; rfl
  exact le_of_eq (by exact_mod_cast h3)

end Qib.Vqe
