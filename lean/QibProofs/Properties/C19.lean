import QibModel.Qubitization
import QibGen.GatesReal
import QibProofs.Lemmas.GateAlgebra
import Mathlib.Tactic.Ring
import Mathlib.Tactic.FieldSimp
import Mathlib.Tactic.Linarith
/-!
C19 — Qubitization circuits equal their defining phase-shift / alternating products (property theorems).
-/
open Matrix NormedSpace Complex QibGen Qib.GateAlgebra Qib.Qubitization

namespace Qib.C19

/-! ### the phase-shift matrix `exp(iθ(2P₀−1))` -/

section PhaseShift
variable {κ : Type} [Fintype κ] [DecidableEq κ]

/-- the reflection `2|0⟩⟨0| − 1` about the projection state `k0` -/
def refl (k0 : κ) : Matrix κ κ ℂ := Matrix.diagonal fun k => if k = k0 then 1 else -1

theorem refl_sq (k0 : κ) : refl k0 * refl k0 = 1 := by
  rw [refl, Matrix.diagonal_mul_diagonal]
  ext i j; by_cases h : i = j <;> by_cases h0 : i = k0 <;> simp [Matrix.diagonal, Matrix.one_apply, h, h0]

/-- `ProjectorControlledPhaseShift.as_matrix` = `expm(1j θ (2 P₀ − 1))` is the diagonal matrix with `e^{iθ}` on the
projection state and `e^{-iθ}` everywhere else -/
theorem C19_pcps_matrix_def (k0 : κ) (θ : ℝ) :
    exp ((I * (θ : ℂ)) • refl k0) = Matrix.diagonal fun k => if k = k0 then Complex.exp (I * θ) else Complex.exp (-(I * θ)) := by
  rw [Matrix.exp_smul_of_sq_eq_one (refl k0) (refl_sq k0)]
  have hc : Complex.cosh (I * (θ : ℂ)) = Complex.cos θ := by rw [mul_comm, Complex.cosh_mul_I]
  have hs : Complex.sinh (I * (θ : ℂ)) = Complex.sin θ * I := by rw [mul_comm, Complex.sinh_mul_I]
  have e1 : Complex.exp (I * θ) = Complex.cos θ + Complex.sin θ * I := by rw [mul_comm, Complex.exp_mul_I]
  have e2 : Complex.exp (-(I * θ)) = Complex.cos θ - Complex.sin θ * I := by
    have : -(I * (θ : ℂ)) = ((-θ : ℝ) : ℂ) * I := by push_cast; ring
    rw [this, Complex.exp_mul_I]; simp [Complex.cos_neg, Complex.sin_neg]; ring
  rw [hc, hs, e1, e2]
  ext i j
  by_cases h : i = j <;> by_cases h0 : i = k0 <;> simp [refl, Matrix.diagonal, Matrix.one_apply, h, h0] <;> ring

/-- `Rz(φ) = diag(e^{-iφ/2}, e^{iφ/2})` (generated definition) -/
theorem rz_diag (φ : ℝ) : RzGate.mat φ = !![Complex.exp (-(I * (φ / 2 : ℝ))), 0; 0, Complex.exp (I * (φ / 2 : ℝ))] := by
  simp only [RzGate.mat]
  have e : (((1 : ℝ) : ℂ) * I) * ((φ : ℝ) : ℂ) / (((2 : ℝ) : ℝ) : ℂ) = I * ((φ / 2 : ℝ) : ℂ) := by push_cast; ring
  rw [e]
  have hc : starRingEnd ℂ (Complex.exp (I * ((φ / 2 : ℝ) : ℂ))) = Complex.exp (-(I * ((φ / 2 : ℝ) : ℂ))) := by
    rw [← Complex.exp_conj]; congr 1; simp
  rw [hc]
  ext i j; fin_cases i <;> fin_cases j <;> simp

/-- **auxiliary method**: `MCX · (1 ⊗ Rz(2θ)) · MCX` on (encoding register) × (auxiliary qubit) is diagonal – so the
auxiliary qubit returns to the state it started in – and on the auxiliary-|0⟩ block it multiplies the projection
state by `e^{iθ}` and every other encoding state by `e^{-iθ}`: it acts as `exp(iθ(2P₀−1))` there. -/
theorem C19_pcps_auxiliary_correct (k0 : κ) (θ : ℝ) :
    blockOn k0 PauliXGate.mat * blocks (fun _ : κ => RzGate.mat (2 * θ)) * blockOn k0 PauliXGate.mat =
      blocks (fun k => if k = k0 then !![Complex.exp (I * θ), 0; 0, Complex.exp (-(I * θ))]
                        else !![Complex.exp (-(I * θ)), 0; 0, Complex.exp (I * θ)]) := by
  rw [blockOn_eq_blocks, blocks_mul, blocks_mul]
  congr 1; funext k
  rw [rz_diag]
  have e : ((2 * θ / 2 : ℝ) : ℂ) = (θ : ℂ) := by push_cast; ring
  rw [e]
  by_cases h : k = k0
  · simp only [h, if_true, PauliXGate.mat]
    ext i j; fin_cases i <;> fin_cases j <;> simp [Matrix.mul_apply, Fin.sum_univ_two]
  · simp only [h, if_false, Matrix.one_mul, Matrix.mul_one]

/-- corollary: the auxiliary-|0⟩ diagonal entries are exactly those of `exp(iθ(2P₀−1))` (`C19_pcps_matrix_def`) -/
theorem C19_pcps_auxiliary_block (k0 k : κ) (θ : ℝ) :
    (blockOn k0 PauliXGate.mat * blocks (fun _ : κ => RzGate.mat (2 * θ)) * blockOn k0 PauliXGate.mat) (k, 0) (k, 0) =
      (exp ((I * (θ : ℂ)) • refl k0)) k k ∧
    ∀ k', (blockOn k0 PauliXGate.mat * blocks (fun _ : κ => RzGate.mat (2 * θ)) * blockOn k0 PauliXGate.mat) (k, 0) (k', 1) = 0 := by
  rw [C19_pcps_auxiliary_correct, C19_pcps_matrix_def]
  constructor
  · by_cases h : k = k0 <;> simp [blocks, h]
  · intro k'; by_cases h : k = k0 <;> by_cases h' : k = k' <;> simp [blocks, h, h']

end PhaseShift

/-! ### c-phase method: the cascade of controlled `Rz` with the phase correction

Every gate of the c-phase circuit is diagonal. `gatePhase bits g` is the phase angle (the exponent `φ` of
`e^{iφ}`) that gate `g` contributes on the computational basis state `bits` (encoding qubit `i` ↦ `bits i`),
using `Rz(a) = diag(e^{-ia/2}, e^{ia/2})` (`rz_diag`) and "controlled on the first `nc` encoding qubits being 0". -/

/-- the first `n` encoding qubits are all 0 -/
def zerosBefore (bits : ℕ → Bool) (n : ℕ) : Prop := ∀ j < n, bits j = false

instance (bits : ℕ → Bool) (n : ℕ) : Decidable (zerosBefore bits n) := by unfold zerosBefore; infer_instance

noncomputable def gatePhase (bits : ℕ → Bool) : GateDesc ℝ → ℝ
  | .rz a t => if bits t then a / 2 else -(a / 2)
  | .crz a t nc => if zerosBefore bits nc then (if bits t then a / 2 else -(a / 2)) else 0
  | .phase φ _ => φ
  | .mcx _ => 0
  | .rzAux _ => 0

noncomputable def circuitPhase (bits : ℕ → Bool) (c : List (GateDesc ℝ)) : ℝ := (c.map (gatePhase bits)).sum

theorem pow2_eq (k : Nat) : (pow2 k : ℝ) = 2 ^ k := by
  induction k with
  | zero => simp [pow2]
  | succ k ih => simp [pow2, ih, pow_succ]; ring

/-- **c-phase method**, for every number `m+1 ≥ 1` of encoding qubits and every angle: the circuit multiplies the
projection state `|0…0⟩` by `e^{iθ}` and every other basis state by `e^{-iθ}`, i.e. it is `exp(iθ(2P₀−1))`
(compare `C19_pcps_matrix_def`). -/
theorem C19_pcps_cphase_correct (θ : ℝ) (m : Nat) (bits : ℕ → Bool) :
    circuitPhase bits (cphaseCircuit θ (m + 1)) = if zerosBefore bits (m + 1) then θ else -θ := by
  sorry

/-! ### eigenvalue transformation -/

section EVT
variable {M : Type} [Monoid M]

/-- **the code's even/odd split and pairing loop compute the defining alternating product, for every length** -/
theorem C19_evt_eq_spec (P : ℝ → M) (U Ui : M) (θs : List ℝ) :
    evtCode P U Ui θs = evtSpec P U Ui θs := by
  sorry

/-- number of phase-shift factors and of encoding factors in the defining product -/
def evtFactors : List ℝ → List (ℝ × Bool)
  | [] => []
  | a :: rest => (a, rest.length % 2 = 0) :: evtFactors rest

/-- the defining product applies the encoding (or its inverse) exactly `len θs` times, uses every angle exactly once
and in order, and ends with the encoding itself -/
theorem C19_evt_uses_every_angle (θs : List ℝ) :
    (evtFactors θs).map Prod.fst = θs ∧ (evtFactors θs).length = θs.length ∧
    (∀ a, (evtFactors θs).getLast? = some a → a.2 = true) := by
  sorry

theorem C19_evtSpec_factors (P : ℝ → M) (U Ui : M) (θs : List ℝ) :
    evtSpec P U Ui θs = ((evtFactors θs).map fun p => P p.1 * (if p.2 then U else Ui)).prod := by
  sorry

end EVT

/-- non-vacuity: three angles give `P a U · P b U† · P c U` -/
example (P : ℝ → ℕ) : evtCode P 2 3 [0, 1, 2] = 1 * P 0 * 2 * P 1 * 3 * P 2 * 2 := by
  simp [evtCode, evtPairs]

end Qib.C19
