import QibModel.Qubitization
import QibProofs.Lemmas.GateBridge
import QibProofs.Lemmas.GateAlgebra
import QibProofs.Lemmas.QubitizationAct
import QibProofs.Lemmas.QubitizationEvt
import QibProofs.Lemmas.QubitizationMat
import QibProofs.Lemmas.QubitizationBridge
import Mathlib.Tactic.Ring
import Mathlib.Tactic.FieldSimp
import Mathlib.Tactic.Linarith
import Mathlib.LinearAlgebra.Matrix.Kronecker
/-!
C19 — Qubitization circuits equal their defining phase-shift / alternating products (property theorems).

Model: `QibModel/Qubitization.lean` (executed by `drv_qubitization`, tied to the code by `harness/props/c19.py`):
`Pcps.asCircuit` (gate lists of both constructions), `pcpsMatrixDiag`, `GateDesc.act`/`circuitAct` (what the emitted gates
do to basis states), `evtMatrix`/`evtCircuit` (the loops of `EigenvalueTransformation`), `evtSpec` (the defining product).
-/
open Matrix NormedSpace Complex QibGen QibRef Qib.GateAlgebra Qib.Qubitization Qib.Embed

namespace Qib.C19

/-! ### the phase-shift matrix `exp(iθ(2P₀−1))` -/

section PhaseShift
variable {κ : Type} [Fintype κ] [DecidableEq κ]

/-- **`ProjectorControlledPhaseShift.as_matrix`** `= expm(1j θ (2 P₀ − 1))` is the diagonal matrix with `e^{iθ}` on the
projection state(s) and `e^{-iθ}` everywhere else — for every angle and every index type (every number of qubits) -/
theorem C19_pcps_matrix_def (p : κ → Prop) [DecidablePred p] (θ : ℝ) :
    exp ((I * (θ : ℂ)) • reflOn p) = Matrix.diagonal fun k => if p k then Complex.exp (I * θ) else Complex.exp (-(I * θ)) := by
  rw [Matrix.exp_smul_of_sq_eq_one (reflOn p) (reflOn_sq p)]
  have hc : Complex.cosh (I * (θ : ℂ)) = Complex.cos θ := by rw [mul_comm, Complex.cosh_mul_I]
  have hs : Complex.sinh (I * (θ : ℂ)) = Complex.sin θ * I := by rw [mul_comm, Complex.sinh_mul_I]
  have e1 : Complex.exp (I * θ) = Complex.cos θ + Complex.sin θ * I := by rw [mul_comm, Complex.exp_mul_I]
  have e2 : Complex.exp (-(I * θ)) = Complex.cos θ - Complex.sin θ * I := by
    have : -(I * (θ : ℂ)) = ((-θ : ℝ) : ℂ) * I := by push_cast; ring
    rw [this, Complex.exp_mul_I]; simp [Complex.cos_neg, Complex.sin_neg]; ring
  rw [hc, hs, e1, e2]
  ext i j
  by_cases h : i = j <;> by_cases h0 : p j <;> (simp [reflOn, Matrix.diagonal, h, h0]; try ring)

/-- what the executable model of `as_matrix` answers: it accepts exactly the non-empty all-zero projection states and marks
basis state `0 = |0…0⟩` (and no other) as the one carrying `e^{+iθ}` — i.e. `p = (· = 0)` in `C19_pcps_matrix_def` -/
theorem C19_pcps_matrix_model (proj : List Int) (d : List Bool) (h : pcpsMatrixDiag proj = .ok d) :
    proj = List.replicate proj.length 0 ∧ proj ≠ [] ∧ d.length = 2 ^ proj.length ∧
      ∀ k, k < 2 ^ proj.length → d[k]? = some (k == 0) := by
  unfold pcpsMatrixDiag at h
  split_ifs at h with h1 h2
  have hz := all_zero_of_not_any h1
  have hne : proj ≠ [] := by intro h'; simp [h'] at h2
  have hb : binaryIndex proj = 0 := by
    rw [hz]; generalize proj.length = n
    unfold binaryIndex
    induction n with
    | zero => rfl
    | succ n ih => rw [List.replicate_succ, List.foldl_cons]; simpa using ih
  cases h
  refine ⟨hz, hne, by simp, ?_⟩
  intro k hk
  simp [hk, hb]

end PhaseShift

/-! ### both constructions of the phase-shift circuit, on computational basis states

`circuitAct c bits = (bits', φ)` says: the circuit `c` maps the basis state `bits` (qubit label ↦ bit) to `e^{iφ}|bits'⟩`
(`QibProofs/Lemmas/QubitizationMat.lean` turns this into matrices and relates the single gates to the generated closed
forms `RzGate.mat`, `PauliXGate.mat`, `PhaseFactorGate.mat` and to the controlled-gate / embedding combinators of C02/C04). -/

/-- **auxiliary method** (multi-controlled-X / Rz(2θ) / multi-controlled-X), every number of encoding qubits, every angle,
every placement with the auxiliary qubit different from the encoding qubits: whatever `as_circuit` returns maps every basis
state to itself (so the auxiliary qubit returns to where it started), and with the auxiliary qubit in `|0⟩` the phase is
`e^{iθ}` on `|0…0⟩` of the encoding qubits and `e^{-iθ}` on every other state: it acts as `exp(iθ(2P₀−1))` there. -/
theorem C19_pcps_auxiliary_correct (p : Pcps ℝ) (c : List (GateDesc ℝ)) (hm : p.method = .auxiliary) (h : p.asCircuit = .ok c)
    (hdisj : ∀ a ∈ p.aux.head?, a ∉ p.enc) (bits : ℕ → Bool) :
    ∃ a, p.aux.head? = some a ∧
      circuitAct c bits = (bits, if (bits a = false ↔ AllZero bits p.enc) then p.theta else -p.theta) ∧
      (bits a = false → circuitAct c bits = (bits, if AllZero bits p.enc then p.theta else -p.theta)) := by
  obtain ⟨hz, hcase⟩ := asCircuit_ok h
  rcases hcase with ⟨_, a, rest, ha, rfl⟩ | ⟨hm', _⟩
  · have hd : a ∉ p.enc := hdisj a (by simp [ha])
    have key := auxCircuit_act p.theta p.enc a hd bits
    rw [← hz] at key
    refine ⟨a, by simp [ha], key, ?_⟩
    intro hb
    rw [key]; simp [hb]
  · rw [hm] at hm'; cases hm'

/-- **c-phase method** (Rz on the first encoding qubit, cascade of controlled-Rz with halving denominators, phase
correction), every number `m ≥ 1` of encoding qubits, every angle, every placement: whatever `as_circuit` returns maps every
basis state to itself with phase `e^{iθ}` on `|0…0⟩` of the encoding qubits and `e^{-iθ}` on every other state, i.e. it is
`exp(iθ(2P₀−1))` (compare `C19_pcps_matrix_def`). -/
theorem C19_pcps_cphase_correct (p : Pcps ℝ) (c : List (GateDesc ℝ)) (hm : p.method = .cphase) (h : p.asCircuit = .ok c)
    (bits : ℕ → Bool) :
    circuitAct c bits = (bits, if AllZero bits p.enc then p.theta else -p.theta) := by
  obtain ⟨hz, hcase⟩ := asCircuit_ok h
  rcases hcase with ⟨hm', _⟩ | ⟨_, e0, rest, he, rfl⟩
  · rw [hm] at hm'; cases hm'
  · have key := cphaseCircuit_act p.theta p.enc bits e0 rest he
    rw [← hz] at key
    exact key

/-- the constructions are total on the property's domain: an all-zero projection state of the right length, `m ≥ 1`
encoding qubits and (for the auxiliary method) an auxiliary qubit are never refused -/
theorem C19_pcps_asCircuit_accepts (θ : ℝ) (e0 : ℕ) (rest : List ℕ) (a : ℕ) (auxrest : List ℕ) :
    (∃ c, (⟨θ, List.replicate (e0 :: rest).length 0, e0 :: rest, a :: auxrest, .auxiliary⟩ : Pcps ℝ).asCircuit = .ok c ∧ c.length = 3) ∧
    (∃ c, (⟨θ, List.replicate (e0 :: rest).length 0, e0 :: rest, [], .cphase⟩ : Pcps ℝ).asCircuit = .ok c ∧
      c.length = (e0 :: rest).length + 1) := by
  have hany : ¬ (List.replicate (e0 :: rest).length (0 : Int)).any (· != 0) = true := by
    simp [List.any_replicate]
  constructor
  · refine ⟨auxCircuit θ (List.replicate (e0 :: rest).length 0) (e0 :: rest) a, ?_, by simp [auxCircuit]⟩
    unfold Pcps.asCircuit
    rw [if_neg (by simp), if_neg hany]
  · refine ⟨cphaseCircuit θ (List.replicate (e0 :: rest).length 0) (e0 :: rest) e0, ?_, by simp [cphaseCircuit]⟩
    unfold Pcps.asCircuit
    rw [if_neg (by simp), if_neg hany]

/-! ### both constructions as matrices on an `n`-wire register

Register index = bit function `Fin n → Bool`, qubit label `k` = wire `k` (labels outside the register read 0);
`gateMat n g` = matrix of the basis-state action of the emitted gate `g`, `circuitMat n c` = the product `gₖ ⋯ g₂ g₁`
formed by `Circuit.as_matrix` (`C05_circuitMat_eq_prod`). -/

/-- **c-phase method, matrix form**: on every register the circuit's matrix IS `exp(iθ(2P₀−1))`, `P₀` the projector onto
"all encoding qubits read 0" (`|0…0⟩⟨0…0| ⊗ 1` on the other wires) — every `m ≥ 1`, every angle, every placement -/
theorem C19_pcps_cphase_matrix (p : Pcps ℝ) (c : List (GateDesc ℝ)) (hm : p.method = .cphase) (h : p.asCircuit = .ok c) (n : ℕ) :
    circuitMat n c = exp ((I * (p.theta : ℂ)) • reflOn (EncZero n p.enc)) := by
  have hdiag : ∀ g ∈ c, g.TargetLt n := by
    obtain ⟨_, hcase⟩ := asCircuit_ok h
    rcases hcase with ⟨hm', _⟩ | ⟨_, e0, rest, _, rfl⟩
    · rw [hm] at hm'; cases hm'
    · exact fun g hg => (cphaseCircuit_isDiag _ _ _ _ g hg).targetLt n
  rw [circuitMat_eq_actMat n c hdiag, C19_pcps_matrix_def]
  have : circuitAct c = fun bits => (bits, if AllZero bits p.enc then p.theta else -p.theta) :=
    funext fun bits => C19_pcps_cphase_correct p c hm h bits
  rw [this, actMat_diag]
  congr 1; funext R
  exact exp_I_mul_ite _ _

/-- **auxiliary method, matrix form**: on every register containing the auxiliary qubit `a` (different from the encoding
qubits) the circuit's matrix is diagonal — no amplitude ever leaves the auxiliary-`|0⟩` block, the auxiliary qubit returns
to `|0⟩` — and restricted to that block (`wireZero n a` = projector onto "wire `a` reads 0") it is `exp(iθ(2P₀−1))`,
which itself does not touch the auxiliary wire -/
theorem C19_pcps_auxiliary_matrix (p : Pcps ℝ) (c : List (GateDesc ℝ)) (hm : p.method = .auxiliary) (h : p.asCircuit = .ok c)
    (a : ℕ) (ha : p.aux.head? = some a) (hdisj : a ∉ p.enc) (n : ℕ) (han : a < n) :
    circuitMat n c = Matrix.diagonal (fun R => if (ext n R a = false ↔ EncZero n p.enc R) then Complex.exp (I * p.theta)
        else Complex.exp (-(I * p.theta))) ∧
    circuitMat n c * wireZero n a = exp ((I * (p.theta : ℂ)) • reflOn (EncZero n p.enc)) * wireZero n a ∧
    exp ((I * (p.theta : ℂ)) • reflOn (EncZero n p.enc)) * wireZero n a
      = wireZero n a * exp ((I * (p.theta : ℂ)) • reflOn (EncZero n p.enc)) := by
  obtain ⟨a', ha', hact, _⟩ := C19_pcps_auxiliary_correct p c hm h (fun x hx => by
    rw [ha] at hx; cases hx; exact hdisj) (fun _ => false)
  have haa : a' = a := by rw [ha] at ha'; cases ha'; rfl
  subst haa
  have htl : ∀ g ∈ c, g.TargetLt n := by
    obtain ⟨_, hcase⟩ := asCircuit_ok h
    rcases hcase with ⟨_, a'', rest, ha'', rfl⟩ | ⟨hm', _⟩
    · have : a'' = a' := by rw [ha''] at ha; cases ha; rfl
      subst this
      exact auxCircuit_targetLt _ _ _ han
    · rw [hm] at hm'; cases hm'
  have hall : circuitAct c = fun bits => (bits, if (bits a' = false ↔ AllZero bits p.enc) then p.theta else -p.theta) := by
    funext bits
    obtain ⟨a'', ha'', hact', _⟩ := C19_pcps_auxiliary_correct p c hm h (fun x hx => by
      rw [ha] at hx; cases hx; exact hdisj) bits
    have : a'' = a' := by rw [ha] at ha''; cases ha''; rfl
    subst this; exact hact'
  have hmat : circuitMat n c = Matrix.diagonal (fun R => if (ext n R a' = false ↔ EncZero n p.enc R) then Complex.exp (I * p.theta)
        else Complex.exp (-(I * p.theta))) := by
    rw [circuitMat_eq_actMat n c htl, hall, actMat_diag]
    congr 1; funext R
    exact exp_I_mul_ite _ _
  refine ⟨hmat, ?_, ?_⟩
  · rw [hmat, C19_pcps_matrix_def, wireZero, Matrix.diagonal_mul_diagonal, Matrix.diagonal_mul_diagonal]
    congr 1; funext R
    by_cases hb : ext n R a' = false
    · simp [hb]
    · simp [hb]
  · rw [C19_pcps_matrix_def]; exact commute_wireZero_of_diag n a' _

/-- **canonical placement = `np.kron(processing.as_matrix(), id)`**: with the `m` encoding qubits on the leading wires of an
`m+s`-wire register, the phase shift `exp(iθ(2P₀−1))` of the two theorems above is the Kronecker product of
`as_matrix()` (`C19_pcps_matrix_def` with `p = (· = |0…0⟩)`) with the identity on the remaining `s` wires — the factor that
`EigenvalueTransformation.as_matrix` multiplies with (first Kronecker factor = leading wires, C04's `embed_leading`) -/
theorem C19_phase_shift_kron (m s : ℕ) (θ : ℝ) :
    exp ((I * (θ : ℂ)) • reflOn (EncZero (m + s) (List.range m)))
      = Matrix.reindex (Fin.appendEquiv m s) (Fin.appendEquiv m s)
          (Matrix.kroneckerMap (· * ·) (exp ((I * (θ : ℂ)) • reflOn (fun r : Fin m → Bool => r = fun _ => false)))
            (1 : Matrix (Fin s → Bool) (Fin s → Bool) ℂ)) := by
  rw [C19_pcps_matrix_def, C19_pcps_matrix_def]
  ext R C
  obtain ⟨⟨r1, r2⟩, rfl⟩ := (Fin.appendEquiv m s).surjective R
  obtain ⟨⟨c1, c2⟩, rfl⟩ := (Fin.appendEquiv m s).surjective C
  have happ : ∀ (x : Fin m → Bool) (y : Fin s → Bool), (Fin.appendEquiv m s) (x, y) = Fin.append x y := fun _ _ => rfl
  have hz : EncZero (m + s) (List.range m) (Fin.appendEquiv m s (r1, r2)) ↔ r1 = fun _ => false := by
    simp only [EncZero, AllZero, List.mem_range, happ]
    constructor
    · intro h; funext j
      have := h j.1 j.2
      rw [ext_apply_lt _ (by omega : j.1 < m + s)] at this
      have e : (⟨j.1, by omega⟩ : Fin (m + s)) = Fin.castAdd s j := rfl
      rwa [e, Fin.append_left] at this
    · rintro rfl e he
      rw [ext_apply_lt _ (by omega : e < m + s)]
      have e' : (⟨e, by omega⟩ : Fin (m + s)) = Fin.castAdd s ⟨e, he⟩ := rfl
      rw [e', Fin.append_left]
  simp only [Matrix.reindex_apply, Matrix.submatrix_apply, Equiv.symm_apply_apply, Matrix.kroneckerMap_apply,
    Matrix.diagonal_apply, Matrix.one_apply, (Fin.appendEquiv m s).apply_eq_iff_eq, Prod.mk.injEq]
  by_cases h1 : r1 = c1
  · subst h1
    by_cases h2 : r2 = c2
    · subst h2
      by_cases h0 : r1 = fun _ => false
      · rw [if_pos (hz.mpr h0), if_pos h0]; simp
      · have : ¬ EncZero (m + s) (List.range m) (Fin.appendEquiv m s (r1, r2)) := fun h => h0 (hz.mp h)
        rw [if_neg this, if_neg h0]; simp
    · simp [h2]
  · simp [h1]

/-! ### eigenvalue transformation -/

section EVT
variable {M : Type} [Monoid M]

/-- **the code's even/odd split, loop bounds and index arithmetic compute the defining alternating product, for every
length** (odd and even); the empty and the missing angle list are refused with `ValueError` -/
theorem C19_evt_eq_spec (P : ℝ → M) (U Ui : M) (θs : List ℝ) :
    evtMatrix P U Ui (some θs) = if θs = [] then .error .valueError else .ok (evtSpec P U Ui θs) := by
  match θs with
  | [] => simp [evtMatrix]
  | a0 :: rest =>
    simp only [evtMatrix, reduceCtorEq, if_false]
    split_ifs with hpar
    · -- even length
      have hk : (a0 :: rest).length = 2 * ((a0 :: rest).length / 2) := by omega
      have := evtLoop_spec P U Ui 0 ((a0 :: rest).length / 2) (a0 :: rest) [] 0 1 hk (by simp) (by omega)
      simpa using this
    · -- odd length
      have hlen : (a0 :: rest).length - 1 = rest.length := by simp
      have hk : rest.length = 2 * (((a0 :: rest).length - 1) / 2) := by
        rw [hlen]; simp only [List.length_cons] at hpar; omega
      have := evtLoop_spec P U Ui 1 (((a0 :: rest).length - 1) / 2) rest [a0] 1 (1 * P a0 * U) hk (by simp) (by omega)
      have hpar' : rest.length % 2 = 0 := by simp only [List.length_cons] at hpar; omega
      simpa [evtSpec, hpar', mul_assoc] using this

theorem C19_evt_none (P : ℝ → M) (U Ui : M) : evtMatrix P U Ui none = .error .valueError := rfl

/-- the defining product written out: one factor `P θₖ · Vₖ` per angle, `Vₖ` alternating and the last one the encoding -/
theorem C19_evtSpec_eq_prod (P : ℝ → M) (U Ui : M) (θs : List ℝ) :
    evtSpec P U Ui θs = ((List.range θs.length).map fun k =>
      P (θs.getD k 0) * (if (θs.length - 1 - k) % 2 = 0 then U else Ui)).prod := by
  induction θs with
  | nil => simp [evtSpec]
  | cons a rest ih =>
    rw [evtSpec, ih, List.length_cons, List.range_succ_eq_map, List.map_cons, List.prod_cons, List.map_map]
    have h0 : (a :: rest).getD 0 0 = a := rfl
    have e0 : (rest.length + 1 - 1 - 0) = rest.length := by omega
    rw [h0, e0]
    congr 2
    apply List.map_congr_left
    intro k hk
    have e : rest.length + 1 - 1 - (k + 1) = rest.length - 1 - k := by omega
    simp only [Function.comp, Nat.succ_eq_add_one, e, List.getD_cons_succ]

/-- **every angle is used, the encoding is applied exactly `len(angles)` times**: run in the free monoid (no relations
between phase shifts and encodings) the code's loop returns a word that lists every angle exactly once and in order,
contains exactly `len θs` encoding letters, ends with the encoding itself, and from which every concrete result of
`as_matrix` is obtained by substituting matrices for letters. In particular the word — hence the matrix, as a function of
what is substituted — depends on every single angle (`C19_evt_word_injective`). -/
theorem C19_evt_uses_every_angle (θs : List ℝ) (hne : θs ≠ []) :
    evtMatrix (fun a => FreeMonoid.of (Sum.inl a : Letter)) (FreeMonoid.of (Sum.inr true)) (FreeMonoid.of (Sum.inr false)) (some θs)
        = .ok (evtWord θs) ∧
    (evtWord θs).toList.filterMap Sum.getLeft? = θs ∧
    ((evtWord θs).toList.filter Sum.isRight).length = θs.length ∧
    (evtWord θs).toList.getLast? = some (Sum.inr true) ∧
    ∀ (P : ℝ → M) (U Ui : M), evtMatrix P U Ui (some θs)
        = .ok (FreeMonoid.lift (Sum.elim P fun b => if b then U else Ui) (evtWord θs)) := by
  refine ⟨by rw [C19_evt_eq_spec, if_neg hne]; rfl, ?_, ?_, ?_, ?_⟩
  · clear hne
    induction θs with
    | nil => simp [evtWord, evtSpec]
    | cons a rest ih =>
      rw [evtWord_cons, List.filterMap_cons_some (by rfl : Sum.getLeft? (Sum.inl a : Letter) = some a),
        List.filterMap_cons_none (by rfl), ih]
  · clear hne
    induction θs with
    | nil => simp [evtWord, evtSpec]
    | cons a rest ih =>
      rw [evtWord_cons, List.filter_cons_of_neg (by simp), List.filter_cons_of_pos (by simp), List.length_cons, ih, List.length_cons]
  · induction θs with
    | nil => exact absurd rfl hne
    | cons a rest ih =>
      rw [evtWord_cons]
      by_cases hr : rest = []
      · subst hr; simp [evtWord, evtSpec]
      · have := ih hr
        have e : (Sum.inl a : Letter) :: Sum.inr (decide (rest.length % 2 = 0)) :: (evtWord rest).toList
            = [Sum.inl a, Sum.inr (decide (rest.length % 2 = 0))] ++ (evtWord rest).toList := rfl
        rw [e, List.getLast?_append, this]; rfl
  · intro P U Ui
    rw [C19_evt_eq_spec, if_neg hne]
    congr 1
    clear hne
    induction θs with
    | nil => simp [evtWord, evtSpec]
    | cons a rest ih =>
      unfold evtWord at ih ⊢
      rw [evtSpec, evtSpec, map_mul, map_mul, ← ih]
      by_cases h : rest.length % 2 = 0 <;> simp [h]

/-- different angle sequences give different words: changing, dropping or adding any single angle changes the product -/
theorem C19_evt_word_injective (θs θs' : List ℝ) (h : evtWord θs = evtWord θs') : θs = θs' := by
  have key : ∀ l : List ℝ, (evtWord l).toList.filterMap Sum.getLeft? = l := by
    intro l
    induction l with
    | nil => simp [evtWord, evtSpec]
    | cons a rest ih =>
      rw [evtWord_cons, List.filterMap_cons_some (by rfl : Sum.getLeft? (Sum.inl a : Letter) = some a),
        List.filterMap_cons_none (by rfl), ih]
  rw [← key θs, ← key θs', h]

/-- **`as_circuit` runs the same alternating product as `as_matrix`**: for every interpretation `den` of the circuit's entries
in a monoid (first gate applied first, i.e. `Circuit.as_matrix`'s fold, C05), the circuit built by the prepend loop denotes
the defining product with `P θ` := denotation of the processing circuit for `θ`, `U` := `den enc`, `U⁻¹` := `den encInv`. -/
theorem C19_evt_circuit_eq_spec (pc : Pcps ℝ) (encAux : List ℕ) (θs : List ℝ) (items : List (EvtItem ℝ)) (den : EvtItem ℝ → M)
    (h : evtCircuit pc encAux (some θs) = .ok items) :
    circuitDen den items = evtSpec (subDen pc den) (den .enc) (den .encInv) θs := by
  unfold evtCircuit at h
  split_ifs at h with hq
  match θs, h with
  | a0 :: rest, h =>
    simp only at h
    split_ifs at h with hpar
    · have hk : (a0 :: rest).length = 2 * ((a0 :: rest).length / 2) := by omega
      have := evtCircuitLoop_spec pc den ((a0 :: rest).length / 2) (a0 :: rest) [] 0 0 [] items hk (by simp) (by omega)
        (by simpa using h)
      simpa [circuitDen_nil] using this
    · cases h0 : evtPrepend pc a0 .enc [] with
      | error e => simp [h0] at h
      | ok c0 =>
        simp only [h0] at h
        have hlen : (a0 :: rest).length - 1 = rest.length := by simp
        have hk : rest.length = 2 * (((a0 :: rest).length - 1) / 2) := by
          rw [hlen]; simp only [List.length_cons] at hpar; omega
        have := evtCircuitLoop_spec pc den (((a0 :: rest).length - 1) / 2) rest [a0] 1 1 c0 items hk (by simp) (by omega)
          (by simpa using h)
        have hpar' : rest.length % 2 = 0 := by simp only [List.length_cons] at hpar; omega
        rw [this, evtPrepend_den pc den h0, circuitDen_nil, evtSpec, if_pos hpar']
        simp [mul_assoc]

/-- what `as_circuit` refuses: differing encoding qubits (`RuntimeError`, checked first), no angles (`ValueError`) -/
theorem C19_evt_circuit_rejects (pc : Pcps ℝ) (encAux : List ℕ) :
    (encAux ≠ pc.enc → ∀ θs, evtCircuit pc encAux θs = .error .runtimeError) ∧
    evtCircuit pc pc.enc none = .error .valueError ∧ evtCircuit pc pc.enc (some []) = .error .valueError := by
  refine ⟨fun h θs => by simp [evtCircuit, h], by simp [evtCircuit], by simp [evtCircuit]⟩

/-- **the circuit's matrix on the auxiliary-`|0⟩` block is the eigenvalue-transformation matrix.**
Abstractly: let `p` be the projector onto "auxiliary qubit = `|0⟩`" (any element of the monoid), let every processing circuit
act on the range of `p` like the phase shift (`C θ * p = P θ * p`, which is `C19_pcps_auxiliary_correct` resp.
`C19_pcps_cphase_correct`), and let the phase shifts and the encoding not touch the auxiliary qubit (they commute with `p`).
Then the whole circuit, restricted to the auxiliary-`|0⟩` block, is the alternating product of the phase shifts and the
encoding — the value of `as_matrix` (`C19_evt_eq_spec`) — for every number of angles. -/
theorem C19_evt_circuit_block (pc : Pcps ℝ) (encAux : List ℕ) (θs : List ℝ) (items : List (EvtItem ℝ)) (den : EvtItem ℝ → M)
    (h : evtCircuit pc encAux (some θs) = .ok items) (p : M) (P : ℝ → M)
    (hC : ∀ θ, subDen pc den θ * p = P θ * p) (hP : ∀ θ, P θ * p = p * P θ)
    (hU : den .enc * p = p * den .enc) (hUi : den .encInv * p = p * den .encInv) :
    circuitDen den items * p = evtSpec P (den .enc) (den .encInv) θs * p ∧
    evtMatrix P (den .enc) (den .encInv) (some θs) = .ok (evtSpec P (den .enc) (den .encInv) θs) := by
  have hne : θs ≠ [] := by
    intro h0; subst h0
    unfold evtCircuit at h
    split_ifs at h
  refine ⟨?_, by rw [C19_evt_eq_spec, if_neg hne]⟩
  rw [C19_evt_circuit_eq_spec pc encAux θs items den h]
  clear h hne
  -- the defining product commutes with `p`, and the two products agree in front of `p`
  have hcomm : ∀ l : List ℝ, evtSpec P (den .enc) (den .encInv) l * p = p * evtSpec P (den .enc) (den .encInv) l := by
    intro l
    induction l with
    | nil => simp [evtSpec]
    | cons a rest ih =>
      rw [evtSpec]
      have hV : (if rest.length % 2 = 0 then den .enc else den .encInv) * p
          = p * (if rest.length % 2 = 0 then den .enc else den .encInv) := by split_ifs <;> assumption
      calc P a * (if rest.length % 2 = 0 then den .enc else den .encInv) * evtSpec P (den .enc) (den .encInv) rest * p
          = P a * (if rest.length % 2 = 0 then den .enc else den .encInv) * (evtSpec P (den .enc) (den .encInv) rest * p) := by
            simp only [mul_assoc]
        _ = P a * ((if rest.length % 2 = 0 then den .enc else den .encInv) * p) * evtSpec P (den .enc) (den .encInv) rest := by
            rw [ih]; simp only [mul_assoc]
        _ = (P a * p) * (if rest.length % 2 = 0 then den .enc else den .encInv) * evtSpec P (den .enc) (den .encInv) rest := by
            rw [hV]; simp only [mul_assoc]
        _ = p * (P a * (if rest.length % 2 = 0 then den .enc else den .encInv) * evtSpec P (den .enc) (den .encInv) rest) := by
            rw [hP]; simp only [mul_assoc]
  induction θs with
  | nil => simp [evtSpec]
  | cons a rest ih =>
    rw [evtSpec, evtSpec]
    have hV : (if rest.length % 2 = 0 then den .enc else den .encInv) * p
        = p * (if rest.length % 2 = 0 then den .enc else den .encInv) := by split_ifs <;> assumption
    calc subDen pc den a * (if rest.length % 2 = 0 then den .enc else den .encInv) * evtSpec (subDen pc den) (den .enc) (den .encInv) rest * p
        = subDen pc den a * (if rest.length % 2 = 0 then den .enc else den .encInv) * (evtSpec (subDen pc den) (den .enc) (den .encInv) rest * p) := by
          simp only [mul_assoc]
      _ = subDen pc den a * ((if rest.length % 2 = 0 then den .enc else den .encInv) * p) * evtSpec P (den .enc) (den .encInv) rest := by
          rw [ih, hcomm rest]; simp only [mul_assoc]
      _ = (subDen pc den a * p) * (if rest.length % 2 = 0 then den .enc else den .encInv) * evtSpec P (den .enc) (den .encInv) rest := by
          rw [hV]; simp only [mul_assoc]
      _ = P a * (p * (if rest.length % 2 = 0 then den .enc else den .encInv)) * evtSpec P (den .enc) (den .encInv) rest := by
          rw [hC]; simp only [mul_assoc]
      _ = P a * (if rest.length % 2 = 0 then den .enc else den .encInv) * (p * evtSpec P (den .enc) (den .encInv) rest) := by
          rw [← hV]; simp only [mul_assoc]
      _ = P a * (if rest.length % 2 = 0 then den .enc else den .encInv) * evtSpec P (den .enc) (den .encInv) rest * p := by
          rw [← hcomm rest]; simp only [mul_assoc]

end EVT

/-! ### the eigenvalue-transformation circuit as a matrix on an `n`-wire register -/

/-- **c-phase processing: the circuit's matrix IS the eigenvalue-transformation matrix**, on every register, for every
angle sequence and arbitrary matrices `U`, `Ui` standing for the block encoding and its `inverse()`:
`Circuit.as_matrix` of `as_circuit()` = the alternating product of `exp(iθₖ(2P₀−1))` with `U`/`Ui` = `as_matrix()`
(`C19_evt_eq_spec` with `P θ = exp(iθ(2P₀−1))`). -/
theorem C19_evt_circuit_matrix_cphase (pc : Pcps ℝ) (encAux : List ℕ) (θs : List ℝ) (items : List (EvtItem ℝ))
    (hm : pc.method = .cphase) (h : evtCircuit pc encAux (some θs) = .ok items) (n : ℕ)
    (U Ui : Matrix (Fin n → Bool) (Fin n → Bool) ℂ) :
    circuitDen (evtDen n U Ui) items = evtSpec (fun θ : ℝ => exp ((I * (θ : ℂ)) • reflOn (EncZero n pc.enc))) U Ui θs ∧
    evtMatrix (fun θ : ℝ => exp ((I * (θ : ℂ)) • reflOn (EncZero n pc.enc))) U Ui (some θs) = .ok (circuitDen (evtDen n U Ui) items) := by
  obtain ⟨θ0, c0, h0⟩ := evtCircuit_ok_asCircuit h
  have hsub : ∀ θ, subDen pc (evtDen n U Ui) θ = exp ((I * (θ : ℂ)) • reflOn (EncZero n pc.enc)) := by
    intro θ
    rw [subDen_evtDen]
    exact C19_pcps_cphase_matrix (pc.setTheta θ) (pcGates pc θ) hm (pcGates_ok h0 θ) n
  have key := C19_evt_circuit_block pc encAux θs items (evtDen n U Ui) h 1
    (fun θ : ℝ => exp ((I * (θ : ℂ)) • reflOn (EncZero n pc.enc))) (fun θ => by rw [hsub]) (fun θ => by simp) (by simp) (by simp)
  simp only [mul_one] at key
  have k2 := key.2
  rw [← key.1] at k2
  exact ⟨key.1, k2⟩

/-- **auxiliary processing: the circuit's matrix on the auxiliary-`|0⟩` block is the eigenvalue-transformation matrix**, on
every register containing the auxiliary qubit `a` (not an encoding qubit), for every angle sequence and all matrices `U`, `Ui`
(block encoding and its `inverse()`) that do not touch the auxiliary wire: with `Π₀ = wireZero n a`,
`circuit · Π₀ = (alternating product of exp(iθₖ(2P₀−1)) with U/Ui) · Π₀ = as_matrix() · Π₀`. -/
theorem C19_evt_circuit_matrix_auxiliary (pc : Pcps ℝ) (encAux : List ℕ) (θs : List ℝ) (items : List (EvtItem ℝ))
    (hm : pc.method = .auxiliary) (h : evtCircuit pc encAux (some θs) = .ok items)
    (a : ℕ) (ha : pc.aux.head? = some a) (hdisj : a ∉ pc.enc) (n : ℕ) (han : a < n)
    (U Ui : Matrix (Fin n → Bool) (Fin n → Bool) ℂ)
    (hU : U * wireZero n a = wireZero n a * U) (hUi : Ui * wireZero n a = wireZero n a * Ui) :
    circuitDen (evtDen n U Ui) items * wireZero n a
      = evtSpec (fun θ : ℝ => exp ((I * (θ : ℂ)) • reflOn (EncZero n pc.enc))) U Ui θs * wireZero n a ∧
    evtMatrix (fun θ : ℝ => exp ((I * (θ : ℂ)) • reflOn (EncZero n pc.enc))) U Ui (some θs)
      = .ok (evtSpec (fun θ : ℝ => exp ((I * (θ : ℂ)) • reflOn (EncZero n pc.enc))) U Ui θs) := by
  obtain ⟨θ0, c0, h0⟩ := evtCircuit_ok_asCircuit h
  have hp := fun θ => C19_pcps_auxiliary_matrix (pc.setTheta θ) (pcGates pc θ) hm (pcGates_ok h0 θ) a ha hdisj n han
  exact C19_evt_circuit_block pc encAux θs items (evtDen n U Ui) h (wireZero n a)
    (fun θ : ℝ => exp ((I * (θ : ℂ)) • reflOn (EncZero n pc.enc)))
    (fun θ => by rw [subDen_evtDen]; exact (hp θ).2.1) (fun θ => (hp θ).2.2) hU hUi

/-! ### the emitted gates' actions are those of the generated closed forms -/

/-- the same with the block encoding as `as_circuit_matrix` places it: matrices `u`, `ui` on the block encoding's own `k` wires
(its auxiliary = the processing gate's encoding qubits, then the encoded system), embedded by `iw` (Core B, C04) on wires that
do not include the processing gate's auxiliary wire `a` — such a gate never touches wire `a` -/
theorem C19_evt_circuit_matrix_auxiliary_embedded (pc : Pcps ℝ) (encAux : List ℕ) (θs : List ℝ) (items : List (EvtItem ℝ))
    (hm : pc.method = .auxiliary) (h : evtCircuit pc encAux (some θs) = .ok items)
    (a : ℕ) (ha : pc.aux.head? = some a) (hdisj : a ∉ pc.enc) (n : ℕ) (han : a < n)
    {k : ℕ} (iw : Fin k ↪ Fin n) (hiw : ∀ j, (iw j).1 ≠ a) (u ui : Matrix (Fin k → Bool) (Fin k → Bool) ℂ) :
    circuitDen (evtDen n (embed iw u) (embed iw ui)) items * wireZero n a
      = evtSpec (fun θ : ℝ => exp ((I * (θ : ℂ)) • reflOn (EncZero n pc.enc))) (embed iw u) (embed iw ui) θs * wireZero n a :=
  (C19_evt_circuit_matrix_auxiliary pc encAux θs items hm h a ha hdisj n han (embed iw u) (embed iw ui)
    (embed_commute_wireZero iw u a hiw) (embed_commute_wireZero iw ui a hiw)).1

/-- `Rz(a)`, `X` and the phase factor gate (definitions regenerated from `gates.py`): `Rz(a)` multiplies `|b⟩` by
`e^{i·rzPhase a b}` (`rzPhase` is what `GateDesc.act` uses), `X` flips the bit, the phase factor gate is the scalar `e^{iφ}` -/
theorem C19_leaf_actions_generated (a φ : ℝ) (k : ℕ) :
    RzGate.mat a = !![Complex.exp (I * (rzPhase a false : ℝ)), 0; 0, Complex.exp (I * (rzPhase a true : ℝ))] ∧
    PauliXGate.mat = !![0, 1; 1, 0] ∧ PhaseFactorGate.mat φ k = Complex.exp (I * φ) • 1 :=
  ⟨rz_generated a, x_generated, phase_generated φ k⟩

/-! ### the matrices of the emitted gates are what the gate classes compute (Core A / Core B)

`gateMat n g` was defined through the basis-state action of `g`. For every placement `iw` of the gate's wires in the
register it is the wire embedding `embed iw` (`_distribute_to_wires`, C04) of the controlled-gate combinator `ctrlGate`
(= `blockOn`, i.e. `ControlledGate.as_matrix`, C02; controls first, all controlled on 0) applied to the closed form
regenerated from `gates.py`. -/

/-- the multi-controlled X of the auxiliary construction -/
theorem C19_gate_cx_matrix {n k : ℕ} (iw : Fin (k + 1) ↪ Fin n) :
    gateMat n (.cx (ctrlLabels iw) (List.replicate k 0) (tgtLabel iw)) = embed iw (ctrlGate k PauliXGate.mat) := by
  have hl : (ctrlLabels iw).length = k := by simp [ctrlLabels]
  have := act_cx (ctrlLabels iw) (tgtLabel iw)
  rw [hl] at this
  rw [gateMat, this, actMat_ctrlAct, monoMat_flip]

/-- the controlled Rz gates of the c-phase cascade -/
theorem C19_gate_crz_matrix {n k : ℕ} (a : ℝ) (iw : Fin (k + 1) ↪ Fin n) :
    gateMat n (.crz a (ctrlLabels iw) (List.replicate k 0) (tgtLabel iw)) = embed iw (ctrlGate k (RzGate.mat a)) := by
  have hl : (ctrlLabels iw).length = k := by simp [ctrlLabels]
  have := act_crz a (ctrlLabels iw) (tgtLabel iw)
  rw [hl] at this
  rw [gateMat, this, actMat_ctrlAct, monoMat_rz]

/-- the plain Rz gates (first gate of the cascade, middle gate of the auxiliary construction): with no controls
`ctrlGate 0 U` is `U` itself on the single wire -/
theorem C19_gate_rz_matrix {n : ℕ} (a : ℝ) (iw : Fin 1 ↪ Fin n) :
    gateMat n (.rz a (iw 0).1) = embed iw (ctrlGate 0 (RzGate.mat a)) ∧
    ∀ r c : Fin 1 → Bool, ctrlGate 0 (RzGate.mat a) r c = RzGate.mat a (b2f (r 0)) (b2f (c 0)) := by
  constructor
  · have h1 : ctrlLabels iw = [] := by simp [ctrlLabels]
    have h2 : tgtLabel iw = (iw 0).1 := rfl
    rw [gateMat, act_rz, ← h1, ← h2, actMat_ctrlAct, monoMat_rz]
  · intro r c
    have e1 : Fin.init r = fun _ : Fin 0 => false := Subsingleton.elim _ _
    have e2 : Fin.init c = fun _ : Fin 0 => false := Subsingleton.elim _ _
    simp [ctrlGate, splitCT, blockOn, e1, e2]

/-- the phase correction: a scalar matrix on the register, whatever wires it is bound to, as `PhaseFactorGate.as_matrix` -/
theorem C19_gate_phase_matrix {n m : ℕ} (φ : ℝ) (k : ℕ) (qs : List ℕ) (iw : Fin m ↪ Fin n) :
    gateMat n (.phase φ k qs) = Complex.exp (I * φ) • 1 ∧
    gateMat n (.phase φ k qs) = embed iw (Complex.exp (I * φ) • (1 : Matrix (Fin m → Bool) (Fin m → Bool) ℂ)) ∧
    PhaseFactorGate.mat φ k = Complex.exp (I * φ) • 1 := by
  have h : gateMat n (.phase φ k qs) = Complex.exp (I * φ) • 1 := by
    have : (GateDesc.phase φ k qs : GateDesc ℝ).act = fun b => (b, φ) := by funext b; simp [GateDesc.act]
    rw [gateMat, this, actMat_diag]
    ext R C
    by_cases hrc : R = C <;> simp [Matrix.diagonal, hrc]
  exact ⟨h, by rw [h, embed_smul, embed_one], phase_generated φ k⟩

/-- the three theorems above cover every gate that `as_circuit` emits for well-formed input: distinct control and target
labels inside the register always are the image of a wire placement `iw` -/
theorem C19_gate_placement_exists (n : ℕ) (cs : List ℕ) (t : ℕ) (hnd : (cs ++ [t]).Nodup) (hlt : ∀ e ∈ cs ++ [t], e < n) :
    ∃ iw : Fin (cs.length + 1) ↪ Fin n, ctrlLabels iw = cs ∧ tgtLabel iw = t :=
  placement_exists n cs t hnd hlt

/-! ### what the constructor refuses -/

/-- `ProjectorControlledPhaseShift.__init__`: a projection state with an entry outside {0,1} is a `ValueError` (checked
first), an unknown method a `RuntimeError`; the c-phase method forgets the auxiliary qubits -/
theorem C19_pcps_init (θ : ℝ) (proj : List Int) (enc aux : List ℕ) (method : String) :
    (proj.any (fun s => s != 0 && s != 1) = true → Pcps.init θ proj enc aux method = .error .valueError) ∧
    (proj.any (fun s => s != 0 && s != 1) = false →
      Pcps.init θ proj enc aux method =
        if method = "auxiliary" then .ok ⟨θ, proj, enc, aux, .auxiliary⟩
        else if method = "c-phase" then .ok ⟨θ, proj, enc, [], .cphase⟩ else .error .runtimeError) := by
  constructor
  · intro h; simp [Pcps.init, h]
  · intro h; simp [Pcps.init, h]

/-! ### non-vacuity -/

/-- three angles give `P a U · P b U⁻¹ · P c U` (the repaired odd-length loop; the unrepaired code returned `P a U`) -/
example (P : ℝ → FreeMonoid ℕ) (U Ui : FreeMonoid ℕ) :
    evtMatrix P U Ui (some [0, 1, 2]) = .ok (1 * P 0 * U * P 1 * Ui * P 2 * U) := by
  simp [evtMatrix, evtLoop, evtBody]

/-- two encoding qubits 5, 7, c-phase: the circuit has 3 gates and the state `|00⟩` collects `θ` -/
example : ∃ c, (⟨0.5, [0, 0], [5, 7], [], .cphase⟩ : Pcps ℝ).asCircuit = .ok c ∧ c.length = 3 ∧
    circuitAct c (fun _ => false) = (fun _ => false, 0.5) := by
  obtain ⟨⟨_, _⟩, ⟨c, hc, hl⟩⟩ := C19_pcps_asCircuit_accepts 0.5 5 [7] 0 []
  refine ⟨c, hc, by simpa using hl, ?_⟩
  rw [C19_pcps_cphase_correct _ c rfl hc]
  simp [AllZero]

/-- auxiliary method with auxiliary qubit 0 and encoding qubits 1, 2: hypotheses of `C19_pcps_auxiliary_correct` hold -/
example : ∃ c, (⟨0.5, [0, 0], [1, 2], [0], .auxiliary⟩ : Pcps ℝ).asCircuit = .ok c ∧
    (∀ a ∈ ([0] : List ℕ).head?, a ∉ ([1, 2] : List ℕ)) := by
  obtain ⟨⟨c, hc, _⟩, _⟩ := C19_pcps_asCircuit_accepts 0.5 1 [2] 0 []
  exact ⟨c, hc, by simp⟩

/-- hypotheses of `C19_evt_circuit_matrix_auxiliary` are satisfiable: auxiliary qubit 0, encoding qubit 1, three angles, a 3-wire
register and the identity for the encoding (which certainly does not touch wire 0) -/
example : ∃ items, evtCircuit (⟨0, [0], [1], [0], .auxiliary⟩ : Pcps ℝ) [1] (some [0.1, 0.2, 0.3]) = .ok items ∧ items.length = 12 ∧
    (1 : Matrix (Fin 3 → Bool) (Fin 3 → Bool) ℂ) * wireZero 3 0 = wireZero 3 0 * 1 := by
  refine ⟨_, by simp [evtCircuit, evtCircuitLoop, evtCircuitBody, evtPrepend, Pcps.asCircuit, Pcps.setTheta, auxCircuit]; rfl, ?_, by simp⟩
  simp

/-- a placement for `C19_gate_crz_matrix`: controls on wires 2, 0 and target on wire 1 of a 3-wire register -/
example : ∃ iw : Fin 3 ↪ Fin 3, ctrlLabels iw = [2, 0] ∧ tgtLabel iw = 1 :=
  C19_gate_placement_exists 3 [2, 0] 1 (by decide) (by decide)

/-! ### The same statements about the forms regenerated from the CURRENT source

`QibSrc.K.mat` / `QibSrc.K.inv` are regenerated from `src/qib/operator/gates.py` on every run; `QibBridge` proves on every run that they are
equal to the reference forms `QibRef.K.mat` / `QibRef.K.inv` used above (by a tactic that is independent of how the source spells the
closed form), so every theorem above is a theorem about what the code says now. -/

theorem C19_source_agrees : QibBridge.SrcAgrees := QibBridge.srcAgrees

end Qib.C19
