import QibModel.BackendSched
import QibProofs.Properties.C17
/-!
C17, the "schedules" part of its quantifier: all interleavings of client calls - several `wait_for_results()` coroutines on one
experiment suspended in `asyncio.sleep`, resumed in any order, mixed with `query_status()` / `results()` calls.
Property theorems only (model: `QibModel/BackendSched.lean`; sequential theorems: `C17.lean`).
-/
namespace Qib.Backend
open QibGen

/-- one resumption of a waiting coroutine in a terminal world: no request, world unchanged, and it finishes -/
theorem C17_sched_resume_terminal (maxR : Nat) (w : World) (h : Status.isTerminal w.exp.status = true) :
    waitLoopStep maxR w = (.finished (.res (if w.exp.status = .DONE then w.exp.results else none)), w) := by
  have hni : w.exp.status ≠ .INITIALIZING := by
    intro hh; rw [hh] at h; exact absurd h (by decide)
  have hq : queryStatus maxR w = (.ret w.exp.status, w) := by simp [queryStatus, hni, h]
  simp [waitLoopStep, hq, h]

theorem C17_sched_spawn_terminal (maxR : Nat) (w : World) (h : Status.isTerminal w.exp.status = true) :
    (waitStart maxR w).2 = w := by
  unfold waitStart
  split
  · rfl
  · rw [C17_sched_resume_terminal maxR w h]

/-- **terminal statuses are absorbing under every action of every schedule**: no request is made and the world is unchanged -/
theorem C17_sched_terminal_absorbing (maxR : Nat) (s : Sys) (h : Status.isTerminal s.world.exp.status = true) (a : Act) :
    (stepAct maxR s a).2.world = s.world := by
  cases a with
  | spawn => simp only [stepAct]; exact C17_sched_spawn_terminal maxR s.world h
  | resume i =>
    simp only [stepAct]
    split
    · simp only; rw [C17_sched_resume_terminal maxR s.world h]
    · rfl
  | call c => simp only [stepAct]; exact C17_terminal_absorbing maxR s.world h c

/-- once terminal, for every schedule: status and request count never change again (the server is never contacted) -/
theorem C17_sched_history_absorbing (maxR : Nat) (s : Sys) (h : Status.isTerminal s.world.exp.status = true) (as : List Act) :
    ∀ e ∈ runSched maxR s as, e.2.1 = s.world.exp.status ∧ e.2.2 = s.world.requests := by
  induction as generalizing s with
  | nil => simp [runSched]
  | cons a as ih =>
    intro e he
    simp only [runSched, List.mem_cons] at he
    have hw := C17_sched_terminal_absorbing maxR s h a
    rcases he with rfl | he
    · simp [hw]
    · have h' : Status.isTerminal (stepAct maxR s a).2.world.exp.status = true := by rw [hw]; exact h
      have := ih (stepAct maxR s a).2 h' e he
      rw [hw] at this; exact this

/-- `Inv` (results are stored whenever the status is DONE) is preserved by a resumption … -/
theorem waitLoopStep_inv (maxR : Nat) (w : World) (h : Inv w) : Inv (waitLoopStep maxR w).2 := by
  have hq := queryStatus_inv maxR w h
  unfold waitLoopStep
  split
  · rename_i st w' heq; rw [heq] at hq; split <;> exact hq
  · rename_i e w' heq; rw [heq] at hq; exact hq
  · rename_i w' heq; rw [heq] at hq; exact hq

theorem waitStart_inv (maxR : Nat) (w : World) (h : Inv w) : Inv (waitStart maxR w).2 := by
  unfold waitStart; split
  · exact h
  · exact waitLoopStep_inv maxR w h

/-- … and by every action of every schedule -/
theorem C17_sched_inv_step (maxR : Nat) (s : Sys) (h : Inv s.world) (a : Act) : Inv (stepAct maxR s a).2.world := by
  cases a with
  | spawn => simp only [stepAct]; exact waitStart_inv maxR s.world h
  | resume i =>
    simp only [stepAct]; split
    · exact waitLoopStep_inv maxR s.world h
    · exact h
  | call c => simp only [stepAct]; exact C17_inv_step maxR s.world h c

theorem C17_sched_inv (maxR : Nat) (s : Sys) (h : Inv s.world) (as : List Act) : Inv (afterSched maxR s as).world := by
  induction as generalizing s with
  | nil => exact h
  | cons a as ih => exact ih _ (C17_sched_inv_step maxR s h a)

/-- a coroutine that returns at a resumption returns in a TERMINAL world, and returns the stored server results exactly when that
status is DONE, `None` otherwise -/
theorem C17_sched_resume_result (maxR : Nat) (w w' : World) (hinv : Inv w) (r : Option Nat)
    (h : waitLoopStep maxR w = (.finished (.res r), w')) :
    Status.isTerminal w'.exp.status = true ∧ (r.isSome = true ↔ w'.exp.status = .DONE) ∧
      r = (if w'.exp.status = .DONE then w'.exp.results else none) := by
  have hinv' : Inv w' := by have := waitLoopStep_inv maxR w hinv; rw [h] at this; exact this
  have hst : ∀ st w'', queryStatus maxR w = (.ret st, w'') → st = w''.exp.status := by
    intro st w'' hq
    unfold queryStatus at hq
    split at hq
    · simp at hq
    · split at hq
      · simp only [Prod.mk.injEq, PyRes.ret.injEq] at hq; obtain ⟨rfl, rfl⟩ := hq; rfl
      · split at hq
        · simp only [Prod.mk.injEq, PyRes.ret.injEq] at hq; obtain ⟨rfl, rfl⟩ := hq; rfl
        · simp at hq
        · simp at hq
  unfold waitLoopStep at h
  split at h
  · rename_i st w'' heq
    have := hst st w'' heq
    split at h
    · rename_i hterm
      simp only [Prod.mk.injEq, WState.finished.injEq, CallOut.res.injEq] at h
      obtain ⟨rfl, rfl⟩ := h
      refine ⟨by rw [← this]; exact hterm, ?_, rfl⟩
      by_cases hd : w''.exp.status = .DONE
      · simp [hd, hinv' hd]
      · simp [hd]
    · simp at h
  · simp at h
  · simp at h

/-- the same for the first activation (including the cached-results shortcut) -/
theorem C17_sched_spawn_result (maxR : Nat) (w w' : World) (hinv : Inv w) (r : Option Nat)
    (h : waitStart maxR w = (.finished (.res r), w')) :
    Status.isTerminal w'.exp.status = true ∧ (r.isSome = true ↔ w'.exp.status = .DONE) ∧
      r = (if w'.exp.status = .DONE then w'.exp.results else none) := by
  unfold waitStart at h
  split at h
  · rename_i hc
    simp only [Prod.mk.injEq, WState.finished.injEq, CallOut.res.injEq] at h
    obtain ⟨rfl, rfl⟩ := h
    exact ⟨by rw [hc.2]; decide, by simp [hc.1, hc.2], by simp [hc.2]⟩
  · exact C17_sched_resume_result maxR w w' hinv r h

/-- **results iff DONE, for every schedule**: whenever any action of any schedule makes a coroutine return `r`, the status at that
moment is terminal - hence, by `C17_sched_history_absorbing`, it is the FINAL status whatever the rest of the schedule does -
and `r` is the stored server result exactly when that status is DONE, `None` otherwise -/
theorem C17_sched_waiter_result (maxR : Nat) (s : Sys) (hinv : Inv s.world) (a : Act) (r : Option Nat)
    (h : (stepAct maxR s a).1 = .waiter (.finished (.res r))) :
    let w' := (stepAct maxR s a).2.world
    Status.isTerminal w'.exp.status = true ∧ (r.isSome = true ↔ w'.exp.status = .DONE) ∧
      r = (if w'.exp.status = .DONE then w'.exp.results else none) := by
  cases a with
  | spawn =>
    have h1 : (waitStart maxR s.world).1 = .finished (.res r) := by
      simpa [stepAct] using h
    have h2 : waitStart maxR s.world = (.finished (.res r), (waitStart maxR s.world).2) := by
      rw [← h1]
    have := C17_sched_spawn_result maxR s.world _ hinv r h2
    simp only [stepAct]
    exact this
  | resume i =>
    cases hw : s.waiters[i]? with
    | none => simp [stepAct, hw] at h
    | some ws =>
      cases ws with
      | finished o => simp [stepAct, hw] at h
      | sleeping =>
        have h1 : (waitLoopStep maxR s.world).1 = .finished (.res r) := by
          simpa [stepAct, hw] using h
        have h2 : waitLoopStep maxR s.world = (.finished (.res r), (waitLoopStep maxR s.world).2) := by
          rw [← h1]
        have := C17_sched_resume_result maxR s.world _ hinv r h2
        simp only [stepAct, hw]
        exact this
  | call c => simp [stepAct] at h

/-- the final-status form: after a coroutine has returned `r`, every continuation of the schedule reports the same status, which
is DONE iff `r` is a result -/
theorem C17_sched_result_is_final (maxR : Nat) (s : Sys) (hinv : Inv s.world) (a : Act) (r : Option Nat)
    (h : (stepAct maxR s a).1 = .waiter (.finished (.res r))) (as : List Act) :
    ∀ e ∈ runSched maxR (stepAct maxR s a).2 as,
      (r.isSome = true ↔ e.2.1 = .DONE) ∧ e.2.2 = (stepAct maxR s a).2.world.requests := by
  have h3 := C17_sched_waiter_result maxR s hinv a r h
  simp only at h3
  intro e he
  have := C17_sched_history_absorbing maxR (stepAct maxR s a).2 h3.1 as e he
  rw [this.1, this.2]
  exact ⟨h3.2.1, rfl⟩

/-- a sleeping coroutine is never left sleeping in a terminal world: its next resumption returns without contacting the server -/
theorem C17_sched_sleeper_wakes_finished (maxR : Nat) (s : Sys) (h : Status.isTerminal s.world.exp.status = true) (i : Nat)
    (hi : s.waiters[i]? = some .sleeping) :
    stepAct maxR s (.resume i) =
      (.waiter (.finished (.res (if s.world.exp.status = .DONE then s.world.exp.results else none))),
       { world := s.world, waiters := s.waiters.set i (.finished (.res (if s.world.exp.status = .DONE then s.world.exp.results else none))) }) := by
  simp only [stepAct, hi, C17_sched_resume_terminal maxR s.world h]

/-- how the sequential poll loop's outcome reads as the final state of a coroutine -/
def asWaiter (r : PyRes Unit) (w' : World) : WState :=
  match r with
  | .ret () => .finished (.res (if w'.exp.status = .DONE then w'.exp.results else none))
  | .raised e => .finished (.raised e)
  | .none => .finished .none

/-- refinement of the sequential model: a coroutine that is resumed again and again with nothing interleaved goes through exactly the
states of the sequential poll loop of `C17.lean` (as long as that loop's fuel suffices) -/
theorem C17_sched_alone_refines_pollLoop (maxR fuel : Nat) (w w' : World) (r : PyRes Unit)
    (h : pollLoop maxR (fuel + 1) w = (r, w')) (hne : r ≠ .raised .exhausted) :
    waitAlone maxR fuel (waitLoopStep maxR w) = (asWaiter r w', w') := by
  induction fuel generalizing w with
  | zero =>
    unfold pollLoop at h
    unfold waitLoopStep
    split at h
    · rename_i st w1 heq
      simp only [heq]
      split at h
      · rename_i ht
        simp only [Prod.mk.injEq] at h; obtain ⟨rfl, rfl⟩ := h
        simp [ht, waitAlone, asWaiter]
      · simp only [pollLoop, Prod.mk.injEq] at h; exact absurd h.1.symm hne
    · rename_i e w1 heq
      simp only [heq]; simp only [Prod.mk.injEq] at h; obtain ⟨rfl, rfl⟩ := h
      simp [waitAlone, asWaiter]
    · rename_i w1 heq
      simp only [heq]; simp only [Prod.mk.injEq] at h; obtain ⟨rfl, rfl⟩ := h
      simp [waitAlone, asWaiter]
  | succ fuel ih =>
    unfold pollLoop at h
    unfold waitLoopStep
    split at h
    · rename_i st w1 heq
      simp only [heq]
      split at h
      · rename_i ht
        simp only [Prod.mk.injEq] at h; obtain ⟨rfl, rfl⟩ := h
        simp [ht, waitAlone, asWaiter]
      · rename_i ht
        simp only [ht]
        have := ih w1 h
        simpa [waitAlone] using this
    · rename_i e w1 heq
      simp only [heq]; simp only [Prod.mk.injEq] at h; obtain ⟨rfl, rfl⟩ := h
      simp [waitAlone, asWaiter]
    · rename_i w1 heq
      simp only [heq]; simp only [Prod.mk.injEq] at h; obtain ⟨rfl, rfl⟩ := h
      simp [waitAlone, asWaiter]

/-- … hence `wait_for_results()` awaited alone returns what the sequential `getResults` returns, in the same final world -/
theorem C17_sched_alone_refines_getResults (maxR : Nat) (w w' : World) (r : Option Nat)
    (h : getResults maxR w = (.ret r, w')) :
    waitAlone maxR (w.outcomes.length + 1) (waitStart maxR w) = (.finished (.res r), w') := by
  unfold getResults at h
  unfold waitStart
  split at h
  · rename_i hc
    simp only [Prod.mk.injEq, PyRes.ret.injEq] at h; obtain ⟨rfl, rfl⟩ := h
    simp [hc, waitAlone]
  · rename_i hc
    simp only [hc, if_false]
    split at h
    · rename_i w'' heq
      have href := C17_sched_alone_refines_pollLoop maxR (w.outcomes.length + 1) w w'' (.ret ()) heq (by simp)
      rw [href]
      split at h
      · rename_i hd
        simp only [Prod.mk.injEq, PyRes.ret.injEq] at h; obtain ⟨rfl, rfl⟩ := h
        simp [asWaiter, hd]
      · rename_i hd
        simp only [Prod.mk.injEq, PyRes.ret.injEq] at h; obtain ⟨rfl, rfl⟩ := h
        simp [asWaiter, hd]
    · simp at h
    · simp at h

/-- non-vacuity: two coroutines and a plain query interleaved over the replies pending, pending, finished: the second coroutine
sees DONE first, the first one wakes up afterwards, makes NO further request and returns the same results -/
example :
    runSched 5 { world := { exp := { status := .QUEUED, results := none },
                            outcomes := [.ok "pending" 0, .ok "pending" 0, .ok "finished" 7, .ok "active" 0, .ok "cancelled" 0],
                            requests := 0 },
                 waiters := [] }
      [.spawn, .spawn, .resume 1, .resume 0, .call .query] =
    [(.waiter .sleeping, .QUEUED, 1), (.waiter .sleeping, .QUEUED, 2), (.waiter (.finished (.res (some 7))), .DONE, 3),
     (.waiter (.finished (.res (some 7))), .DONE, 3), (.out (.status .DONE), .DONE, 3)] := by decide +kernel

end Qib.Backend
