import QibProofs.Lemmas.GateCtor
import QibProofs.Lemmas.GateCtorErase
import QibProofs.Lemmas.GateCtorPayload
import QibProofs.Properties.C01Tree
/-!
C01 (constructor stage) — "for every gate object the library CAN CONSTRUCT": what the constructors and binding methods of
`gates.py` accept, what they reject, and what they therefore guarantee about the gate tree whose matrix C01Tree proves unitary.

The theorems are about `Qib.GateCtor.construct` (= `eval`), the per-class constructor functions `ctor…` and `applyCall` of
`QibModel/GateCtor.lean` – the definitions `drv_gatector` executes against the real classes on every run.

(a) soundness:      an accepted expression denotes a tree with `Tree.CtorWF` (the strongest well-formedness the constructors
                    themselves establish), and `num_wires` is the tree's wire count;
(b) link to C01Tree: together with the recorded payload assumptions (`Tree.PayloadOK`) this is exactly `Tree.WF`, so the reported
                    matrix is unitary of size `2 ^ num_wires`; where a constructor guarantees LESS than `Tree.WF` needs, the gap is a
                    theorem with an explicit witness (`…_gap`);
(c) rejection:      per class, `ctor … = .error k ↔ <explicit predicate> ∧ k = <exception class>`, and for composite expressions
                    the exception of the first failing argument wins;
(d) binding:        `on` / `set_control` / `set_auxiliary_qubits` are accepted iff the class has the method and exactly
                    `num_wires` / `ncontrols` / `num_aux_qubits` particles are passed; they overwrite the object's own particle list
                    only – tree, matrix and `num_wires` never change.
Property statements only; helper lemmas are in `Lemmas/GateCtor.lean`.
-/
open Matrix Qib Qib.Mat Qib.Gate Qib.GateCtor

namespace Qib.C01Ctor

/-! ### (c) what each constructor accepts and rejects -/

/-- the closed-form one- and two-qubit classes, `PhaseFactorGate`, `TimeEvolutionGate` and `BlockEncodingGate` check NOTHING:
every argument tuple is accepted (any angle, any `nwires` – also negative –, any operator, any time) -/
theorem C01_ctor_unchecked :
    (∀ cls m mi f q, ∃ o, construct (.leaf cls m mi f q) = .ok o) ∧
    (∀ cls m mi f q1 q2, ∃ o, construct (.leaf2 cls m mi f q1 q2) = .ok o) ∧
    (∀ nw m mi, ∃ o, construct (.phase nw m mi) = .ok o) ∧
    (∀ w h t m mi, ∃ o, construct (.timeEvo w h t m mi) = .ok o) ∧
    (∀ ns meth h s, ∃ o, construct (.block ns meth h s) = .ok o) :=
  ⟨fun _ _ _ _ _ => ⟨_, eval_leaf ..⟩, fun _ _ _ _ _ _ => ⟨_, eval_leaf2 ..⟩, fun _ _ _ => ⟨_, eval_phase ..⟩,
    fun _ _ _ _ _ => ⟨_, eval_timeEvo ..⟩, fun _ _ _ _ => ⟨_, eval_block ..⟩⟩

/-- `RotationGate(ntheta)`: accepted iff `np.asarray(ntheta).shape == (3,)`, otherwise `ValueError` -/
theorem C01_ctor_rotation_iff (shape : List ℕ) (q : Slot) (m mi : Mat) :
    (∀ o, ctorRotation shape q m mi = .ok o ↔ shape = [3] ∧ o = ⟨.leaf "RotationGate" 1 m mi false, 1, .ok, .one q⟩) ∧
    (∀ k, ctorRotation shape q m mi = .error k ↔ shape ≠ [3] ∧ k = .valueError) :=
  ⟨ctorRotation_ok_iff shape q m mi, ctorRotation_error_iff shape q m mi⟩

/-- `ISwapGate(q1, q2)`: accepted iff both qubits are given or none, otherwise `ValueError` -/
theorem C01_ctor_iswap_iff (q1 q2 : Slot) (m mi : Mat) :
    (∀ o, ctorIswap q1 q2 m mi = .ok o ↔ q1.truthy = q2.truthy ∧ o = ⟨.leaf "ISwapGate" 2 m mi false, 2, .ok, .two q1 q2 true⟩) ∧
    (∀ k, ctorIswap q1 q2 m mi = .error k ↔ q1.truthy ≠ q2.truthy ∧ k = .valueError) :=
  ⟨ctorIswap_ok_iff q1 q2 m mi, ctorIswap_error_iff q1 q2 m mi⟩

/-- `PrepareGate(vec, nqubits, transpose)`: `ValueError` iff the array is not one-dimensional, or of a complex dtype, or not of
length `2 ** nqubits` (always for negative `nqubits`); `TypeError` iff it passes these tests but is an INTEGER array whose 1-norm
differs from 1 by more than `1e-12` (the in-place normalisation cannot be stored); accepted otherwise – including the float zero
vector, whose object then reports NaN (`prepStatus`) -/
theorem C01_ctor_prepare_iff (v : NdArr) (nq : ℤ) (tr : Bool) (q : Mat) (x : List ℚ) :
    (∀ o, ctorPrepare v nq tr q x = .ok o ↔ PrepareArgsOK v nq ∧ ¬ PrepareIntDiv v ∧
        o = ⟨.prepare nq.toNat q x tr, nq, prepStatus (2 ^ nq.toNat) (norm1 v.data), .list []⟩) ∧
    (∀ k, ctorPrepare v nq tr q x = .error k ↔
        (k = .valueError ∧ ¬ PrepareArgsOK v nq) ∨ (k = .typeError ∧ PrepareArgsOK v nq ∧ PrepareIntDiv v)) :=
  ⟨ctorPrepare_ok_iff v nq tr q x, ctorPrepare_error_iff v nq tr q x⟩

/-- the complex `d × d` matrix a `GeneralGate` argument denotes -/
noncomputable def argMatrix (a : NdArr) (d : ℕ) : Matrix (Fin d) (Fin d) ℂ := (a.toMat d).toM d d

/-- `np.allclose(U Uᴴ, 1)` read over `ℂ`: every entry of `U Uᴴ - 1` is within the tolerance of its position – the double
`1e-8 + 1e-5` on the diagonal, the double `1e-8` off the diagonal (complex modulus) -/
def AllcloseUnitary {d : ℕ} (U : Matrix (Fin d) (Fin d) ℂ) : Prop := ∀ i j : Fin d, ‖(U * Uᴴ - 1) i j‖ ≤ ((tolAt i j : ℚ) : ℝ)

/-- `GeneralGate(mat, nwires)`: accepted iff `nwires ≥ 0`, the shape is `(2^nwires, 2^nwires)` and `U Uᴴ` is entrywise within the
`np.allclose` tolerance of the identity; otherwise `ValueError` -/
theorem C01_ctor_general_iff (a : NdArr) (nw : ℤ) :
    (∀ o, ctorGeneral a nw = .ok o ↔
      (0 ≤ nw ∧ a.shape = [2 ^ nw.toNat, 2 ^ nw.toNat] ∧ AllcloseUnitary (argMatrix a (2 ^ nw.toNat))) ∧
      o = ⟨.general nw.toNat (a.toMat (2 ^ nw.toNat)), nw, .ok, .list []⟩) ∧
    (∀ k, ctorGeneral a nw = .error k ↔ k = .valueError ∧
      ¬ (0 ≤ nw ∧ a.shape = [2 ^ nw.toNat, 2 ^ nw.toNat] ∧ AllcloseUnitary (argMatrix a (2 ^ nw.toNat)))) := by
  have key : GeneralArgsOK a nw ↔
      (0 ≤ nw ∧ a.shape = [2 ^ nw.toNat, 2 ^ nw.toNat] ∧ AllcloseUnitary (argMatrix a (2 ^ nw.toNat))) := by
    unfold GeneralArgsOK AllcloseUnitary argMatrix
    rw [allcloseUnitary_iff_matrix (a.toMat (2 ^ nw.toNat)) (d := 2 ^ nw.toNat) rfl rfl]
  exact ⟨fun o => by rw [ctorGeneral_ok_iff, key], fun k => by rw [ctorGeneral_error_iff, key]⟩

/-- the tolerances are what the source says, up to the rounding of the double-precision literals -/
theorem C01_ctor_general_tolerances (i j : ℕ) :
    (i = j → (10009 : ℚ) / 10 ^ 9 < tolAt i j ∧ tolAt i j < 10011 / 10 ^ 9) ∧
    (i ≠ j → (9999 : ℚ) / 10 ^ 12 < tolAt i j ∧ tolAt i j < 10001 / 10 ^ 12) := by
  constructor
  · intro h
    have := tolDiag_bounds
    simp only [tolAt, if_pos h]
    constructor <;> [exact lt_of_eq_of_lt (by norm_num) this.1; exact lt_of_lt_of_eq this.2 (by norm_num)]
  · intro h
    have := tolOff_bounds
    simp only [tolAt, if_neg h]
    constructor <;> [exact lt_of_eq_of_lt (by norm_num) this.1; exact lt_of_lt_of_eq this.2 (by norm_num)]

/-- `ControlledGate(tgate, ncontrols, ctrl_state)` on an already constructed target: accepted iff (default pattern) `ncontrols ≥ 0`,
or (given pattern) its length is `ncontrols` and every entry equals 0 or 1; otherwise `ValueError`. The target is not examined. -/
theorem C01_ctor_controlled_iff (t : Obj) (nc : ℤ) (ctrl : Option (List ℚ)) :
    (∀ o, ctorControlled t nc ctrl = .ok o ↔ CtrlArgsOK nc ctrl ∧
        o = ⟨.controlled (ctrlPattern nc ctrl) t.tree, t.nw + nc, t.status, .ctrl nc.toNat [] t.bind⟩) ∧
    (∀ k, ctorControlled t nc ctrl = .error k ↔ k = .valueError ∧ ¬ CtrlArgsOK nc ctrl) :=
  ⟨ctorControlled_ok_iff t nc ctrl, ctorControlled_error_iff t nc ctrl⟩

/-- `CtrlArgsOK`, spelled out -/
theorem C01_ctor_controlled_contract (nc : ℤ) :
    (CtrlArgsOK nc none ↔ 0 ≤ nc) ∧ (∀ l, CtrlArgsOK nc (some l) ↔ (l.length : ℤ) = nc ∧ ∀ x ∈ l, x = 0 ∨ x = 1) :=
  ⟨Iff.rfl, fun _ => Iff.rfl⟩

/-- `MultiplexedGate(tgates, ncontrols)` on already constructed targets: accepted iff `ncontrols ≥ 0`, there are exactly
`2 ^ ncontrols` targets and all of them report the same `num_wires`; otherwise `ValueError` -/
theorem C01_ctor_multiplexed_iff (ts : List Obj) (nc : ℤ) :
    (∀ o, ctorMultiplexed ts nc = .ok o ↔ (0 ≤ nc ∧ ts.length = 2 ^ nc.toNat ∧ ∀ t ∈ ts, ∀ t' ∈ ts, t.nw = t'.nw) ∧
        o = ⟨.multiplexed nc.toNat (ts.map (·.tree)), headNw ts + nc, mplxStatus ts, .mplx nc.toNat [] (ts.map (·.bind))⟩) ∧
    (∀ k, ctorMultiplexed ts nc = .error k ↔ k = .valueError ∧
        ¬ (0 ≤ nc ∧ ts.length = 2 ^ nc.toNat ∧ ∀ t ∈ ts, ∀ t' ∈ ts, t.nw = t'.nw)) :=
  ⟨ctorMultiplexed_ok_iff ts nc, ctorMultiplexed_error_iff ts nc⟩

/-! #### composite expressions: Python evaluates the arguments first, the first exception wins -/

theorem C01_construct_controlled_error_iff (tg : Expr) (nc : ℤ) (ctrl : Option (List ℚ)) (k : ErrKind) :
    construct (.controlled tg nc ctrl) = .error k ↔
      construct tg = .error k ∨ (∃ t, construct tg = .ok t) ∧ k = .valueError ∧ ¬ CtrlArgsOK nc ctrl := by
  unfold construct
  rw [eval_controlled, bind_eq_error]
  constructor
  · rintro (h | ⟨t, ht, h⟩)
    · exact Or.inl h
    · exact Or.inr ⟨⟨t, ht⟩, (ctorControlled_error_iff ..).mp h⟩
  · rintro (h | ⟨⟨t, ht⟩, h⟩)
    · exact Or.inl h
    · exact Or.inr ⟨t, ht, (ctorControlled_error_iff ..).mpr h⟩

/-- a list of gate arguments raises the exception of its first failing element (all earlier elements evaluate) -/
theorem C01_construct_list_first_exception (es : List Expr) (k : ErrKind) :
    evalList es = .error k ↔ ∃ pre e post os, es = pre ++ e :: post ∧ evalList pre = .ok os ∧ construct e = .error k :=
  evalList_eq_error_iff es k

theorem C01_construct_multiplexed_error_iff (tgs : List Expr) (nc : ℤ) (k : ErrKind) :
    construct (.multiplexed tgs nc) = .error k ↔
      evalList tgs = .error k ∨ ∃ ts, evalList tgs = .ok ts ∧ k = .valueError ∧ ¬ MplxArgsOK ts nc := by
  unfold construct
  rw [eval_multiplexed, bind_eq_error]
  constructor
  · rintro (h | ⟨ts, hts, h⟩)
    · exact Or.inl h
    · exact Or.inr ⟨ts, hts, (ctorMultiplexed_error_iff ..).mp h⟩
  · rintro (h | ⟨ts, hts, h⟩)
    · exact Or.inl h
    · exact Or.inr ⟨ts, hts, (ctorMultiplexed_error_iff ..).mpr h⟩

theorem C01_construct_call_error_iff (e : Expr) (c : Call) (k : ErrKind) :
    construct (.call e c) = .error k ↔
      construct e = .error k ∨ ∃ o, construct e = .ok o ∧
        ((k = .attributeError ∧ ¬ HasMethod o.bind c.meth) ∨
         (k = arityError o.bind ∧ HasMethod o.bind c.meth ∧ (passedArity o c : ℤ) ≠ requiredArity o)) := by
  unfold construct
  rw [eval_call, bind_eq_error]
  constructor
  · rintro (h | ⟨o, ho, h⟩)
    · exact Or.inl h
    · exact Or.inr ⟨o, ho, (applyCall_error_iff ..).mp h⟩
  · rintro (h | ⟨o, ho, h⟩)
    · exact Or.inl h
    · exact Or.inr ⟨o, ho, (applyCall_error_iff ..).mpr h⟩

/-- a composite expression is accepted iff its arguments are and the constructor accepts what they evaluate to -/
theorem C01_construct_controlled_ok_iff (tg : Expr) (nc : ℤ) (ctrl : Option (List ℚ)) (o : Obj) :
    construct (.controlled tg nc ctrl) = .ok o ↔
      ∃ t, construct tg = .ok t ∧ CtrlArgsOK nc ctrl ∧
        o = ⟨.controlled (ctrlPattern nc ctrl) t.tree, t.nw + nc, t.status, .ctrl nc.toNat [] t.bind⟩ := by
  unfold construct
  rw [eval_controlled, bind_eq_ok]
  simp only [ctorControlled_ok_iff]

theorem C01_construct_multiplexed_ok_iff (tgs : List Expr) (nc : ℤ) (o : Obj) :
    construct (.multiplexed tgs nc) = .ok o ↔
      ∃ ts, List.Forall₂ (fun e t => construct e = .ok t) tgs ts ∧ MplxArgsOK ts nc ∧
        o = ⟨.multiplexed nc.toNat (ts.map (·.tree)), headNw ts + nc, mplxStatus ts, .mplx nc.toNat [] (ts.map (·.bind))⟩ := by
  unfold construct
  rw [eval_multiplexed, bind_eq_ok]
  simp only [ctorMultiplexed_ok_iff, evalList_eq_ok_iff]

theorem C01_construct_call_ok_iff (e : Expr) (c : Call) (o' : Obj) :
    construct (.call e c) = .ok o' ↔
      ∃ o, construct e = .ok o ∧ HasMethod o.bind c.meth ∧ (passedArity o c : ℤ) = requiredArity o ∧
        o' = { o with bind := newBind o.bind c } := by
  unfold construct
  rw [eval_call, bind_eq_ok]
  simp only [applyCall_ok_iff]

/-- **the constructors never look at the numerical payload**: removing every payload from an expression (`Expr.erase`: closed-form /
`expm` / `qr` / `sqrtm` results, Hermiticity flags, the operator of a time evolution) changes neither which exception is raised nor,
when it is accepted, `num_wires`, the status or the binding state of the object. Acceptance is decided by the caller's arguments alone
(shapes, dtypes, lengths, the entries of a user matrix / preparation vector / control pattern, arities). -/
theorem C01_construct_payload_independent (e : Expr) :
    (∀ k, construct e = .error k ↔ construct e.erase = .error k) ∧
    (∀ o, construct e = .ok o → ∃ o', construct e.erase = .ok o' ∧ o'.nw = o.nw ∧ o'.status = o.status ∧ o'.bind = o.bind) := by
  have h := eval_erase_sim e
  refine ⟨fun k => h.error_iff k, fun o ho => ?_⟩
  obtain ⟨o', ho', h1, h2, h3⟩ := h.ok_iff ho
  exact ⟨o', ho', h1.symm, h2.symm, h3.symm⟩

/-- … hence two expressions that differ only in their payloads are accepted or rejected alike -/
theorem C01_construct_depends_on_arguments_only (e e' : Expr) (h : e.erase = e'.erase) (k : ErrKind) :
    construct e = .error k ↔ construct e' = .error k := by
  rw [(C01_construct_payload_independent e).1, (C01_construct_payload_independent e').1, h]

/-- the objects expressions evaluate to are exactly the `Built` ones (constructor calls on built objects + accepted binding calls) -/
theorem C01_built_iff (o : Obj) : Built o ↔ ∃ e, construct e = .ok o := built_iff o

/-! ### (a) soundness of construction -/

/-- **WF'**: whatever an expression evaluates to denotes – unless `as_matrix()` raises, which only a phase-factor gate with negative
`nwires` causes – a tree with the constructor-level well-formedness `Tree.CtorWF`: user matrices are `2^w × 2^w` arrays passing
`np.allclose(U Uᴴ, 1)`, multiplexers have `2^nc` targets of ONE width, block encodings at least the auxiliary wire; this holds through
any nesting and any sequence of binding calls -/
theorem C01_construct_ctorWF (e : Expr) (o : Obj) (h : construct e = .ok o) (hs : o.status ≠ .raises) : o.tree.CtorWF :=
  ((eval_built e o h).ctorWF hs).1

/-- `num_wires` of the constructed object is the wire count of its tree -/
theorem C01_construct_num_wires (e : Expr) (o : Obj) (h : construct e = .ok o) (hs : o.status ≠ .raises) :
    o.nw = (o.tree.wires : ℤ) :=
  ((eval_built e o h).ctorWF hs).2

/-- the guarantee of `Tree.CtorWF` for a user matrix, over `ℂ` -/
theorem C01_ctorWF_general (w : ℕ) (m : Mat) (h : (Tree.general w m).CtorWF) :
    m.n = 2 ^ w ∧ m.m = 2 ^ w ∧ m.data.size = 2 ^ w * 2 ^ w ∧ AllcloseUnitary (m.toM (2 ^ w) (2 ^ w)) := by
  cases h with
  | general _ _ hsq hclose =>
    refine ⟨hsq.n_eq, hsq.m_eq, ?_, (allcloseUnitary_iff_matrix m hsq.n_eq hsq.m_eq).mp hclose⟩
    have : m.data.size = m.n * m.m := hsq.wf
    rw [this, hsq.n_eq, hsq.m_eq]

/-- the guarantee of `Tree.CtorWF` for a multiplexer: `2^nc` targets, each with the constructor-level well-formedness, all of the
width of the first -/
theorem C01_ctorWF_multiplexed (nc : ℕ) (ts : List Tree) (h : (Tree.multiplexed nc ts).CtorWF) :
    ts.length = 2 ^ nc ∧ (∀ t ∈ ts, t.CtorWF) ∧ ∀ t ∈ ts, t.wires = wiresHead ts := by
  cases h with
  | multiplexed _ _ hlen hts hw => exact ⟨hlen, hts, hw⟩

/-! ### (b) the link to the unitarity theorems of C01Tree -/

/-- constructor guarantees + payload assumptions are EXACTLY the well-formedness `Tree.WF` of C01Tree -/
theorem C01_wf_iff (t : Tree) : t.WF ↔ t.CtorWF ∧ t.PayloadOK :=
  ⟨ctorWF_payloadOK_of_wf t, fun h => wf_of_ctorWF_payloadOK t h.1 h.2⟩

/-- for a constructed object the structural half of `Tree.WF` is discharged by the constructors: only the payload assumptions remain -/
theorem C01_construct_wf_iff (e : Expr) (o : Obj) (h : construct e = .ok o) (hs : o.status ≠ .raises) :
    o.tree.WF ↔ o.tree.PayloadOK :=
  ⟨fun hw => ((C01_wf_iff _).mp hw).2, fun hp => (C01_wf_iff _).mpr ⟨C01_construct_ctorWF e o h hs, hp⟩⟩

/-- **C01 for constructed gates**: an accepted expression whose numerical payload satisfies the recorded assumptions reports a
well-formed square array of size `2 ^ num_wires` that is unitary (both equations, in Mathlib's matrices) -/
theorem C01_construct_unitary (e : Expr) (o : Obj) (h : construct e = .ok o) (hs : o.status ≠ .raises) (hp : o.tree.PayloadOK) :
    (o.tree.mat.n : ℤ) = 2 ^ o.nw.toNat ∧ (o.tree.mat.m : ℤ) = 2 ^ o.nw.toNat ∧ 0 ≤ o.nw ∧
    o.tree.mat.toMatrix * o.tree.mat.toMatrixᴴ = 1 ∧ o.tree.mat.toMatrixᴴ * o.tree.mat.toMatrix = 1 := by
  have hwf := (C01_construct_wf_iff e o h hs).mpr hp
  have hnw := C01_construct_num_wires e o h hs
  obtain ⟨h1, h2, _⟩ := Qib.C01Tree.C01_tree_dim _ hwf
  obtain ⟨h3, h4⟩ := Qib.C01Tree.C01_tree_unitary _ hwf
  have : o.nw.toNat = o.tree.wires := by omega
  refine ⟨by rw [h1, this]; norm_cast, by rw [h2, this]; norm_cast, by omega, h3, h4⟩

/-- the same on the arrays the driver computes: `U U† = 1 = U† U` with the model's own `mul` / `adjoint` / `one` -/
theorem C01_construct_unitary_exec (e : Expr) (o : Obj) (h : construct e = .ok o) (hs : o.status ≠ .raises) (hp : o.tree.PayloadOK) :
    o.tree.mat.mul o.tree.mat.adjoint = Mat.one (2 ^ o.nw.toNat) ∧ o.tree.mat.adjoint.mul o.tree.mat = Mat.one (2 ^ o.nw.toNat) := by
  have hwf := (C01_construct_wf_iff e o h hs).mpr hp
  have hnw := C01_construct_num_wires e o h hs
  have : o.nw.toNat = o.tree.wires := by omega
  rw [this]
  exact Qib.C01Tree.C01_tree_unitary_exec _ hwf

/-- **C01 for constructed gates, stated on the caller's arguments**: if an expression is ACCEPTED, the object can report a matrix
at all, and every numerical payload named in the expression satisfies the recorded assumption of its class (`Expr.PayloadOK`: closed
forms, `expm`, `qr`, `sqrtm` results; user matrices exactly unitary) – nothing is assumed about shapes, lengths, patterns, numbers of
targets or arities, the constructors have checked them –, then `as_matrix()` is a `2^num_wires × 2^num_wires` unitary matrix,
whatever the nesting depth and whatever binding calls were made. -/
theorem C01_construct_unitary_of_arguments (e : Expr) (o : Obj) (h : construct e = .ok o) (hs : o.status ≠ .raises)
    (hp : e.PayloadOK) :
    0 ≤ o.nw ∧ (o.tree.mat.n : ℤ) = 2 ^ o.nw.toNat ∧ (o.tree.mat.m : ℤ) = 2 ^ o.nw.toNat ∧
    o.tree.mat.toMatrix * o.tree.mat.toMatrixᴴ = 1 ∧ o.tree.mat.toMatrixᴴ * o.tree.mat.toMatrix = 1 := by
  obtain ⟨h1, h2, h3, h4, h5⟩ := C01_construct_unitary e o h hs (eval_payloadOK e o h hp)
  exact ⟨h3, h1, h2, h4, h5⟩

/-- the payload assumption on `TimeEvolutionGate` is what `expm` delivers for a HERMITIAN generator: if `m`, `mi` are
`exp(∓ i t H)` (`scipy.linalg.expm` modelled by `NormedSpace.exp`) and `Hᴴ = H`, the payload is admissible -/
theorem C01_payload_timeEvo_of_expm (w : ℕ) (H m mi : Mat) (t : ℚ) (hm : m.IsSq (2 ^ w)) (hmi : mi.IsSq (2 ^ w))
    (hH : (H.toM (2 ^ w) (2 ^ w))ᴴ = H.toM (2 ^ w) (2 ^ w))
    (he : m.toM (2 ^ w) (2 ^ w) = NormedSpace.exp ((-(Complex.I * ((t : ℝ) : ℂ))) • H.toM (2 ^ w) (2 ^ w)))
    (hei : mi.toM (2 ^ w) (2 ^ w) = NormedSpace.exp ((Complex.I * ((t : ℝ) : ℂ)) • H.toM (2 ^ w) (2 ^ w))) :
    (Tree.timeEvo w m mi).PayloadOK := by
  set A := H.toM (2 ^ w) (2 ^ w) with hA
  have hcomm : Commute ((-(Complex.I * ((t : ℝ) : ℂ))) • A) ((Complex.I * ((t : ℝ) : ℂ)) • A) :=
    ((Commute.refl A).smul_left _).smul_right _
  have hadj : (m.toM (2 ^ w) (2 ^ w))ᴴ = mi.toM (2 ^ w) (2 ^ w) := by
    rw [he, hei, ← Matrix.exp_conjTranspose, Matrix.conjTranspose_smul, hH]
    congr 2
    simp
  have hmul : m.toM (2 ^ w) (2 ^ w) * mi.toM (2 ^ w) (2 ^ w) = 1 := by
    rw [he, hei, ← Matrix.exp_add_of_commute _ _ hcomm, neg_smul, neg_add_cancel, NormedSpace.exp_zero]
  refine .timeEvo _ _ _ ⟨hm.n_eq, hm.m_eq, hm.wf, by rw [hadj]; exact hmul⟩ hmi (mul_eq_one_comm.mp hmul)

/-! ### where the constructors guarantee LESS than `Tree.WF`: the gaps, with explicit witnesses

Each gap below was run against the real classes (harness `props/c01_ctor.py`, evidence keys `gap:*`): the real constructor accepts
the witness and the real object reports what the theorem says. None of them is inside the quantifier of property C01 ("any HERMITIAN
operator of norm < 1 handed to block-encoding / any HERMITIAN generator handed to time evolution", "preparation vectors incl. negative
and zero ENTRIES", unitary user matrices), so they are limits of the statement, not findings. -/

/-- `(1 + 4·10⁻⁶) · 1₂`: `U Uᴴ = (1 + 8.000016·10⁻⁶) · 1`, inside the relative tolerance `1e-5` of `np.allclose` -/
def gapScaled : NdArr := ⟨[2, 2], .float, #[⟨250001 / 250000, 0⟩, 0, 0, ⟨250001 / 250000, 0⟩], by decide⟩

/-- **gap (GeneralGate)**: the constructor tests unitarity only up to the `np.allclose` tolerance – `(1 + 4·10⁻⁶) · 1₂` is accepted
although it is not unitary. (`C01_ctorWF_general` is what IS guaranteed; exact unitarity is the payload assumption.) -/
theorem C01_ctor_general_tolerance_gap :
    (∃ o, construct (.general gapScaled 1) = .ok o) ∧ ¬ (argMatrix gapScaled 2 * (argMatrix gapScaled 2)ᴴ = 1) := by
  constructor
  · unfold construct; rw [eval_general]
    exact exists_of_isOk (by decide +kernel)
  · exact not_unitary_of_exec rfl rfl (by decide +kernel)

/-- `5/3 · Z` (Hermitian, norm `5/3 > 1`) and the principal square root `4i/3 · 1` of `1 - H² = -16/9 · 1` -/
def gapH53 : Mat := ⟨2, 2, #[⟨5 / 3, 0⟩, 0, 0, ⟨-5 / 3, 0⟩]⟩
def gapS43i : Mat := ⟨2, 2, #[⟨0, 4 / 3⟩, 0, 0, ⟨0, 4 / 3⟩]⟩
/-- `|0⟩⟨1| = (X + iY)/2`: not Hermitian, `1 - H² = 1` -/
def gapNil : Mat := ⟨2, 2, #[0, 1, 0, 0]⟩

/-- **gap (BlockEncodingGate)**: the constructor checks neither the norm bound nor Hermiticity of the encoded operator. For
`H = 5/3 · Z` every method is accepted, `S = 4i/3 · 1` IS a square root of `1 - H²` commuting with `H` (what `sqrtm` returns), yet
none of the three block matrices is unitary; for the non-Hermitian `H = |0⟩⟨1|` with `S = 1` (again `S² = 1 - H²`) likewise. -/
theorem C01_ctor_block_unchecked_gap (meth : Method) :
    (∃ o, construct (.block 1 meth gapH53 gapS43i) = .ok o ∧ o.tree = .block 2 meth gapH53 gapS43i) ∧
    gapS43i.toM 2 2 * gapS43i.toM 2 2 = 1 - gapH53.toM 2 2 * gapH53.toM 2 2 ∧
    gapS43i.toM 2 2 * gapH53.toM 2 2 = gapH53.toM 2 2 * gapS43i.toM 2 2 ∧
    (gapH53.toM 2 2)ᴴ = gapH53.toM 2 2 ∧
    ¬ ((blockMat meth gapH53 gapS43i).toM 4 4 * ((blockMat meth gapH53 gapS43i).toM 4 4)ᴴ = 1) ∧
    (∃ o, construct (.block 1 meth gapNil (Mat.one 2)) = .ok o) ∧
    ¬ ((blockMat meth gapNil (Mat.one 2)).toM 4 4 * ((blockMat meth gapNil (Mat.one 2)).toM 4 4)ᴴ = 1) := by
  refine ⟨⟨_, eval_block .., rfl⟩, ?_, ?_, ?_, ?_, ⟨_, eval_block ..⟩, ?_⟩
  · rw [← toM_mul gapS43i gapS43i (n := 2) (k := 2) (m := 2) rfl rfl rfl, ← toM_mul gapH53 gapH53 (n := 2) (k := 2) (m := 2) rfl rfl rfl,
      ← toM_one, sub_eq_add_neg, ← toM_neg (gapH53.mul gapH53) (n := 2) (m := 2) rfl rfl,
      ← toM_add (Mat.one 2) (gapH53.mul gapH53).neg (n := 2) (m := 2) rfl rfl]
    exact exec_eq_toM (by decide +kernel)
  · rw [← toM_mul gapS43i gapH53 (n := 2) (k := 2) (m := 2) rfl rfl rfl, ← toM_mul gapH53 gapS43i (n := 2) (k := 2) (m := 2) rfl rfl rfl]
    exact exec_eq_toM (by decide +kernel)
  · rw [← toM_adjoint gapH53 (n := 2) (m := 2) rfl rfl]
    exact exec_eq_toM (by decide +kernel)
  · cases meth <;> exact not_unitary_of_exec rfl rfl (by decide +kernel)
  · cases meth <;> exact not_unitary_of_exec rfl rfl (by decide +kernel)

/-- `expm(∓ i H)` for the nilpotent `H = |0⟩⟨1|` (`exp(N) = 1 + N`): `[[1, ∓i], [0, 1]]` -/
def gapExpNil : Mat := ⟨2, 2, #[1, -GQ.I, 0, 1]⟩
def gapExpNilInv : Mat := ⟨2, 2, #[1, GQ.I, 0, 1]⟩

/-- **gap (TimeEvolutionGate)**: the constructor does not check that the generator is Hermitian. `TimeEvolutionGate(|0⟩⟨1|, 1)` is
accepted; what it reports, `[[1, -i], [0, 1]]` (inverted by the matrix of `inverse()`), is not unitary. -/
theorem C01_ctor_timeEvo_unchecked_gap :
    (∃ o, construct (.timeEvo 1 gapNil 1 gapExpNil gapExpNilInv) = .ok o ∧ o.tree.mat = gapExpNil) ∧
    gapExpNilInv.toM 2 2 * gapExpNil.toM 2 2 = 1 ∧
    ¬ (gapExpNil.toM 2 2 * (gapExpNil.toM 2 2)ᴴ = 1) := by
  refine ⟨⟨_, eval_timeEvo .., by simp [ctorTimeEvo]⟩, ?_, not_unitary_of_exec rfl rfl (by decide +kernel)⟩
  rw [← toM_mul gapExpNilInv gapExpNil (n := 2) (k := 2) (m := 2) rfl rfl rfl, ← toM_one]
  exact exec_eq_toM (by decide +kernel)

/-- **gap (PrepareGate)**: the float zero vector is accepted (it is divided by its 1-norm 0); the object then reports NaN entries -/
theorem C01_ctor_prepare_zero_gap (tr : Bool) (q : Mat) (x : List ℚ) :
    construct (.prepare ⟨[4], .float, #[0, 0, 0, 0], by decide⟩ 2 tr q x) = .ok ⟨.prepare 2 q x tr, 2, .nan, .list []⟩ := by
  unfold construct
  rw [eval_prepare, ctorPrepare_ok_iff]
  refine ⟨⟨by decide, by decide, rfl⟩, (fun h => absurd h.2 (by decide)), ?_⟩
  have : prepStatus (2 ^ (2 : ℤ).toNat) (norm1 (#[0, 0, 0, 0] : Array GQ)) = .nan := by decide +kernel
  simp only [this]
  rfl

/-- an INTEGER vector that is not normalised is refused with `TypeError` (the in-place division cannot be stored), e.g.
`PrepareGate([1, 1, 0, 0], 2)`; the same values as floats are accepted -/
theorem C01_ctor_prepare_integer_typeError (tr : Bool) (q : Mat) (x : List ℚ) :
    construct (.prepare ⟨[4], .int, #[1, 1, 0, 0], by decide⟩ 2 tr q x) = .error .typeError ∧
    ∃ o, construct (.prepare ⟨[4], .float, #[1, 1, 0, 0], by decide⟩ 2 tr q x) = .ok o ∧ o.status = .ok := by
  unfold construct
  constructor
  · rw [eval_prepare, ctorPrepare_error_iff]
    refine Or.inr ⟨rfl, ⟨by decide, by decide, rfl⟩, ?_, rfl⟩
    show prepTol < ratAbs (norm1 (#[1, 1, 0, 0] : Array GQ) - 1)
    decide +kernel
  · refine ⟨⟨.prepare 2 q x tr, 2, .ok, .list []⟩, ?_, rfl⟩
    rw [eval_prepare, ctorPrepare_ok_iff]
    refine ⟨⟨by decide, by decide, rfl⟩, (fun h => absurd h.2 (by decide)), ?_⟩
    have : prepStatus (2 ^ (2 : ℤ).toNat) (norm1 (#[1, 1, 0, 0] : Array GQ)) = .ok := by decide +kernel
    simp only [this]
    rfl

/-- **gap (PhaseFactorGate)**: `nwires` is never validated; for a negative value the object exists with a negative `num_wires` and
`as_matrix()` raises – also through composites -/
theorem C01_ctor_phase_negative_gap (m mi : Mat) :
    (∃ o, construct (.phase (-1) m mi) = .ok o ∧ o.nw = -1 ∧ o.status = .raises) ∧
    (∃ o, construct (.controlled (.phase (-1) m mi) 1 none) = .ok o ∧ o.nw = 0 ∧ o.status = .raises) := by
  unfold construct
  refine ⟨⟨_, eval_phase .., rfl, rfl⟩, ?_⟩
  rw [eval_controlled, eval_phase]
  show ∃ o, ctorControlled (ctorPhase (-1) m mi) 1 none = .ok o ∧ _
  exact ⟨_, (ctorControlled_ok_iff _ _ _ _).mpr ⟨(by decide : (0 : ℤ) ≤ 1), rfl⟩, rfl, rfl⟩

/-- `as_matrix()` raises ONLY in that way: every constructed object with non-negative `num_wires`… more precisely, an object whose
status is `ok` has `num_wires ≥ 0` and the wire count of its tree -/
theorem C01_construct_status_ok (e : Expr) (o : Obj) (h : construct e = .ok o) (hs : o.status = .ok) :
    0 ≤ o.nw ∧ o.nw = (o.tree.wires : ℤ) :=
  ⟨(eval_built e o h).status_ok_of_nonneg hs, C01_construct_num_wires e o h (by rw [hs]; decide)⟩

/-- the size of `scipy.linalg.block_diag(*mats)`: the sum of the block sizes -/
def blockDiagSize (Us : List Mat) : ℕ := (Us.map (·.n)).sum

/-- on blocks of one size the model's `blockDiag` has the size of `scipy.linalg.block_diag` (so the executed model is faithful on
everything the constructor accepts) -/
theorem C01_blockDiag_size (Us : List Mat) (d : ℕ) (hne : Us ≠ []) (hd : ∀ U ∈ Us, U.n = d) :
    (blockDiag Us).n = blockDiagSize Us ∧ blockDiagSize Us = Us.length * d := by
  have hsum : blockDiagSize Us = Us.length * d := by
    unfold blockDiagSize
    clear hne
    induction Us with
    | nil => simp
    | cons U Us ih =>
      simp only [List.map_cons, List.sum_cons, List.length_cons]
      rw [ih (fun V hV => hd V (List.mem_cons_of_mem _ hV)), hd U List.mem_cons_self]
      ring
  cases Us with
  | nil => exact absurd rfl hne
  | cons U Us' =>
    refine ⟨?_, hsum⟩
    rw [hsum, blockDiag_cons_n, hd U List.mem_cons_self, List.length_cons]

/-- **why the multiplexer must compare the widths of its targets** (the defect repaired in `/repo`, commit `53831ae`): without the
clause `hw` of `Tree.CtorWF` the size claim fails – `MultiplexedGate([X, iSWAP], 1)` has exactly `2^1` targets, each a well-formed
unitary leaf, `num_wires` is `1 + 1 = 2`, but `block_diag` of a `2 × 2` and a `4 × 4` block is `6 × 6 ≠ 2^2`. Such a tree is not
`CtorWF`, and the constructor (now) refuses the expression with `ValueError`. -/
theorem C01_multiplexed_width_check_needed :
    let x : Tree := .leaf "PauliXGate" 1 Example.X Example.X true
    let sw : Tree := .leaf "ISwapGate" 2 (Mat.one 4) (Mat.one 4) false
    x.WF ∧ blockDiagSize [x.mat, sw.mat] = 6 ∧ (Tree.multiplexed 1 [x, sw]).wires = 2 ∧
    blockDiagSize [x.mat, sw.mat] ≠ 2 ^ (Tree.multiplexed 1 [x, sw]).wires ∧ ¬ (Tree.multiplexed 1 [x, sw]).CtorWF ∧
    ∀ q1 q2, construct (.multiplexed [.leaf "PauliXGate" Example.X Example.X true q1, .iswap q2 q2 (Mat.one 4) (Mat.one 4)] 1) =
      .error .valueError := by
  intro x sw
  refine ⟨Example.leafX_wf, by decide, by decide, by decide, ?_, ?_⟩
  · intro h
    cases h with
    | multiplexed _ _ _ _ hw =>
      have := hw sw (by simp)
      simp [sw, x] at this
  · intro q1 q2
    unfold construct
    rw [eval_multiplexed, evalList_cons, eval_leaf, evalList_cons, eval_iswap]
    have : ctorIswap q2 q2 (Mat.one 4) (Mat.one 4) = .ok ⟨.leaf "ISwapGate" 2 (Mat.one 4) (Mat.one 4) false, 2, .ok, .two q2 q2 true⟩ :=
      (ctorIswap_ok_iff ..).mpr ⟨rfl, rfl⟩
    rw [this, evalList_nil]
    show ctorMultiplexed _ 1 = _
    rw [ctorMultiplexed_error_iff]
    refine ⟨rfl, fun h => ?_⟩
    have := h.2.2 _ (List.mem_cons_self) _ (List.mem_cons_of_mem _ List.mem_cons_self)
    simp at this

/-! ### (d) the binding methods `on`, `set_control`, `set_auxiliary_qubits` -/

/-- a binding call is accepted iff the class has the method and the number of particles passed is the required one; then exactly
the object's own particle list is replaced -/
theorem C01_bind_accepts_iff (o : Obj) (c : Call) (o' : Obj) :
    applyCall o c = .ok o' ↔
      HasMethod o.bind c.meth ∧ (passedArity o c : ℤ) = requiredArity o ∧ o' = { o with bind := newBind o.bind c } :=
  applyCall_ok_iff o c o'

/-- … and rejected with `AttributeError` iff the class has no such method, with the arity exception of the method otherwise
(`TypeError` from Python for the fixed signatures `on(qubit)` / `on(q1, q2)`, `ValueError` from the `*args` methods) -/
theorem C01_bind_rejects_iff (o : Obj) (c : Call) (k : ErrKind) :
    applyCall o c = .error k ↔
      (k = .attributeError ∧ ¬ HasMethod o.bind c.meth) ∨
      (k = arityError o.bind ∧ HasMethod o.bind c.meth ∧ (passedArity o c : ℤ) ≠ requiredArity o) :=
  applyCall_error_iff o c k

/-- which classes have which method -/
theorem C01_bind_methods (b : Bind) (m : Meth) :
    HasMethod b m ↔
      (m = .on ∧ ((∃ q, b = .one q) ∨ (∃ q1 q2, b = .two q1 q2 true) ∨ ∃ ps, b = .list ps)) ∨
      (m = .setAux ∧ ∃ ps, b = .aux ps) ∨
      (m = .setControl ∧ ((∃ nc cq t, b = .ctrl nc cq t) ∨ ∃ nc cq ts, b = .mplx nc cq ts)) := by
  unfold HasMethod
  cases b <;> cases m <;> simp [hasMethod]
  rename_i q1 q2 h
  cases h <;> simp

/-- the required number of particles, read off the CONSTRUCTED object: `num_wires` for `on` of PhaseFactorGate / PrepareGate /
GeneralGate, the length of the control pattern for `set_control` of a ControlledGate, `ncontrols` for a MultiplexedGate, 1
(`num_aux_qubits`) for `set_auxiliary_qubits` – in terms of the tree the unitarity theorems are about -/
theorem C01_bind_required_arity (e : Expr) (o : Obj) (h : construct e = .ok o) :
    (∀ ps, o.bind = .list ps → requiredArity o = o.nw) ∧
    (∀ cs t, o.tree = .controlled cs t → requiredArity o = cs.length ∧ HasMethod o.bind .setControl) ∧
    (∀ nc ts, o.tree = .multiplexed nc ts → requiredArity o = nc ∧ HasMethod o.bind .setControl) ∧
    (∀ w m hh s, o.tree = .block w m hh s → requiredArity o = 1 ∧ HasMethod o.bind .setAux) := by
  have hb := (eval_built e o h).topMatches
  obtain ⟨tree, nw, st, b⟩ := o
  simp only at hb ⊢
  refine ⟨?_, ?_, ?_, ?_⟩
  · rintro ps rfl; rfl
  · rintro cs t rfl
    cases b <;> simp only [TopMatches] at hb
    subst hb
    exact ⟨rfl, rfl⟩
  · rintro nc ts rfl
    cases b <;> simp only [TopMatches] at hb
    subst hb
    exact ⟨rfl, rfl⟩
  · rintro w m hh s rfl
    cases b <;> simp only [TopMatches] at hb
    exact ⟨rfl, rfl⟩

/-- **binding never changes the gate**: an accepted call leaves the tree – hence `as_matrix()` –, `num_wires` and the status untouched -/
theorem C01_bind_preserves_matrix (o : Obj) (c : Call) (o' : Obj) (h : applyCall o c = .ok o') :
    o'.tree = o.tree ∧ o'.tree.mat = o.tree.mat ∧ o'.nw = o.nw ∧ o'.status = o.status := by
  obtain ⟨_, _, rfl⟩ := (applyCall_ok_iff ..).mp h
  exact ⟨rfl, rfl, rfl, rfl⟩

/-- what an accepted call overwrites: the particle list of the object itself – never `ncontrols`, never the binding of a target gate -/
theorem C01_bind_overwrites (c : Call) :
    (∀ ps, newBind (.list ps) c = .list c.args.eff) ∧ (∀ ps, newBind (.aux ps) c = .aux c.args.eff) ∧
    (∀ nc cq t, newBind (.ctrl nc cq t) c = .ctrl nc c.args.eff t) ∧
    (∀ nc cq ts, newBind (.mplx nc cq ts) c = .mplx nc c.args.eff ts) :=
  ⟨fun _ => rfl, fun _ => rfl, fun _ _ _ => rfl, fun _ _ _ => rfl⟩

/-- `particles()` after `set_control`: the control qubits just passed, followed by the particles of the (unchanged) target -/
theorem C01_bind_particles_controlled (nc : ℕ) (cq : List Slot) (t : Bind) (c : Call) :
    (newBind (.ctrl nc cq t) c).particles = c.args.eff ++ t.particles := by
  show (Bind.ctrl nc c.args.eff t).particles = _
  rw [Bind.particles]

/-- the `*args` methods accept the particles as one sequence or as separate arguments alike -/
theorem C01_bind_argument_forms (ps : List Slot) : (CallArgs.seq ps).eff = (CallArgs.pos ps).eff := rfl

/-! ### non-vacuity: concrete expressions -/

open Qib.Gate.Example in
/-- `ControlledGate(MultiplexedGate([PauliXGate(), SGate()], 1), 2, [1, 0]).set_control([q3, q4])` -/
def exampleExpr : Expr :=
  .call (.controlled (.multiplexed [.leaf "PauliXGate" X X true .none, .leaf "SGate" S Sdg false .none] 1) 2 (some [1, 0]))
    ⟨.setControl, .seq [.particle 3, .particle 4]⟩

open Qib.Gate.Example in
example : construct exampleExpr =
    .ok ⟨tree1, 4, .ok, .ctrl 2 [.particle 3, .particle 4] (.mplx 1 [] [.one .none, .one .none])⟩ := by rfl

open Qib.Gate.Example in
/-- the constructed object satisfies the payload assumptions, so `C01_construct_unitary` applies to it: a unitary `16 × 16` matrix -/
example : ∃ o, construct exampleExpr = .ok o ∧ o.status ≠ .raises ∧ o.tree.PayloadOK ∧
    o.tree.mat.mul o.tree.mat.adjoint = Mat.one 16 := by
  refine ⟨⟨tree1, 4, .ok, .ctrl 2 [.particle 3, .particle 4] (.mplx 1 [] [.one .none, .one .none])⟩, by rfl, by decide,
    ((C01_wf_iff _).mp tree1_wf).2, ?_⟩
  have := (C01_construct_unitary_exec exampleExpr _ (by rfl) (by decide) ((C01_wf_iff _).mp tree1_wf).2).1
  exact this

open Qib.Gate.Example in
/-- the argument-level hypothesis is satisfiable too, so `C01_construct_unitary_of_arguments` is not vacuous -/
example : exampleExpr.PayloadOK :=
  .call _ _ (.controlled _ _ _ (.multiplexed _ _ (by
    intro tg htg
    simp only [List.mem_cons, List.not_mem_nil, or_false] at htg
    rcases htg with rfl | rfl
    · exact .leaf _ _ _ _ _ ((C01_wf_iff _).mp leafX_wf).2
    · exact .leaf _ _ _ _ _ ((C01_wf_iff _).mp leafS_wf).2)))

/-- every rejection class occurs: `ValueError` (pattern entry 2), `TypeError` (`PauliXGate().on()`), `AttributeError`
(`PauliXGate().set_control(q)`), and the exception of the FIRST failing list element wins -/
example : construct (.controlled (.leaf "PauliXGate" Example.X Example.X true .none) 1 (some [2])) = .error .valueError := by rfl
example : construct (.call (.leaf "PauliXGate" Example.X Example.X true .none) ⟨.on, .pos []⟩) = .error .typeError := by rfl
example : construct (.call (.leaf "PauliXGate" Example.X Example.X true .none) ⟨.setControl, .pos [.particle 1]⟩) =
    .error .attributeError := by rfl
example : construct (.multiplexed [.call (.leaf "PauliXGate" Example.X Example.X true .none) ⟨.on, .pos []⟩,
    .rotation [2] .none default default] 1) = .error .typeError := by rfl
example : construct (.multiplexed [.rotation [2] .none default default,
    .call (.leaf "PauliXGate" Example.X Example.X true .none) ⟨.on, .pos []⟩] 1) = .error .valueError := by rfl
/-- wrong arity of `set_control`: two controls, one qubit passed -/
example : construct (.call (.controlled (.leaf "PauliXGate" Example.X Example.X true .none) 2 none) ⟨.setControl, .seq [.particle 0]⟩) =
    .error .valueError := by rfl
/-- the hypotheses of the acceptance characterisations are satisfiable -/
example : CtrlArgsOK 3 (some [1, 0, 1]) := ⟨rfl, by decide⟩
example : ¬ CtrlArgsOK 1 (some [2]) := fun h => by have := h.2 2 (by simp); norm_num at this
example : ¬ CtrlArgsOK (-1) none := fun h => absurd (show (0 : ℤ) ≤ -1 from h) (by decide)

end Qib.C01Ctor
