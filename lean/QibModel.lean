import QibModel.BackendOps
import QibModel.GateOps
