import QibModel.BackendOps
