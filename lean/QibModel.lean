import QibModel.Driver
