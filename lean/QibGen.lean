import QibGen.Tables
