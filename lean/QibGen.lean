import QibGen.Tables
import QibGen.GateFlags
import QibGen.GatesReal
