import QibModel.Lattice
import QibModel.LatticeShift
import QibModel.Json
/-! Driver ops `lat.nsites`, `lat.adj`, `lat.i2c`, `lat.c2i` (C14). A rejection made by the code is an
ordinary reply `{"raised": kind}`; only malformed requests are driver errors. -/
open Lean
namespace Qib.Lattice
open Qib.J

def Err.toStr : Err → String
  | .valueError => "ValueError" | .assertion => "Assertion" | .notImplemented => "NotImplemented" | .other => "Other"

def raisedJson (e : Err) : Json := Json.mkObj [("raised", .str e.toStr)]

def parsePbc (j : Json) : Except String PbcSpec :=
  match j with
  | .bool b => .ok (.all b)
  | _ => do return .per (← listOf J.bool j)

def parseConv (j : Json) : Except String Conv :=
  match j with
  | .str "cols" => .ok .cols
  | .str "rows" => .ok .rows
  | _ => .error "bad convention"

/-- lattice description → construction result (outer `Except`: malformed request) -/
partial def parseLat (j : Json) : Except String (Except Err Lat) := do
  let cls ← fStr j "cls"
  match cls with
  | "integer" => return mkInteger (← listOf J.nat (← field j "shape")) (← parsePbc (← field j "pbc"))
  | "triangular" => return mkTriangular (← listOf J.nat (← field j "shape")) (← parsePbc (← field j "pbc"))
  | "ofc" => return mkOfc (← listOf J.nat (← field j "shape")) (← parsePbc (← field j "pbc"))
  | "brick" =>
    let pt := match (← field j "pbc") with | .bool true => true | _ => false
    return mkBrick (← listOf J.nat (← field j "shape")) pt (← fBool j "delete") (← parseConv (← field j "conv"))
  | "hex" =>
    let pt := match (← field j "pbc") with | .bool true => true | _ => false
    return mkHex (← listOf J.nat (← field j "shape")) pt (← parseConv (← field j "conv"))
  | "full" => return .ok (.full (← listOf J.nat (← field j "shape")))
  | "custom" => return mkCustom (← listOf J.nat (← field j "shape")) (← listOf (listOf J.int) (← field j "adj"))
  | "layered" =>
    match ← parseLat (← field j "base") with
    | .error e => return .error e
    | .ok base => return mkLayered base (← fInt j "nlayers")
  | _ => .error s!"unknown lattice class {cls}"

def natJ (n : Nat) : Json := Json.num (JsonNumber.fromNat n)
def intJ (n : Int) : Json := Json.num (JsonNumber.fromInt n)

def withLat (j : Json) (f : Lat → Except String Json) : Except String Json := do
  match ← parseLat (← field j "lat") with
  | .error e => return raisedJson e
  | .ok l => f l

def opNsites (j : Json) : Except String Json := withLat j fun l => return natJ l.nsites

def opAdj (j : Json) : Except String Json := withLat j fun l =>
  return Json.arr (l.adjMatrix.map ofNats).toArray

/-- `lat.shift`: `IntegerLattice(shape, pbc).adjacency_matrix_axis_shift(d, s)` for a list of `(d, s)` arguments -/
def opShift (j : Json) : Except String Json := withLat j fun l => do
  let args ← fList j "args"
  match l with
  | .integer shape pbc =>
    let res ← args.mapM fun a => do
      let d ← fNat a "d"
      let s ← fInt a "s"
      return match axisShiftCall shape pbc d s with
        | .ok m => Json.arr (m.map ofNats).toArray
        | .error e => raisedJson e
    return Json.arr res.toArray
  | _ => .error "lat.shift: integer lattices only"

def opI2c (j : Json) : Except String Json := withLat j fun l => do
  let args ← listOf J.int (← field j "args")
  return Json.arr (args.map fun i => match l.i2c i with
    | .ok c => ofInts c
    | .error e => raisedJson e).toArray

def opC2i (j : Json) : Except String Json := withLat j fun l => do
  let args ← fList j "args"
  let res ← args.mapM fun a => do
    let c ← listOf J.int (← field a "c")
    let f := (fBool a "f").toOption.getD false
    return match l.c2i f c with
      | .ok (some v) => intJ v
      | .ok none => Json.str "None"
      | .error e => raisedJson e
  return Json.arr res.toArray

end Qib.Lattice
