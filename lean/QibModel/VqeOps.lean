import QibModel.Vqe
import QibModel.DriverMain
/-!
Driver ops for C20 (shared executable `drv_algo`; this module only exports `Qib.Vqe.dispatch`):

* `vqe.expect`    `{psi: [[re,im],…], P: Mat}` → `{raised: null | msg, value: [re,im], spec: [re,im]}`
  (`value` = the code's `(ψ̄ᵀ P) ψ`, `spec` = the double sum `Σᵢⱼ conj ψᵢ Pᵢⱼ ψⱼ`)
* `vqe.generator` `{L: nat, Ts: [Mat,…]}` → one entry per `T`: `{G: T − Tᴴ, skew: Gᴴ = −G, commN: [N,G] = 0,
  commT: [N,T] = 0, commSq: Σ|[N,G]ᵢⱼ|²}`
-/
open Lean
namespace Qib.Vqe
open Qib Qib.J

def opExpect (j : Json) : Except String Json := do
  let ψ := (← (← fList j "psi").mapM GQ.ofJson).toArray
  let P ← Mat.ofJson (← field j "P")
  match expect ψ P with
  | .error e => return Json.mkObj [("raised", .str e)]
  | .ok v => return Json.mkObj [("raised", Json.null), ("value", v.toJson), ("spec", (expectSpec ψ P).toJson)]

def genOne (L : Nat) (T : Mat) : Json :=
  let G := quccGenerator T
  Json.mkObj [("G", G.toJson), ("skew", .bool (isSkewAdjoint G)), ("commN", .bool (commutesWithN L G)),
    ("commT", .bool (commutesWithN L T)),
    ("commSq", .str (GQ.ratStr (normSq (commutator (numberOp L) G))))]

def opGenerator (j : Json) : Except String Json := do
  let L ← fNat j "L"
  if L > 6 then .error "L too large for the exact model" else
  let Ts ← (← fList j "Ts").mapM Mat.ofJson
  for T in Ts do
    if T.n != 2 ^ L || T.m != 2 ^ L then throw "T must be 2^L x 2^L"
  return Json.arr (Ts.map (genOne L)).toArray

def dispatch : Dispatch := fun op j =>
  match op with
  | "vqe.expect" => some (opExpect j)
  | "vqe.generator" => some (opGenerator j)
  | _ => none

end Qib.Vqe
