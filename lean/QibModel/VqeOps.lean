import QibModel.Vqe
import QibModel.PauliOps
import QibModel.DriverMain
/-!
Driver ops for C20 (executable `drv_algo`; this module exports `Qib.Vqe.dispatch`):

* `vqe.expect` `{psi: [[re,im],…], strings: [[{z,x,q},[re,im]],…]}` or `{psi, P: Mat}`
  → `{raised: null | "<ExceptionClass>", value: [re,im], spec: [re,im], herm: bool}`
  (`value` = the code's `(ψ̄ᵀ P) ψ`, `spec` = the double sum `Σᵢⱼ conj ψᵢ Pᵢⱼ ψⱼ`, `herm` = `Pᴴ = P` exactly,
  `flag` = `PauliOperator.is_hermitian()` of the Pauli model)
* `vqe.qucc` `{L, exc: "s"|"d"|"sd"|…, params: [[re,im],…]}`
  → `{raised: "<ExceptionClass>", where: "ctor"|"as_matrix"}` or `{raised: null, none: true}` (no branch: `None`) or `{raised: null, terms: [{T, G: T − Tᴴ, skew: Gᴴ = −G, commT: [N,T] = 0,
  commG: [N,G] = 0}, …]}` – one entry per exponential factor, in the order of the product.
-/
open Lean
namespace Qib.Vqe
open Qib Qib.J

def parsePsi (j : Json) : Except String (Array GQ) := do
  return (← (← fList j "psi").mapM GQ.ofJson).toArray

def isHermitianMat (P : Mat) : Bool := P.n == P.m && P.adjoint.beq P

def expectReply (r : Except String GQ) (spec : GQ) (herm flag : Bool) : Json :=
  match r with
  | .error e => Json.mkObj [("raised", .str e)]
  | .ok v => Json.mkObj [("raised", Json.null), ("value", v.toJson), ("spec", spec.toJson), ("herm", .bool herm),
      ("flag", .bool flag)]

def opExpect (j : Json) : Except String Json := do
  let ψ ← parsePsi j
  match j.getObjVal? "strings" with
  | .ok s =>
    let op ← (← list s).mapM fun e => match e with
      | .arr #[p, w] => do return (← Qib.Pauli.parsePS p, ← Qib.Pauli.parseGQ w)
      | _ => .error "expected [string, weight]"
    match op with
    | [] => return expectReply (expectPauli ψ op) 0 false false
    | (P0, _) :: _ =>
      if !(op.all fun e => e.1.z.length == P0.z.length && e.1.x.length == P0.z.length) then
        .error "strings of different lengths (the PauliOperator constructor refuses them)"
      else if P0.z.length > 7 then .error "too many qubits for the exact model" else
      let P := pauliMat P0.z.length op
      return expectReply (expectPauli ψ op) (expectSpec ψ P) (isHermitianMat P) (Qib.Pauli.PauliOp.isHermitian op)
  | .error _ =>
    let P ← Mat.ofJson (← field j "P")
    return expectReply (expect ψ P) (expectSpec ψ P) (isHermitianMat P) false

def termJson (L : Nat) (T : Mat) : Json :=
  let G := quccGenerator T
  Json.mkObj [("T", T.toJson), ("G", G.toJson), ("skew", .bool (isSkewAdjoint G)),
    ("commT", .bool (commutesWithN L T)), ("commG", .bool (commutesWithN L G))]

def opQucc (j : Json) : Except String Json := do
  let L ← fNat j "L"
  if L > 5 then .error "L too large for the exact model" else
  let params := (← (← fList j "params").mapM GQ.ofJson).toArray
  match parseExc (← fStr j "exc") with
  | .error e => return Json.mkObj [("raised", .str e), ("where", .str "ctor")]
  | .ok exc =>
    match quccTerms L exc params with
    | .error "NoneReturned" => return Json.mkObj [("raised", Json.null), ("none", .bool true)]
    | .error e => return Json.mkObj [("raised", .str e), ("where", .str "as_matrix")]
    | .ok Ts =>
      return Json.mkObj [("raised", Json.null), ("none", .bool false), ("nparams", Json.num (JsonNumber.fromNat (numParameters L exc))),
        ("terms", Json.arr (Ts.map (termJson L)).toArray)]

def dispatch : Dispatch := fun op j =>
  match op with
  | "vqe.expect" => some (opExpect j)
  | "vqe.qucc" => some (opQucc j)
  | _ => none

end Qib.Vqe
