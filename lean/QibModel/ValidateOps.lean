import QibModel.Validate
import QibModel.BackendOps
import QibModel.Json
/-! Driver ops `wmi.validate`, `wmi.qobj`, `wmi.counts`, `wmi.submit` (C18). -/
open Lean
namespace Qib.Wmi
open Qib.J QibGen

def parseInstr (j : Json) : Except String Instr := do
  let name ← fStr j "name"
  let qubits ← (← fList j "qubits").mapM int
  let params ← match j.getObjVal? "params" with
    | .ok p => (← list p).mapM str
    | .error _ => pure []
  let clbits ← match j.getObjVal? "memory" with
    | .ok p => (← list p).mapM int
    | .error _ => pure []
  return { name, qubits, params, clbits }

def parseTuples (j : Json) : Except String (List (List Int)) := do
  (← list j).mapM fun t => do (← list t).mapM int

def parseGateProps (j : Json) : Except String GateProps := do
  return { name := ← fStr j "name", qubits := ← parseTuples (← field j "qubits"), nparams := ← fNat j "nparams" }

/-- `"qsim"` / `"qc"`: the generated shipped configurations; an object: an arbitrary configuration -/
def parseConfig (j : Json) : Except String ProcConfig :=
  match j with
  | .str "qsim" => .ok qsimConfig
  | .str "qc" => .ok qcConfig
  | .obj _ => do
    return { basisGates := ← (← fList j "basis").mapM str,
             gates := ← (← fList j "gates").mapM parseGateProps,
             couplingMap := ← parseTuples (← field j "coupling"),
             nQubits := ← fNat j "n_qubits", maxShots := ← fNat j "max_shots" }
  | _ => .error "bad config"

def Err.toStr : Err → String
  | .shots => "shots" | .unsupported => "unsupported" | .unconfigured => "unconfigured"
  | .qubitTuple => "qubitTuple" | .paramCount => "paramCount" | .coupling => "coupling" | .range => "range"

def natJ (n : Nat) : Json := Json.num (JsonNumber.fromNat n)
def intJ (n : Int) : Json := Json.num (JsonNumber.fromInt n)

def qinstrJson (q : QInstr) : Json :=
  Json.mkObj [("name", .str q.name), ("qubits", ofInts q.qubits), ("params", ofStrs q.params), ("memory", ofInts q.memory)]

def qobjJson (q : Qobj) : Json :=
  Json.mkObj [
    ("qubit_labels", ofInts q.qubitLabels),
    ("n_qubits", Json.arr #[natJ q.nQubitsHeader, natJ q.qregSize, natJ q.nQubitsExpConfig, natJ q.nQubitsConfig]),
    ("clbit_labels", ofInts q.clbitLabels),
    ("memory_slots", Json.arr #[natJ q.memorySlotsHeader, natJ q.cregSize, natJ q.memorySlotsExpConfig, natJ q.memorySlotsConfig]),
    ("instructions", Json.arr (q.instructions.map qinstrJson).toArray),
    ("shots", intJ q.shots)]

def resJson (r : Except Err Unit) : Json :=
  match r with | .ok () => .str "ok" | .error e => .str (Err.toStr e)

def opValidate (j : Json) : Except String Json := do
  let cfg ← parseConfig (← field j "config")
  let shots ← fInt j "shots"
  let instrs ← (← fList j "instrs").mapM parseInstr
  return Json.mkObj [("res", resJson (validate cfg shots instrs)),
    ("valid", .bool (decide (Valid cfg shots instrs))),
    ("qobj", qobjJson (qobj shots instrs))]

def opQobj (j : Json) : Except String Json := do
  let shots ← fInt j "shots"
  let instrs ← (← fList j "instrs").mapM parseInstr
  return qobjJson (qobj shots instrs)

def opCounts (j : Json) : Except String Json := do
  let instrs ← (← fList j "instrs").mapM parseInstr
  let items ← (← fList j "items").mapM fun it => do
    match it with
    | .arr #[.str k, v] => do return (k.toList, ← int v)
    | _ => .error "bad item"
  let n := (particles instrs).length
  match countsBinary n items with
  | none => return Json.mkObj [("n", natJ n), ("raised", .str "ValueError")]
  | some d => return Json.mkObj [("n", natJ n),
      ("items", Json.arr (d.map fun (k, v) => Json.arr #[.str (String.ofList k), intJ v]).toArray)]

def opSubmit (j : Json) : Except String Json := do
  let cfg ← parseConfig (← field j "config")
  let shots ← fInt j "shots"
  let instrs ← (← fList j "instrs").mapM parseInstr
  let os ← (← fList j "outcomes").mapM Backend.parseOutcome
  let (r, w) := submitExperiment cfg shots instrs nwMaxRetries os
  let (vj, sj) : Json × Json := match r with
    | .error e => (.str (Err.toStr e), Json.null)
    | .ok (.ret ()) => (.str "ok", .str "ok")
    | .ok (.raised e) => (.str "ok", Json.arr #[.str "raised", .str (Backend.Err.toStr e)])
    | .ok .none => (.str "ok", .str "none")
  return Json.mkObj [("res", vj), ("submit", sj), ("requests", natJ w.requests),
    ("valid", .bool (decide (Valid cfg shots instrs))),
    ("qobj", qobjJson (qobj shots instrs))]

def opCtrlName (j : Json) : Except String Json := do
  let target ← fStr j "target"
  let cs ← (← fList j "ctrl_state").mapM fun b => do return (← nat b) != 0
  return match ctrlQasmName target cs with
    | some nm => Json.mkObj [("name", .str nm)]
    | none => Json.mkObj [("raised", .str "NotImplemented")]

end Qib.Wmi
