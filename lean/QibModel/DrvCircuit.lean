import QibModel.DriverMain
import QibModel.EmbedOps
/-! Executable `drv_circuit`: ops of Core B (C04 embedding, C05 circuit matrix / builder histories).
Further circuit views (tensor network, simulators) are added to this dispatch table. -/
open Lean Qib

def circuitDispatch : Dispatch := fun op j =>
  match op with
  | "embed" => some (Embed.opEmbed j)
  | "gate.circuit_matrix" => some (Embed.opGateCircuitMatrix j)
  | "wire" => some (Embed.opWire j)
  | "permute" => some (Embed.opPermute j)
  | "circuit.matrix" => some (Embed.opCircuitMatrix j)
  | "circuit.history" => some (Embed.opCircuitHistory j)
  | "sim.statevector" => some (Embed.opStatevector j)
  | "circuit.inverse" => some (Embed.opCircuitInverse j)
  | _ => none

def main : IO Unit := driverMain circuitDispatch
