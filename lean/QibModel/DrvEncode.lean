import QibModel.DriverMain
import QibModel.EncodeOps
open Lean Qib

def encodeDispatch : Dispatch := fun op j =>
  match op with
  | "jw.encode" => some (Encode.opEncode .jw j)
  | "parity.encode" => some (Encode.opEncode .parity j)
  | "jw.ladder" => some (Encode.opLadder .jw j)
  | "parity.ladder" => some (Encode.opLadder .parity j)
  | _ => none

def main : IO Unit := driverMain encodeDispatch
