import QibModel.Encode
import QibModel.PauliOps
import QibModel.Json
/-!
Driver ops of the encoders (C11, C12): `jw.encode`, `parity.encode`, `jw.ladder`, `parity.ladder`.

Request of `*.encode`:
`{"fields": [[fermion?, nsites], …], "terms": [{"ops": [[fieldId, "C"|"A"|"O"], …], "shape": […],
  "entries": [[[j₀, j₁, …], [re, im]], …]}, …], "tol": "p/q"}`
Reply `{"val": {"strings": [[text, {z,x,q}, [re, im]], …], "raw": n}}` (`raw` = number of strings before
pruning) or `{"raised": "<ExceptionClass>"}`.
`*.ladder` `{"L": n}`: for every site `[s₀, s₁ᶜ, s₁ᵃ]`, and the encoded single ladder operators
(creation, annihilation) exactly as `*.encode` would return them, and the non-zero entries `[r, c, value]` of the reference
ladder matrices (`refcreate`, `refannihil`; flat indices, site 0 most significant).
-/
open Lean
namespace Qib.Encode
open Qib.J Qib.Pauli

def parseOType (j : Json) : Except String OType :=
  match j with
  | .str "C" => .ok .create
  | .str "A" => .ok .annihil
  | .str "O" => .ok .other
  | _ => .error "expected operator type C/A/O"

def parseDesc (j : Json) : Except String Desc :=
  match j with
  | .arr #[f, t] => do return ⟨← nat f, ← parseOType t⟩
  | _ => .error "expected [field, otype]"

def parseField (j : Json) : Except String FieldSpec :=
  match j with
  | .arr #[f, n] => do return ⟨← bool f, ← nat n⟩
  | _ => .error "expected [fermion, nsites]"

def parseEntry (j : Json) : Except String (List Nat × GQ) :=
  match j with
  | .arr #[idx, c] => do return (← listOf nat idx, ← parseGQ c)
  | _ => .error "expected [multi_index, coeff]"

def parseTerm (j : Json) : Except String (Term GQ) := do
  let ops ← (← fList j "ops").mapM parseDesc
  let shape ← (← fList j "shape").mapM nat
  let entries ← (← fList j "entries").mapM parseEntry
  return ⟨ops, shape, entries⟩

def parseFieldOp (j : Json) : Except String (FieldOp GQ) := do
  let fields ← (← fList j "fields").mapM parseField
  let terms ← (← fList j "terms").mapM parseTerm
  return ⟨fields, terms⟩

def raisedE (e : Err) : Json := Json.mkObj [("raised", .str e.toStr)]

def opEncode (enc : Enc) (j : Json) : Except String Json := do
  let fop ← parseFieldOp j
  let tol ← parseRat (← field j "tol")
  match encodeRaw enc fop with
  | .error e => return raisedE e
  | .ok raw =>
    match encode enc (fun w => w.absLe tol) fop with
    | .error e => return raisedE e
    | .ok op => return val (Json.mkObj [("strings", opJson op), ("raw", jNat raw.length)])

/-- the operator `a†_i` / `a_i` on one fermionic field with `L` sites -/
def singleLadder (L i : Nat) (create : Bool) : FieldOp GQ :=
  ⟨[⟨true, L⟩], [⟨[⟨0, if create then .create else .annihil⟩], [L],
    (List.range L).map fun k => ([k], if k = i then (1 : GQ) else 0)⟩]⟩

def refJson (l : List (Nat × Nat × Int)) : Json :=
  .arr (l.map fun (r, c, v) => Json.arr #[jNat r, jNat c, jInt v]).toArray

def opLadder (enc : Enc) (j : Json) : Except String Json := do
  let L ← fNat j "L"
  let sites := (List.range L).map fun i =>
    let encd (c : Bool) : Json := match encode enc (fun w => w.absLe 0) (singleLadder L i c) with
      | .error e => raisedE e
      | .ok op => opJson op
    Json.mkObj [("s0", psJson (s0 enc L i)), ("s1c", psJson (s1c enc L i)), ("s1a", psJson (s1a enc L i)),
      ("create", encd true), ("annihil", encd false),
      ("refcreate", refJson (ladderSparse L i true)), ("refannihil", refJson (ladderSparse L i false))]
  return val (.arr sites.toArray)

end Qib.Encode
