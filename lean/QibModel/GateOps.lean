import QibModel.Gate
import QibModel.DriverMain
/-! Driver ops `gate.mat`, `gate.inverse`, `gate.herm`, `gate.ctrlindex` (C01, C02, C03, C16). -/
open Lean
namespace Qib.Gate
open Qib Qib.J

def parseMethod (s : String) : Except String Method :=
  match s with
  | "Wx" => .ok .Wx | "Wxi" => .ok .Wxi | "R" => .ok .R
  | _ => .error s!"bad method {s}"

def parseBools (j : Json) : Except String (List Bool) := do
  (← list j).mapM fun x => do
    let n ← nat x
    if n == 0 then pure false else if n == 1 then pure true else .error "control bit must be 0 or 1"

partial def parseTree (j : Json) : Except String Tree := do
  let k ← fStr j "k"
  match k with
  | "leaf" => return .leaf (← fStr j "cls") (← fNat j "w") (← Mat.ofJson (← field j "m")) (← Mat.ofJson (← field j "mi")) (← fBool j "flag")
  | "general" => return .general (← fNat j "w") (← Mat.ofJson (← field j "m"))
  | "timeevo" => return .timeEvo (← fNat j "w") (← Mat.ofJson (← field j "m")) (← Mat.ofJson (← field j "mi"))
  | "prepare" =>
    let x ← (← fList j "x").mapM fun v => do GQ.parseRat (← str v)
    return .prepare (← fNat j "w") (← Mat.ofJson (← field j "q")) x (← fBool j "transpose")
  | "block" => return .block (← fNat j "w") (← parseMethod (← fStr j "method")) (← Mat.ofJson (← field j "h")) (← Mat.ofJson (← field j "s"))
  | "controlled" => return .controlled (← parseBools (← field j "cs")) (← parseTree (← field j "t"))
  | "multiplexed" => return .multiplexed (← fNat j "nc") (← (← fList j "ts").mapM parseTree)
  | _ => .error s!"bad tree kind {k}"

def opGateAll (j : Json) : Except String Json := do
  let t ← parseTree (← field j "tree")
  let inv := t.inverse
  return Json.mkObj [
    ("mat", t.mat.toJson), ("wires", Json.num (JsonNumber.fromNat t.wires)),
    ("inv", inv.mat.toJson), ("invwires", Json.num (JsonNumber.fromNat inv.wires)),
    ("invinv", inv.inverse.mat.toJson),
    ("herm", .bool t.herm), ("invherm", .bool inv.herm)]

def opCtrlIndex (j : Json) : Except String Json := do
  let cs ← parseBools (← field j "cs")
  return Json.num (JsonNumber.fromNat (ctrlIndex cs))

def dispatch : Dispatch := fun op j =>
  match op with
  | "gate.all" => some (opGateAll j)
  | "gate.ctrlindex" => some (opCtrlIndex j)
  | _ => none

end Qib.Gate
