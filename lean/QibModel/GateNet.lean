import QibModel.TNet
/-!
Core C / property C06 — the tensor network of a gate (`as_tensornet` of every class in
`src/qib/operator/gates.py`), Mathlib-free and executable, generic in the scalar type.

What is mirrored:
* `TensorNetwork.wrap(a, dataref)` (`tensor_network.py:17-30`): one tensor with id 0, the virtual tensor -1 with the
  same shape and bond ids `0..ndim-1`, one bond `(-1, 0)` per axis;
* elementary gates: `wrap(self.as_matrix(), name)` – the *matrix* is wrapped, so the network has two open axes of
  dimension `2^num_wires` (for the two-qubit classes Rxx/Ryy/Rzz/iSWAP that is 2 axes of dimension 4, see
  `known_findings.json`, C06);
* `GeneralGate`, `TimeEvolutionGate`: `wrap(reshape(as_matrix(), 2*n*(2,)), hash)`;
* `PhaseFactorGate` (gates.py:1659-1675), `PrepareGate` (1801-1825), `MultiplexedGate` (2756-2792);
* `ControlledGate` (1974-2097): flattening of nested controlled gates, the stacked target tensor, the wire-crossing
  tensors `ctrl_cross_pos/neg`, the Pauli-X sandwich for a negated first control, the chain of vertical bonds; zero
  controls raise `IndexError` (`self.ctrl_state[0]`); `BlockEncodingGate` raises `NotImplementedError`.

The construction is written in closed form (the final dictionaries, in the code's insertion order and with the code's
bond ids) instead of replaying the in-place edits of `bids`; the correspondence check compares tensors, bonds and
data with the implementation on every run.

Data references (Python strings, partly `hash(...)` values) are canonicalised: the reference of tensor 0 is `0`,
`"PauliX"` is `1`, `"ctrl_cross_neg"` is `2`, `"ctrl_cross_pos"` is `3`, `"|0>_2"` is `4`.
-/
namespace Qib.GateNet
open Qib.TNet

inductive GErr where
  | indexError | zeroDivision | notImplemented | valueError
  deriving DecidableEq, Repr

def GErr.toStr : GErr → String
  | .indexError => "IndexError" | .zeroDivision => "ZeroDivisionError"
  | .notImplemented => "NotImplemented" | .valueError => "ValueError"

/-! ### index conventions -/

/-- position of the multi-index `bs` in a row-major array whose axes all have dimension 2
(`np.reshape(m, k*(2,))`): the first axis is the most significant bit -/
def bitsVal (bs : List Nat) : Nat := bs.foldl (fun a b => 2 * a + b) 0

/-- the control index of `ControlledGate.as_matrix`: `for j: if ctrl_state[j] == 1: ic += 1 << (nc-1-j)`
(same definition as `Qib.Gate.ctrlIndex`) -/
def ctrlIndex (cs : List Bool) : Nat :=
  let nc := cs.length
  (List.range nc).foldl (fun ic j => if cs.getD j false then ic + (1 <<< (nc - 1 - j)) else ic) 0

def rep2 (k : Nat) : List Nat := List.replicate k 2
def irange (k : Nat) : List Int := (List.range k).map Int.ofNat
def irange' (s k : Nat) : List Int := (List.range' s k).map Int.ofNat

section
variable {α : Type} [Zero α] [One α] [Add α] [Mul α]

/-! ### gate descriptions and their matrices -/

/-- A gate as far as `as_tensornet` / `as_matrix` / `num_wires` look at it. Matrices are functions of flat
row/column indices (first wire = most significant bit).
* `leaf`: every class whose network is `wrap(self.as_matrix(), …)` (Identity, Pauli X/Y/Z, Hadamard, Sx, Rx, Ry, Rz,
  Rotation, S, S†, T, T† with `w = 1`; Rxx, Ryy, Rzz, iSWAP with `w = 2`);
* `dense`: `GeneralGate`, `TimeEvolutionGate` (matrix reshaped to one axis per wire before wrapping);
* `phase n u un`: `PhaseFactorGate(φ, n)`, `u = exp(iφ)` (matrix entry), `un = exp(iφ/n)` (network entry);
* `prepare n x m tr`: `PrepareGate`, `x = sign(v)·√|v|`, `m = as_matrix()`;
* `block`: `BlockEncodingGate` (no network). -/
inductive G (α : Type) where
  | leaf (w : Nat) (m : Nat → Nat → α)
  | dense (w : Nat) (m : Nat → Nat → α)
  | phase (n : Nat) (u un : α)
  | prepare (n : Nat) (x : Nat → α) (m : Nat → Nat → α) (tr : Bool)
  | block (w : Nat) (m : Nat → Nat → α)
  | controlled (cs : List Bool) (t : G α)
  | multiplexed (nc : Nat) (ts : List (G α))

mutual
/-- `num_wires` -/
def G.wires : G α → Nat
  | .leaf w _ => w
  | .dense w _ => w
  | .phase n _ _ => n
  | .prepare n _ _ _ => n
  | .block w _ => w
  | .controlled cs t => t.wires + cs.length
  | .multiplexed nc ts => wiresHead ts + nc
def wiresHead : List (G α) → Nat
  | [] => 0
  | t :: _ => t.wires
end

/-- `ControlledGate.as_matrix`: `kron(diag(1 - e_ic), 1) + kron(diag(e_ic), U)` entrywise, `d` = dimension of `U` -/
def ctrlMat (cs : List Bool) (d : Nat) (U : Nat → Nat → α) : Nat → Nat → α :=
  fun i j => if i / d = j / d then
      (if i / d = ctrlIndex cs then U (i % d) (j % d) else (if i % d = j % d then 1 else 0))
    else 0

/-- the `k`-th matrix of a list (zero matrix beyond the end) -/
def pick (Us : List (Nat → Nat → α)) (k : Nat) : Nat → Nat → α :=
  match Us[k]? with
  | some U => U
  | none => fun _ _ => 0

/-- `scipy.linalg.block_diag` of square blocks of dimension `d` -/
def blockDiag (d : Nat) (Us : List (Nat → Nat → α)) : Nat → Nat → α :=
  fun i j => if i / d = j / d then pick Us (i / d) (i % d) (j % d) else 0

mutual
/-- `as_matrix` -/
def G.mat : G α → Nat → Nat → α
  | .leaf _ m => m
  | .dense _ m => m
  | .phase _ u _ => fun i j => if i = j then u else 0
  | .prepare _ _ m _ => m
  | .block _ m => m
  | .controlled cs t => ctrlMat cs (2 ^ t.wires) t.mat
  | .multiplexed _ ts => blockDiag (2 ^ wiresHead ts) (matList ts)
def matList : List (G α) → List (Nat → Nat → α)
  | [] => []
  | t :: ts => t.mat :: matList ts
end

def wiresList : List (G α) → List Nat
  | [] => []
  | t :: ts => t.wires :: wiresList ts

/-- the recursion at the head of `ControlledGate.as_tensornet`: a controlled gate whose target is a controlled
gate is replaced by one controlled gate with the concatenated control pattern -/
def flattenCtrl : List Bool → G α → List Bool × G α
  | cs, .controlled cs' t => flattenCtrl (cs ++ cs') t
  | cs, .leaf w m => (cs, .leaf w m)
  | cs, .dense w m => (cs, .dense w m)
  | cs, .phase n u un => (cs, .phase n u un)
  | cs, .prepare n x m tr => (cs, .prepare n x m tr)
  | cs, .block w m => (cs, .block w m)
  | cs, .multiplexed nc ts => (cs, .multiplexed nc ts)

/-! ### tensor entries (the arrays stored in the `data` dictionary, as functions of the multi-index) -/

/-- a matrix as a two-axis tensor -/
def leafSem (m : Nat → Nat → α) (idx : List Nat) : α :=
  match idx with
  | [r, c] => m r c
  | _ => 0

/-- `np.reshape(m, 2*w*(2,))` -/
def denseSem (w : Nat) (m : Nat → Nat → α) (idx : List Nat) : α :=
  m (bitsVal (idx.take w)) (bitsVal (idx.drop w))

/-- `np.exp(1j*phi/nwires) * np.identity(2)` -/
def phaseSem (un : α) (idx : List Nat) : α :=
  match idx with
  | [a, b] => if a = b then un else 0
  | _ => 0

/-- `np.array([1., 0.])` -/
def ket0Sem (idx : List Nat) : α :=
  match idx with
  | [0] => 1
  | _ => 0

/-- `np.array([[0., 1.], [1., 0.]])` -/
def xSem (idx : List Nat) : α :=
  match idx with
  | [0, 1] => 1
  | [1, 0] => 1
  | _ => 0

/-- non-zero entries of `ctrl_cross_pos` / `ctrl_cross_neg`
(axes: physical output wire, physical input wire, upward axis, downward axis) -/
def crossTab (pos : Bool) : List (List Nat) :=
  if pos then [[0, 0, 0, 0], [1, 1, 1, 1], [0, 0, 1, 0], [1, 1, 0, 0]]
  else [[1, 1, 0, 0], [0, 0, 1, 1], [1, 1, 1, 0], [0, 0, 0, 0]]

def crossSem (pos : Bool) (idx : List Nat) : α := if (crossTab pos).contains idx then 1 else 0

/-- `np.stack((reshape(identity), reshape(tgate.as_matrix())), axis=0)` -/
def ctgSem (nt : Nat) (U : Nat → Nat → α) (idx : List Nat) : α :=
  match idx with
  | [] => 0
  | a :: rest =>
    let r := bitsVal (rest.take nt)
    let c := bitsVal (rest.drop nt)
    if a = 0 then (if r = c then 1 else 0) else U r c

/-- `np.reshape(np.stack([g.as_matrix() for g in tgates]), nc*(2,) + 2*nt*(2,))` -/
def mtgSem (nc nt : Nat) (Us : List (Nat → Nat → α)) (idx : List Nat) : α :=
  pick Us (bitsVal (idx.take nc)) (bitsVal ((idx.drop nc).take nt)) (bitsVal ((idx.drop nc).drop nt))

/-! ### networks -/

/-- `TensorNetwork`: symbolic network + data dictionary (insertion order, canonical references) -/
structure TN (α : Type) where
  net : Net
  data : List (Int × DT α)

/-- the entry `idx` of the array stored under reference `r` -/
def TN.D (tn : TN α) (r : Option Int) (idx : List Nat) : α :=
  match r with
  | none => 0
  | some k => match tn.data.lookup k with
    | some d => d.get idx
    | none => 0

/-- `TensorNetwork.is_consistent`: symbolic consistency, every data reference present with the tensor's shape -/
def isConsistentData (tn : TN α) : Except TNet.Err Bool := do
  if !(← isConsistent tn.net) then return false
  return tn.net.tensors.all (fun e => e.2.tid == -1 ||
    match e.2.dataref with
    | none => false
    | some r => match tn.data.lookup r with
      | none => false
      | some d => d.shape == e.2.shape)

/-- symbolic part of `TensorNetwork.wrap(a, dataref)` for an array of the given shape -/
def wrapNet (shape : List Nat) : Net :=
  { tensors := [(0, ⟨0, shape, irange shape.length, some 0⟩), (-1, ⟨-1, shape, irange shape.length, none⟩)],
    bonds := (List.range shape.length).map (fun i => (Int.ofNat i, ⟨Int.ofNat i, [-1, 0]⟩)) }

def wrapTN (shape : List Nat) (sem : List Nat → α) : TN α :=
  { net := wrapNet shape, data := [(0, DT.ofFn shape sem)] }

/-- `PhaseFactorGate.as_tensornet` (`n ≥ 1`) -/
def phaseNet (n : Nat) : Net :=
  { tensors := (List.range n).map (fun i =>
        (Int.ofNat i, ⟨Int.ofNat i, [2, 2], [2 * Int.ofNat i, 2 * Int.ofNat i + 1], some 0⟩)) ++
      [(-1, ⟨-1, rep2 (2 * n),
        (List.range n).map (fun i => 2 * Int.ofNat i) ++ (List.range n).map (fun i => 2 * Int.ofNat i + 1), none⟩)],
    bonds := (List.range n).flatMap (fun i =>
        [(2 * Int.ofNat i, ⟨2 * Int.ofNat i, [-1, Int.ofNat i]⟩),
         (2 * Int.ofNat i + 1, ⟨2 * Int.ofNat i + 1, [-1, Int.ofNat i]⟩)]) }

/-- `PrepareGate.as_tensornet` -/
def prepareNet (n : Nat) (tr : Bool) : Net :=
  { tensors := [(0, ⟨0, rep2 n, irange n, some 0⟩)] ++
      (List.range n).map (fun i => (1 + Int.ofNat i, ⟨1 + Int.ofNat i, [2], [Int.ofNat n + Int.ofNat i], some 4⟩)) ++
      [(-1, ⟨-1, rep2 (2 * n), if tr then irange' n n ++ irange n else irange (2 * n), none⟩)],
    bonds := (List.range n).map (fun i => (Int.ofNat i, ⟨Int.ofNat i, [-1, 0]⟩)) ++
      (List.range n).map (fun i =>
        (Int.ofNat n + Int.ofNat i, ⟨Int.ofNat n + Int.ofNat i, [-1, 1 + Int.ofNat i]⟩)) }

/-- `MultiplexedGate.as_tensornet` -/
def multiplexedNet (nc nt : Nat) : Net :=
  { tensors := [(0, ⟨0, rep2 (nc + 2 * nt), irange' (2 * nt) nc ++ irange (2 * nt), some 0⟩),
      (-1, ⟨-1, rep2 (2 * (nc + nt)),
        irange' (2 * nt) nc ++ irange nt ++ (irange' (2 * nt) nc ++ irange' nt nt), none⟩)],
    bonds := (List.range (2 * nt)).map (fun i => (Int.ofNat i, ⟨Int.ofNat i, [-1, 0]⟩)) ++
      (List.range nc).map (fun i =>
        (Int.ofNat (2 * nt) + Int.ofNat i, ⟨Int.ofNat (2 * nt) + Int.ofNat i, [-1, -1, 0]⟩)) }

/-! #### controlled gates

Bond ids (`bid_next` of the code): `0..2nt-1` target output/input axes; if the first control is negated `2nt`,
`2nt+1` are the outer axes of the two Pauli-X tensors; `off` = the next free id. The wire-crossing tensor of control
`i` (`1 ≤ i < nc`) takes `off+3(i-1)` (physical output), `off+3(i-1)+1` (physical input), `off+3(i-1)+2` (upward
bond); the bond into the target tensor is created last: `off+3(nc-1)`. The downward bond of tensor `i` is the
upward bond of tensor `i+1` (or the last bond). -/

def cOff (nt : Nat) (neg : Bool) : Int := 2 * Int.ofNat nt + (if neg then 2 else 0)
def cOut (off : Int) (i : Nat) : Int := off + 3 * (Int.ofNat i - 1)
def cIn (off : Int) (i : Nat) : Int := off + 3 * (Int.ofNat i - 1) + 1
/-- vertical bond entering position `i` from above (`1 ≤ i ≤ nc`; position `nc` is the target tensor) -/
def cUp (off : Int) (nc i : Nat) : Int :=
  if i = nc then off + 3 * (Int.ofNat nc - 1) else off + 3 * (Int.ofNat i - 1) + 2

/-- wire-crossing tensors for controls `i, i+1, …` with polarities `cs` -/
def crossTensors (off : Int) (nc : Nat) : Nat → List Bool → List (Int × STensor)
  | _, [] => []
  | i, c :: cs =>
    (Int.ofNat i, ⟨Int.ofNat i, [2, 2, 2, 2], [cOut off i, cIn off i, cUp off nc i, cUp off nc (i + 1)],
      some (if c then 3 else 2)⟩) :: crossTensors off nc (i + 1) cs

/-- the three bonds created in iteration `i` of the loop over the controls -/
def crossBonds (off : Int) (nc : Nat) (neg : Bool) : Nat → List Bool → List (Int × SBond)
  | _, [] => []
  | i, _ :: cs =>
    (cOut off i, ⟨cOut off i, [-1, Int.ofNat i]⟩) ::
    (cIn off i, ⟨cIn off i, [-1, Int.ofNat i]⟩) ::
    (cUp off nc i, ⟨cUp off nc i,
      if i = 1 then (if neg then [1, Int.ofNat nc, Int.ofNat nc + 1] else [-1, -1, 1])
      else [Int.ofNat i - 1, Int.ofNat i]⟩) :: crossBonds off nc neg (i + 1) cs

/-- data references of the crossing tensors in order of first use -/
def crossRefs (cs : List Bool) : List Int := (cs.map (fun c => if c then (3 : Int) else 2)).eraseDups

/-- symbolic part of `ControlledGate.as_tensornet` for the control pattern `c0 :: rest` and a target on `nt` wires -/
def ctrlNet (c0 : Bool) (rest : List Bool) (nt : Nat) : Net :=
  let nc := rest.length + 1
  let neg := !c0
  let off := cOff nt neg
  let up := cUp off nc
  let first : Int × Int := if neg then (2 * Int.ofNat nt, 2 * Int.ofNat nt + 1) else (up 1, up 1)
  let vb : List Int :=
    (first.1 :: (List.range' 1 rest.length).map (cOut off)) ++ irange nt ++
    ((first.2 :: (List.range' 1 rest.length).map (cIn off)) ++ irange' nt nt)
  { tensors :=
      [(0, ⟨0, 2 :: rep2 (2 * nt), up nc :: irange (2 * nt), some 0⟩), (-1, ⟨-1, rep2 (2 * (nc + nt)), vb, none⟩)] ++
      (if neg then
        [(Int.ofNat nc, ⟨Int.ofNat nc, [2, 2], [2 * Int.ofNat nt, up 1], some 1⟩),
         (Int.ofNat nc + 1, ⟨Int.ofNat nc + 1, [2, 2], [up 1, 2 * Int.ofNat nt + 1], some 1⟩)]
       else []) ++
      crossTensors off nc 1 rest,
    bonds :=
      (List.range (2 * nt)).map (fun i => (Int.ofNat i, ⟨Int.ofNat i, [-1, 0]⟩)) ++
      (if neg then
        [(2 * Int.ofNat nt, ⟨2 * Int.ofNat nt, [-1, Int.ofNat nc]⟩),
         (2 * Int.ofNat nt + 1, ⟨2 * Int.ofNat nt + 1, [-1, Int.ofNat nc + 1]⟩)]
       else []) ++
      crossBonds off nc neg 1 rest ++
      [(up nc, ⟨up nc, if nc = 1 then (if neg then [0, 1, 2] else [-1, -1, 0]) else [0, Int.ofNat nc - 1]⟩)] }

/-- entries of the arrays of a controlled-gate network, by canonical reference -/
def ctrlSem (nt : Nat) (U : Nat → Nat → α) (r : Int) : List Nat → α :=
  if r = 0 then ctgSem nt U
  else if r = 1 then xSem
  else if r = 2 then crossSem false
  else if r = 3 then crossSem true
  else fun _ => 0

def ctrlTN (c0 : Bool) (rest : List Bool) (nt : Nat) (U : Nat → Nat → α) : TN α :=
  { net := ctrlNet c0 rest nt,
    data := [(0, DT.ofFn (2 :: rep2 (2 * nt)) (ctrlSem nt U 0))] ++
      (if !c0 then [(1, DT.ofFn [2, 2] (ctrlSem nt U 1))] else []) ++
      (crossRefs rest).map (fun r => (r, DT.ofFn [2, 2, 2, 2] (ctrlSem nt U r))) }

def allEq (l : List Nat) : Bool :=
  match l with
  | [] => true
  | x :: xs => xs.all (· == x)

/-- `Gate.as_tensornet()` -/
def gateNet : G α → Except GErr (TN α)
  | .leaf w m => .ok (wrapTN [2 ^ w, 2 ^ w] (leafSem m))
  | .dense w m => .ok (wrapTN (rep2 (2 * w)) (denseSem w m))
  | .phase n _ un =>
    if n = 0 then .error .zeroDivision
    else .ok { net := phaseNet n, data := [(0, DT.ofFn [2, 2] (phaseSem un))] }
  | .prepare n x _ tr =>
    .ok { net := prepareNet n tr,
          data := [(0, DT.ofFn (rep2 n) (fun idx => x (bitsVal idx))), (4, DT.ofFn [2] ket0Sem)] }
  | .block _ _ => .error .notImplemented
  | .controlled cs t =>
    match flattenCtrl cs t with
    | ([], _) => .error .indexError
    | (c0 :: rest, t') => .ok (ctrlTN c0 rest t'.wires t'.mat)
  | .multiplexed nc ts =>
    -- constructor: `len(tgates) == 2**ncontrols`; `np.stack` needs equal shapes
    if ts.length ≠ 2 ^ nc then .error .valueError
    else if !allEq (wiresList ts) then .error .valueError
    else .ok { net := multiplexedNet nc (wiresHead ts),
               data := [(0, DT.ofFn (rep2 (nc + 2 * wiresHead ts)) (mtgSem nc (wiresHead ts) (matList ts)))] }

end

end Qib.GateNet
