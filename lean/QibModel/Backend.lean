import QibGen.Tables
/-!
Model of the WMI experiment life-cycle (`backend/wmi/wmi_experiment.py:40-81,141-151,200-217`)
and of the transport retry loop (`util/networking.py:7-34`).

The status enum, the terminal set, the status-string table and `NW_MAX_RETRIES` are *generated*
from the source (`QibGen.Tables`); the control flow below is hand-written and tied to the code by
the correspondence check (`exp.history`, `http.history`).
-/
namespace Qib.Backend
open QibGen

def Status.isTerminal (s : Status) : Bool := terminalList.contains s

def fromWmi (s : String) : Status :=
  match wmiStatusTable.lookup s with
  | some st => st
  | none => wmiStatusDefault

/-- One scripted outcome of a single low-level `requests.put/post` call. -/
inductive Outcome where
  | ok (status : String) (payload : Nat)   -- a 2xx reply carrying a status string and result payload id
  | timeout                                 -- `request(...)` raises `requests.exceptions.Timeout`
  | httpError                               -- `raise_for_status()` raises `HTTPError`
  | reqError                                -- `raise_for_status()` raises another `RequestException`
  | connError                               -- `request(...)` raises a non-timeout exception (propagates)
  deriving DecidableEq, Repr

inductive Err where
  | valueError | runtimeError | other | exhausted
  deriving DecidableEq, Repr

/-- What a Python call can do: return a value, raise, or fall off the end (`None`). -/
inductive PyRes (α : Type) where
  | ret (a : α) | raised (e : Err) | none
  deriving Repr, DecidableEq

structure Resp where
  status : String
  payload : Nat
  deriving DecidableEq, Repr

/-- `_http_request`: the `while retries <= MAX` loop. Returns result, attempts made, remaining outcomes. -/
def httpAfterLoop (maxR retries : Nat) (os : List Outcome) (att : Nat) : PyRes Resp × Nat × List Outcome :=
  -- after the loop: `if retries > MAX: raise RuntimeError`, otherwise fall off the end
  if retries > maxR then (.raised .runtimeError, att, os) else (.none, att, os)

def httpLoop (maxR : Nat) (retries : Nat) (os : List Outcome) (att : Nat) : PyRes Resp × Nat × List Outcome :=
  match os with
  | [] => if retries ≤ maxR then (.raised .exhausted, att, []) else httpAfterLoop maxR retries [] att
  | o :: rest =>
    if retries ≤ maxR then
      match o with
      | .ok s p => (.ret ⟨s, p⟩, att + 1, rest)
      | .timeout => httpLoop maxR (retries + 1) rest (att + 1)
      | .httpError => (.raised .runtimeError, att + 1, rest)
      | .reqError => (.raised .runtimeError, att + 1, rest)
      | .connError => (.raised .other, att + 1, rest)
    else httpAfterLoop maxR retries (o :: rest) att

def httpRequest (maxR : Nat) (os : List Outcome) : PyRes Resp × Nat × List Outcome :=
  httpLoop maxR 0 os 0

/-- Client-visible experiment state. `results` holds the payload id of the reply that reported DONE. -/
structure Exp where
  status : Status
  results : Option Nat
  deriving DecidableEq, Repr

/-- World = experiment + remaining scripted transport outcomes + number of low-level requests made. -/
structure World where
  exp : Exp
  outcomes : List Outcome
  requests : Nat
  deriving Repr

/-- `query_status`. -/
def queryStatus (maxR : Nat) (w : World) : PyRes Status × World :=
  if w.exp.status = .INITIALIZING then (.raised .valueError, w)
  else if Status.isTerminal w.exp.status then (.ret w.exp.status, w)
  else
    match httpRequest maxR w.outcomes with
    | (.ret r, att, rest) =>
      let st := fromWmi r.status
      let e : Exp := { status := st, results := if st = .DONE then some r.payload else w.exp.results }
      (.ret st, { exp := e, outcomes := rest, requests := w.requests + att })
    | (.raised e, att, rest) => (.raised e, { w with outcomes := rest, requests := w.requests + att })
    | (.none, att, rest) => (.raised .other, { w with outcomes := rest, requests := w.requests + att })

/-- The poll loop shared by `results()` (scheduler) and `wait_for_results()` (asyncio): query until terminal. -/
def pollLoop (maxR : Nat) : Nat → World → PyRes Unit × World
  | 0, w => (.raised .exhausted, w)
  | fuel + 1, w =>
    match queryStatus maxR w with
    | (.ret st, w') => if Status.isTerminal st then (.ret (), w') else pollLoop maxR fuel w'
    | (.raised e, w') => (.raised e, w')
    | (.none, w') => (.none, w')

/-- `results()` / `wait_for_results()`: `ret none` is Python's `None`. -/
def getResults (maxR : Nat) (w : World) : PyRes (Option Nat) × World :=
  if w.exp.results.isSome ∧ w.exp.status = .DONE then (.ret w.exp.results, w)
  else
    match pollLoop maxR (w.outcomes.length + 2) w with
    | (.ret (), w') => if w'.exp.status = .DONE then (.ret w'.exp.results, w') else (.ret none, w')
    | (.raised e, w') => (.raised e, w')
    | (.none, w') => (.none, w')

inductive Call where
  | query | results | wait
  deriving DecidableEq, Repr

inductive CallOut where
  | status (s : Status) | res (r : Option Nat) | raised (e : Err) | none
  deriving DecidableEq, Repr

def stepCall (maxR : Nat) (w : World) : Call → CallOut × World
  | .query => match queryStatus maxR w with
    | (.ret s, w') => (.status s, w')
    | (.raised e, w') => (.raised e, w')
    | (.none, w') => (.none, w')
  | .results | .wait => match getResults maxR w with
    | (.ret r, w') => (.res r, w')
    | (.raised e, w') => (.raised e, w')
    | (.none, w') => (.none, w')

/-- Run a list of client calls; collect outputs and the status / request count after each call. -/
def runCalls (maxR : Nat) : World → List Call → List (CallOut × Status × Nat)
  | _, [] => []
  | w, c :: cs =>
    let (o, w') := stepCall maxR w c
    (o, w'.exp.status, w'.requests) :: runCalls maxR w' cs

/-- `submit_experiment` after successful validation: one PUT through the retry loop, then `from_json`
and the ERROR check of `_process_response`. -/
def submit (maxR : Nat) (os : List Outcome) : PyRes Unit × World :=
  let w0 : World := { exp := { status := .INITIALIZING, results := none }, outcomes := os, requests := 0 }
  match httpRequest maxR os with
  | (.ret r, att, rest) =>
    let st := fromWmi r.status
    let w : World := { exp := { status := st, results := none }, outcomes := rest, requests := att }
    if st = .ERROR then (.raised .runtimeError, w) else (.ret (), w)
  | (.raised e, att, rest) => (.raised e, { w0 with outcomes := rest, requests := att })
  | (.none, att, rest) => (.raised .other, { w0 with outcomes := rest, requests := att })

end Qib.Backend
