import QibModel.GateNet
import QibModel.Embed
/-!
Cores B+C / property C05 (tensor-network part) — the tensor network of a whole circuit and the tensor-network
simulator, Mathlib-free and executable, generic in the scalar type.

What is mirrored (every loop, every `assert`, every `raise`):
* `Circuit.as_tensornet` (`src/qib/circuit/circuit.py:105-143`) ↦ `circuitNet`: identity-wire network from
  `generate_bonds` on the virtual tensor with shape `2*wiredims` and bond ids `2*list(range(nwires))`, then per gate
  (control instructions skipped) `map_particle_to_wire`, `gate.as_tensornet()` (`GateNet.gateNet`), the assertion
  `num_open_axes == 2*len(prtcl)` (this is where Rxx/Ryy/Rzz/iSWAP are refused, see `known_findings.json`),
  `net.merge(gate_net, zip(iwire, range(len, 2*len)))`, the `perm` list with `list.remove`, `np.argsort`,
  `net.transpose`, `assert net.is_consistent()`;
* `TensorNetwork.merge` (`tensor_network.py:68-83`) ↦ `mergeTN`: symbolic merge, then the clash check of the data
  dictionaries (`np.array_equal`, `ValueError`), then `dict.update`;
* `TensorNetwork.contract_einsum` (`tensor_network.py:85-105`) ↦ `contractEinsum` (operands from the data dictionary,
  ones-vectors for output labels that occur in no operand, one `einsumEval`);
* `TensorNetworkSimulator.run` (`simulator/tensor_network_simulator.py:15-54`) ↦ `tnRun`: the `|0>` tensors with their
  shared data reference, the virtual tensor, the bonds, the two assertions, `circ.as_tensornet()`, the merge onto the
  input legs, `contract_einsum`, `to_full_tensor`.

Inputs that are outside the model and therefore arguments (the correspondence check reads them off the real objects):
* data references are Python strings (`"PauliX"`, `f"Rx({theta})"`, `str(hash(bytes))`, …). They are integers here: the
  fixed strings keep the numbers of `QibModel/GateNet.lean` (`"PauliX"` = 1, `"ctrl_cross_neg"` = 2, `"ctrl_cross_pos"` = 3,
  `"|0>_2"` = 4, `"|0>_d"` = `-d-1` for `d ≠ 2`); the reference of a gate's own tensor (reference `0` of `gateNet`) is the
  number `ref0` the harness assigns to that string (equal strings ↦ equal numbers);
* the iteration orders of the Python sets `keys() & keys()` inside `merge` (`tor`, `bor`, one pair per merge): CPython's
  set order is not modelled; the model checks that they are permutations of the shared ids (`badOrder` otherwise – a
  protocol error of the harness, not a Python exception) and the theorems hold for every such order.
-/
namespace Qib.CircuitNet
open Qib.TNet Qib.GateNet
open Qib.Embed (FieldSpec ParticleSpec mapParticleToWire)

/-- exceptions of the modelled code, by origin -/
inductive CErr where
  | tn (e : TNet.Err)          -- raised inside `tensor_network/*.py`
  | gate (e : GErr)            -- raised by `gate.as_tensornet()`
  | runtimeError               -- "particle not found among fields"
  | assertion                  -- an `assert` of `Circuit.as_tensornet` / `TensorNetworkSimulator.run`
  | valueError                 -- data clash in `TensorNetwork.merge`, `list.remove`
  | indexError                 -- `ket0[0] = 1` on an empty array
  | badOrder                   -- the set orders handed over are not permutations of the shared ids (harness error)
  deriving DecidableEq, Repr

def CErr.toStr : CErr → String
  | .tn e => e.toStr
  | .gate e => e.toStr
  | .runtimeError => "RuntimeError"
  | .assertion => "Assertion"
  | .valueError => "ValueError"
  | .indexError => "IndexError"
  | .badOrder => "BadOrder"

def liftT {β : Type} : Except TNet.Err β → Except CErr β
  | .ok x => .ok x
  | .error e => .error (.tn e)

def liftG {β : Type} : Except GErr β → Except CErr β
  | .ok x => .ok x
  | .error e => .error (.gate e)

/-! ### data dictionaries -/
section Data
variable {α : Type}

mutual
/-- equality of nested arrays -/
def ntBeq [DecidableEq α] : NT α → NT α → Bool
  | .s a, .s b => decide (a = b)
  | .a xs, .a ys => ntBeqL xs ys
  | .s _, .a _ => false
  | .a _, .s _ => false
def ntBeqL [DecidableEq α] : List (NT α) → List (NT α) → Bool
  | [], [] => true
  | x :: xs, y :: ys => ntBeq x y && ntBeqL xs ys
  | [], _ :: _ => false
  | _ :: _, [] => false
end

/-- `np.array_equal(a, b)`: same shape and all entries equal (arrays are stored as nested lists of their shape) -/
def dtEq [DecidableEq α] (a b : DT α) : Bool := a.shape == b.shape && ntBeq a.t b.t

/-- the clash check of `TensorNetwork.merge`: `for k in other.data: if k in self.data: if not array_equal: raise` -/
def dataClash [DecidableEq α] (self other : List (Int × DT α)) : Bool :=
  other.any (fun e => match self.lookup e.1 with
    | some d => !dtEq d e.2
    | none => false)

/-- `TensorNetwork.merge(other, join_axes)`; `tor`/`bor` = iteration orders of the two key intersections -/
def mergeTN [DecidableEq α] (self other : TN α) (join : List (Int × Int)) (tor bor : List Int) :
    Except CErr (TN α) := do
  if !(isPermOf tor (sharedTids self.net other.net) && isPermOf bor (sharedBids self.net other.net)) then
    throw .badOrder
  let net ← liftT (merge self.net other.net join tor bor)
  if dataClash self.data other.data then throw .valueError
  return { net := net, data := dupdate self.data other.data }

/-- `TensorNetwork.transpose(axes)` -/
def transposeTN (tn : TN α) (axes : List Int) : Except CErr (TN α) := do
  let net ← liftT (transpose tn.net (some axes))
  return { tn with net := net }

/-- `assert net.is_consistent()` -/
def assertConsistent (tn : TN α) : Except CErr Unit := do
  if !(← liftT (isConsistentData tn)) then throw .assertion

end Data

/-! ### `Circuit.as_tensornet` -/
section Circuit
variable {α : Type} [Zero α] [One α] [Add α] [Mul α] [DecidableEq α]

/-- a gate of the circuit: its particles (`gate.particles()`), its description, the number of the data reference of
its own tensor, and the set orders `merge` sees when this gate's network is merged in -/
structure PGate (α : Type) where
  particles : List ParticleSpec
  g : G α
  ref0 : Int
  tor : List Int
  bor : List Int

/-- an entry of `Circuit.gates` -/
inductive CInstr (α : Type) where
  | gate (p : PGate α)
  | ctrl

/-- the same entry of `Circuit.gates` as the matrix view (`Qib.Embed.circuitMatrix`, `svRun`) sees it: particles and
`as_matrix()` (a `2^num_wires` square matrix) -/
def CInstr.toInstr : CInstr α → Qib.Embed.Instr α
  | .ctrl => .ctrl
  | .gate p => .gate p.particles (2 ^ p.g.wires) p.g.mat

/-- `wiredims`: `for f in fields: wiredims += f.lattice.nsites * [f.local_dim]` -/
def wireDims (fields : List FieldSpec) : List Nat := fields.flatMap (fun f => List.replicate f.nsites f.localDim)

/-- the identity wires: `stn.add_tensor(SymbolicTensor(-1, 2*wiredims, 2*list(range(nwires)), None)); stn.generate_bonds()` -/
def wireNet (wd : List Nat) : Except CErr Net := do
  let t ← liftT (mkTensor (-1) (wd ++ wd) (irange wd.length ++ irange wd.length) none)
  let net ← liftT (addTensor Net.empty t)
  liftT (generateBonds net)

/-- the number standing for the data reference of tensor 0 of a gate network; the fixed strings keep theirs -/
def reref (ref0 : Int) (r : Int) : Int := if r = 0 then ref0 else r

/-- `gate.as_tensornet()` with the data references of the circuit's key space -/
def rerefTensor (ref0 : Int) (t : STensor) : STensor := { t with dataref := t.dataref.map (reref ref0) }

def rerefTN (ref0 : Int) (tn : TN α) : TN α :=
  { net := ⟨tn.net.tensors.map (fun e => (e.1, rerefTensor ref0 e.2)), tn.net.bonds⟩,
    data := tn.data.map (fun e => (reref ref0 e.1, e.2)) }

/-- `perm = list(range(2*nwires)); for i in iwire: perm.remove(i); perm += iwire` -/
def permOf (nwires : Nat) (iwire : List Int) : Except CErr (List Int) := do
  let perm ← iwire.foldlM (fun (p : List Int) i => if p.contains i then pure (p.erase i) else throw CErr.valueError)
    (irange (2 * nwires))
  return perm ++ iwire

/-- everything the loop body does before its final `assert net.is_consistent()` -/
def gateStepCore (fields : List FieldSpec) (nwires : Nat) (tn : TN α) (p : PGate α) : Except CErr (TN α) := do
  let iwire := p.particles.map (mapParticleToWire fields)
  if iwire.any (· < 0) then throw .runtimeError
  let gtn ← liftG (gateNet p.g)
  let gtn := rerefTN p.ref0 gtn
  let m := p.particles.length
  if (← liftT (numOpenAxes gtn.net)) != 2 * m then throw .assertion
  let tn ← mergeTN tn gtn (iwire.zip (irange' m m)) p.tor p.bor
  let perm ← permOf nwires iwire
  transposeTN tn ((argsort (perm.map Int.toNat)).map Int.ofNat)

/-- one iteration of `for gate in self.gates` (for a gate) -/
def gateStep (fields : List FieldSpec) (nwires : Nat) (tn : TN α) (p : PGate α) : Except CErr (TN α) := do
  let tn ← gateStepCore fields nwires tn p
  assertConsistent tn
  return tn

def circuitLoop (fields : List FieldSpec) (nwires : Nat) : TN α → List (CInstr α) → Except CErr (TN α)
  | tn, [] => .ok tn
  | tn, .ctrl :: is => circuitLoop fields nwires tn is
  | tn, .gate p :: is =>
    match gateStep fields nwires tn p with
    | .error e => .error e
    | .ok tn' => circuitLoop fields nwires tn' is

/-- `Circuit.as_tensornet()`; `fields = circ.fields()` is passed in (as for `svRun`) -/
def circuitNet (fields : List FieldSpec) (instrs : List (CInstr α)) : Except CErr (TN α) := do
  let wd := wireDims fields
  let net ← wireNet wd
  let tn : TN α := { net := net, data := [] }
  assertConsistent tn
  circuitLoop fields wd.length tn instrs

end Circuit

/-! ### `contract_einsum` and the simulator -/
section Sim
variable {α : Type} [Zero α] [One α] [Add α] [Mul α] [DecidableEq α]

/-- `TensorNetwork.contract_einsum`: raw result and axes map -/
def contractEinsum (tn : TN α) : Except TNet.Err (DT α × List Nat) := do
  let e ← asEinsum tn.net
  let args ← (e.tids.zip e.tidx).mapM (fun (p : Int × List Nat) => do
    let some t := dget tn.net.tensors p.1 | throw TNet.Err.keyError
    let some r := t.dataref | throw TNet.Err.keyError
    let some d := tn.data.lookup r | throw TNet.Err.keyError
    pure (d, p.2))
  let shape ← netShape tn.net
  let ones ← (List.range e.idxout.length).filterMapM (fun k => do
    let j := e.idxout[k]!
    if e.tidx.any (·.contains j) then pure none
    else match indexOf? e.axesMap k with
      | none => throw TNet.Err.valueError
      | some p => match shape[p]? with
        | none => throw TNet.Err.indexError
        | some d => pure (some (DT.ofFn [d] (fun _ => (1 : α)), [j])))
  -- `np.einsum(idxout)` without any operand: "Number of einsum subscripts must be equal to the number of operands"
  if (args ++ ones).isEmpty then throw TNet.Err.valueError
  let r ← einsumEval (args ++ ones) e.idxout
  return (r, e.axesMap)

/-- the data reference `"|0>_" + str(local_dim)` -/
def ketRef (d : Nat) : Int := if d = 2 then 4 else -(Int.ofNat d) - 1

/-- the loop over the sites of `TensorNetworkSimulator.run`: tensor `i` with shape `(d,)`, bond id `i`, reference
`"|0>_d"`; the data entry is created on first use (`ket0 = np.zeros(d); ket0[0] = 1` – `IndexError` for `d = 0`) -/
def initStep (st : Net × List (Int × DT α) × Nat) (d : Nat) : Except CErr (Net × List (Int × DT α) × Nat) := do
  let (net, data, i) := st
  let t ← liftT (mkTensor (Int.ofNat i) [d] [Int.ofNat i] (some (ketRef d)))
  let net ← liftT (addTensor net t)
  let data ← if dhas data (ketRef d) then pure data
    else if d = 0 then throw CErr.indexError
    else pure (data ++ [(ketRef d, DT.ofFn [d] ket0Sem)])
  return (net, data, i + 1)

/-- `init_net` of `TensorNetworkSimulator.run` -/
def initTN (wd : List Nat) : Except CErr (TN α) := do
  let (net, data, _) ← wd.foldlM initStep (Net.empty, [], 0)
  let v ← liftT (mkTensor (-1) wd (irange wd.length) none)
  let net ← liftT (addTensor net v)
  let net ← (List.range wd.length).foldlM (fun net i => do
    let b ← liftT (mkBond (Int.ofNat i) [-1, Int.ofNat i])
    liftT (addBond net b)) net
  return { net := net, data := data }

/-- the network contracted by the simulator: `circ.as_tensornet()` with `init_net` merged onto the input legs
(`tor`, `bor`: the set orders of that last merge) -/
def tnRunNet (fields : List FieldSpec) (instrs : List (CInstr α)) (tor bor : List Int) : Except CErr (TN α) := do
  let wd := wireDims fields
  let n := wd.length
  let init : TN α ← initTN wd
  assertConsistent init
  if (← liftT (numOpenAxes init.net)) != n then throw .assertion
  let tn ← circuitNet fields instrs
  let _ ← liftT (numOpenAxes tn.net)     -- `net.num_open_axes == 2*len(local_dims)` (an expression statement)
  mergeTN tn init ((List.range n).map (fun i => (Int.ofNat (n + i), Int.ofNat i))) tor bor

/-- `TensorNetworkSimulator().run(circ)`: the full output tensor -/
def tnRun (fields : List FieldSpec) (instrs : List (CInstr α)) (tor bor : List Int) : Except CErr (DT α) := do
  let tn ← tnRunNet fields instrs tor bor
  let (r, am) ← liftT (contractEinsum tn)
  liftT (toFullTensor r am)

end Sim

end Qib.CircuitNet
