import QibGen.WmiOptions
import QibModel.Validate
/-!
Model of the COMPLETE Qobj of a WMI experiment and of the request that carries it (C18, stage `qobj`).

* `Val.truthy`   — Python truthiness of an option value (`None`, `False`, `0`, `0.0`, `''`, `[]`, `{}` are falsy).
* `mkOptions`    — `WMIOptions(**kw)` (`backend/wmi/wmi_options.py:13-69`): the attribute dictionary of the object, caller's value or
                   the default of the parameter; an unknown keyword is a `TypeError`. Interprets `QibGen.Wmi.initParams / initAssign`.
* `optionalOf`   — `WMIOptions.optional()` (`wmi_options.py:71-96`): one `if self.<test>: optional[<key>] = self.<value>` per row of
                   `QibGen.Wmi.optionalRows`, in order, with dictionary-assignment semantics.
* `qobjFull`     — `WMIExperiment.as_qasm()` (`wmi_experiment.py:87-133`): the dictionary display `QibGen.Wmi.qobjSkeleton` (a Lean
                   term regenerated from the source) evaluated on the experiment, followed by the `.update(self.options.optional())`
                   statements `QibGen.Wmi.qobjUpdates`. Qubit / clbit labels and the instruction list are those of the
                   instruction-level model `Wmi.qobj` (`QibModel/Validate.lean`); an instruction is rendered in the canonical form
                   `{name, qubits, params, memory}` (the exact instruction dictionaries are the subject of `QibModel/Qasm.lean`).
* `request`      — `_send_request` of both processors + `networking.http_put`: method, url, headers, JSON body.
* `submitFull`   — `WMIOptions(**kw)`, `submit_experiment` = validate, then exactly one request description.
Dictionaries are insertion-ordered association lists; everything is generic in the tables except where a theorem says otherwise.
-/
namespace Qib.Wmi.Full
open QibGen.Wmi (Val QEnv RSrc Proc)

abbrev Dict := List (String × Val)

/-- `bool(v)` -/
def _root_.QibGen.Wmi.Val.truthy : Val → Bool
  | .none => false
  | .bool b => b
  | .int i => i != 0
  | .float n _ => n != 0
  | .special _ => true
  | .str s => s != ""
  | .list l => !l.isEmpty
  | .dict d => !d.isEmpty

/-- `d[k] = v`: overwrite in place, otherwise append -/
def dictSet (d : Dict) (k : String) (v : Val) : Dict :=
  match d with
  | [] => [(k, v)]
  | (k', v') :: r => if k' = k then (k', v) :: r else (k', v') :: dictSet r k v

/-- `d.update(u)` -/
def dictUpdate (d u : Dict) : Dict := u.foldl (fun acc p => dictSet acc p.1 p.2) d

/-- attribute / parameter lookup (`None` for a name that is not there; the tables are checked to never read such a name) -/
def attr (a : Dict) (k : String) : Val := (a.lookup k).getD .none

/-! ### `WMIOptions` -/

/-- `WMIOptions(**kw)` over a parameter table and an assignment table: `error k` = `TypeError` (unexpected keyword `k`) -/
def mkOptionsOf (params : Dict) (assign : List (String × String)) (kw : Dict) : Except String Dict :=
  match kw.find? (fun p => !(params.map (·.1)).contains p.1) with
  | some p => .error p.1
  | none => .ok (assign.map fun ap => (ap.1, (kw.lookup ap.2).getD (attr params ap.2)))

def mkOptions (kw : Dict) : Except String Dict := mkOptionsOf QibGen.Wmi.initParams QibGen.Wmi.initAssign kw

/-- one statement `if self.<test>: optional[<key>] = self.<value>` -/
def optionalStep (a : Dict) (d : Dict) (r : String × String × String) : Dict :=
  if (attr a r.1).truthy then dictSet d r.2.1 (attr a r.2.2) else d

/-- `optional()` over a row table -/
def optionalOf (rows : List (String × String × String)) (a : Dict) : Dict := rows.foldl (optionalStep a) []

def optionalDict (a : Dict) : Dict := optionalOf QibGen.Wmi.optionalRows a

/-! ### The experiment and its Qobj -/

structure Experiment where
  name : String
  /-- `str(uuid.uuid4())` -/
  qobjId : String
  /-- `self.type.value` -/
  typeValue : String := QibGen.Wmi.typeDefault
  instrs : List Instr
  /-- attributes of the `WMIOptions` object -/
  options : Dict
  /-- scalar attributes of the `ProcessorConfiguration` -/
  cfgAttrs : Dict
  /-- attributes of the `ProcessorCredentials` -/
  cred : Dict

def intsVal (l : List Int) : Val := .list (l.map .int)

/-- canonical rendering of one Qobj instruction -/
def instrVal (q : QInstr) : Val :=
  .dict [("name", .str q.name), ("qubits", intsVal q.qubits), ("params", .list (q.params.map .str)), ("memory", intsVal q.memory)]

def Experiment.env (x : Experiment) : QEnv where
  qobjId := .str x.qobjId
  typeValue := .str x.typeValue
  name := .str x.name
  instructions := .list ((x.instrs.map Instr.toQ).map instrVal)
  qubits := particles x.instrs
  clbits := clbitsOf x.instrs
  cfg := attr x.cfgAttrs
  opt := attr x.options
  cred := attr x.cred

/-- `qobj[k1]...[kn].update(u)`; a path that does not lead to a dictionary leaves the value unchanged (Python would raise;
the generated paths are checked to exist) -/
def updateAt : List String → Dict → Val → Val
  | [], u, .dict d => .dict (dictUpdate d u)
  | [], _, v => v
  | k :: ks, u, .dict d => .dict (d.map fun p => if p.1 = k then (p.1, updateAt ks u p.2) else p)
  | _ :: _, _, v => v

/-- `as_qasm()` over an arbitrary skeleton / update list -/
def qobjOf (skeleton : QEnv → Val) (updates : List (List String)) (rows : List (String × String × String)) (x : Experiment) : Val :=
  updates.foldl (fun q p => updateAt p (optionalOf rows x.options) q) (skeleton x.env)

/-- **`WMIExperiment.as_qasm()`** -/
def qobjFull (x : Experiment) : Val := qobjOf QibGen.Wmi.qobjSkeleton QibGen.Wmi.qobjUpdates QibGen.Wmi.optionalRows x

/-! ### Reading a Qobj -/

/-- `v[k]` for a dictionary, `v[0]` for a list when `k = "0"` -/
def child (v : Val) (k : String) : Option Val :=
  match v with
  | .dict d => d.lookup k
  | .list l => if k = "0" then l.head? else none
  | _ => none

def getPath : List String → Val → Option Val
  | [], v => some v
  | k :: ks, v => match child v k with
    | none => none
    | some c => getPath ks c

/-- `list(v)` of a dictionary -/
def keysOf : Val → List String
  | .dict d => d.map (·.1)
  | _ => []

/-! ### The request -/

structure Request where
  method : String
  url : String
  headers : Dict
  /-- the `json=` argument -/
  body : Val

def rsrcVal (cred : Dict) (qobj : Val) : RSrc → Val
  | .cred a => attr cred a
  | .const s => .str s
  | .asQasm => qobj

/-- a part of the url f-string (only strings are formatted in the model) -/
def strOf : Val → String
  | .str s => s
  | _ => "<not a string>"

def credOf (p : Proc) (token : Val) : Dict := [("url", .str p.url), ("access_token", token)]

/-- **`_send_request`**: what `requests.put` is called with -/
def request (p : Proc) (token : Val) (qobj : Val) : Request :=
  let cred := credOf p token
  { method := p.method,
    url := String.join (p.urlParts.map fun s => strOf (rsrcVal cred qobj s)),
    headers := p.headers.map fun ks => (ks.1, rsrcVal cred qobj ks.2),
    body := .dict (p.body.map fun ks => (ks.1, rsrcVal cred qobj ks.2)) }

/-! ### `WMIOptions(**kw)` + `submit_experiment` -/

inductive Submit where
  /-- `WMIOptions(**kw)` raised `TypeError` -/
  | badKeyword (k : String)
  /-- `shots` is not an `int` (outside the model) -/
  | shotsNotInt
  /-- `_validate` raised -/
  | refused (e : Err)
  /-- accepted: the Qobj built by `as_qasm` and the request made by `_send_request` -/
  | sent (qobj : Val) (req : Request)

def mkExperiment (p : Proc) (token : Val) (name qobjId : String) (options : Dict) (instrs : List Instr) : Experiment :=
  { name, qobjId, instrs, options, cfgAttrs := p.cfgAttrs, cred := credOf p token }

def submitFull (p : Proc) (pcfg : ProcConfig) (token : Val) (name qobjId : String) (kw : Dict) (instrs : List Instr) : Submit :=
  match mkOptions kw with
  | .error k => .badKeyword k
  | .ok o =>
    match attr o "shots" with
    | .int shots =>
      match validate pcfg shots instrs with
      | .error e => .refused e
      | .ok () =>
        let q := qobjFull (mkExperiment p token name qobjId o instrs)
        .sent q (request p token q)
    | _ => .shotsNotInt

end Qib.Wmi.Full
