import QibModel.GQ
import QibGen.GateFlags
/-!
Executable model of composite gate assembly (`gates.py`: ControlledGate / MultiplexedGate / BlockEncodingGate /
PrepareGate `as_matrix`, `inverse`, `is_hermitian`, `num_wires`) over exact Gaussian rationals and flat indices.
Leaf matrices and the results of `sqrtm`, `qr`, `expm` arrive as numbers from the implementation (exact
rationals); only the *assembly* is modelled here. The closed forms of the leaves are tied by the translator.
-/
namespace Qib.Gate
open Qib

/-- the control index of `ControlledGate.as_matrix`: `for j: if ctrl_state[j] == 1: ic += 1 << (nc-1-j)` -/
def ctrlIndex (cs : List Bool) : Nat :=
  let nc := cs.length
  (List.range nc).foldl (fun ic j => if cs.getD j false then ic + (1 <<< (nc - 1 - j)) else ic) 0

/-- `np.kron(np.diag(1 - cidx), I) + np.kron(np.diag(cidx), tgmat)` with `cidx = e_ic` -/
def controlledMat (cs : List Bool) (U : Mat) : Mat :=
  let ic := ctrlIndex cs
  let dim := 2 ^ cs.length
  let d1 := Mat.ofFn dim dim fun i j => if i = j then (if i = ic then 0 else 1) else 0
  let d2 := Mat.ofFn dim dim fun i j => if i = j then (if i = ic then 1 else 0) else 0
  (d1.kron (Mat.one U.n)).add (d2.kron U)

/-- `scipy.linalg.block_diag(*mats)` (square blocks of equal size `d`) -/
def blockDiag (Us : List Mat) : Mat :=
  match Us with
  | [] => Mat.ofFn 0 0 fun _ _ => 0
  | U :: _ =>
    let d := U.n
    let k := Us.length
    Mat.ofFn (k * d) (k * d) fun i j => if i / d = j / d then ((Us.getD (i / d) U).get (i % d) (j % d)) else 0

inductive Method | Wx | Wxi | R deriving DecidableEq, Repr

inductive Tree where
  | leaf (cls : String) (wires : Nat) (mat : Mat) (invMat : Mat) (flag : Bool)
  | general (wires : Nat) (mat : Mat)
  | timeEvo (wires : Nat) (mat : Mat) (invMat : Mat)
  | prepare (wires : Nat) (q : Mat) (x : List Rat) (transpose : Bool)
  | block (wires : Nat) (method : Method) (h : Mat) (s : Mat)
  | controlled (cs : List Bool) (t : Tree)
  | multiplexed (nc : Nat) (ts : List Tree)
  deriving Repr, Inhabited

/-- `PrepareGate.as_matrix` after the QR call: flip the first column if `x · Q[:,0] < 0`, transpose on demand -/
def prepareMat (q : Mat) (x : List Rat) (tr : Bool) : Mat :=
  let dot : Rat := (List.range q.n).foldl (fun acc i => acc + x.getD i 0 * (q.get i 0).re) 0
  let q' := if dot < 0 then Mat.ofFn q.n q.m fun i j => if j = 0 then -q.get i j else q.get i j else q
  if tr then q'.transpose else q'

def blockMat (m : Method) (h s : Mat) : Mat :=
  match m with
  | .Wx => Mat.block h (Mat.smul GQ.I s) (Mat.smul GQ.I s) h
  | .Wxi => Mat.block h (Mat.smul (-GQ.I) s) (Mat.smul (-GQ.I) s) h
  | .R => Mat.block h s s h.neg

mutual
def Tree.mat : Tree → Mat
  | .leaf _ _ m _ _ => m
  | .general _ m => m
  | .timeEvo _ m _ => m
  | .prepare _ q x tr => prepareMat q x tr
  | .block _ m h s => blockMat m h s
  | .controlled cs t => controlledMat cs t.mat
  | .multiplexed _ ts => blockDiag (matList ts)
def matList : List Tree → List Mat
  | [] => []
  | t :: ts => t.mat :: matList ts
end

mutual
def Tree.wires : Tree → Nat
  | .leaf _ w _ _ _ => w
  | .general w _ => w
  | .timeEvo w _ _ => w
  | .prepare w _ _ _ => w
  | .block w _ _ _ => w
  | .controlled cs t => t.wires + cs.length
  | .multiplexed nc ts => wiresHead ts + nc
def wiresHead : List Tree → Nat
  | [] => 0
  | t :: _ => t.wires
end

mutual
/-- `inverse()` as the code builds it -/
def Tree.inverse : Tree → Tree
  | .leaf c w m mi f => .leaf (c ++ "^-1") w mi m f
  | .general w m => .general w m.adjoint
  | .timeEvo w m mi => .timeEvo w mi m
  | .prepare w q x tr => .prepare w q x (!tr)
  | .block w m h s => .block w (match m with | .Wx => .Wxi | .Wxi => .Wx | .R => .R) h s
  | .controlled cs t => .controlled cs t.inverse
  | .multiplexed nc ts => .multiplexed nc (inverseList ts)
def inverseList : List Tree → List Tree
  | [] => []
  | t :: ts => t.inverse :: inverseList ts
end

mutual
/-- `is_hermitian()`: leaf flags are supplied (tied by the translator), composite answers follow the
generated delegation functions -/
def Tree.herm : Tree → Bool
  | .leaf _ _ _ _ f => f
  | .general _ m => QibGen.GeneralGate.hermitianFlag (m.adjoint.beq m)
  | .timeEvo _ _ _ => QibGen.TimeEvolutionGate.hermitianFlag
  | .prepare _ _ _ _ => QibGen.PrepareGate.hermitianFlag
  | .block _ m _ _ => QibGen.BlockEncodingGate.hermitianFlag (match m with | .Wx => .Wx | .Wxi => .Wxi | .R => .R)
  | .controlled _ t => QibGen.ControlledGate.hermitianFlag t.herm
  | .multiplexed _ ts => QibGen.MultiplexedGate.hermitianFlag (hermList ts)
def hermList : List Tree → List Bool
  | [] => []
  | t :: ts => t.herm :: hermList ts
end

end Qib.Gate
