import QibModel.GQ
/-!
Core D (C10) — executable model of `qib/operator/field_operator.py` (Mathlib-free).

* `IFOType`, `IFOType.adjoint`, `IFODesc` (`IFODesc.make` = the constructor with its consistency checks).
* `Tensor`          : coefficient array = `shape` + row-major (C order) `data` of exact Gaussian rationals;
                      `Tensor.conjT` = `coeffs.conj().T` (all axes reversed), `Tensor.outer` =
                      `np.kron(a.reshape(-1), b.reshape(-1)).reshape(a.shape + b.shape)`.
* `Term`            : `FieldOperatorTerm` (`Term.make` rejects `ndim != len(opdesc)`), `Term.adjoint`, `Term.mul`,
                      `Term.isHermitianTol atol rtol` (structural test of lines 81-85, then `np.allclose` decided exactly
                      over the rationals), `Term.isHermitian` = the same with zero tolerances.
* `FieldOp`         : list of terms; `add`, `mul` (all pairwise products, `self` outer loop), `adjoint`, `isHermitian`
                      (`True` or `NotImplementedError`), `fields` (first-occurrence order).
* `FieldOp.asMatrix`: lines 191-234 literally: `clist[i]` = left-nested Kronecker product `kron(kron(1, M₀), M₁)…` with
                      `I` on sites `j < i`, `U = [[0,0],[1,0]]` on site `i` and `Z` on the LATER sites `j > i`;
                      `alist[i]` = transpose; for every term the coefficients are visited in C order with their
                      multi-index, zero coefficients are skipped, `fstring` is the left-to-right product
                      `identity @ op₀[j₀] @ op₁[j₁] …` and `op += coeff * fstring`.
                      The ladder strings have entries in {0, ±1}; they are computed over `Int` (`IMat`), the
                      accumulated operator over `GQ` (`Mat`).
  Rejections mirrored: no or several fields / non-fermionic field → `NotImplementedError`; a zero-sized coefficient
  array → `ValueError` (`np.nditer`); a non-zero coefficient whose index is not a site → `IndexError`
  (`clist[j]`); a non-fermionic operator type → `RuntimeError`.
-/
namespace Qib.Fermi
open Qib

/-- exception classes that the modelled code can raise -/
inductive Err where
  | valueError | indexError | notImplementedError | runtimeError
  deriving DecidableEq, Repr

def Err.toStr : Err → String
  | .valueError => "ValueError"
  | .indexError => "IndexError"
  | .notImplementedError => "NotImplementedError"
  | .runtimeError => "RuntimeError"

/-- `qib.field.ParticleType` -/
inductive PType where
  | qubit | boson | fermion | majorana
  deriving DecidableEq, Repr

/-- `IFOType` -/
inductive IFOType where
  | bosonCreate | bosonAnnihil | fermiCreate | fermiAnnihil | majoranaRe | majoranaIm
  deriving DecidableEq, Repr

/-- `IFOType.adjoint` -/
def IFOType.adjoint : IFOType → IFOType
  | .bosonCreate => .bosonAnnihil
  | .bosonAnnihil => .bosonCreate
  | .fermiCreate => .fermiAnnihil
  | .fermiAnnihil => .fermiCreate
  | o => o

/-- a `Field` object: Python compares fields by identity, the model by the identifier `id` the harness assigns
(together with the particle type and the number of lattice sites it was created with) -/
structure FieldD where
  id : Nat
  ptype : PType
  nsites : Nat
  deriving DecidableEq, Repr

/-- `IFODesc` -/
structure IFODesc where
  field : FieldD
  otype : IFOType
  deriving DecidableEq, Repr

/-- the constructor `IFODesc(field, otype)` with its consistency checks (none for a qubit field) -/
def IFODesc.make (f : FieldD) (o : IFOType) : Except Err IFODesc :=
  match f.ptype with
  | .boson => if o = .bosonCreate ∨ o = .bosonAnnihil then .ok ⟨f, o⟩ else .error .valueError
  | .fermion => if o = .fermiCreate ∨ o = .fermiAnnihil then .ok ⟨f, o⟩ else .error .valueError
  | .majorana => if o = .majoranaRe ∨ o = .majoranaIm then .ok ⟨f, o⟩ else .error .valueError
  | .qubit => .ok ⟨f, o⟩

def IFODesc.adjoint (d : IFODesc) : IFODesc := ⟨d.field, d.otype.adjoint⟩

/-! ### coefficient tensors -/

/-- number of entries of an array of the given shape -/
def prodL : List Nat → Nat
  | [] => 1
  | d :: ds => d * prodL ds

/-- row-major (C order) offset of a multi-index -/
def ravel : List Nat → List Nat → Nat
  | _ :: ds, i :: is => i * prodL ds + ravel ds is
  | _, _ => 0

/-- multi-index of a row-major offset -/
def unravel : List Nat → Nat → List Nat
  | [], _ => []
  | d :: ds, k => (k / prodL ds) % d :: unravel ds (k % prodL ds)

/-- all multi-indices of an array of the given shape in C order (last index fastest), the order in which
`np.nditer` visits a C-contiguous array -/
def multiIndices : List Nat → List (List Nat)
  | [] => [[]]
  | d :: ds => (List.range d).flatMap fun i => (multiIndices ds).map (i :: ·)

structure Tensor where
  shape : List Nat
  data : Array GQ
  deriving Repr, DecidableEq

namespace Tensor
def ndim (t : Tensor) : Nat := t.shape.length
def size (t : Tensor) : Nat := prodL t.shape
def get (t : Tensor) (idx : List Nat) : GQ := t.data.getD (ravel t.shape idx) 0
/-- `coeffs.conj().T`: all axes reversed, entries conjugated -/
def conjT (t : Tensor) : Tensor :=
  ⟨t.shape.reverse, Array.ofFn (n := prodL t.shape.reverse) fun k =>
    (t.get (unravel t.shape.reverse k.val).reverse).conj⟩
/-- `np.kron(a.reshape(-1), b.reshape(-1)).reshape(a.shape + b.shape)` -/
def outer (a b : Tensor) : Tensor :=
  ⟨a.shape ++ b.shape, Array.ofFn (n := a.size * b.size) fun k =>
    a.data.getD (k.val / b.size) 0 * b.data.getD (k.val % b.size) 0⟩
/-- the data array has the length the shape announces -/
def WF (t : Tensor) : Prop := t.data.size = prodL t.shape
instance (t : Tensor) : Decidable t.WF := by unfold WF; infer_instance
end Tensor

/-! ### terms and operators -/

/-- `FieldOperatorTerm` -/
structure Term where
  opdesc : List IFODesc
  coeffs : Tensor
  deriving Repr, DecidableEq

/-- the constructor: `coeffs.ndim` must equal the number of operator descriptions -/
def Term.make (opdesc : List IFODesc) (coeffs : Tensor) : Except Err Term :=
  if coeffs.ndim ≠ opdesc.length then .error .valueError else .ok ⟨opdesc, coeffs⟩

namespace Term

/-- lines 81-85: `opdesc[i]` and `opdesc[n-1-i]` carry the same field and mutually adjoint operator types -/
def structHermitian (t : Term) : Bool :=
  (List.zip t.opdesc t.opdesc.reverse).all fun (a, b) => a.field == b.field && a.otype == b.otype.adjoint

/-- `|a - b| <= atol + rtol * |b|` over the reals (the test of `np.isclose` / `np.allclose`), decided exactly on
Gaussian rationals: with `d² = |a-b|²`, `n² = |b|²` and `lhs = d² - atol² - rtol² n²` the inequality holds iff
`lhs ≤ 0` or `lhs² ≤ 4 atol² rtol² n²` (both sides of the original inequality are non-negative) -/
def closeTol (atol rtol : Rat) (a b : GQ) : Bool :=
  let d := a - b
  let d2 := d.re * d.re + d.im * d.im
  let n2 := b.re * b.re + b.im * b.im
  let lhs := d2 - atol * atol - rtol * rtol * n2
  decide (lhs ≤ 0) || decide (lhs * lhs ≤ 4 * atol * atol * rtol * rtol * n2)

/-- `is_hermitian()`: the structural test, then `np.allclose(coeffs, coeffs.conj().T)` with tolerances `atol`, `rtol`
(NumPy's defaults are `1e-8`, `1e-5`). A coefficient array whose shape is not its own reverse is not Hermitian (the
comparison is entry-wise; see the `fix:` commit in `/repo` – NumPy's broadcasting used to compare, e.g., a `1 × L`
array with its `L × 1` transpose). -/
def isHermitianTol (atol rtol : Rat) (t : Term) : Bool :=
  if !t.structHermitian then false
  else if t.coeffs.shape ≠ t.coeffs.shape.reverse then false
  else (multiIndices t.coeffs.shape).all fun idx => closeTol atol rtol (t.coeffs.get idx) (t.coeffs.get idx.reverse).conj

/-- the flag with zero tolerances: exact equality of `coeffs` and `coeffs.conj().T` -/
def isHermitian (t : Term) : Bool :=
  if !t.structHermitian then false
  else if t.coeffs.shape ≠ t.coeffs.shape.reverse then false
  else (multiIndices t.coeffs.shape).all fun idx => t.coeffs.get idx == (t.coeffs.get idx.reverse).conj

/-- `fields()`: fields in order of first occurrence -/
def fieldsInto (acc : List FieldD) (ds : List IFODesc) : List FieldD :=
  ds.foldl (fun acc d => if d.field ∈ acc then acc else acc ++ [d.field]) acc

def fields (t : Term) : List FieldD := fieldsInto [] t.opdesc

/-- `adjoint()`: reversed, flipped operators; `coeffs.conj().T` -/
def adjoint (t : Term) : Term := ⟨t.opdesc.reverse.map IFODesc.adjoint, t.coeffs.conjT⟩

/-- `__matmul__`: concatenated operators, outer product of the coefficient arrays -/
def mul (a b : Term) : Term := ⟨a.opdesc ++ b.opdesc, a.coeffs.outer b.coeffs⟩

end Term

/-- `FieldOperator` -/
structure FieldOp where
  terms : List Term
  deriving Repr, DecidableEq

namespace FieldOp

def fields (op : FieldOp) : List FieldD :=
  op.terms.foldl (fun acc t => t.fields.foldl (fun acc f => if f ∈ acc then acc else acc ++ [f]) acc) []

/-- `__add__` / `__radd__` with another operator -/
def add (a b : FieldOp) : FieldOp := ⟨a.terms ++ b.terms⟩
/-- `__matmul__`: `[t1 @ t2 for t1 in self.terms for t2 in other.terms]` -/
def mul (a b : FieldOp) : FieldOp := ⟨a.terms.flatMap fun t1 => b.terms.map fun t2 => t1.mul t2⟩
def adjoint (a : FieldOp) : FieldOp := ⟨a.terms.map Term.adjoint⟩
/-- `is_hermitian()`: `True` if every term is flagged Hermitian, else `NotImplementedError` -/
def isHermitianTol (atol rtol : Rat) (a : FieldOp) : Except Err Bool :=
  if a.terms.all (Term.isHermitianTol atol rtol) then .ok true else .error .notImplementedError
/-- the same with zero tolerances -/
def isHermitian (a : FieldOp) : Except Err Bool :=
  if a.terms.all Term.isHermitian then .ok true else .error .notImplementedError
/-- `sum(ops)`: `0 + A₀` is `A₀` (`__radd__`), then `__add__` left to right; `sum([])` is the integer 0 (`none`) -/
def sumOps : List FieldOp → Option FieldOp
  | [] => none
  | a :: as => some (as.foldl add a)

end FieldOp

/-! ### integer matrices for the Jordan–Wigner ladder strings -/

/-- square `n × n` integer matrix, row-major -/
structure IMat where
  n : Nat
  data : Array Int
  deriving Repr

namespace IMat
def get (A : IMat) (i j : Nat) : Int := A.data.getD (i * A.n + j) 0
def ofFn (n : Nat) (f : Nat → Nat → Int) : IMat :=
  ⟨n, Array.ofFn (n := n * n) fun k => f (k.val / n) (k.val % n)⟩
def one (n : Nat) : IMat := ofFn n fun i j => if i = j then 1 else 0
/-- `A @ B` -/
def mul (A B : IMat) : IMat :=
  let ks := List.range A.n
  ofFn A.n fun i j => ks.foldl (fun acc k => acc + A.get i k * B.get k j) 0
/-- `A.conj().T` for a real matrix -/
def transpose (A : IMat) : IMat := ofFn A.n fun i j => A.get j i
/-- `sparse.kron(A, B)` (first factor most significant) -/
def kron (A B : IMat) : IMat :=
  ofFn (A.n * B.n) fun i j => A.get (i / B.n) (j / B.n) * B.get (i % B.n) (j % B.n)
end IMat

/-- `I = sparse.identity(2)` -/
def siteI : IMat := IMat.ofFn 2 fun i j => if i = j then 1 else 0
/-- `Z = [[1, 0], [0, -1]]` -/
def siteZ : IMat := IMat.ofFn 2 fun i j => if i = j then (if i = 0 then 1 else -1) else 0
/-- `U = [[0, 0], [1, 0]]` -/
def siteU : IMat := IMat.ofFn 2 fun i j => if i = 1 ∧ j = 0 then 1 else 0

/-- the factor put on site `j` when building `clist[i]` (lines 209-214): sign string on the LATER sites -/
def siteFactor (i j : Nat) : IMat := if j < i then siteI else if j = i then siteU else siteZ

/-- `clist[i]`: `c = identity(1); for j in range(L): c = kron(c, factor j)` -/
def createMat (L i : Nat) : IMat :=
  (List.range L).foldl (fun c j => c.kron (siteFactor i j)) (IMat.one 1)

def clist (L : Nat) : Array IMat := ((List.range L).map (createMat L)).toArray
/-- `alist = [c.conj().T for c in clist]` -/
def alist (L : Nat) : Array IMat := (clist L).map IMat.transpose

/-- lines 225-232: `fstring = fstring @ clist[j]` / `alist[j]` along `enumerate(multi_index)` -/
def stringMat (cl al : Array IMat) : List IFODesc → List Nat → IMat → Except Err IMat
  | d :: ds, j :: js, acc =>
    match d.otype with
    | .fermiCreate =>
      match cl[j]? with
      | some c => stringMat cl al ds js (acc.mul c)
      | none => .error .indexError
    | .fermiAnnihil =>
      match al[j]? with
      | some a => stringMat cl al ds js (acc.mul a)
      | none => .error .indexError
    | _ => .error .runtimeError
  | _, _, acc => .ok acc

/-- `op += coeff * fstring` -/
def addScaled (op : Mat) (c : GQ) (fs : IMat) : Mat :=
  Mat.ofFn op.n op.m fun i j => op.get i j + c * GQ.ofRat ((fs.get i j : Int) : Rat)

/-- one coefficient of one term (lines 222-233) -/
def coeffStep (L : Nat) (cl al : Array IMat) (t : Term) (op : Mat) (idx : List Nat) : Except Err Mat :=
  let c := t.coeffs.get idx
  if c = 0 then .ok op
  else match stringMat cl al t.opdesc idx (IMat.one (2 ^ L)) with
    | .ok fs => .ok (addScaled op c fs)
    | .error e => .error e

/-- fold of `coeffStep` over the multi-indices, stopping at the first exception -/
def coeffLoop (L : Nat) (cl al : Array IMat) (t : Term) : List (List Nat) → Mat → Except Err Mat
  | [], op => .ok op
  | idx :: rest, op =>
    match coeffStep L cl al t op idx with
    | .ok op' => coeffLoop L cl al t rest op'
    | .error e => .error e

/-- one term (lines 221-233); `np.nditer` refuses zero-sized arrays -/
def termStep (L : Nat) (cl al : Array IMat) (t : Term) (op : Mat) : Except Err Mat :=
  if prodL t.coeffs.shape = 0 then .error .valueError
  else coeffLoop L cl al t (multiIndices t.coeffs.shape) op

def termLoop (L : Nat) (cl al : Array IMat) : List Term → Mat → Except Err Mat
  | [], op => .ok op
  | t :: rest, op =>
    match termStep L cl al t op with
    | .ok op' => termLoop L cl al rest op'
    | .error e => .error e

/-- `sparse.csr_matrix((2**L, 2**L))` -/
def zeroMat (n : Nat) : Mat := Mat.ofFn n n fun _ _ => 0

/-- the matrix on `L` sites, once the field checks have passed -/
def asMatrixL (L : Nat) (op : FieldOp) : Except Err Mat :=
  termLoop L (clist L) (alist L) op.terms (zeroMat (2 ^ L))

/-- `FieldOperator.as_matrix()` -/
def FieldOp.asMatrix (op : FieldOp) : Except Err Mat :=
  match op.fields with
  | [f] => if f.ptype ≠ .fermion then .error .notImplementedError else asMatrixL f.nsites op
  | _ => .error .notImplementedError

end Qib.Fermi
