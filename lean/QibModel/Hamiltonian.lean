import QibModel.Pauli
import QibModel.Lattice
/-!
Cores D/E – model Hamiltonians (C15). Mathlib-free, executable model of
`src/qib/operator/ising_hamiltonian.py`, `heisenberg_hamiltonian.py`, `fermi_hubbard_hamiltonian.py`,
`molecular_hamiltonian.py`.

* `LatIn`           : what the Hamiltonians read from `field.lattice`: `nsites`, the integer entries of
                      `adjacency_matrix()`, and whether it is a `LayeredLattice` (with `nlayers`);
                      `LatIn.ofLat` takes all three from the lattice model of `QibModel/Lattice.lean`.
* `PyArg`           : a coupling argument as seen by `isinstance` (kind) together with its exact value.
* `sitePS`          : `PauliString.from_single_paulis(L, (c, i), …)` in closed form
                      (bridge to `PS.ofSinglePaulis` in `Lemmas/HamPauli.lean`).
* `isingOp`, `heisOp` : `as_pauli_operator` – the upper-triangle scan `for i: for j in range(i+1, L)` with
                      `add_pauli_string` (merge-on-insert) exactly in the order of the code.
* `Hubbard`         : kinetic / interaction coefficient tensors (`np.kron(np.identity(2), adj[:L/2,:L/2])`,
                      the `int_coeffs[i, i, j, j]` loops) and the operator patterns of `as_field_operator`.
* `Molecular`       : constructor validation (`np.allclose` as an exact rational predicate `closeTol`),
                      `as_field_operator` = constant, `tkin`, `0.5 * vint.transpose(0, 1, 3, 2)`.
* `…isHermitian`    : the answers of `is_hermitian()`.
-/
namespace Qib.Ham
open Qib.Pauli

inductive Err | valueError | assertion | typeError
  deriving DecidableEq, Repr

def Err.toStr : Err → String
  | .valueError => "ValueError" | .assertion => "Assertion" | .typeError => "TypeError"

/-! ### inputs -/

/-- `ParticleType` -/
inductive PType | qubit | boson | fermion | majorana
  deriving DecidableEq, Repr

/-- the part of `field.lattice` the Hamiltonians look at -/
structure LatIn where
  nsites : Nat
  /-- entry `(i, j)` of `adjacency_matrix()` -/
  adj : Nat → Nat → Int
  /-- `some nlayers` iff `isinstance(lattice, LayeredLattice)` -/
  layers : Option Nat

/-- the lattice model of Core E as input of the Hamiltonians -/
def LatIn.ofLat (l : Qib.Lattice.Lat) : LatIn where
  nsites := l.nsites
  adj := fun i j => if l.adj i j then 1 else 0
  layers := match l with
    | .layered _ nl => some nl
    | _ => none

structure FieldIn where
  ptype : PType
  lat : LatIn

/-- how a Python argument looks to `isinstance` -/
inductive PyKind
  | int | bool | float | npfloat64      -- `bool ⊂ int`, `np.float64 ⊂ float`
  | npint64 | npfloat32 | complex | str | none
  deriving DecidableEq, Repr

/-- `isinstance(x, (int, float))` -/
def PyKind.isIntOrFloat : PyKind → Bool
  | .int | .bool | .float | .npfloat64 => true
  | _ => false

/-- `isinstance(x, float)` -/
def PyKind.isFloat : PyKind → Bool
  | .float | .npfloat64 => true
  | _ => false

/-- an argument: its Python kind and its exact numeric value (0 for `str` / `None`) -/
structure PyArg (α : Type) where
  kind : PyKind
  val : α

/-! ### Pauli strings on one or two sites -/

inductive Letter | X | Y | Z
  deriving DecidableEq, Repr

def Letter.char : Letter → Char
  | .X => 'X' | .Y => 'Y' | .Z => 'Z'

/-- `(z, x)` bits of a letter (`from_single_paulis`: X ↦ (0,1), Y ↦ (1,1), Z ↦ (1,0)) -/
def Letter.zbit : Letter → Bool
  | .X => false | .Y => true | .Z => true
def Letter.xbit : Letter → Bool
  | .X => true | .Y => true | .Z => false

/-- `z = np.zeros(L); for i in sites: z[i] = b` -/
def setBits (L : Nat) (b : Bool) (sites : List Nat) : List Bool :=
  sites.foldl (fun l i => l.set i b) (List.replicate L false)

/-- `PauliString.from_single_paulis(L, (c, i) for i in sites)` for in-range sites -/
def sitePS (L : Nat) (c : Letter) (sites : List Nat) : PS :=
  ⟨setBits L c.zbit sites, setBits L c.xbit sites, 0⟩

/-! ### Ising and Heisenberg: `as_pauli_operator` -/

/-- `for j in range(i + 1, L): if adj[i, j] == 0: continue; op.add_pauli_string(A_i A_j, J)` -/
def edgeRow {α : Type} [Add α] (L : Nat) (adj : Nat → Nat → Int) (A : Letter) (J : α) (i : Nat)
    (op : PauliOp α) : PauliOp α :=
  (List.range' (i + 1) (L - (i + 1))).foldl
    (fun op j => if adj i j == 0 then op else op.add (sitePS L A [i, j]) J) op

inductive IsingConv | zz | xx
  deriving DecidableEq, Repr

/-- `(A, B)` of the convention: "J Z Z + h Z + g X" resp. "J X X + h X + g Z" -/
def IsingConv.letters : IsingConv → Letter × Letter
  | .zz => (.Z, .X)
  | .xx => (.X, .Z)

/-- body of `for i in range(L)` in `IsingHamiltonian.as_pauli_operator` -/
def isingStep {α : Type} [Add α] (L : Nat) (adj : Nat → Nat → Int) (J h g : α) (A B : Letter)
    (op : PauliOp α) (i : Nat) : PauliOp α :=
  ((edgeRow L adj A J i op).add (sitePS L A [i]) h).add (sitePS L B [i]) g

def isingOpAB {α : Type} [Add α] (L : Nat) (adj : Nat → Nat → Int) (J h g : α) (A B : Letter) : PauliOp α :=
  (List.range L).foldl (isingStep L adj J h g A B) []

/-- `IsingHamiltonian.as_pauli_operator` -/
def isingOp {α : Type} [Add α] (L : Nat) (adj : Nat → Nat → Int) (J h g : α) (conv : IsingConv) : PauliOp α :=
  isingOpAB L adj J h g conv.letters.1 conv.letters.2

/-- body of `for i in range(L)` in `HeisenbergHamiltonian.as_pauli_operator` -/
def heisStep {α : Type} [Add α] (L : Nat) (adj : Nat → Nat → Int) (A : Letter) (J h : α)
    (op : PauliOp α) (i : Nat) : PauliOp α :=
  (edgeRow L adj A J i op).add (sitePS L A [i]) h

/-- one pass `for i in range(L)` for the letter `A` -/
def heisPass {α : Type} [Add α] (L : Nat) (adj : Nat → Nat → Int) (J h : Letter → α)
    (op : PauliOp α) (A : Letter) : PauliOp α :=
  (List.range L).foldl (heisStep L adj A (J A) (h A)) op

/-- `HeisenbergHamiltonian.as_pauli_operator`: `for k, gate in enumerate(['X', 'Y', 'Z'])` -/
def heisOp {α : Type} [Add α] (L : Nat) (adj : Nat → Nat → Int) (J h : Letter → α) : PauliOp α :=
  [Letter.X, Letter.Y, Letter.Z].foldl (heisPass L adj J h) []

/-- `IsingHamiltonian` object -/
structure Ising (α : Type) where
  lat : LatIn
  J : α
  h : α
  g : α
  conv : IsingConv

/-- `IsingHamiltonian.__init__`; `conv = none`: the argument is not an `IsingConvention` -/
def mkIsing {α : Type} (f : FieldIn) (J h g : PyArg α) (conv : Option IsingConv) : Except Err (Ising α) :=
  if f.ptype ≠ .qubit then .error .valueError
  else if !J.kind.isIntOrFloat then .error .valueError
  else if !h.kind.isIntOrFloat then .error .valueError
  else if !g.kind.isIntOrFloat then .error .valueError
  else match conv with
    | none => .error .valueError
    | some c => .ok ⟨f.lat, J.val, h.val, g.val, c⟩

def Ising.asPauliOperator {α : Type} [Add α] (H : Ising α) : PauliOp α :=
  isingOp H.lat.nsites H.lat.adj H.J H.h H.g H.conv

def Ising.isHermitian {α : Type} (_ : Ising α) : Bool := true

/-- `HeisenbergHamiltonian` object -/
structure Heisenberg (α : Type) where
  lat : LatIn
  J : Letter → α
  h : Letter → α

def tripleFn {α : Type} (x y z : α) : Letter → α
  | .X => x | .Y => y | .Z => z

/-- `HeisenbergHamiltonian.__init__` (sequences `J`, `h`) -/
def mkHeisenberg {α : Type} (f : FieldIn) (J h : List (PyArg α)) : Except Err (Heisenberg α) :=
  if f.ptype ≠ .qubit then .error .valueError
  else match J, h with
    | [j1, j2, j3], [h1, h2, h3] =>
      if [j1, h1, j2, h2, j3, h3].all (fun a => a.kind.isIntOrFloat)
      then .ok ⟨f.lat, tripleFn j1.val j2.val j3.val, tripleFn h1.val h2.val h3.val⟩
      else .error .valueError
    | _, _ => .error .valueError

def Heisenberg.asPauliOperator {α : Type} [Add α] (H : Heisenberg α) : PauliOp α :=
  heisOp H.lat.nsites H.lat.adj H.J H.h

def Heisenberg.isHermitian {α : Type} (_ : Heisenberg α) : Bool := true

/-! ### Fermi-Hubbard: coefficient tensors of `as_field_operator` -/

/-- `IFOType` restricted to what occurs here -/
inductive Op | create | annihil
  deriving DecidableEq, Repr

/-- `IFOType.adjoint` -/
def Op.adjoint : Op → Op
  | .create => .annihil
  | .annihil => .create

/-- `np.kron(np.identity(2), B)[i, j]` for an `h × h` block `B` -/
def kronI2 (h : Nat) (B : Nat → Nat → Int) (i j : Nat) : Int :=
  (if i / h = j / h then 1 else 0) * B (i % h) (j % h)

structure Hubbard (α : Type) where
  lat : LatIn
  t : α
  u : α
  spin : Bool

/-- `FermiHubbardHamiltonian.__init__` -/
def mkHubbard {α : Type} (f : FieldIn) (t u : PyArg α) (spin : Bool) : Except Err (Hubbard α) :=
  if f.ptype ≠ .fermion then .error .valueError
  else if !t.kind.isFloat then .error .valueError
  else if !u.kind.isFloat then .error .valueError
  else if spin then
    match f.lat.layers with
    | none => .error .valueError
    | some nl => if nl ≠ 2 then .error .valueError else .ok ⟨f.lat, t.val, u.val, spin⟩
  else .ok ⟨f.lat, t.val, u.val, spin⟩

/-- `kin_coeffs[i, j]` -/
def hubbardKin {α : Type} [Neg α] [Mul α] [IntCast α] (L : Nat) (adj : Nat → Nat → Int) (t : α) (spin : Bool)
    (i j : Nat) : α :=
  if spin then -t * ((kronI2 (L / 2) adj i j : Int) : α) else -t * ((adj i j : Int) : α)

/-- `int_coeffs[a, b, c, d]` -/
def hubbardInt {α : Type} [Zero α] (L : Nat) (adj : Nat → Nat → Int) (u : α) (spin : Bool)
    (a b c d : Nat) : α :=
  if spin then
    (if a < L / 2 ∧ b = a ∧ c = a + L / 2 ∧ d = a + L / 2 then u else 0)
  else
    (if b = a ∧ d = c ∧ a < c ∧ c < L ∧ adj a c ≠ 0 then u else 0)

/-- operator patterns of the two terms of `FermiHubbardHamiltonian.as_field_operator` -/
def hubbardPatternT : List Op := [.create, .annihil]
def hubbardPatternV : List Op := [.create, .annihil, .create, .annihil]

/-- `as_field_operator`: `assert L % 2 == 0` in the spinful branch -/
def Hubbard.check {α : Type} (H : Hubbard α) : Except Err Unit :=
  if H.spin ∧ H.lat.nsites % 2 ≠ 0 then .error .assertion else .ok ()

def Hubbard.kin {α : Type} [Neg α] [Mul α] [IntCast α] (H : Hubbard α) : Nat → Nat → α :=
  hubbardKin H.lat.nsites H.lat.adj H.t H.spin

def Hubbard.int {α : Type} [Zero α] (H : Hubbard α) : Nat → Nat → Nat → Nat → α :=
  hubbardInt H.lat.nsites H.lat.adj H.u H.spin

def Hubbard.isHermitian {α : Type} (_ : Hubbard α) : Bool := true

/-! ### molecular Hamiltonian -/

/-- `np.isclose(a, b)` for finite complex numbers, decided exactly over the rationals:
`|a - b| ≤ atol + rtol·|b|`  ⇔  `D ≤ (atol + rtol·√M)²` with `D = |a-b|²`, `M = |b|²`
⇔  `X ≤ 2·atol·rtol·√M` with `X = D - atol² - rtol²·M`  ⇔  `X ≤ 0 ∨ X² ≤ 4·atol²·rtol²·M`
(for `atol, rtol ≥ 0`). -/
def closeTol (atol rtol : Rat) (a b : GQ) : Bool :=
  let D := (a - b).normSq
  let M := b.normSq
  let X := D - atol * atol - rtol * rtol * M
  decide (X ≤ 0) || decide (X * X ≤ 4 * atol * atol * rtol * rtol * M)

structure MolArgs where
  ptype : PType
  nsites : Nat
  /-- `np.asarray(tkin).shape`, `np.asarray(vint).shape` -/
  tshape : List Nat
  vshape : List Nat
  c : PyArg GQ
  t : Nat → Nat → GQ
  v : Nat → Nat → Nat → Nat → GQ
  /-- `HERMITIAN in symm`, `VARCHANGE in symm` -/
  symH : Bool
  symV : Bool

/-- all index tuples `< n` -/
def all2 (n : Nat) (p : Nat → Nat → Bool) : Bool :=
  (List.range n).all fun i => (List.range n).all fun j => p i j
def all4 (n : Nat) (p : Nat → Nat → Nat → Nat → Bool) : Bool :=
  all2 n fun i j => all2 n fun k l => p i j k l

structure Molecular where
  norbs : Nat
  c : GQ
  t : Nat → Nat → GQ
  v : Nat → Nat → Nat → Nat → GQ
  symH : Bool
  symV : Bool

/-- `MolecularHamiltonian.__init__`: `norbs = len(tkin)` is the first extent of `tkin` -/
def mkMolecular (atol rtol : Rat) (m : MolArgs) : Except Err Molecular :=
  match m.tshape with
  | [] => .error .typeError                      -- `len()` of a 0-d object
  | n :: _ =>
    if m.tshape ≠ [n, n] then .error .valueError
    else if m.vshape ≠ [n, n, n, n] then .error .valueError
    else if m.ptype ≠ .fermion then .error .valueError
    else if m.nsites ≠ n then .error .valueError
    else if m.symH && !m.c.kind.isIntOrFloat then .error .valueError
    else if m.symH && !all2 n (fun i j => closeTol atol rtol (m.t i j) (m.t j i).conj) then .error .valueError
    else if m.symH && !all4 n (fun i j k l => closeTol atol rtol (m.v i j k l) (m.v k l i j).conj) then .error .valueError
    else if m.symV && !all4 n (fun i j k l => closeTol atol rtol (m.v i j k l) (m.v j i l k)) then .error .valueError
    else .ok ⟨n, m.c.val, m.t, m.v, m.symH, m.symV⟩

def Molecular.isHermitian (H : Molecular) : Bool := H.symH

/-- operator patterns of the three terms of `MolecularHamiltonian.as_field_operator` -/
def molPatternC : List Op := []
def molPatternT : List Op := [.create, .annihil]
def molPatternV : List Op := [.create, .create, .annihil, .annihil]

/-- coefficient tensor of the interaction term: `0.5 * vint.transpose((0, 1, 3, 2))` -/
def molV {α : Type} [Mul α] (half : α) (v : Nat → Nat → Nat → Nat → α) (i j k l : Nat) : α :=
  half * v i j l k

def GQ.half : GQ := ⟨1 / 2, 0⟩

def Molecular.coeffC (H : Molecular) : GQ := H.c
def Molecular.coeffT (H : Molecular) : Nat → Nat → GQ := H.t
def Molecular.coeffV (H : Molecular) : Nat → Nat → Nat → Nat → GQ := molV GQ.half H.v

end Qib.Ham
