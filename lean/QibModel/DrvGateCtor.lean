import QibModel.DriverMain
import QibModel.GateCtorOps
def main : IO Unit := Qib.driverMain Qib.GateCtor.dispatch
