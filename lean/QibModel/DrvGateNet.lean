import QibModel.GateNetOps
/-! Model driver for the gate-network core (C06): op `gate.net`. -/
def main : IO Unit := Qib.driverMain Qib.GateNet.dispatch
