import QibModel.Hamiltonian
import QibModel.PauliOps
import QibModel.LatticeOps
/-!
Driver ops of C15: `ham.ising`, `ham.heisenberg`, `ham.hubbard`, `ham.molecular`, `ham.herm`.

Lattice input `"lat": {"nsites": L, "adj": [[int…]…], "layers": null | k, "desc": <C14 description> | null}`:
the Hamiltonian model runs on the adjacency matrix reported by the implementation; when a description is
given, the reply also says whether the lattice model of `QibModel/Lattice.lean` yields the same input
(`"latmodel"`), which is what the `…_lattice` theorems of `Properties/C15.lean` are about.
Couplings `{"k": kind, "v": "p/q"}`; complex numbers `[re, im]`; a rejection by the code is the ordinary
reply `{"raised": kind}`.
-/
open Lean
namespace Qib.Ham
open Qib.J Qib.Pauli

def raisedJ (e : Err) : Json := Json.mkObj [("raised", .str e.toStr)]
def valJ (j : Json) : Json := Json.mkObj [("val", j)]

def parsePType (s : String) : Except String PType :=
  match s with
  | "qubit" => .ok .qubit | "boson" => .ok .boson | "fermion" => .ok .fermion | "majorana" => .ok .majorana
  | _ => .error s!"bad particle type {s}"

def parseKind (s : String) : Except String PyKind :=
  match s with
  | "int" => .ok .int | "bool" => .ok .bool | "float" => .ok .float | "npfloat64" => .ok .npfloat64
  | "npint64" => .ok .npint64 | "npfloat32" => .ok .npfloat32 | "complex" => .ok .complex
  | "str" => .ok .str | "none" => .ok .none
  | _ => .error s!"bad kind {s}"

def parseArgRat (j : Json) : Except String (PyArg Rat) := do
  return ⟨← parseKind (← fStr j "k"), ← parseRat (← field j "v")⟩

def parseArgGQ (j : Json) : Except String (PyArg GQ) := do
  return ⟨← parseKind (← fStr j "k"), ← parseGQ (← field j "v")⟩

/-- result: the input used by the model, and the comparison with the lattice model (if a description came along) -/
def parseLatIn (j : Json) : Except String (LatIn × Json) := do
  let n ← fNat j "nsites"
  let rows ← (← fList j "adj").mapM (listOf J.int)
  let arr : Array (Array Int) := (rows.map List.toArray).toArray
  let layers : Option Nat ← match (← field j "layers") with
    | .null => pure none
    | v => do pure (some (← J.nat v))
  let li : LatIn := ⟨n, fun i k => (arr.getD i #[]).getD k 0, layers⟩
  let cmp : Json ← match j.getObjVal? "desc" with
    | .ok .null => pure Json.null
    | .error _ => pure Json.null
    | .ok d =>
      match ← Qib.Lattice.parseLat d with
      | .error e => pure (Json.mkObj [("raised", .str (Qib.Lattice.Err.toStr e))])
      | .ok l =>
        let m := LatIn.ofLat l
        let same := m.nsites == n && rows.length == n && rows.all (fun r => r.length == n) &&
          (List.range n).all (fun i => (List.range n).all fun k => m.adj i k == li.adj i k) &&
          m.layers == layers
        pure (Json.mkObj [("same", .bool same), ("nsites", jNat m.nsites)])
  return (li, cmp)

def parseField (j : Json) : Except String (FieldIn × Json) := do
  let (li, cmp) ← parseLatIn (← field j "lat")
  return (⟨← parsePType (← fStr j "ptype"), li⟩, cmp)

def ratJ (r : Rat) : Json := .str (ratStr r)

def popJson (op : PauliOp Rat) : Json :=
  .arr (op.map fun (P, w) => Json.arr #[psJson P, ratJ w]).toArray

def opIsing (j : Json) : Except String Json := do
  let (f, cmp) ← parseField j
  let J ← parseArgRat (← field j "J")
  let h ← parseArgRat (← field j "h")
  let g ← parseArgRat (← field j "g")
  let conv : Option IsingConv ← match (← field j "conv") with
    | .str "zz" => pure (some .zz)
    | .str "xx" => pure (some .xx)
    | .null => pure none
    | _ => .error "bad convention"
  match mkIsing f J h g conv with
  | .error e => return raisedJ e
  | .ok H => return valJ (Json.mkObj [("strings", popJson H.asPauliOperator), ("herm", .bool H.isHermitian),
      ("nq", jNat H.lat.nsites), ("latmodel", cmp)])

def opHeisenberg (j : Json) : Except String Json := do
  let (f, cmp) ← parseField j
  let J ← (← fList j "J").mapM parseArgRat
  let h ← (← fList j "h").mapM parseArgRat
  match mkHeisenberg f J h with
  | .error e => return raisedJ e
  | .ok H => return valJ (Json.mkObj [("strings", popJson H.asPauliOperator), ("herm", .bool H.isHermitian),
      ("nq", jNat H.lat.nsites), ("latmodel", cmp)])

def opName : Op → String
  | .create => "FERMI_CREATE" | .annihil => "FERMI_ANNIHIL"

def patJ (p : List Op) : Json := ofStrs (p.map opName)

/-- non-zero entries of a 2-index / 4-index coefficient tensor, C order -/
def nz2 {α : Type} (n : Nat) (isZ : α → Bool) (toJ : α → Json) (t : Nat → Nat → α) : Json :=
  .arr ((List.range n).flatMap fun i => (List.range n).filterMap fun k =>
    let e := t i k
    if isZ e then none else some (Json.arr #[jNat i, jNat k, toJ e])).toArray

def nz4 {α : Type} (n : Nat) (isZ : α → Bool) (toJ : α → Json) (v : Nat → Nat → Nat → Nat → α) : Json :=
  .arr ((List.range n).flatMap fun a => (List.range n).flatMap fun b => (List.range n).flatMap fun c =>
    (List.range n).filterMap fun d =>
      let e := v a b c d
      if isZ e then none else some (Json.arr #[jNat a, jNat b, jNat c, jNat d, toJ e])).toArray

def termJ (pat : List Op) (shape : List Nat) (nz : Json) : Json :=
  Json.mkObj [("pattern", patJ pat), ("shape", ofNats shape), ("nz", nz)]

def opHubbard (j : Json) : Except String Json := do
  let (f, cmp) ← parseField j
  let t ← parseArgRat (← field j "t")
  let u ← parseArgRat (← field j "u")
  let spin ← fBool j "spin"
  match mkHubbard f t u spin with
  | .error e => return raisedJ e
  | .ok H =>
    match H.check with
    | .error e => return Json.mkObj [("raised_afo", .str e.toStr), ("herm", .bool H.isHermitian)]
    | .ok () =>
      let L := H.lat.nsites
      return valJ (Json.mkObj [
        ("terms", Json.arr #[termJ hubbardPatternT [L, L] (nz2 L (· == 0) ratJ H.kin),
                             termJ hubbardPatternV [L, L, L, L] (nz4 L (· == 0) ratJ H.int)]),
        ("herm", .bool H.isHermitian), ("latmodel", cmp)])

def gqIsZero (g : GQ) : Bool := g.re == 0 && g.im == 0

def opMolecular (j : Json) : Except String Json := do
  let tshape ← listOf J.nat (← field j "tshape")
  let vshape ← listOf J.nat (← field j "vshape")
  let td : Array GQ := (← (← fList j "t").mapM parseGQ).toArray
  let vd : Array GQ := (← (← fList j "v").mapM parseGQ).toArray
  let n := tshape.headD 0
  let args : MolArgs := {
    ptype := ← parsePType (← fStr j "ptype")
    nsites := ← fNat j "nsites"
    tshape := tshape
    vshape := vshape
    c := ← parseArgGQ (← field j "c")
    t := fun i k => td.getD (i * n + k) 0
    v := fun a b c d => vd.getD (((a * n + b) * n + c) * n + d) 0
    symH := ← fBool j "symH"
    symV := ← fBool j "symV" }
  let atol ← parseRat (← field j "atol")
  let rtol ← parseRat (← field j "rtol")
  match mkMolecular atol rtol args with
  | .error e => return raisedJ e
  | .ok H =>
    let n := H.norbs
    return valJ (Json.mkObj [
      ("terms", Json.arr #[
        termJ molPatternC [] (Json.arr #[gqJson H.coeffC]),
        termJ molPatternT [n, n] (nz2 n gqIsZero gqJson H.coeffT),
        termJ molPatternV [n, n, n, n] (nz4 n gqIsZero gqJson H.coeffV)]),
      ("herm", .bool H.isHermitian)])

/-- `is_hermitian()` of the four classes -/
def opHerm (j : Json) : Except String Json := do
  let lat : LatIn := ⟨0, fun _ _ => 0, none⟩
  match ← fStr j "cls" with
  | "ising" => return valJ (.bool (Ising.isHermitian (⟨lat, 0, 0, 0, .zz⟩ : Ising Rat)))
  | "heisenberg" => return valJ (.bool (Heisenberg.isHermitian (⟨lat, fun _ => 0, fun _ => 0⟩ : Heisenberg Rat)))
  | "hubbard" => return valJ (.bool (Hubbard.isHermitian (⟨lat, 0, 0, false⟩ : Hubbard Rat)))
  | "molecular" =>
    return valJ (.bool (Molecular.isHermitian ⟨0, 0, fun _ _ => 0, fun _ _ _ _ => 0, ← fBool j "symH", ← fBool j "symV"⟩))
  | c => .error s!"unknown class {c}"

end Qib.Ham
