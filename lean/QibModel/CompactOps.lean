import QibModel.Compact
import QibModel.CompactSpec
import QibModel.PauliOps
/-!
Driver ops of the compact encoding (C13): `compact.vertex`, `compact.edge`, `compact.loop`, `ofc.face`,
`compact.encode`, plus `compact.closed` (the closed-layer strings the theorems are about, so that the harness
can compare them with the literal layer and with the code as well) and `compact.chain` (spectral part, C13Spec: the
encoded operator, its conjugate by the Pauli string `chainW`, and the Jordan-Wigner encoding of `fermiOp`).
Replies: `{"val": …}` or `{"raised": "<ExceptionClass>"}`; rationals as `"p/q"`, weights as `[re, im]`.
-/
open Lean
namespace Qib.Compact
open Qib.J Qib.Pauli Qib.Lattice

def raised (e : Err) : Json := Json.mkObj [("raised", .str e.toStr)]
def exJson {α} (f : α → Json) : Except Err α → Json
  | .ok a => val (f a)
  | .error e => raised e

def parseCoord (j : Json) : Except String (Int × Int) :=
  match j with
  | .arr #[a, b] => do return (← int a, ← int b)
  | _ => .error "expected [x, y]"

def parseShape (j : Json) : Except String (Nat × Nat) :=
  match j with
  | .arr #[a, b] => do return (← nat a, ← nat b)
  | _ => .error "expected [n0, n1]"

def opVertex (j : Json) : Except String Json := do
  let (n0, n1) ← parseShape (← field j "shape")
  return exJson psJson (vertexOp n0 n1 (← parseCoord (← field j "j")))

def opEdge (j : Json) : Except String Json := do
  let (n0, n1) ← parseShape (← field j "shape")
  return exJson psJson (edgeOp n0 n1 (← parseCoord (← field j "i")) (← parseCoord (← field j "j")))

def opLoop (j : Json) : Except String Json := do
  let (n0, n1) ← parseShape (← field j "shape")
  let (x, y) ← parseCoord (← field j "face")
  return exJson psJson (loopOp n0 n1 x y)

def opFace (j : Json) : Except String Json := do
  let (n0, n1) ← parseShape (← field j "shape")
  return exJson (fun o : Option Nat => match o with | some f => jNat f | none => jInt (-1))
    (edgeFace n0 n1 (← parseCoord (← field j "i")) (← parseCoord (← field j "j")))

/-- closed-layer strings for valid natural coordinates: `kind` ∈ vertex / edge / loop -/
def opClosed (j : Json) : Except String Json := do
  let (n0, n1) ← parseShape (← field j "shape")
  match ← fStr j "kind" with
  | "vertex" =>
    let (x, y) ← parseShape (← field j "j")
    return val (psJson (vertexStr n0 n1 x y))
  | "edge" =>
    let (ix, iy) ← parseShape (← field j "i")
    let (jx, jy) ← parseShape (← field j "j")
    return val (psJson (edgeStr n0 n1 ix iy jx jy))
  | "loop" =>
    let (x, y) ← parseShape (← field j "face")
    return val (psJson (loopStr n0 n1 x y))
  | k => .error s!"unknown kind {k}"

/-- all nearest-neighbour ordered pairs inside the rectangle, in a fixed order -/
def allEdges (n0 n1 : Nat) : List ((Nat × Nat) × (Nat × Nat)) :=
  (List.range n0).flatMap fun x => (List.range n1).flatMap fun y =>
    (if y + 1 < n1 then [((x, y), (x, y + 1)), ((x, y + 1), (x, y))] else []) ++
    (if x + 1 < n0 then [((x, y), (x + 1, y)), ((x + 1, y), (x, y))] else [])

def pairJ (p : Nat × Nat) : Json := Json.arr #[jNat p.1, jNat p.2]

/-- everything the relations are about, from the closed layer: vertex strings, edge strings for both
orientations, loop products of all faces -/
def opShape (j : Json) : Except String Json := do
  let (n0, n1) ← parseShape (← field j "shape")
  let verts := (List.range n0).flatMap fun x => (List.range n1).map fun y =>
    Json.arr #[pairJ (x, y), psJson (vertexStr n0 n1 x y)]
  let edges := (allEdges n0 n1).map fun (i, k) =>
    Json.arr #[pairJ i, pairJ k, psJson (edgeStr n0 n1 i.1 i.2 k.1 k.2)]
  let loops := (List.range (n0 - 1)).flatMap fun x => (List.range (n1 - 1)).map fun y =>
    Json.arr #[pairJ (x, y), psJson (loopStr n0 n1 x y)]
  return val (Json.mkObj [("nsites", jNat (ofcNsites n0 n1)), ("verts", .arr verts.toArray),
    ("edges", .arr edges.toArray), ("loops", .arr loops.toArray)])

def parseTerm (j : Json) : Except String Term := do
  let hop ← fBool j "hop"
  let isFloat ← fBool j "float"
  let coeffs ← listOf (listOf parseRat) (← field j "coeffs")
  return ⟨hop, isFloat, coeffs⟩

def opEncode (j : Json) : Except String Json := do
  let inp : Input := {
    nfields := ← fNat j "nfields"
    fermion := ← fBool j "fermion"
    integerLattice := ← fBool j "integer"
    shape := ← listOf nat (← field j "shape")
    pbc := ← listOf J.bool (← field j "pbc")
    terms := ← listOf parseTerm (← field j "terms") }
  return exJson (fun (r : PauliOp GQ × Nat) =>
    Json.mkObj [("nsites", jNat r.2), ("herm", .bool r.1.isHermitian),
      ("strings", .arr (r.1.map fun (P, w) => Json.arr #[psJson P, gqJson w]).toArray)]) (encode inp)

/-- `compact.chain`: for a shape and coefficient matrices, the compact-encoded operator, the unitary `chainW` of the chain
theorem as a Pauli string, the encoded operator conjugated by it (canonical form: phases in the weights), and the
Jordan-Wigner encoding (C11 model) of the field operator `fermiOp` (as returned, and in canonical form) -/
def opChain (j : Json) : Except String Json := do
  let (n0, n1) ← parseShape (← field j "shape")
  let terms ← listOf parseTerm (← field j "terms")
  let inp : Input := ⟨1, true, true, [n0, n1], [false, false], terms⟩
  let W := chainW n0 n1
  match encode inp with
  | .error e => return raised e
  | .ok (op, n) =>
    match Encode.encode .jw (fun w => w.absLe 0) (fermiOp n0 n1 terms) with
    | .error e => return Json.mkObj [("raised", .str e.toStr)]
    | .ok jw =>
      return val (Json.mkObj [("nsites", jNat n), ("W", psJson W), ("compact", opJson op),
        ("conj", opJson (canonOp (conjOp W op))), ("jwraw", opJson jw), ("jw", opJson (canonOp jw))])

end Qib.Compact
