import QibGen.PauliTables
/-!
Core D — executable model of `qib/operator/pauli_operator.py` (Mathlib-free).

* `PS`            : `PauliString` in check-matrix form `(z, x, q)`, logical operator
                    `(-i)^q ⊗ₖ (-i)^{zₖ xₖ} Z^{zₖ} X^{xₖ}` (site 0 = slowest varying index).
* `PS.mul`        : `__matmul__` with the code's mod-4 phase formula (read from `QibGen.Pauli.mulPhaseTerms`).
* `PS.commutesWith`, `PS.isHermitian`, `PS.toChars` / `PS.fromChars` (`__str__` / `from_string`),
  `PS.refactorPhase`, `PS.refactorSign`, `PS.ofArrayLike` (constructor incl. rejections),
  `PS.ofSinglePaulis`, `PS.identity`, `PS.getPauli`, `PS.setPauli`.
* `PS.matEntry`   : dense matrix entry at flat indices (site 0 most significant) over Gaussian integers,
                    computed the way `as_matrix` does: one table lookup at `(q + z·x) % 4` times the
                    Kronecker product of `Z^z X^x`.
* `PauliOp α`     : `PauliOperator` = insertion-ordered list of (string, weight) with `add`
                    (merge-on-insert), `removeZero`, `Step`/`run` histories, dense matrix over `GQ`.
All tables and formulas come from `QibGen/PauliTables.lean`, regenerated from the source on every run.
-/
namespace Qib.Pauli
open QibGen.Pauli

/-- exception classes that the modelled code can raise -/
inductive Err where
  | valueError | indexError
  deriving DecidableEq, Repr

def Err.toStr : Err → String
  | .valueError => "ValueError"
  | .indexError => "IndexError"

/-! ### Gaussian rationals (exact weights and matrix entries in the driver) -/

structure GQ where
  re : Rat
  im : Rat
  deriving DecidableEq, Repr

namespace GQ
instance : Zero GQ := ⟨⟨0, 0⟩⟩
instance : One GQ := ⟨⟨1, 0⟩⟩
instance : Add GQ := ⟨fun a b => ⟨a.re + b.re, a.im + b.im⟩⟩
instance : Neg GQ := ⟨fun a => ⟨-a.re, -a.im⟩⟩
instance : Sub GQ := ⟨fun a b => ⟨a.re - b.re, a.im - b.im⟩⟩
instance : Mul GQ := ⟨fun a b => ⟨a.re * b.re - a.im * b.im, a.re * b.im + a.im * b.re⟩⟩
def ofInts (p : Int × Int) : GQ := ⟨(p.1 : Rat), (p.2 : Rat)⟩
def conj (a : GQ) : GQ := ⟨a.re, -a.im⟩
def normSq (a : GQ) : Rat := a.re * a.re + a.im * a.im
/-- Python's `abs(w) <= tol` (over the reals) -/
def absLe (a : GQ) (tol : Rat) : Bool := decide (0 ≤ tol) && decide (a.normSq ≤ tol * tol)
theorem add_def (a b : GQ) : a + b = ⟨a.re + b.re, a.im + b.im⟩ := rfl
theorem zero_def : (0 : GQ) = ⟨0, 0⟩ := rfl
end GQ

/-! ### Pauli strings -/

structure PS where
  z : List Bool
  x : List Bool
  q : Fin 4
  deriving DecidableEq, Repr

/-- `int(q) % 4` (Python's `%` is non-negative) -/
def qOfInt (k : Int) : Fin 4 := ⟨(k % 4).toNat, by omega⟩

namespace PS

/-- what the constructor guarantees: `z` and `x` have the same shape -/
def WF (P : PS) : Prop := P.z.length = P.x.length

def numQubits (P : PS) : Nat := P.z.length

/-- `PauliString.identity` -/
def identity (n : Nat) : PS := ⟨List.replicate n false, List.replicate n false, 0⟩

end PS

/-- `np.dot` of two 0/1 vectors -/
def dot (a b : List Bool) : Nat := (List.zipWith (fun p q => (p && q).toNat) a b).sum

/-- the vectors the phase formulas refer to (`z_prod = np.mod(self.z + other.z, 2)` etc.) -/
def mulEnv (P R : PS) : V → List Bool
  | .sz => P.z | .sx => P.x | .oz => R.z | .ox => R.x
  | .pz => List.zipWith xor P.z R.z
  | .px => List.zipWith xor P.x R.x

/-- `Σ coef · np.dot(a, b)` -/
def evalTerms (env : V → List Bool) (t : List (Int × V × V)) : Int :=
  (t.map fun (c, a, b) => c * (dot (env a) (env b) : Int)).sum

namespace PS

/-- `__matmul__` on strings of equal length -/
def mul (P R : PS) : PS :=
  ⟨List.zipWith xor P.z R.z, List.zipWith xor P.x R.x,
   qOfInt ((P.q.val : Int) + (R.q.val : Int) + evalTerms (mulEnv P R) mulPhaseTerms)⟩

/-- `__matmul__` including NumPy's rejection of unequal lengths (broadcast / `np.dot` shape errors) -/
def mulE (P R : PS) : Except Err PS :=
  if P.z.length = R.z.length ∧ P.x.length = R.x.length then .ok (P.mul R) else .error .valueError

/-- `commutes_with` -/
def commutesWith (P R : PS) : Bool := evalTerms (mulEnv P R) commTerms % 2 == 0

def commutesWithE (P R : PS) : Except Err Bool :=
  if P.z.length = R.z.length ∧ P.x.length = R.x.length then .ok (P.commutesWith R) else .error .valueError

/-- `is_hermitian` -/
def isHermitian (P : PS) : Bool := P.q.val % hermMod == hermEq

/-! #### printing and parsing -/

/-- `get_pauli` on one site -/
def letterOf (z x : Bool) : Char := (getPauliTable.lookup (z, x)).getD '?'

/-- the if-chain of `from_single_paulis` / `set_pauli` on one letter -/
def parseLetter (c : Char) : Option (Bool × Bool) := letterTable.lookup c

def getPauli (P : PS) (i : Nat) : Char := letterOf (P.z.getD i false) (P.x.getD i false)

/-- `__str__` as a character list -/
def toChars (P : PS) : List Char := printPrefix.getD P.q.val [] ++ List.zipWith letterOf P.z P.x

def toString (P : PS) : String := String.ofList P.toChars

/-- `from_single_paulis(len(s), *enumerate(s), q=q)` as called by `from_string` -/
def ofLetters (s : List Char) (q : Int) : Except Err PS :=
  match s.mapM parseLetter with
  | none => .error .valueError
  | some l => .ok ⟨l.map (·.1), l.map (·.2), qOfInt q⟩

/-- `from_string` on a character list: blanks removed, optional `+`, then the prefix decision tree;
`s[0]` / `s[1]` on a too short text raise `IndexError`, an unknown letter raises `ValueError`. -/
def fromChars (s0 : List Char) : Except Err PS :=
  match s0.filter (fun c => c != parseBlank) with
  | [] => .error .indexError
  | c :: t =>
    match (if c == parsePlus then t else c :: t) with
    | [] => .error .indexError
    | c :: t =>
      if c == parseMinus then
        match t with
        | [] => .error .indexError
        | d :: u => if d == parseMinusI then ofLetters u parseQMinusI else ofLetters (d :: u) parseQMinus
      else if c == parseImag then ofLetters t parseQImag
      else ofLetters (c :: t) parseQNone

def fromString (s : String) : Except Err PS := fromChars s.toList

/-- `from_single_paulis(nqubits, *args, q=q)`: later entries overwrite earlier ones; an index outside
`[0, nqubits)` or an unknown letter raises `ValueError` -/
def ofSinglePaulis (n : Nat) (args : List (Char × Int)) (q : Int) : Except Err PS := do
  let rec go (z x : List Bool) : List (Char × Int) → Except Err (List Bool × List Bool)
    | [] => .ok (z, x)
    | (c, i) :: rest =>
      if i < 0 ∨ i ≥ (n : Int) then .error .valueError else
      match parseLetter c with
      | none => .error .valueError
      | some (zb, xb) => go (z.set i.toNat zb) (x.set i.toNat xb) rest
  let (z, x) ← go (List.replicate n false) (List.replicate n false) args
  return ⟨z, x, qOfInt q⟩

/-- `set_pauli(s, i)`: letter test first (`ValueError`), then NumPy indexing (negative indices count from
the end, out of range raises `IndexError`) -/
def setPauli (P : PS) (c : Char) (i : Int) : Except Err PS :=
  match parseLetter c with
  | none => .error .valueError
  | some (zb, xb) =>
    let n : Int := P.z.length
    if i < -n ∨ i ≥ n then .error .indexError else
    let k := (if i < 0 then i + n else i).toNat
    .ok { P with z := P.z.set k zb, x := P.x.set k xb }

/-! #### phase / sign extraction -/

/-- `refactor_phase`: returned factor (Gaussian integer from the code's table) and the mutated string -/
def refactorPhase (P : PS) : (Int × Int) × PS := (phaseRefactor.getD P.q.val (0, 0), { P with q := 0 })

/-- `refactor_sign` -/
def refactorSign (P : PS) : Int × PS :=
  if P.q.val < signBelow then (signKeepFactor, P)
  else (signFactor, { P with q := qOfInt ((P.q.val % signMod : Nat) : Int) })

/-! #### constructor -/
end PS

/-- array-like constructor arguments: Python scalars (`int`, `bool`, `float` as exact rationals) and
nested sequences (lists, tuples, ndarrays) -/
inductive ArrLike where
  | num (v : Rat)
  | list (l : List ArrLike)

/-- C cast float → int, truncation toward zero (`np.asarray(..., dtype=int)`, `int(q)`) -/
def truncInt (v : Rat) : Int := v.num.tdiv v.den

/-- a flat sequence of scalars, the only thing `np.asarray` turns into a 1-D array; a scalar is 0-D and a
rectangular nested sequence is ≥ 2-D (rejected by the `ndim != 1` test), a ragged one is rejected by
NumPy itself – `ValueError` in all three cases -/
def ArrLike.flat? : ArrLike → Option (List Rat)
  | .num _ => none
  | .list l => l.mapM fun | .num v => some v | .list _ => none

/-- `set(a).issubset({0, 1})` and the resulting bits -/
def bitsOf? (l : List Int) : Option (List Bool) :=
  if l.all (fun v => v == 0 || v == 1) then some (l.map (· == 1)) else none

/-- `PauliString.__init__(z, x, q)` -/
def PS.ofArrayLike (z x : ArrLike) (q : Rat) : Except Err PS :=
  match z.flat?, x.flat? with
  | some zs, some xs =>
    if zs.length ≠ xs.length then .error .valueError else
    match bitsOf? (zs.map truncInt), bitsOf? (xs.map truncInt) with
    | some zb, some xb => .ok ⟨zb, xb, qOfInt (truncInt q)⟩
    | _, _ => .error .valueError
  | _, _ => .error .valueError

/-! ### dense matrix, the way `as_matrix` assembles it -/

def m2 (t : List (List Int)) (r c : Bool) : Int := (t.getD r.toNat []).getD c.toNat 0
def delta (r c : Bool) : Int := if r = c then 1 else 0
/-- `M ** e` for `e ∈ {0, 1}` -/
def pow2 (t : List (List Int)) (e r c : Bool) : Int := if e then m2 t r c else delta r c
/-- entry of `Z**z @ X**x` -/
def zxE (z x r c : Bool) : Int :=
  pow2 matZ z r false * pow2 matX x false c + pow2 matZ z r true * pow2 matX x true c

/-- bit of site `k` in a flat index of an `n`-site register: site 0 is the most significant bit -/
def bitAt (n k idx : Nat) : Bool := idx.testBit (n - 1 - k)

namespace PS

/-- entry of `kron(…kron(kron(1, A₀), A₁)…, A_{n-1})`, `Aₖ = Z**z[k] @ X**x[k]` -/
def bodyEntry (P : PS) (r c : Nat) : Int :=
  ((List.range P.z.length).map fun k =>
    zxE (P.z.getD k false) (P.x.getD k false) (bitAt P.z.length k r) (bitAt P.z.length k c)).prod

/-- index into the phase table used by `as_matrix`: `(q + np.dot(z, x)) % 4` -/
def phaseIdx (P : PS) : Nat := (((P.q.val : Int) + evalTerms (mulEnv P P) asMatrixIndexTerms) % 4).toNat

/-- `as_matrix()[r, c]` as a Gaussian integer -/
def matEntry (P : PS) (r c : Nat) : Int × Int :=
  let ph := phaseAsMatrix.getD P.phaseIdx (0, 0)
  let b := P.bodyEntry r c
  (ph.1 * b, ph.2 * b)

/-- all non-zero entries `(r, c, re, im)`, row-major -/
def matSparse (P : PS) : List (Nat × Nat × Int × Int) :=
  let d := 2 ^ P.z.length
  (List.range d).flatMap fun r => (List.range d).filterMap fun c =>
    let e := P.matEntry r c
    if e.1 == 0 && e.2 == 0 then none else some (r, c, e.1, e.2)

end PS

/-! ### weighted strings and operators -/

/-- `WeightedPauliString.is_hermitian`: `([1,-1j,-1,1j][q] * weight).imag == 0` -/
def wpsIsHermitian (P : PS) (w : GQ) : Bool :=
  ((GQ.ofInts (phaseWeightedHerm.getD P.q.val (0, 0))) * w).im == 0

/-- `WeightedPauliString.is_unitary`: `abs(self.weight) == 1` (over exact numbers: `|w|² = 1`) -/
def wpsIsUnitary (w : GQ) : Bool := w.normSq == 1

/-- `PauliOperator.pstrings`: insertion-ordered (string, weight) pairs -/
abbrev PauliOp (α : Type) := List (PS × α)

namespace PauliOp
variable {α : Type}

/-- `add_pauli_string`: the first equal string (same `z`, `x` **and** `q`) absorbs the weight, otherwise append -/
def add [Add α] : PauliOp α → PS → α → PauliOp α
  | [], P, w => [(P, w)]
  | (Q, v) :: rest, P, w => if Q = P then (Q, v + w) :: rest else (Q, v) :: add rest P w

/-- `remove_zero_weight_strings`: the loop runs from the last index down and pops a zero-weight entry while
more than one entry is left; so every entry behind the first is dropped iff its weight is zero, and the
first one is dropped iff it is zero and something else survives. -/
def removeZero (isZ : α → Bool) : PauliOp α → PauliOp α
  | [] => []
  | e :: rest =>
    let kept := rest.filter (fun p => !isZ p.2)
    if isZ e.2 && !kept.isEmpty then kept else e :: kept

/-- literal transcription of the loop `for i in range(len-1, -1, -1): if zero(i) and len > 1: pop(i)` -/
def removeZeroLoop (isZ : α → Bool) (op : PauliOp α) : PauliOp α :=
  let rec go : Nat → PauliOp α → PauliOp α
    | 0, l => l
    | i + 1, l =>
      match l[i]? with
      | some e => go i (if isZ e.2 && decide (l.length > 1) then l.eraseIdx i else l)
      | none => go i l
  go op.length op

/-- `PauliOperator.__init__`: all strings must have the same length -/
def ofList (l : List (PS × α)) : Except Err (PauliOp α) :=
  match l with
  | [] => .ok []
  | (P, _) :: rest => if rest.all (fun e => e.1.z.length == P.z.length) then .ok l else .error .valueError

def numQubits (op : PauliOp α) : Nat :=
  match op with
  | [] => 0
  | (P, _) :: _ => P.z.length

/-- one step of a usage history -/
inductive Step (α : Type) where
  | add (P : PS) (w : α)
  | prune (isZ : α → Bool)

def step [Add α] (op : PauliOp α) : Step α → PauliOp α
  | .add P w => op.add P w
  | .prune isZ => op.removeZero isZ

def run [Add α] (op : PauliOp α) (h : List (Step α)) : PauliOp α := h.foldl step op

/-- `PauliOperator.is_hermitian`: all weighted strings report Hermitian -/
def isHermitian (op : PauliOp GQ) : Bool := op.all fun e => wpsIsHermitian e.1 e.2

/-- dense matrix `Σ weight · as_matrix(string)`: `none` for the empty operator (the code returns the
integer 0), `ValueError` if the strings have different lengths (SciPy: inconsistent shapes);
non-zero entries `(r, c, value)` row-major -/
def matSparse (op : PauliOp GQ) : Except Err (Option (Nat × List (Nat × Nat × GQ))) :=
  match op with
  | [] => .ok none
  | (P, _) :: _ =>
    let n := P.z.length
    if !(op.all fun e => e.1.z.length == n) then .error .valueError else
    let d := 2 ^ n
    let entry (r c : Nat) : GQ :=
      op.foldl (fun acc e => acc + e.2 * GQ.ofInts (e.1.matEntry r c)) 0
    .ok (some (n, (List.range d).flatMap fun r => (List.range d).filterMap fun c =>
      let e := entry r c
      if e.re == 0 && e.im == 0 then none else some (r, c, e)))

end PauliOp

end Qib.Pauli
