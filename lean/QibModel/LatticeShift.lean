import QibModel.Lattice
/-!
`IntegerLattice.adjacency_matrix_axis_shift(d, s)` (`lattice/integer_lattice.py:65-94`): the adjacency matrix along ONE axis `d` and ONE shift
`s ∈ {1, -1}` - the summand of `adjacency_matrix` for that pair. It is the `rollPair` of the lattice model for a single direction.
Modelled for `0 ≤ d < ndim` (a negative or too large axis is outside the model: NumPy's own axis handling decides there).
-/
namespace Qib.Lattice

/-- entry `(i, j)` of `adjacency_matrix_axis_shift(d, s)`; `plus = true` is `s = +1` -/
def axisShift (shape : List Nat) (pbc : List Bool) (d : Nat) (plus : Bool) (i j : Nat) : Bool :=
  decide (i < sprod shape) && decide (j < sprod shape) &&
    rollPair (shape.getD d 1) (sprod (shape.drop (d + 1))) (pbc.getD d false) plus i j

/-- the call with its guard: `if not s in [-1, 1]: raise ValueError` -/
def axisShiftCall (shape : List Nat) (pbc : List Bool) (d : Nat) (s : Int) : Except Err (List (List Nat)) :=
  if s = 1 ∨ s = -1 then
    let n := sprod shape
    .ok ((List.range n).map fun i => (List.range n).map fun j => if axisShift shape pbc d (decide (s = 1)) i j then 1 else 0)
  else .error .valueError

end Qib.Lattice
