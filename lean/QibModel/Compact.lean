import QibModel.Pauli
import QibModel.Lattice
/-!
Cores D/E — executable, Mathlib-free model of `qib/transform/compact_encoding.py` and of
`OddFaceCenteredLattice.edge_to_odd_face_index` (C13).

Two layers:

* the **literal** layer executed by the driver (`vertexIndex`, `edgeFace`, `vertexOp`, `edgeOp`, `encode`):
  coordinates are Python integers (`Int`, may be negative or out of range), every rejection of the code is an
  `Except.error` of the same exception class, the Pauli strings are built with the C09 model's
  `PS.ofSinglePaulis` / `PS.setPauli` (letter tables regenerated from the source) exactly as
  `_encode_edge_operator` builds them;
* the **closed** layer the theorems talk about (`vIdx`, `fIdx`, `auxFace`, `two`, `vertexStr`, `edgeStr`,
  `loopStr`): natural-number coordinates of a *valid* vertex / nearest-neighbour edge, plain `List.set`.
  `QibProofs/Lemmas/CompactBridge.lean` proves that the literal layer returns exactly the closed strings on
  valid input and an error otherwise.

Conventions of the code: a coordinate is `(x, y)` with `x` the row (axis 0, extent `n0`) and `y` the column
(axis 1, extent `n1`); a "horizontal" edge has `ix == jx`; vertex `(x, y)` is qubit `x·n1 + y`; the auxiliary
qubit of the numbered ("odd" in the code's wording, `(x + y) % 2 == 0`) face with upper-left corner `(x, y)`
is qubit `n0·n1 + (x·(n1-1) + 1)/2 + y/2`.
-/
namespace Qib.Compact
open Qib.Pauli Qib.Lattice

inductive Err where
  | valueError | assertion | runtimeError | notImplemented | indexError
  deriving DecidableEq, Repr

def Err.toStr : Err → String
  | .valueError => "ValueError" | .assertion => "AssertionError" | .runtimeError => "RuntimeError"
  | .notImplemented => "NotImplementedError" | .indexError => "IndexError"

def ofPauliErr : Pauli.Err → Err
  | .valueError => .valueError
  | .indexError => .indexError

def liftP {α : Type} : Except Pauli.Err α → Except Err α
  | .ok a => .ok a
  | .error e => .error (ofPauliErr e)

/-! ### closed layer (valid natural-number coordinates) -/

/-- `np.ravel_multi_index((x, y), (n0, n1))` -/
def vIdx (n1 x y : Nat) : Nat := x * n1 + y

/-- qubit of the numbered face with upper-left corner `(x, y)` -/
def fIdx (n0 n1 x y : Nat) : Nat := n0 * n1 + faceIndex (n1 - 1) x y

/-- face `(x, y)` lies inside the rectangle (`not (x >= n0 - 1 or y >= n1 - 1)`) -/
def faceIn (n0 n1 x y : Nat) : Bool := decide (x + 1 < n0) && decide (y + 1 < n1)

/-- `edge_to_odd_face_index` for the edge whose smaller corner is `(x, y)`; `none` is the code's `-1`.
The `x -= 1` / `y -= 1` of the code turn 0 into −1, which the following range test maps to `-1`. -/
def auxFace (n0 n1 : Nat) (horiz : Bool) (x y : Nat) : Option Nat :=
  if (x + y) % 2 == 1 then
    if horiz then
      (if x == 0 then none else if faceIn n0 n1 (x - 1) y then some (fIdx n0 n1 (x - 1) y) else none)
    else
      (if y == 0 then none else if faceIn n0 n1 x (y - 1) then some (fIdx n0 n1 x (y - 1)) else none)
  else if faceIn n0 n1 x y then some (fIdx n0 n1 x y) else none

/-- overwrite one site of a string -/
def setL (P : PS) (k : Nat) (z x : Bool) : PS := { P with z := P.z.set k z, x := P.x.set k x }

/-- `from_single_paulis(n, ('X', a), ('Y', b), q=q)` -/
def two (n a b : Nat) (q : Fin 4) : PS :=
  setL (setL ⟨List.replicate n false, List.replicate n false, q⟩ a false true) b true true

/-- `from_single_paulis(n, ('Z', k))` -/
def vertexStr (n0 n1 x y : Nat) : PS :=
  setL (PS.identity (ofcNsites n0 n1)) (vIdx n1 x y) true false

/-- the orientation table of `_encode_edge_operator` (before the auxiliary letter is set) -/
def edgeCore (n0 n1 ix iy jx jy : Nat) : PS :=
  let n := ofcNsites n0 n1
  let i := vIdx n1 ix iy
  let j := vIdx n1 jx jy
  if ix = jx then
    if (ix % 2 = 0 ∧ jy < iy) ∨ (ix % 2 = 1 ∧ iy < jy) then two n i j 0 else two n j i 2
  else if iy % 2 = 0 then
    (if jx < ix then two n i j 2 else two n j i 0)
  else
    (if ix < jx then two n i j 0 else two n j i 2)

/-- `_encode_edge_operator(latt, (ix, iy), (jx, jy))` for a nearest-neighbour pair inside the rectangle:
auxiliary letter `Y` on a horizontal edge, `X` on a vertical one -/
def edgeStr (n0 n1 ix iy jx jy : Nat) : PS :=
  let E := edgeCore n0 n1 ix iy jx jy
  match auxFace n0 n1 (ix == jx) (min ix jx) (min iy jy) with
  | some f => if ix = jx then setL E f true true else setL E f false true
  | none => E

/-- product of the four edge operators around the face with upper-left corner `(x, y)`, in the order
`(x,y) → (x,y+1) → (x+1,y+1) → (x+1,y) → (x,y)`, multiplied from the left to the right as `A @ B @ C @ D` -/
def loopStr (n0 n1 x y : Nat) : PS :=
  (((edgeStr n0 n1 x y x (y + 1)).mul (edgeStr n0 n1 x (y + 1) (x + 1) (y + 1))).mul
    (edgeStr n0 n1 (x + 1) (y + 1) (x + 1) y)).mul (edgeStr n0 n1 (x + 1) y x y)

/-! ### literal layer (what the driver executes) -/

/-- the nearest-neighbour test used by both functions -/
def isNN (i j : Int × Int) : Bool :=
  (i.1 == j.1 && (i.2 - j.2).natAbs == 1) || (i.2 == j.2 && (i.1 - j.1).natAbs == 1)

def inBox (n0 n1 : Nat) (c : Int × Int) : Bool :=
  decide (0 ≤ c.1) && decide (c.1 < (n0 : Int)) && decide (0 ≤ c.2) && decide (c.2 < (n1 : Int))

/-- `coord_to_index` of an integer coordinate (`np.ravel_multi_index`; out of range: `ValueError`) -/
def vertexIndex (n0 n1 : Nat) (c : Int × Int) : Except Err Nat :=
  if inBox n0 n1 c then .ok (vIdx n1 c.1.toNat c.2.toNat) else .error .valueError

/-- `edge_to_odd_face_index(i, j)`; `none` is `-1` -/
def edgeFace (n0 n1 : Nat) (i j : Int × Int) : Except Err (Option Nat) :=
  if !isNN i j then .error .valueError else
  let x := min i.1 j.1
  let y := min i.2 j.2
  if x < 0 ∨ y < 0 ∨ x ≥ (n0 : Int) ∨ y ≥ (n1 : Int) then .error .valueError else
  .ok (auxFace n0 n1 (i.1 == j.1) x.toNat y.toNat)

/-- `_encode_vertex_operator(latt, j)` -/
def vertexOp (n0 n1 : Nat) (j : Int × Int) : Except Err PS := do
  let k ← vertexIndex n0 n1 j
  liftP (PS.ofSinglePaulis (ofcNsites n0 n1) [('Z', (k : Int))] 0)

/-- `_encode_edge_operator(latt, i, j)`, statement by statement -/
def edgeOp (n0 n1 : Nat) (i j : Int × Int) : Except Err PS := do
  if !isNN i j then throw .assertion
  let n := ofcNsites n0 n1
  let ii : Int := ((← vertexIndex n0 n1 i : Nat) : Int)
  let jj : Int := ((← vertexIndex n0 n1 j : Nat) : Int)
  let f ← edgeFace n0 n1 i j
  if i.1 == j.1 then
    let E ← liftP (
      if (i.1 % 2 == 0 && decide (j.2 < i.2)) || (i.1 % 2 == 1 && decide (i.2 < j.2))
      then PS.ofSinglePaulis n [('X', ii), ('Y', jj)] 0
      else PS.ofSinglePaulis n [('X', jj), ('Y', ii)] 2)
    match f with
    | some fi => liftP (E.setPauli 'Y' (fi : Int))
    | none => pure E
  else
    let E ← liftP (
      if i.2 % 2 == 0 then
        (if j.1 < i.1 then PS.ofSinglePaulis n [('X', ii), ('Y', jj)] 2
         else PS.ofSinglePaulis n [('X', jj), ('Y', ii)] 0)
      else
        (if i.1 < j.1 then PS.ofSinglePaulis n [('X', ii), ('Y', jj)] 0
         else PS.ofSinglePaulis n [('X', jj), ('Y', ii)] 2))
    match f with
    | some fi => liftP (E.setPauli 'X' (fi : Int))
    | none => pure E

/-- the loop product computed with the literal operators and `@` -/
def loopOp (n0 n1 : Nat) (x y : Int) : Except Err PS := do
  let a ← edgeOp n0 n1 (x, y) (x, y + 1)
  let b ← edgeOp n0 n1 (x, y + 1) (x + 1, y + 1)
  let c ← edgeOp n0 n1 (x + 1, y + 1) (x + 1, y)
  let d ← edgeOp n0 n1 (x + 1, y) (x, y)
  let ab ← liftP (a.mulE b)
  let abc ← liftP (ab.mulE c)
  liftP (abc.mulE d)

/-! ### `compact_encode_field_operator` -/

/-- one `FieldOperatorTerm`: is its operator description `(FERMI_CREATE, FERMI_ANNIHIL)`, is the dtype of the
coefficient array a float type, and the (real) coefficients -/
structure Term where
  hop : Bool
  isFloat : Bool
  coeffs : List (List Rat)

/-- what the function inspects of its argument before the terms -/
structure Input where
  nfields : Nat          -- `len(fieldop.fields())`
  fermion : Bool         -- `fields[0].ptype == FERMION`
  integerLattice : Bool  -- `isinstance(latt_fermi, IntegerLattice)`
  shape : List Nat
  pbc : List Bool
  terms : List Term

def cget (c : List (List Rat)) (i j : Nat) : Rat := (c.getD i []).getD j 0

/-- `atol`, `rtol` defaults of `np.allclose` (the doubles nearest to 1e-8 and 1e-5, exactly) -/
def atol : Rat := mkRat 3022314549036573 302231454903657293676544
def rtol : Rat := mkRat 5902958103587057 590295810358705651712

/-- `np.allclose(c, c.T)` over exact numbers: `|a - b| <= atol + rtol * |b|` elementwise -/
def allcloseT (L : Nat) (c : List (List Rat)) : Bool :=
  (List.range L).all fun i => (List.range L).all fun j =>
    decide ((cget c i j - cget c j i).abs ≤ atol + rtol * (cget c j i).abs)

def realW (r : Rat) : GQ := ⟨r, 0⟩
def imagW (r : Rat) : GQ := ⟨0, r⟩

/-- the on-site loop: `V_i` with weight `-c_ii/2`, accumulating `c_ii/2` -/
def onsiteStep (n0 n1 : Nat) (c : List (List Rat)) (st : PauliOp GQ × Rat) (i : Nat) :
    Except Err (PauliOp GQ × Rat) := do
  let V ← vertexOp n0 n1 ((i / n1 : Nat), (i % n1 : Nat))
  return (st.1.add V (realW (-(1 / 2) * cget c i i)), st.2 + (1 / 2) * cget c i i)

/-- body of the double hopping loop for the pair `i < j` -/
def hopStep (n0 n1 : Nat) (c : List (List Rat)) (op : PauliOp GQ) (ij : Nat × Nat) : Except Err (PauliOp GQ) := do
  let (i, j) := ij
  if cget c i j == 0 then return op
  if !gridAdj [n0, n1] [false, false] i j then throw .valueError
  let ic : Int × Int := ((i / n1 : Nat), (i % n1 : Nat))
  let jc : Int × Int := ((j / n1 : Nat), (j % n1 : Nat))
  let E ← edgeOp n0 n1 ic jc
  let Vi ← vertexOp n0 n1 ic
  let Vj ← vertexOp n0 n1 jc
  let EVj ← liftP (E.mulE Vj)
  let EVi ← liftP (E.mulE Vi)
  return (op.add EVj (imagW ((1 / 2) * cget c i j))).add EVi (imagW (-(1 / 2) * cget c i j))

/-- all pairs `i < j < L` in the order of the double loop -/
def pairs (L : Nat) : List (Nat × Nat) :=
  (List.range L).flatMap fun i => ((List.range L).filter fun j => i < j).map fun j => (i, j)

def encodeTerm (n0 n1 : Nat) (op : PauliOp GQ) (t : Term) : Except Err (PauliOp GQ) := do
  if !t.hop then throw .notImplemented
  if !t.isFloat then throw .valueError
  let L := n0 * n1
  if !allcloseT L t.coeffs then throw .valueError
  let (op1, idc) ← (List.range L).foldlM (onsiteStep n0 n1 t.coeffs) (op, (0 : Rat))
  let op2 := op1.add (PS.identity (ofcNsites n0 n1)) (realW idc)
  (pairs L).foldlM (hopStep n0 n1 t.coeffs) op2

/-- `compact_encode_field_operator`: returns the operator and the number of qubits of the encoding lattice -/
def encode (inp : Input) : Except Err (PauliOp GQ × Nat) := do
  if inp.nfields != 1 || !inp.fermion then throw .notImplemented
  if !inp.integerLattice then throw .runtimeError
  match inp.shape with
  | [n0, n1] =>
    if inp.pbc.any id then throw .runtimeError
    let op ← inp.terms.foldlM (encodeTerm n0 n1) []
    return (op, ofcNsites n0 n1)
  | _ => throw .runtimeError

end Qib.Compact
