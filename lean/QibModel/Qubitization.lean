import QibModel.GQ
/-!
Model of `algorithms/qubitization`: the gate list built by `ProjectorControlledPhaseShift.as_circuit`
(both methods) and the pairing loops of `EigenvalueTransformation.as_matrix` / `as_circuit`.
Mathlib-free and polymorphic in the scalar/matrix type so that the same definitions are executed by the
driver (exact rationals) and reasoned about in `QibProofs/Properties/C19.lean` (over ℝ / any monoid).
-/
namespace Qib.Qubitization

/-- a gate as `as_circuit` appends it: kind, rotation angle (or phase), target encoding-qubit position
(`none` = the auxiliary qubit), control positions (encoding qubits `0 … nctrl-1`, all controlled on 0). -/
inductive GateDesc (α : Type) where
  | mcx (nctrl : Nat)                       -- multi-controlled X on the auxiliary qubit, controls = all encoding qubits, state 0…0
  | rzAux (angle : α)                       -- Rz(angle) on the auxiliary qubit
  | rz (angle : α) (target : Nat)           -- Rz(angle) on encoding qubit `target`
  | crz (angle : α) (target : Nat) (nctrl : Nat)   -- Rz(angle) on encoding qubit `target`, controlled on encoding qubits 0…nctrl-1 being 0
  | phase (phi : α) (nwires : Nat)          -- global phase on the encoding qubits
  deriving Repr, DecidableEq

variable {α : Type} [Mul α] [Div α] [Neg α] [Sub α] [OfNat α 1] [OfNat α 2]

/-- `2 ** k` in the scalar type by repeated multiplication -/
def pow2 : Nat → α
  | 0 => 1
  | k + 1 => 2 * pow2 k

/-- `as_circuit` with `method == "auxiliary"` (size_enc = m) -/
def auxCircuit (θ : α) (m : Nat) : List (GateDesc α) :=
  [.mcx m, .rzAux (2 * θ), .mcx m]

/-- `as_circuit` with `method == "c-phase"` (size_enc = m ≥ 1) -/
def cphaseCircuit (θ : α) (m : Nat) : List (GateDesc α) :=
  let maxDen := m - 1
  [GateDesc.rz (-(2 * θ) / pow2 maxDen) 0]
    ++ (List.range (m - 1)).map (fun k => GateDesc.crz (-(2 * θ) / pow2 (maxDen - (k + 1))) (k + 1) (k + 1))
    ++ [GateDesc.phase ((1 - pow2 maxDen) * θ / pow2 maxDen) m]

/-! ### eigenvalue transformation: the code's pairing loops and the defining alternating product -/

section EVT
variable {M : Type} [Mul M] [One M]

/-- the `for i in range(start, dim+start)` loop: consume the remaining angles in consecutive pairs -/
def evtPairs (P : α → M) (U Ui : M) : M → List α → M
  | acc, a :: b :: rest => evtPairs P U Ui (acc * P a * Ui * P b * U) rest
  | acc, _ => acc

/-- `EigenvalueTransformation.as_matrix`: even/odd split, then the pairing loop -/
def evtCode (P : α → M) (U Ui : M) (θs : List α) : M :=
  if θs.length % 2 = 0 then evtPairs P U Ui 1 θs
  else match θs with
    | [] => 1
    | a :: rest => evtPairs P U Ui (1 * P a * U) rest

/-- the defining product: one phase shift per angle, followed alternately by the encoding and its inverse,
the LAST factor always being the encoding itself -/
def evtSpec (P : α → M) (U Ui : M) : List α → M
  | [] => 1
  | a :: rest => (P a * (if rest.length % 2 = 0 then U else Ui)) * evtSpec P U Ui rest

end EVT

end Qib.Qubitization
