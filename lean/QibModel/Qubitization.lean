/-!
Model of `qib/algorithms/qubitization` (C19), Mathlib-free and polymorphic in the scalar type so that the very same
definitions are executed by the driver `drv_qubitization` (exact rationals) and reasoned about in
`QibProofs/Properties/C19.lean` (over ℝ, resp. over an arbitrary monoid of "matrices").

Mirrors

* `ProjectorControlledPhaseShift.__init__`             ↦ `Pcps.init`            (what the constructor rejects),
* `ProjectorControlledPhaseShift.as_circuit`           ↦ `Pcps.asCircuit`       (gate list of both methods, same loops,
                                                                                 same rejections),
* `ProjectorControlledPhaseShift.as_matrix`            ↦ `Pcps.asMatrixDiag`    (which diagonal entry carries `e^{+iθ}`),
* `EigenvalueTransformation.as_matrix`                 ↦ `evtMatrix`            (even/odd split, `range(start, dim+start)`,
                                                                                 the index arithmetic `2*i-start`, `2*i+1-start`),
* `EigenvalueTransformation.as_circuit`                ↦ `evtCircuit`           (same loop, `prepend_circuit` / `prepend_gate`),

plus the *meaning* of the gates that `as_circuit` emits on computational basis states (`GateDesc.act`: every such
gate maps a basis state to a basis state times a phase `e^{iφ}`), which the driver tabulates and the harness
compares with the columns of the real `as_circuit_matrix`, and the *defining* alternating product `evtSpec`.

Qubits are labels (`Nat`); a register state is a function `Nat → Bool` (label ↦ bit).
-/
namespace Qib.Qubitization

/-- exception classes of the Python code, as far as the modelled functions raise them
(`IndexError`/`AttributeError` ↦ `other`) -/
inductive Err | valueError | runtimeError | other
  deriving DecidableEq, Repr

def Err.toStr : Err → String
  | .valueError => "ValueError" | .runtimeError => "RuntimeError" | .other => "Other"

inductive Method | auxiliary | cphase
  deriving DecidableEq, Repr

/-- a gate as `as_circuit` appends it. Control states are kept as the integers the code passes on
(`self.projection_state[:i]`). -/
inductive GateDesc (α : Type) where
  /-- `ControlledGate(PauliXGate(target), len(ctrls), cstate).set_control(ctrls)` -/
  | cx (ctrls : List Nat) (cstate : List Int) (target : Nat)
  /-- `RzGate(angle, target)` -/
  | rz (angle : α) (target : Nat)
  /-- `ControlledGate(RzGate(angle, target), len(ctrls), cstate).set_control(ctrls)` -/
  | crz (angle : α) (ctrls : List Nat) (cstate : List Int) (target : Nat)
  /-- `PhaseFactorGate(phi, nwires).on(qubits)` -/
  | phase (phi : α) (nwires : Nat) (qubits : List Nat)
  deriving Repr, DecidableEq

/-- the fields of a `ProjectorControlledPhaseShift` object -/
structure Pcps (α : Type) where
  theta : α
  proj : List Int
  enc : List Nat
  aux : List Nat
  method : Method
  deriving Repr

/-- `__init__`: `ValueError` for a projection state with an entry outside {0,1} (checked first), `RuntimeError` for an
unknown method; for a method other than "auxiliary" the auxiliary list is emptied. -/
def Pcps.init {α : Type} (θ : α) (proj : List Int) (enc aux : List Nat) (method : String) : Except Err (Pcps α) :=
  if proj.any (fun s => s != 0 && s != 1) then .error .valueError else
  if method == "auxiliary" then .ok ⟨θ, proj, enc, aux, .auxiliary⟩
  else if method == "c-phase" then .ok ⟨θ, proj, enc, [], .cphase⟩
  else .error .runtimeError

/-- `set_theta` -/
def Pcps.setTheta {α : Type} (p : Pcps α) (θ : α) : Pcps α := { p with theta := θ }

section Scalars
variable {α : Type} [Mul α] [Div α] [Neg α] [Sub α] [OfNat α 1] [OfNat α 2]

/-- `2 ** k` in the scalar type by repeated multiplication -/
def pow2 : Nat → α
  | 0 => 1
  | k + 1 => 2 * pow2 k

/-- the `i`-th gate of the c-phase cascade (`1 ≤ i < size_enc`):
`ControlledGate(RzGate(-2θ/2**(max_den-i), enc[i]), i, proj[:i]).set_control(enc[:i])` -/
def cphaseStep (θ : α) (proj : List Int) (enc : List Nat) (maxDen i : Nat) : GateDesc α :=
  .crz (-(2 * θ) / pow2 (maxDen - i)) (enc.take i) (proj.take i) (enc.getD i 0)

/-- `as_circuit` with `method == "c-phase"`, after the checks; `e0 = enc[0]` -/
def cphaseCircuit (θ : α) (proj : List Int) (enc : List Nat) (e0 : Nat) : List (GateDesc α) :=
  let sizeEnc := enc.length
  let maxDen := sizeEnc - 1
  [GateDesc.rz (-(2 * θ) / pow2 maxDen) e0]
    ++ (List.range' 1 (sizeEnc - 1)).map (cphaseStep θ proj enc maxDen)
    ++ [GateDesc.phase ((1 - pow2 maxDen) * θ / pow2 maxDen) sizeEnc enc]

/-- `as_circuit` with `method == "auxiliary"`, after the checks; `a = auxiliary_qubits[0]` -/
def auxCircuit (θ : α) (proj : List Int) (enc : List Nat) (a : Nat) : List (GateDesc α) :=
  [.cx enc proj a, .rz (2 * θ) a, .cx enc proj a]

/-- `ProjectorControlledPhaseShift.as_circuit`: `RuntimeError` if the projection state has the wrong length or a
non-zero entry; `IndexError` (↦ `other`) if the needed first qubit does not exist. -/
def Pcps.asCircuit (p : Pcps α) : Except Err (List (GateDesc α)) :=
  if p.proj.length ≠ p.enc.length then .error .runtimeError else
  if p.proj.any (· != 0) then .error .runtimeError else
  match p.method with
  | .auxiliary =>
    match p.aux with
    | [] => .error .other
    | a :: _ => .ok (auxCircuit p.theta p.proj p.enc a)
  | .cphase =>
    match p.enc with
    | [] => .error .other
    | e0 :: _ => .ok (cphaseCircuit p.theta p.proj p.enc e0)

end Scalars

/-- `int(''.join(map(str, projection_state)), 2)` for a 0/1 list -/
def binaryIndex (proj : List Int) : Nat := proj.foldl (fun acc s => 2 * acc + s.toNat) 0

/-- `ProjectorControlledPhaseShift.as_matrix` up to the exponential: the matrix is `expm(iθ(2|k⟩⟨k| − 1))` on
`2 ** len(projection_state)` states with `k = binaryIndex`; the result lists, per basis state, whether it is the
projection state. `RuntimeError` for a non-zero entry, `ValueError` for the empty state (`int('', 2)`). -/
def pcpsMatrixDiag (proj : List Int) : Except Err (List Bool) :=
  if proj.any (· != 0) then .error .runtimeError else
  if proj.isEmpty then .error .valueError else
  .ok ((List.range (2 ^ proj.length)).map (· == binaryIndex proj))

/-! ### what the emitted gates do to a computational basis state -/

section Act
variable {α : Type} [Div α] [Neg α] [OfNat α 0] [OfNat α 2]

/-- all control qubits carry their control value -/
def ctrlActive (bits : Nat → Bool) (ctrls : List Nat) (cstate : List Int) : Bool :=
  (ctrls.zip cstate).all fun cs => bits cs.1 == (cs.2 == 1)

/-- flip the bit of qubit `t` -/
def flipBit (bits : Nat → Bool) (t : Nat) : Nat → Bool := fun k => if k = t then !bits k else bits k

/-- phase angle of `Rz(a) = diag(e^{-ia/2}, e^{ia/2})` on a basis state -/
def rzPhase (a : α) (b : Bool) : α := if b then a / 2 else -(a / 2)

/-- a gate of the list maps the basis state `bits` to the basis state `(act g bits).1` times `e^{i (act g bits).2}` -/
def GateDesc.act (g : GateDesc α) (bits : Nat → Bool) : (Nat → Bool) × α :=
  match g with
  | .cx cs st t => (if ctrlActive bits cs st then flipBit bits t else bits, 0)
  | .rz a t => (bits, rzPhase a (bits t))
  | .crz a cs st t => (bits, if ctrlActive bits cs st then rzPhase a (bits t) else 0)
  | .phase φ _ _ => (bits, φ)

/-- a circuit (first gate applied first): final basis state and accumulated phase angle -/
def circuitAct [Add α] : List (GateDesc α) → (Nat → Bool) → (Nat → Bool) × α
  | [], bits => (bits, 0)
  | g :: gs, bits =>
    let r := g.act bits
    let r' := circuitAct gs r.1
    (r'.1, r.2 + r'.2)

end Act

/-! ### eigenvalue transformation -/

section EVT
variable {α M : Type} [Mul M] [One M]

/-- body of `for i in range(start, dim + start)` in `as_matrix`:
`matrix = matrix @ P(θ[2i-start]) @ U_inv`, then `matrix = matrix @ P(θ[2i+1-start]) @ U` -/
def evtBody (P : α → M) (U Ui : M) (θs : List α) (start : Nat) (acc : M) (i : Nat) : Except Err M :=
  match θs[2 * i - start]?, θs[2 * i + 1 - start]? with
  | some a, some b => .ok (acc * P a * Ui * P b * U)
  | _, _ => .error .other

def evtLoop (P : α → M) (U Ui : M) (θs : List α) (start : Nat) : M → List Nat → Except Err M
  | acc, [] => .ok acc
  | acc, i :: is =>
    match evtBody P U Ui θs start acc i with
    | .error e => .error e
    | .ok acc' => evtLoop P U Ui θs start acc' is

/-- `EigenvalueTransformation.as_matrix`; `P θ` stands for `np.kron(processing.as_matrix(), id)` after `set_theta(θ)`,
`U`/`Ui` for the matrices of the block encoding and of its `inverse()`. `none`/`[]` angles: `ValueError`. -/
def evtMatrix (P : α → M) (U Ui : M) (θs : Option (List α)) : Except Err M :=
  match θs with
  | none => .error .valueError
  | some [] => .error .valueError
  | some (a0 :: rest) =>
    let l := a0 :: rest
    if l.length % 2 = 0 then
      let dim := l.length / 2
      evtLoop P U Ui l 0 1 (List.range' 0 dim)
    else
      let dim := (l.length - 1) / 2
      evtLoop P U Ui l 1 (1 * P a0 * U) (List.range' 1 dim)

/-- the defining product: one phase shift per angle, each followed by the encoding or its inverse alternately,
the LAST factor always being the encoding itself -/
def evtSpec (P : α → M) (U Ui : M) : List α → M
  | [] => 1
  | a :: rest => (P a * (if rest.length % 2 = 0 then U else Ui)) * evtSpec P U Ui rest

end EVT

section EVTCircuit
variable {α : Type} [Mul α] [Div α] [Neg α] [Sub α] [OfNat α 1] [OfNat α 2]

/-- an entry of the circuit built by `EigenvalueTransformation.as_circuit` -/
inductive EvtItem (α : Type) where
  | enc                       -- `self.block_encoding`
  | encInv                    -- `self.block_encoding.inverse()`
  | gate (g : GateDesc α)     -- a gate of `self.processing.as_circuit()`
  deriving Repr, DecidableEq

/-- `circuit.prepend_circuit(processing.as_circuit())` after `processing.set_theta(θ)`, then `circuit.prepend_gate(g)` -/
def evtPrepend (pc : Pcps α) (θ : α) (g : EvtItem α) (circ : List (EvtItem α)) : Except Err (List (EvtItem α)) :=
  match (pc.setTheta θ).asCircuit with
  | .error e => .error e
  | .ok sub => .ok (g :: (sub.map EvtItem.gate ++ circ))

def evtCircuitBody (pc : Pcps α) (θs : List α) (start : Nat) (circ : List (EvtItem α)) (i : Nat) :
    Except Err (List (EvtItem α)) :=
  match θs[2 * i - start]?, θs[2 * i + 1 - start]? with
  | some a, some b =>
    match evtPrepend pc a .encInv circ with
    | .error e => .error e
    | .ok c1 => evtPrepend pc b .enc c1
  | _, _ => .error .other

def evtCircuitLoop (pc : Pcps α) (θs : List α) (start : Nat) : List (EvtItem α) → List Nat → Except Err (List (EvtItem α))
  | circ, [] => .ok circ
  | circ, i :: is =>
    match evtCircuitBody pc θs start circ i with
    | .error e => .error e
    | .ok c' => evtCircuitLoop pc θs start c' is

/-- `EigenvalueTransformation.as_circuit`; `encAux` = `block_encoding.auxiliary_qubits`. The first gate of the
returned list is applied first. -/
def evtCircuit (pc : Pcps α) (encAux : List Nat) (θs : Option (List α)) : Except Err (List (EvtItem α)) :=
  if encAux ≠ pc.enc then .error .runtimeError else
  match θs with
  | none => .error .valueError
  | some [] => .error .valueError
  | some (a0 :: rest) =>
    let l := a0 :: rest
    if l.length % 2 = 0 then
      let dim := l.length / 2
      evtCircuitLoop pc l 0 [] (List.range' 0 dim)
    else
      let dim := (l.length - 1) / 2
      match evtPrepend pc a0 .enc [] with
      | .error e => .error e
      | .ok c0 => evtCircuitLoop pc l 1 c0 (List.range' 1 dim)

end EVTCircuit

end Qib.Qubitization
