import QibModel.DriverMain
import QibModel.FermiOps
open Lean Qib

def fermiDispatch : Dispatch := fun op j =>
  match op with
  | "fop.mat" => some (Fermi.opExpr j)
  | "fop.adjoint" => some (Fermi.opExpr j)
  | "fop.add" => some (Fermi.opExpr j)
  | "fop.mul" => some (Fermi.opExpr j)
  | "fop.herm" => some (Fermi.opHerm j)
  | "fterm.herm" => some (Fermi.opTermHerm j)
  | "fterm.ctor" => some (Fermi.opTermCtor j)
  | "ifo.ctor" => some (Fermi.opIfoCtor j)
  | "ifo.adjoint" => some (Fermi.opIfoAdjoint j)
  | _ => none

def main : IO Unit := driverMain fermiDispatch
