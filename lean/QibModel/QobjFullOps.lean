import QibModel.QobjFull
import QibModel.ValidateOps
/-! Driver ops `wmi.options`, `wmi.qobjfull` (C18, stage `qobj`).

Values cross the boundary as: `null`, `true/false`, a JSON integer (Python `int`), `{"f": "p/q" | "nan" | "inf" | "-inf"}` (float),
a JSON string, a JSON array (list), `{"d": [[key, value], ...]}` (dict, insertion order kept). -/
open Lean
namespace Qib.Wmi.Full
open Qib.J
open QibGen.Wmi (Val Proc)

mutual
def valJson : Val → Json
  | .none => Json.null
  | .bool b => .bool b
  | .int i => Json.num (JsonNumber.fromInt i)
  | .float n d => Json.mkObj [("f", .str s!"{n}/{d}")]
  | .special s => Json.mkObj [("f", .str s)]
  | .str s => .str s
  | .list l => .arr (valsJson l).toArray
  | .dict d => Json.mkObj [("d", .arr (dictJson d).toArray)]
def valsJson : List Val → List Json
  | [] => []
  | v :: vs => valJson v :: valsJson vs
def dictJson : List (String × Val) → List Json
  | [] => []
  | (k, v) :: r => Json.arr #[.str k, valJson v] :: dictJson r
end

def parseRat (s : String) : Except String Val :=
  match s.splitOn "/" with
  | [a, b] => match a.toInt?, b.toNat? with
    | some n, some d => .ok (.float n d)
    | _, _ => .error s!"bad rational {s}"
  | _ => if s == "nan" || s == "inf" || s == "-inf" then .ok (.special s) else .error s!"bad float {s}"

partial def parseVal (j : Json) : Except String Val :=
  match j with
  | .null => .ok .none
  | .bool b => .ok (.bool b)
  | .str s => .ok (.str s)
  | .num _ => do return .int (← int j)
  | .arr a => do return .list (← a.toList.mapM parseVal)
  | .obj _ =>
    match j.getObjVal? "f" with
    | .ok (.str s) => parseRat s
    | _ => do
      let items ← fList j "d"
      let kvs ← items.mapM fun it => match it with
        | .arr #[.str k, v] => do return (k, ← parseVal v)
        | _ => .error "bad dict item"
      return .dict kvs

def parseDict (j : Json) : Except String Dict := do
  match ← parseVal j with
  | .dict d => return d
  | _ => .error "expected a dictionary value"

def parseProc (j : Json) : Except String (Proc × ProcConfig) :=
  match j with
  | .str "qsim" => .ok (QibGen.Wmi.qsim, qsimConfig)
  | .str "qc" => .ok (QibGen.Wmi.qc, qcConfig)
  | _ => .error "bad processor"

def dictJ (d : Dict) : Json := valJson (.dict d)

/-- `WMIOptions(**kw)` then `.optional()` -/
def opOptions (j : Json) : Except String Json := do
  let kw ← parseDict (← field j "kw")
  match mkOptions kw with
  | .error k => return Json.mkObj [("raised", .str "TypeError"), ("keyword", .str k)]
  | .ok o => return Json.mkObj [("attrs", dictJ o), ("optional", dictJ (optionalDict o))]

def requestJson (r : Request) : Json :=
  Json.mkObj [("method", .str r.method), ("url", .str r.url), ("headers", dictJ r.headers), ("body", valJson r.body)]

/-- `P(token).submit_experiment(name, circuit, WMIOptions(**kw))` -/
def opQobjFull (j : Json) : Except String Json := do
  let (p, pcfg) ← parseProc (← field j "proc")
  let token ← parseVal (← field j "token")
  let name ← fStr j "name"
  let qid ← fStr j "qobj_id"
  let kw ← parseDict (← field j "kw")
  let instrs ← (← fList j "instrs").mapM parseInstr
  match submitFull p pcfg token name qid kw instrs with
  | .badKeyword k => return Json.mkObj [("res", .str "TypeError"), ("keyword", .str k)]
  | .shotsNotInt => return Json.mkObj [("res", .str "shotsNotInt")]
  | .refused e => return Json.mkObj [("res", .str (Err.toStr e))]
  | .sent q r => return Json.mkObj [("res", .str "ok"), ("qobj", valJson q), ("request", requestJson r)]

/-- the tables as the model reads them (compared with the harness's own reading of the source) -/
def opQobjTables (_ : Json) : Except String Json :=
  return Json.mkObj [
    ("params", dictJ QibGen.Wmi.initParams),
    ("optional_keys", ofStrs (QibGen.Wmi.optionalRows.map (·.2.1))),
    ("updates", .arr (QibGen.Wmi.qobjUpdates.map ofStrs).toArray)]

/-- the ops of this file (one line in `DrvBackend.lean`) -/
def dispatch (op : String) (j : Json) : Option (Except String Json) :=
  match op with
  | "wmi.options" => some (opOptions j)
  | "wmi.qobjfull" => some (opQobjFull j)
  | "wmi.qobjtables" => some (opQobjTables j)
  | _ => none

end Qib.Wmi.Full
