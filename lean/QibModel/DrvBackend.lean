import QibModel.DriverMain
import QibModel.BackendOps
import QibModel.BackendSchedOps
import QibModel.ValidateOps
import QibModel.QobjFullOps
open Lean Qib

def backendDispatch : Dispatch := fun op j =>
  match op with
  | "http.history" => some (Backend.opHttpHistory j)
  | "exp.history" => some (Backend.opExpHistory j)
  | "exp.schedule" => some (Backend.opExpSchedule j)
  | "status.map" => some (Backend.opStatusMap j)
  | "wmi.validate" => some (Wmi.opValidate j)
  | "wmi.qobj" => some (Wmi.opQobj j)
  | "wmi.counts" => some (Wmi.opCounts j)
  | "wmi.submit" => some (Wmi.opSubmit j)
  | "wmi.ctrlname" => some (Wmi.opCtrlName j)
  | "wmi.options" | "wmi.qobjfull" | "wmi.qobjtables" => Wmi.Full.dispatch op j
  | _ => none

def main : IO Unit := driverMain backendDispatch
