import QibModel.DriverMain
import QibModel.BackendOps
open Lean Qib

def backendDispatch : Dispatch := fun op j =>
  match op with
  | "http.history" => some (Backend.opHttpHistory j)
  | "exp.history" => some (Backend.opExpHistory j)
  | "status.map" => some (Backend.opStatusMap j)
  | _ => none

def main : IO Unit := driverMain backendDispatch
