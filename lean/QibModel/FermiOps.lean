import QibModel.Fermi
import QibModel.Json
/-!
Driver ops of Core D / C10: `fop.mat`, `fop.adjoint`, `fop.add`, `fop.mul`, `fop.herm`, `fterm.herm`, `fterm.ctor`,
`ifo.ctor`, `ifo.adjoint`.

Wire format: a field is `{"id", "ptype" (1..4 = ParticleType value), "nsites"}`; an operator description is
`[field id, otype]` (`otype` = 1..6 = IFOType value); a coefficient array is `{"shape": […], "nz": [[k, [re, im]], …]}`
with `k` the row-major (C order) offset and `re`, `im` exact rationals `"p/q"`; entries not listed are zero.
A matrix is `{"L", "nz": [[row, col, [re, im]], …]}` with flat indices (site 0 most significant).
Replies: `{"val": …}` for a returned value, `{"raised": "<ExceptionClass>"}` for a modelled exception.
-/
open Lean
namespace Qib.Fermi
open Qib.J

def jNat (n : Nat) : Json := Json.num (JsonNumber.fromNat n)

def val (j : Json) : Json := Json.mkObj [("val", j)]
def raised (e : Err) : Json := Json.mkObj [("raised", .str e.toStr)]
def exJson {α} (f : α → Json) : Except Err α → Json
  | .ok a => val (f a)
  | .error e => raised e

def ptypeOfNat : Nat → Except String PType
  | 1 => .ok .qubit | 2 => .ok .boson | 3 => .ok .fermion | 4 => .ok .majorana
  | n => .error s!"bad particle type {n}"

def otypeOfNat : Nat → Except String IFOType
  | 1 => .ok .bosonCreate | 2 => .ok .bosonAnnihil | 3 => .ok .fermiCreate | 4 => .ok .fermiAnnihil
  | 5 => .ok .majoranaRe | 6 => .ok .majoranaIm
  | n => .error s!"bad operator type {n}"

def IFOType.toNat : IFOType → Nat
  | .bosonCreate => 1 | .bosonAnnihil => 2 | .fermiCreate => 3 | .fermiAnnihil => 4
  | .majoranaRe => 5 | .majoranaIm => 6

def parseField (j : Json) : Except String FieldD := do
  return ⟨← fNat j "id", ← ptypeOfNat (← fNat j "ptype"), ← fNat j "nsites"⟩

def parseFields (j : Json) : Except String (List FieldD) := do (← fList j "fields").mapM parseField

def lookupField (fs : List FieldD) (id : Nat) : Except String FieldD :=
  match fs.find? (fun f => f.id == id) with
  | some f => .ok f
  | none => .error s!"unknown field {id}"

def parseDesc (fs : List FieldD) (j : Json) : Except String IFODesc := do
  match ← list j with
  | [a, b] => return ⟨← lookupField fs (← nat a), ← otypeOfNat (← nat b)⟩
  | _ => .error "expected [field, otype]"

def parseTensor (j : Json) : Except String Tensor := do
  let shape ← (← fList j "shape").mapM nat
  let n := prodL shape
  let mut data : Array GQ := Array.replicate n 0
  for e in ← fList j "nz" do
    match ← list e with
    | [k, v] =>
      let k ← nat k
      if k ≥ n then throw "coefficient offset out of range"
      data := data.set! k (← GQ.ofJson v)
    | _ => throw "expected [offset, value]"
  return ⟨shape, data⟩

/-- a term as the wire describes it (no constructor check) -/
def parseTermRaw (fs : List FieldD) (j : Json) : Except String (List IFODesc × Tensor) := do
  return (← (← fList j "ops").mapM (parseDesc fs), ← parseTensor (← field j "coeffs"))

/-- a term that the implementation constructed (so `ndim = len(opdesc)`) -/
def parseTerm (fs : List FieldD) (j : Json) : Except String Term := do
  let (ds, c) ← parseTermRaw fs j
  match Term.make ds c with
  | .ok t => return t
  | .error _ => .error "term with ndim != len(opdesc) cannot be constructed"

def parseOp (fs : List FieldD) (j : Json) : Except String FieldOp := do
  return ⟨← (← fList j "terms").mapM (parseTerm fs)⟩

def tensorJson (t : Tensor) : Json :=
  let nz := (List.range t.data.size).filterMap fun k =>
    let v := t.data.getD k 0
    if v = 0 then none else some (Json.arr #[jNat k, GQ.toJson v])
  Json.mkObj [("shape", ofNats t.shape), ("nz", .arr nz.toArray)]

def descJson (d : IFODesc) : Json := Json.arr #[jNat d.field.id, jNat d.otype.toNat]

def termJson (t : Term) : Json :=
  Json.mkObj [("ops", .arr (t.opdesc.map descJson).toArray), ("coeffs", tensorJson t.coeffs)]

def opJson (a : FieldOp) : Json := Json.mkObj [("terms", .arr (a.terms.map termJson).toArray)]

def matJson (L? : Nat) (M : Mat) : Json :=
  let nz := (List.range (M.n * M.m)).filterMap fun k =>
    let v := M.data.getD k 0
    if v = 0 then none else some (Json.arr #[jNat (k / M.m), jNat (k % M.m), GQ.toJson v])
  Json.mkObj [("L", jNat L?), ("n", jNat M.n), ("nz", .arr nz.toArray)]

/-- matrix of an operator, or the exception `as_matrix()` raises -/
def matOf (a : FieldOp) : Json :=
  let L := match a.fields with | [f] => f.nsites | _ => 0
  exJson (matJson L) a.asMatrix

/-- expression trees over operators: `{"t": [terms]}` (an operator), `{"adj": e}`, `{"add": [e, …]}` (Python's
`sum([...])`, left to right; the empty sum is the integer 0) and `{"mul": [e, …]}` (`(e₀ @ e₁) @ e₂ …`) -/
partial def evalExpr (fs : List FieldD) (j : Json) : Except String (Option FieldOp) := do
  if let .ok ts := j.getObjVal? "t" then
    return some ⟨← (← list ts).mapM (parseTerm fs)⟩
  if let .ok e := j.getObjVal? "adj" then
    match ← evalExpr fs e with
    | some a => return some a.adjoint
    | none => .error "adjoint of the integer 0"
  if let .ok es := j.getObjVal? "add" then
    let as ← (← list es).mapM fun e => do
      match ← evalExpr fs e with
      | some a => pure a
      | none => .error "integer 0 inside a sum"
    return FieldOp.sumOps as
  if let .ok es := j.getObjVal? "mul" then
    let as ← (← list es).mapM fun e => do
      match ← evalExpr fs e with
      | some a => pure a
      | none => .error "integer 0 inside a product"
    match as with
    | [] => .error "empty product"
    | a :: rest => return some (rest.foldl FieldOp.mul a)
  .error "bad expression"

/-- an operator together with its matrix -/
def opAndMat (a : FieldOp) : Json := Json.mkObj [("op", opJson a), ("mat", matOf a)]

/-- `fop.mat`, `fop.adjoint`, `fop.add`, `fop.mul`: evaluate the expression `e`, return the resulting operator
(operator descriptions and coefficient arrays) and its matrix -/
def opExpr (j : Json) : Except String Json := do
  let fs ← parseFields j
  match ← evalExpr fs (← field j "e") with
  | none => return val (.str "zero")
  | some a => return val (opAndMat a)

/-- tolerances of `np.allclose` as the harness reads them from NumPy (exact values of the doubles) -/
def parseTol (j : Json) : Except String (Rat × Rat) := do
  return (← GQ.parseRat (← fStr j "atol"), ← GQ.parseRat (← fStr j "rtol"))

def opHerm (j : Json) : Except String Json := do
  let fs ← parseFields j
  let a ← parseOp fs (← field j "a")
  let (atol, rtol) ← parseTol j
  return Json.mkObj [("tol", exJson Json.bool (a.isHermitianTol atol rtol)), ("exact", exJson Json.bool a.isHermitian)]

def opTermHerm (j : Json) : Except String Json := do
  let fs ← parseFields j
  let t ← parseTerm fs (← field j "t")
  let (atol, rtol) ← parseTol j
  return Json.mkObj [("tol", val (.bool (t.isHermitianTol atol rtol))), ("exact", val (.bool t.isHermitian))]

def opTermCtor (j : Json) : Except String Json := do
  let fs ← parseFields j
  let (ds, c) ← parseTermRaw fs (← field j "t")
  return exJson termJson (Term.make ds c)

def opIfoCtor (j : Json) : Except String Json := do
  let fs ← parseFields j
  let f ← lookupField fs (← fNat j "f")
  let o ← otypeOfNat (← fNat j "otype")
  return exJson descJson (IFODesc.make f o)

def opIfoAdjoint (j : Json) : Except String Json := do
  let o ← otypeOfNat (← fNat j "otype")
  return val (jNat o.adjoint.toNat)

end Qib.Fermi
