import QibModel.DriverMain
import QibModel.HamiltonianOps
open Lean Qib

def hamDispatch : Dispatch := fun op j =>
  match op with
  | "ham.ising" => some (Ham.opIsing j)
  | "ham.heisenberg" => some (Ham.opHeisenberg j)
  | "ham.hubbard" => some (Ham.opHubbard j)
  | "ham.molecular" => some (Ham.opMolecular j)
  | "ham.herm" => some (Ham.opHerm j)
  | _ => none

def main : IO Unit := driverMain hamDispatch
