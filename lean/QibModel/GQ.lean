import QibModel.Json
/-! Exact Gaussian rationals and array-backed matrices for the gate driver (core Lean only). -/
open Lean
namespace Qib

structure GQ where
  re : Rat
  im : Rat
  deriving DecidableEq, Repr, Inhabited

namespace GQ
def zero : GQ := ⟨0, 0⟩
def one : GQ := ⟨1, 0⟩
def I : GQ := ⟨0, 1⟩
instance : Zero GQ := ⟨zero⟩
instance : One GQ := ⟨one⟩
instance : Add GQ := ⟨fun a b => ⟨a.re + b.re, a.im + b.im⟩⟩
instance : Sub GQ := ⟨fun a b => ⟨a.re - b.re, a.im - b.im⟩⟩
instance : Neg GQ := ⟨fun a => ⟨-a.re, -a.im⟩⟩
instance : Mul GQ := ⟨fun a b => ⟨a.re * b.re - a.im * b.im, a.re * b.im + a.im * b.re⟩⟩
def conj (a : GQ) : GQ := ⟨a.re, -a.im⟩
def ofRat (r : Rat) : GQ := ⟨r, 0⟩

def parseRat (s : String) : Except String Rat :=
  match s.splitOn "/" with
  | [a, b] => match a.toInt?, b.toNat? with
    | some p, some q => if q == 0 then .error "zero denominator" else .ok (mkRat p q)
    | _, _ => .error s!"bad rational {s}"
  | [a] => match a.toInt? with
    | some p => .ok (mkRat p 1)
    | none => .error s!"bad rational {s}"
  | _ => .error s!"bad rational {s}"

def ratStr (r : Rat) : String := s!"{r.num}/{r.den}"

def ofJson (j : Json) : Except String GQ :=
  match j with
  | .arr #[.str a, .str b] => do return ⟨← parseRat a, ← parseRat b⟩
  | _ => .error "expected [re, im] of rational strings"

def toJson (a : GQ) : Json := Json.arr #[.str (ratStr a.re), .str (ratStr a.im)]
end GQ

/-- row-major `n × m` matrix -/
structure Mat where
  n : Nat
  m : Nat
  data : Array GQ
  deriving Repr, Inhabited

namespace Mat
def get (A : Mat) (i j : Nat) : GQ := A.data.getD (i * A.m + j) 0
def ofFn (n m : Nat) (f : Nat → Nat → GQ) : Mat :=
  ⟨n, m, Array.ofFn (n := n * m) fun k => f (k.val / m) (k.val % m)⟩
def one (n : Nat) : Mat := ofFn n n fun i j => if i = j then 1 else 0
def mul (A B : Mat) : Mat :=
  ofFn A.n B.m fun i j => (List.range A.m).foldl (fun acc k => acc + A.get i k * B.get k j) 0
def adjoint (A : Mat) : Mat := ofFn A.m A.n fun i j => (A.get j i).conj
def transpose (A : Mat) : Mat := ofFn A.m A.n fun i j => A.get j i
def smul (c : GQ) (A : Mat) : Mat := ofFn A.n A.m fun i j => c * A.get i j
def add (A B : Mat) : Mat := ofFn A.n A.m fun i j => A.get i j + B.get i j
def neg (A : Mat) : Mat := ofFn A.n A.m fun i j => -A.get i j
/-- numpy `kron` (first factor most significant) -/
def kron (A B : Mat) : Mat :=
  ofFn (A.n * B.n) (A.m * B.m) fun i j => A.get (i / B.n) (j / B.m) * B.get (i % B.n) (j % B.m)
/-- `np.block([[A, B], [C, D]])` for equally sized square blocks -/
def block (A B C D : Mat) : Mat :=
  ofFn (2 * A.n) (2 * A.n) fun i j =>
    if i < A.n then (if j < A.n then A.get i j else B.get i (j - A.n))
    else (if j < A.n then C.get (i - A.n) j else D.get (i - A.n) (j - A.n))
def beq (A B : Mat) : Bool := A.n == B.n && A.m == B.m && A.data == B.data

def ofJson (j : Json) : Except String Mat := do
  let n ← J.fNat j "n"
  let m ← J.fNat j "m"
  let d ← (← J.fList j "d").mapM GQ.ofJson
  if d.length != n * m then .error "matrix data length" else
  return ⟨n, m, d.toArray⟩

def toJson (A : Mat) : Json :=
  Json.mkObj [("n", Json.num (JsonNumber.fromNat A.n)), ("m", Json.num (JsonNumber.fromNat A.m)),
    ("d", Json.arr (A.data.map GQ.toJson))]
end Mat

end Qib
