import QibModel.TNet
/-!
Core C — the PUBLIC surgery and query operations of `SymbolicTensorNetwork` / `TensorNetwork`
(`src/qib/tensor_network/symbolic_network.py`, `tensor_network.py`), Mathlib-free and executable.

The surgery functions of `QibModel/TNet.lean` (`mergeTensors`, `mergeBonds`, `addTensor`, `addBond`, `generateBonds`) say what a call
returns. A public call on the Python object can also *raise after it has already written*: `merge_tensors` pops the second tensor
before it walks the bonds, `merge_bonds` appends to the first bond before it looks the tensor up, `generate_bonds` keeps the bonds
added before a `SymbolicBond` constructor refuses. An `Outcome` therefore carries the exception (if any) AND the network the call
leaves behind; the `…Left` functions are the partially written states.
-/
namespace Qib.TNet

/-- result of a mutating public call: what it raised (`none` = returned) and the state of the object afterwards -/
structure Outcome where
  err : Option Err
  net : Net
  deriving DecidableEq, Repr

/-- `r` is what the call returns; `left` is the state left behind when it raises -/
def Outcome.ofExcept (r : Except Err Net) (left : Net) : Outcome :=
  match r with
  | .ok n => ⟨none, n⟩
  | .error e => ⟨some e, left⟩

/-! ### `merge_tensors` -/

/-- The state `merge_tensors(tid1, tid2)` leaves when it raises. `self.tensors[tid1]` / `self.tensors.pop(tid2)` raise before anything is
written. `self.bonds[bid]` inside the loop raises after the second tensor has been popped and the bonds on the axes *before* the first
unknown bond id have been redirected (the keys of `self.bonds` do not change during the loop, so "before the first unknown id" is a
`takeWhile`); the first tensor has not been extended yet. -/
def mergeTensorsLeft (net : Net) (tid1 tid2 : Int) : Net :=
  match dget net.tensors tid1, dget net.tensors tid2 with
  | some _, some T2 =>
    let done := T2.bids.takeWhile (dhas net.bonds)
    ⟨dpop net.tensors tid2,
     net.bonds.map (fun e =>
       if done.contains e.1 then (e.1, { e.2 with tids := isort (replaceAll tid2 tid1 e.2.tids) }) else e)⟩
  | _, _ => net

/-- the public call `net.merge_tensors(tid1, tid2)` -/
def mergeTensorsP (net : Net) (tid1 tid2 : Int) : Outcome :=
  .ofExcept (mergeTensors net tid1 tid2) (mergeTensorsLeft net tid1 tid2)

/-! ### `merge_bonds` -/

/-- The state `merge_bonds(bid1, bid2)` leaves when it raises: `self.bonds[bid1]` / `self.bonds.pop(bid2)` raise before anything is written;
`self.tensors[tid]` inside the loop raises after the second bond has been popped, the tensor ids up to AND INCLUDING the unknown one have
been appended to the first bond (the `append` precedes the lookup; the final `sort` is not reached) and the tensors before it have been
redirected. -/
def mergeBondsLeft (net : Net) (bid1 bid2 : Int) : Net :=
  match dget net.bonds bid1, dget net.bonds bid2 with
  | some _, some B2 =>
    let done := B2.tids.takeWhile (dhas net.tensors)
    let appended := B2.tids.take (done.length + 1)
    ⟨net.tensors.map (fun e =>
       if done.contains e.1 then (e.1, { e.2 with bids := replaceAll bid2 bid1 e.2.bids }) else e),
     dmodify (dpop net.bonds bid2) bid1 (fun b => { b with tids := b.tids ++ appended })⟩
  | _, _ => net

/-- the public call `net.merge_bonds(bid1, bid2)` -/
def mergeBondsP (net : Net) (bid1 bid2 : Int) : Outcome :=
  .ofExcept (mergeBonds net bid1 bid2) (mergeBondsLeft net bid1 bid2)

/-! ### `add_tensor`, `add_bond` (constructor + insertion), `generate_bonds`, `wrap` -/

/-- `net.add_tensor(SymbolicTensor(tid, shape, bids, dataref))`: nothing is written when either step raises -/
def addTensorP (net : Net) (tid : Int) (shape : List Nat) (bids : List Int) (dataref : Option Int) : Outcome :=
  match mkTensor tid shape bids dataref with
  | .error e => ⟨some e, net⟩
  | .ok t => .ofExcept (addTensor net t) net

/-- `net.add_bond(SymbolicBond(bid, tids))` -/
def addBondP (net : Net) (bid : Int) (tids : List Int) : Outcome :=
  match mkBond bid tids with
  | .error e => ⟨some e, net⟩
  | .ok b => .ofExcept (addBond net b) net

/-- the tensor ids `generate_bonds` collects for `bid`: the `tid` attribute of every tensor, once per axis on the bond -/
def refsOf (net : Net) (bid : Int) : List Int :=
  net.tensors.flatMap (fun e => (e.2.bids.filter (· == bid)).map (fun _ => e.2.tid))

/-- one round of the loop of `generate_bonds` -/
def genStep (o : Outcome) (bid : Int) : Outcome :=
  match o.err with
  | some _ => o
  | none =>
    match mkBond bid (refsOf o.net bid) with
    | .error e => ⟨some e, o.net⟩
    | .ok b => .ofExcept (addBond o.net b) o.net

/-- `net.generate_bonds()`: `RuntimeError` on a non-empty bond collection (nothing written); a bond id carried by a single axis makes the
`SymbolicBond` constructor raise `ValueError` after the bonds with smaller ids have been added -/
def generateBondsP (net : Net) : Outcome :=
  if !net.bonds.isEmpty then ⟨some .runtimeError, net⟩
  else (sortedDedup (net.tensors.flatMap (fun e => e.2.bids))).foldl genStep ⟨none, net⟩

/-- the symbolic part of `TensorNetwork.wrap(a, dataref)` for an array of shape `shape` -/
def wrap (shape : List Nat) (dataref : Option Int) : Except Err Net := do
  let ax := (List.range shape.length).map Int.ofNat
  let net ← addTensor Net.empty (← mkTensor 0 shape ax dataref)
  let net ← addTensor net (← mkTensor (-1) shape ax none)
  (List.range shape.length).foldlM (fun net i => do addBond net (← mkBond (Int.ofNat i) [-1, 0])) net

/-! ### queries -/

/-- `has_tensor` -/
def hasTensor (net : Net) (tid : Int) : Bool := dhas net.tensors tid

/-- `get_tensor` -/
def getTensor (net : Net) (tid : Int) : Except Err STensor :=
  match dget net.tensors tid with
  | some t => .ok t
  | none => .error .keyError

/-- `has_bond` -/
def hasBond (net : Net) (bid : Int) : Bool := dhas net.bonds bid

/-- `get_bond` -/
def getBond (net : Net) (bid : Int) : Except Err SBond :=
  match dget net.bonds bid with
  | some b => .ok b
  | none => .error .keyError

end Qib.TNet
