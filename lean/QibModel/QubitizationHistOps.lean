import QibModel.QubitizationHist
import QibModel.QubitizationOps
/-!
Driver ops of C19 for HISTORIES of mutator calls (`drv_qubitization`); exact rationals only.

* `pcps.history` `{init: {theta, proj, enc, aux, method}, ops: [...], wires?}` ↦ `ProjectorControlledPhaseShift(...)` followed by the
  calls of `ops`; reply `{init: {raised}}` or `{init: snap, steps: [{raised, snap}, …]}` where `snap` lists every attribute,
  `num_wires`, the structure of `as_matrix()` and the gate list of `as_circuit()` (with `wires`: also the basis-state action of the
  whole circuit) in the state after the call.
  constructor arguments `enc`/`aux`: `null | {"one": q} | {"seq": [q…]}`; setter arguments `a`: `{"seq": [q…]} | {"var": [q…]}`;
  ops: `{k: "set_theta", theta}`, `{k: "set_projection_state", ps}`, `{k: "set_method", m}`, `{k: "set_encoding_qubits", a}`,
  `{k: "set_auxiliary_qubits", a}`.
* `evt.history` `{block: {aux, naux, nsys}, proc: {…init…}, thetas, U, Ui, exps: [[theta, [re, im]], …], ops: [...]}` ↦
  `EigenvalueTransformation(block, ProjectorControlledPhaseShift(...), thetas)` followed by the calls of `ops`
  (`set_theta_seq {thetas}`, `set_auxiliary_qubits {a}`, `set_projection_state {ps}`, `set_method {m}`, `set_encoding_qubits {a}` with
  `a`: `{"one": q} | {"seq": [q…]}`; `p.<setter>` = the same call on the processing object; `b.set_auxiliary_qubits {a}` on the block
  encoding; `as_matrix`; `as_circuit`). `exps` supplies `e^{iθ}` for every angle that can reach `as_matrix` (the model forms the
  phase-shift matrices itself from ITS projection state and ITS current angle). Reply as above; `as_matrix` steps carry `mat`
  (entries rounded to 2^-80 for transport only) and `eq_spec` (exact equality with the defining product), `as_circuit` steps `items`.
-/
open Lean
namespace Qib.Qubitization
open Qib Qib.J

def optNats : Option (List Nat) → Json
  | none => Json.null
  | some l => ofNats l

def exceptJson {β : Type} (f : β → Json) : Except Err β → Json
  | .error e => raised e
  | .ok v => f v

def methodStr : Method → String
  | .auxiliary => "auxiliary"
  | .cphase => "c-phase"

def parseCArg (j : Json) : Except String CArg :=
  match j with
  | .null => pure .none
  | v =>
    match v.getObjVal? "one" with
    | .ok q => do pure (.one (← nat q))
    | .error _ => do pure (.seq (← (← fList v "seq").mapM nat))

def parseQArgs (j : Json) : Except String QArgs :=
  match j.getObjVal? "seq" with
  | .ok l => do pure (.seq (← (← list l).mapM nat))
  | .error _ => do pure (.var (← (← fList j "var").mapM nat))

def parseQOne (j : Json) : Except String QOne :=
  match j.getObjVal? "one" with
  | .ok q => do pure (.one (← nat q))
  | .error _ => do pure (.seq (← (← fList j "seq").mapM nat))

def parsePInit (j : Json) : Except String (Except Err (PState Rat)) := do
  let θ ← parseRat (← field j "theta")
  let proj ← (← fList j "proj").mapM int
  let enc ← parseCArg (← field j "enc")
  let aux ← parseCArg (← field j "aux")
  let method ← fStr j "method"
  return PState.init θ proj enc aux method

def parsePOp (k : String) (j : Json) : Except String (POp Rat) :=
  match k with
  | "set_theta" => do pure (.setTheta (← parseRat (← field j "theta")))
  | "set_projection_state" => do pure (.setProj (← (← fList j "ps").mapM int))
  | "set_method" => do pure (.setMethod (← fStr j "m"))
  | "set_encoding_qubits" => do pure (.setEnc (← parseQArgs (← field j "a")))
  | "set_auxiliary_qubits" => do pure (.setAux (← parseQArgs (← field j "a")))
  | _ => throw s!"unknown phase-shift call {k}"

def optRats (j : Json) : Except String (Option (List Rat)) :=
  match j with
  | .null => pure none
  | v => do pure (some (← (← list v).mapM parseRat))

def parseEOp (j : Json) : Except String (EOp Rat) := do
  let k ← fStr j "k"
  match k with
  | "set_theta_seq" => pure (.setThetaSeq (← optRats (← field j "thetas")))
  | "set_auxiliary_qubits" => pure (.setAux (← parseQOne (← field j "a")))
  | "set_projection_state" => pure (.setProj (← (← fList j "ps").mapM int))
  | "set_method" => pure (.setMethod (← fStr j "m"))
  | "set_encoding_qubits" => pure (.setEnc (← parseQOne (← field j "a")))
  | "b.set_auxiliary_qubits" => pure (.blockSetAux (← parseQArgs (← field j "a")))
  | "as_matrix" => pure .asMatrix
  | "as_circuit" => pure .asCircuit
  | _ =>
    if k.startsWith "p." then pure (.inner (← parsePOp (k.drop 2).toString j)) else throw s!"unknown call {k}"

def pstateFields (s : PState Rat) : List (String × Json) :=
  [("theta", jRat s.theta), ("proj", ofInts s.proj), ("enc", optNats s.enc), ("aux", optNats s.aux),
   ("method", .str (methodStr s.method))]

def psnap (wires : Option (List Nat)) (s : PState Rat) : Json :=
  let circ : Json := match s.asCircuit with
    | .error e => raised e
    | .ok gs =>
      let base := [("gates", Json.arr (gs.map gateJson).toArray)]
      match wires with
      | none => Json.mkObj base
      | some ws => Json.mkObj (base ++ [("act", actTable ws gs)])
  Json.mkObj (pstateFields s ++
    [("num_wires", exceptJson jNat s.numWires),
     ("matrix", exceptJson (fun d => Json.mkObj [("diag", .arr (d.map Json.bool).toArray)]) s.asMatrixDiag),
     ("circuit", circ)])

def raisedOpt : Option Err → Json
  | none => Json.null
  | some e => .str e.toStr

def opPcpsHistory (j : Json) : Except String Json := do
  let wires : Option (List Nat) ← match (fList j "wires").toOption with
    | none => pure none
    | some ws => do pure (some (← ws.mapM nat))
  if (wires.getD []).length > 10 then throw "register too large"
  let ops ← (← fList j "ops").mapM fun o => do parsePOp (← fStr o "k") o
  match ← parsePInit (← field j "init") with
  | .error e => return Json.mkObj [("init", raised e)]
  | .ok s0 =>
    if s0.proj.length > 10 then throw "projection state too long"
    let mut s := s0
    let mut steps : Array Json := #[]
    for op in ops do
      let o := s.step op
      s := o.state
      if s.proj.length > 10 then throw "projection state too long"
      steps := steps.push (Json.mkObj [("raised", raisedOpt o.raised), ("snap", psnap wires s)])
    return Json.mkObj [("init", psnap wires s0), ("steps", .arr steps)]

/-! ### eigenvalue transformation -/

def esnap (s : EState Rat) : Json :=
  Json.mkObj [("proc", Json.mkObj (pstateFields s.proc)), ("block_aux", ofNats s.block.aux),
    ("thetas", match s.thetas with | none => Json.null | some l => .arr (l.map jRat).toArray),
    ("num_wires", exceptJson jNat s.numWires)]

/-- nearest multiple of 2^-80 below (transport only) -/
def roundRat (r : Rat) : Rat := mkRat (r * (2 ^ 80 : Nat)).floor (2 ^ 80)

def roundMat (A : Mat) : Mat := ⟨A.n, A.m, A.data.map fun z => ⟨roundRat z.re, roundRat z.im⟩⟩

def lookupExp (tab : List (Rat × GQ)) (θ : Rat) : Option GQ := (tab.find? (·.1 == θ)).map (·.2)

def phaseMat (tab : List (Rat × GQ)) (nsys : Nat) (θ : Rat) (d : List Bool) : Mat :=
  let u := (lookupExp tab θ).getD 0
  let da := d.toArray
  (Mat.ofFn da.size da.size fun i k => if i = k then (if da.getD i false then u else u.conj) else 0).kron (Mat.one (2 ^ nsys))

def opEvtHistory (j : Json) : Except String Json := do
  let bj ← field j "block"
  let block : BState := ⟨← (← fList bj "aux").mapM nat, ← fNat bj "naux", ← fNat bj "nsys"⟩
  let θs ← optRats (← field j "thetas")
  let U ← Mat.ofJson (← field j "U")
  let Ui ← Mat.ofJson (← field j "Ui")
  let N := 2 ^ (block.naux + block.nsys)
  if block.naux + block.nsys > 6 then throw "block encoding too large"
  if U.n != N || U.m != N || Ui.n != N || Ui.m != N then throw "U, Ui must be square of size 2^(naux+nsys)"
  let tab ← (← fList j "exps").mapM fun e => do
    match e with
    | .arr #[t, z] => pure ((← parseRat t), (← GQ.ofJson z))
    | _ => throw "exps entries are [theta, [re, im]]"
  let ops ← (← fList j "ops").mapM parseEOp
  -- every angle that can reach `as_matrix` must have its exponential supplied
  let seqs := (θs.getD []) ++ (ops.flatMap fun o => match o with | .setThetaSeq (some l) => l | _ => [])
  for t in seqs do
    if (lookupExp tab t).isNone then throw s!"no exponential supplied for angle {GQ.ratStr t}"
  let _ : Mul Mat := ⟨Mat.mul⟩
  let _ : One Mat := ⟨Mat.one N⟩
  let env : MatEnv Rat Mat := ⟨U, Ui, phaseMat tab block.nsys⟩
  match ← parsePInit (← field j "proc") with
  | .error e => return Json.mkObj [("init", raised e)]
  | .ok p0 =>
    let s0 : EState Rat := ⟨block, p0, θs⟩
    let mut s := s0
    let mut steps : Array Json := #[]
    for op in ops do
      let o := s.exec env op
      let before := s
      s := o.state
      if s.proc.proj.length > 10 then throw "projection state too long"
      let extra : List (String × Json) := match o.val with
        | .none => []
        | .circ items => [("items", Json.arr (items.map itemJson).toArray)]
        | .mat m =>
          -- self-check in exact arithmetic: the loops of the code = the defining product with the same factors
          let spec : Option Mat := match before.thetas, before.proc.asMatrixDiag with
            | some l, .ok d => some (evtSpec (fun t => phaseMat tab block.nsys t d) U Ui l)
            | _, _ => none
          [("mat", (roundMat m).toJson), ("eq_spec", .bool (match spec with | some sp => sp.beq m | none => false))]
      steps := steps.push (Json.mkObj ([("raised", raisedOpt o.raised), ("snap", esnap s)] ++ extra))
    return Json.mkObj [("init", esnap s0), ("steps", .arr steps)]

def dispatchHist : Dispatch := fun op j =>
  match op with
  | "pcps.history" => some (opPcpsHistory j)
  | "evt.history" => some (opEvtHistory j)
  | _ => none

end Qib.Qubitization
