import QibModel.Backend
import QibModel.Json
/-! Driver ops `http.history` and `exp.history` (C17). -/
open Lean
namespace Qib.Backend
open Qib.J QibGen

def parseOutcome (j : Json) : Except String Outcome :=
  match j with
  | .str "timeout" => .ok .timeout
  | .str "httpError" => .ok .httpError
  | .str "reqError" => .ok .reqError
  | .str "connError" => .ok .connError
  | .arr #[.str "ok", .str s, p] => do return .ok s (← nat p)
  | _ => .error "bad outcome"

def parseCall (j : Json) : Except String Call :=
  match j with
  | .str "query" => .ok .query
  | .str "results" => .ok .results
  | .str "wait" => .ok .wait
  | _ => .error "bad call"

def Status.toStr : Status → String
  | .INITIALIZING => "INITIALIZING" | .QUEUED => "QUEUED" | .RUNNING => "RUNNING"
  | .DONE => "DONE" | .ERROR => "ERROR" | .CANCELLED => "CANCELLED"

def Err.toStr : Err → String
  | .valueError => "ValueError" | .runtimeError => "RuntimeError" | .other => "Other" | .exhausted => "Exhausted"

def optNat : Option Nat → Json
  | some n => Json.num (JsonNumber.fromNat n)
  | none => Json.null

def callOutJson : CallOut → Json
  | .status s => Json.arr #[.str "status", .str (Status.toStr s)]
  | .res r => Json.arr #[.str "res", optNat r]
  | .raised e => Json.arr #[.str "raised", .str (Err.toStr e)]
  | .none => Json.str "none"

def opHttpHistory (j : Json) : Except String Json := do
  let os ← (← fList j "outcomes").mapM parseOutcome
  let (r, att, rest) := httpRequest nwMaxRetries os
  let rj : Json := match r with
    | .ret ⟨s, p⟩ => Json.arr #[.str "ret", .str s, Json.num (JsonNumber.fromNat p)]
    | .raised e => Json.arr #[.str "raised", .str (Err.toStr e)]
    | .none => Json.str "none"
  return Json.mkObj [("res", rj), ("attempts", Json.num (JsonNumber.fromNat att)),
    ("remaining", Json.num (JsonNumber.fromNat rest.length))]

def opExpHistory (j : Json) : Except String Json := do
  let os ← (← fList j "outcomes").mapM parseOutcome
  let calls ← (← fList j "calls").mapM parseCall
  let pre := (fBool j "presubmit").toOption.getD false
  let (sr, w) : PyRes Unit × World :=
    if pre then (.ret (), { exp := { status := .INITIALIZING, results := none }, outcomes := os, requests := 0 })
    else submit nwMaxRetries os
  let sj : Json := match sr with
    | .ret () => Json.str "ok"
    | .raised e => Json.arr #[.str "raised", .str (Err.toStr e)]
    | .none => Json.str "none"
  -- after a failed submission the caller holds no experiment object: no calls are made
  let outs := match sr with
    | .ret () => runCalls nwMaxRetries w calls
    | _ => []
  let cj := outs.map fun (o, st, rq) =>
    Json.mkObj [("out", callOutJson o), ("status", .str (Status.toStr st)), ("requests", Json.num (JsonNumber.fromNat rq))]
  return Json.mkObj [("submit", sj), ("status", .str (Status.toStr w.exp.status)),
    ("requests", Json.num (JsonNumber.fromNat w.requests)), ("calls", Json.arr cj.toArray)]

def opStatusMap (j : Json) : Except String Json := do
  let s ← fStr j "s"
  let st := fromWmi s
  return Json.mkObj [("status", .str (Status.toStr st)), ("terminal", .bool (Status.isTerminal st))]

end Qib.Backend
