import QibModel.Pauli
import QibModel.Json
/-!
Driver ops of Core D (C09): `ps.mul`, `ps.commutes`, `ps.herm`, `ps.str`, `ps.parse`, `ps.refactor`,
`ps.mat`, `ps.entries`, `ps.ctor`, `ps.single`, `ps.setpauli`, `pop.history`.
Replies: `{"val": …}` for a returned value, `{"raised": "<ExceptionClass>"}` for a modelled exception.
Rationals cross as `"p/q"` strings (or JSON integers), complex numbers as `[re, im]`.
-/
open Lean
namespace Qib.Pauli
open Qib.J

def jInt (n : Int) : Json := Json.num (JsonNumber.fromInt n)
def jNat (n : Nat) : Json := Json.num (JsonNumber.fromNat n)

def parseRatStr (s : String) : Except String Rat :=
  match s.splitOn "/" with
  | [a] => match a.toInt? with
    | some p => .ok (p : Rat)
    | none => .error s!"bad rational {s}"
  | [a, b] => match a.toInt?, b.toNat? with
    | some p, some q => if q = 0 then .error "zero denominator" else .ok (mkRat p q)
    | _, _ => .error s!"bad rational {s}"
  | _ => .error s!"bad rational {s}"

def parseRat (j : Json) : Except String Rat :=
  match j with
  | .str s => parseRatStr s
  | .bool b => .ok (if b then 1 else 0)
  | _ => match j.getInt? with
    | .ok n => .ok (n : Rat)
    | .error _ => .error "expected rational"

def ratStr (r : Rat) : String := s!"{r.num}/{r.den}"

def parseGQ (j : Json) : Except String GQ :=
  match j with
  | .arr #[a, b] => do return ⟨← parseRat a, ← parseRat b⟩
  | _ => .error "expected [re, im]"

def gqJson (g : GQ) : Json := Json.arr #[.str (ratStr g.re), .str (ratStr g.im)]

def parseBit (j : Json) : Except String Bool :=
  match j with
  | .bool b => .ok b
  | _ => match j.getNat? with
    | .ok 0 => .ok false
    | .ok 1 => .ok true
    | _ => .error "expected bit"

def parsePS (j : Json) : Except String PS := do
  let z ← (← fList j "z").mapM parseBit
  let x ← (← fList j "x").mapM parseBit
  let q ← fInt j "q"
  return ⟨z, x, qOfInt q⟩

def bitsJson (l : List Bool) : Json := .arr (l.map fun b => jNat b.toNat).toArray

def psJson (P : PS) : Json :=
  Json.mkObj [("z", bitsJson P.z), ("x", bitsJson P.x), ("q", jNat P.q.val)]

def val (j : Json) : Json := Json.mkObj [("val", j)]
def raised (e : Err) : Json := Json.mkObj [("raised", .str e.toStr)]
def exJson {α} (f : α → Json) : Except Err α → Json
  | .ok a => val (f a)
  | .error e => raised e

partial def parseArrLike (j : Json) : Except String ArrLike :=
  match j with
  | .arr a => do return .list (← a.toList.mapM parseArrLike)
  | _ => do return .num (← parseRat j)

def opMul (j : Json) : Except String Json := do
  let a ← parsePS (← field j "a"); let b ← parsePS (← field j "b")
  return exJson psJson (a.mulE b)

def opCommutes (j : Json) : Except String Json := do
  let a ← parsePS (← field j "a"); let b ← parsePS (← field j "b")
  return exJson Json.bool (a.commutesWithE b)

def opHerm (j : Json) : Except String Json := do
  let a ← parsePS (← field j "a")
  return val (.bool a.isHermitian)

/-- `wps.flags {a, w}` ↦ `WeightedPauliString(a, w).is_hermitian()`, `.is_unitary()` -/
def opWpsFlags (j : Json) : Except String Json := do
  let a ← parsePS (← field j "a")
  let w ← parseGQ (← field j "w")
  return val (Json.mkObj [("herm", .bool (wpsIsHermitian a w)), ("unitary", .bool (wpsIsUnitary w))])

def opStr (j : Json) : Except String Json := do
  let a ← parsePS (← field j "a")
  return val (.str a.toString)

def opParse (j : Json) : Except String Json := do
  let s ← fStr j "s"
  return exJson psJson (PS.fromString s)

def opRefactor (j : Json) : Except String Json := do
  let a ← parsePS (← field j "a")
  match ← fStr j "kind" with
  | "phase" =>
    let (f, n) := a.refactorPhase
    return val (Json.mkObj [("f", Json.arr #[jInt f.1, jInt f.2]), ("new", psJson n)])
  | "sign" =>
    let (f, n) := a.refactorSign
    return val (Json.mkObj [("f", Json.arr #[jInt f, jInt 0]), ("new", psJson n)])
  | k => .error s!"unknown refactor kind {k}"

def opMat (j : Json) : Except String Json := do
  let a ← parsePS (← field j "a")
  let nz := a.matSparse.map fun (r, c, re, im) => Json.arr #[jNat r, jNat c, jInt re, jInt im]
  return val (Json.mkObj [("n", jNat a.z.length), ("nz", .arr nz.toArray)])

/-- selected entries of `as_matrix()` of a string on many sites (the matrix itself is never tabulated): request `pairs = [[r, c], …]`,
reply `[[re, im], …]` -/
def opEntries (j : Json) : Except String Json := do
  let a ← parsePS (← field j "a")
  let pairs ← (← fList j "pairs").mapM fun e => match e with
    | .arr #[r, c] => do return ((← int r).toNat, (← int c).toNat)
    | _ => .error "expected [row, column]"
  let es := pairs.map fun (r, c) => let e := a.matEntry r c; Json.arr #[jInt e.1, jInt e.2]
  return val (Json.mkObj [("n", jNat a.z.length), ("entries", .arr es.toArray)])

def opCtor (j : Json) : Except String Json := do
  let z ← parseArrLike (← field j "z")
  let x ← parseArrLike (← field j "x")
  let q ← parseRat (← field j "q")
  return exJson psJson (PS.ofArrayLike z x q)

def parseChar (j : Json) : Except String Char := do
  match (← str j).toList with
  | [c] => return c
  | _ => .error "expected one character"

def opSingle (j : Json) : Except String Json := do
  let n ← fNat j "n"
  let args ← (← fList j "args").mapM fun a => match a with
    | .arr #[c, i] => do return (← parseChar c, ← int i)
    | _ => .error "expected [letter, index]"
  let q ← fInt j "q"
  return exJson psJson (PS.ofSinglePaulis n args q)

def opSetPauli (j : Json) : Except String Json := do
  let a ← parsePS (← field j "a")
  let c ← parseChar (← field j "c")
  let i ← fInt j "i"
  return exJson psJson (a.setPauli c i)

def parseStep (j : Json) : Except String (PauliOp.Step GQ) :=
  match j with
  | .arr #[.str "add", p, w] => do return .add (← parsePS p) (← parseGQ w)
  | .arr #[.str "prune", t] => do
    let tol ← parseRat t
    return .prune (fun w => w.absLe tol)
  | _ => .error "bad step"

def opJson (op : PauliOp GQ) : Json :=
  .arr (op.map fun (P, w) => Json.arr #[.str P.toString, psJson P, gqJson w]).toArray

def opMatJson (op : PauliOp GQ) : Json :=
  match op.matSparse with
  | .error e => raised e
  | .ok none => val (.str "zero")
  | .ok (some (n, nz)) =>
    val (Json.mkObj [("n", jNat n), ("nz", .arr (nz.map fun (r, c, g) => Json.arr #[jNat r, jNat c, gqJson g]).toArray)])

/-- `PauliOperator(init)` followed by a history of `add_pauli_string` / `remove_zero_weight_strings(tol)` -/
def opHistory (j : Json) : Except String Json := do
  let init ← (← fList j "init").mapM fun e => match e with
    | .arr #[p, w] => do return (← parsePS p, ← parseGQ w)
    | _ => .error "expected [string, weight]"
  let steps ← (← fList j "steps").mapM parseStep
  let wantMat := (fBool j "mat").toOption.getD false
  match PauliOp.ofList init with
  | .error e => return raised e
  | .ok op0 =>
    let op := PauliOp.run op0 steps
    -- the same history with the literal transcription of the pruning loop instead of its closed form
    let opL := steps.foldl (fun (o : PauliOp GQ) s => match s with
      | .add P w => o.add P w
      | .prune isZ => PauliOp.removeZeroLoop isZ o) op0
    return val (Json.mkObj [("strings", opJson op), ("strings_loop", opJson opL), ("nq", jNat op.numQubits),
      ("herm", .bool op.isHermitian), ("mat", if wantMat then opMatJson op else Json.null)])

end Qib.Pauli
