import QibModel.DriverMain
import QibModel.QasmOps
open Lean Qib

def qasmDispatch : Dispatch := fun op j =>
  match op with
  | "qasm.object" => some (Qasm.opObject j)
  | "qasm.circuit" => some (Qasm.opCircuit j)
  | "qasm.decode" => some (Qasm.opDecode j)
  | "qasm.table" => some (Qasm.opTable j)
  | _ => none

def main : IO Unit := driverMain qasmDispatch
