import QibModel.GateCtor
import QibModel.GateOps
import QibModel.DriverMain
/-! Driver ops `ctor.eval` (evaluate a caller's expression: accepted / rejected with exception class, resulting tree, its matrix,
`num_wires`, binding state, `particles()`), `ctor.consts` (the tolerances the model uses) and `ctor.allclose` (C01, constructor stage). -/
open Lean
namespace Qib.GateCtor
open Qib Qib.J Qib.Gate

def emptyMat : Mat := ⟨0, 0, #[]⟩

/-- an optional matrix field (absent for expressions whose constructor the implementation rejected: no payload exists) -/
def optMat (j : Json) (k : String) : Except String Mat :=
  match j.getObjVal? k with
  | .ok Json.null => .ok emptyMat
  | .ok v => Mat.ofJson v
  | .error _ => .ok emptyMat

def parseSlot (j : Json) : Except String Slot :=
  match j with
  | .null => .ok .none
  | .str "opaque" => .ok .opaque
  | _ => do return .particle (← nat j)

def optSlot (j : Json) (k : String) : Except String Slot :=
  match j.getObjVal? k with
  | .ok v => parseSlot v
  | .error _ => .ok .none

def parseDType (s : String) : Except String DType :=
  match s with
  | "int" => .ok .int | "float" => .ok .float | "complex" => .ok .complex
  | _ => .error s!"bad dtype {s}"

def parseNdArr (j : Json) : Except String NdArr := do
  let shape ← (← fList j "shape").mapM nat
  let dt ← parseDType (← fStr j "dtype")
  let d ← (← fList j "d").mapM GQ.ofJson
  let arr := d.toArray
  if h : arr.size = shape.foldl (· * ·) 1 then return ⟨shape, dt, arr, h⟩
  else .error "array data length does not match its shape"

def parseRats (j : Json) : Except String (List Rat) := do
  (← list j).mapM fun v => do GQ.parseRat (← str v)

def parseCall (j : Json) : Except String Call := do
  let m ← match (← fStr j "m") with
    | "on" => pure Meth.on
    | "set_control" => pure Meth.setControl
    | "set_auxiliary_qubits" => pure Meth.setAux
    | s => .error s!"bad method {s}"
  let ps ← (← fList j "ps").mapM parseSlot
  match (← fStr j "form") with
  | "seq" => return ⟨m, .seq ps⟩
  | "pos" => return ⟨m, .pos ps⟩
  | s => .error s!"bad call form {s}"

partial def parseExpr (j : Json) : Except String Expr := do
  let k ← fStr j "k"
  match k with
  | "leaf" => return .leaf (← fStr j "cls") (← optMat j "m") (← optMat j "mi") (← fBool j "flag") (← optSlot j "q")
  | "leaf2" => return .leaf2 (← fStr j "cls") (← optMat j "m") (← optMat j "mi") (← fBool j "flag") (← optSlot j "q1") (← optSlot j "q2")
  | "iswap" => return .iswap (← optSlot j "q1") (← optSlot j "q2") (← optMat j "m") (← optMat j "mi")
  | "rotation" => return .rotation (← (← fList j "shape").mapM nat) (← optSlot j "q") (← optMat j "m") (← optMat j "mi")
  | "phase" => return .phase (← fInt j "nw") (← optMat j "m") (← optMat j "mi")
  | "prepare" =>
    let x ← match j.getObjVal? "x" with
      | .ok v => parseRats v
      | .error _ => pure []
    return .prepare (← parseNdArr (← field j "vec")) (← fInt j "nq") (← fBool j "tr") (← optMat j "q") x
  | "general" => return .general (← parseNdArr (← field j "mat")) (← fInt j "nw")
  | "timeevo" =>
    let t ← match j.getObjVal? "t" with
      | .ok (.str s) => GQ.parseRat s
      | _ => pure 0
    return .timeEvo (← fNat j "w") (← optMat j "h") t (← optMat j "m") (← optMat j "mi")
  | "block" => return .block (← fNat j "ns") (← parseMethod (← fStr j "method")) (← optMat j "h") (← optMat j "s")
  | "controlled" =>
    let cs ← match j.getObjVal? "cs" with
      | .ok Json.null => pure none
      | .ok v => do pure (some (← parseRats v))
      | .error _ => pure none
    return .controlled (← parseExpr (← field j "tg")) (← fInt j "nc") cs
  | "multiplexed" => return .multiplexed (← (← fList j "tgs").mapM parseExpr) (← fInt j "nc")
  | "call" => return .call (← parseExpr (← field j "e")) (← parseCall j)
  | _ => .error s!"bad expression kind {k}"

def slotJson : Slot → Json
  | .none => Json.null
  | .particle i => Json.num (JsonNumber.fromNat i)
  | .opaque => Json.str "opaque"

def slotsJson (l : List Slot) : Json := .arr (l.map slotJson).toArray

mutual
partial def bindJson : Bind → Json
  | .one q => Json.mkObj [("b", "one"), ("q", slotJson q)]
  | .two a b h => Json.mkObj [("b", "two"), ("q1", slotJson a), ("q2", slotJson b), ("on", .bool h)]
  | .list ps => Json.mkObj [("b", "list"), ("ps", slotsJson ps)]
  | .aux ps => Json.mkObj [("b", "aux"), ("ps", slotsJson ps)]
  | .fixed => Json.mkObj [("b", "fixed")]
  | .ctrl nc cq t => Json.mkObj [("b", "ctrl"), ("nc", Json.num (JsonNumber.fromNat nc)), ("cq", slotsJson cq), ("t", bindJson t)]
  | .mplx nc cq ts => Json.mkObj [("b", "mplx"), ("nc", Json.num (JsonNumber.fromNat nc)), ("cq", slotsJson cq),
      ("ts", .arr (ts.map bindJson).toArray)]
end

/-- the structure of the resulting tree (kinds, wire counts, control patterns, order of targets), without numbers -/
partial def treeSig : Tree → Json
  | .leaf cls w _ _ _ => Json.arr #["leaf", cls, Json.num (JsonNumber.fromNat w)]
  | .general w _ => Json.arr #["general", Json.num (JsonNumber.fromNat w)]
  | .timeEvo w _ _ => Json.arr #["timeevo", Json.num (JsonNumber.fromNat w)]
  | .prepare w _ _ tr => Json.arr #["prepare", Json.num (JsonNumber.fromNat w), .bool tr]
  | .block w m _ _ => Json.arr #["block", Json.num (JsonNumber.fromNat w), Json.str (match m with | .Wx => "Wx" | .Wxi => "Wxi" | .R => "R")]
  | .controlled cs t => Json.arr #["controlled", .arr (cs.map fun b => Json.num (JsonNumber.fromNat (if b then 1 else 0))).toArray, treeSig t]
  | .multiplexed nc ts => Json.arr #["multiplexed", Json.num (JsonNumber.fromNat nc), .arr (ts.map treeSig).toArray]

def errName : ErrKind → String
  | .valueError => "ValueError" | .typeError => "TypeError" | .attributeError => "AttributeError"

def statusName : Status → String
  | .ok => "ok" | .raises => "raises" | .nan => "nan"

def opEval (j : Json) : Except String Json := do
  let e ← parseExpr (← field j "expr")
  match construct e with
  | .error k => return Json.mkObj [("res", "err"), ("kind", errName k)]
  | .ok o =>
    return Json.mkObj [("res", "ok"), ("st", statusName o.status), ("nw", Json.num (JsonNumber.fromInt o.nw)),
      ("wires", Json.num (JsonNumber.fromNat o.tree.wires)),
      ("mat", if o.status = .ok then o.tree.mat.toJson else Json.null),
      ("sig", treeSig o.tree), ("bind", bindJson o.bind), ("particles", slotsJson o.bind.particles)]

def opConsts (_ : Json) : Except String Json :=
  return Json.mkObj [("prepTol", GQ.ratStr prepTol), ("tolOff", GQ.ratStr tolOff), ("tolDiag", GQ.ratStr tolDiag)]

def opAllclose (j : Json) : Except String Json := do
  let m ← Mat.ofJson (← field j "mat")
  return .bool (allcloseUnitary m)

def dispatch : Dispatch := fun op j =>
  match op with
  | "ctor.eval" => some (opEval j)
  | "ctor.consts" => some (opConsts j)
  | "ctor.allclose" => some (opAllclose j)
  | _ => none

end Qib.GateCtor
