import QibModel.Qubitization
/-!
Model of the *object state* and of every public mutator of `qib/algorithms/qubitization` (C19, histories), Mathlib-free and
polymorphic in the scalar type like `QibModel/Qubitization.lean`, on which it builds.

Mirrors

* `ProjectorControlledPhaseShift.__init__`              ↦ `PState.init`        (attributes that stay UNSET for `None` arguments),
* `set_theta / set_projection_state / set_method / set_encoding_qubits / set_auxiliary_qubits`
                                                        ↦ `PState.step`        (what a setter rejects, erases, ignores),
* `as_matrix / as_circuit / num_wires` of the object in whatever state a history left it
                                                        ↦ `PState.asMatrixDiag`, `PState.asCircuit`, `PState.numWires`,
* `BlockEncodingGate.set_auxiliary_qubits`              ↦ `BState.setAux`,
* `EigenvalueTransformation.__init__`, `set_theta_seq`, `set_auxiliary_qubits`, `set_projection_state`, `set_method`,
  `set_encoding_qubits` (which forward to the ALIASED processing object / block encoding), direct calls on the aliased inner
  objects, and `as_matrix` / `as_circuit` *including their side effect* (`self.processing.set_theta(...)` inside the loops
  leaves the angle of the processing object changed, also when the call raises half-way)
                                                        ↦ `EState.exec`.

A call never destroys the object: `Outcome.state` is the state after the call, `Outcome.raised` the exception class if the
call raised. (A raising call may have written before it raised: `EigenvalueTransformation.set_encoding_qubits`.)
-/
namespace Qib.Qubitization

/-- state after a call, and the exception class if the call raised -/
structure Outcome (σ : Type) where
  state : σ
  raised : Option Err

def Outcome.ok {σ : Type} (s : σ) : Outcome σ := ⟨s, none⟩
def Outcome.fail {σ : Type} (s : σ) (e : Err) : Outcome σ := ⟨s, some e⟩

/-- the positional arguments of `set_encoding_qubits(*args)` / `set_auxiliary_qubits(*args)` / `set_control`-style setters -/
inductive QArgs where
  /-- exactly one argument, and it is a `Sequence` of qubits -/
  | seq (l : List Nat)
  /-- any number (0, 1, 2, …) of arguments, each one a `Qubit` -/
  | var (l : List Nat)
  deriving Repr, DecidableEq

/-- `if len(args) == 1 and isinstance(args[0], Sequence): list(args[0])  else: list(args)` -/
def QArgs.norm : QArgs → List Nat
  | .seq l => l
  | .var l => l

/-- the single argument `q: Qubit | Sequence[Qubit]` of the `EigenvalueTransformation` setters -/
inductive QOne where
  | one (q : Nat)
  | seq (l : List Nat)
  deriving Repr, DecidableEq

/-- forwarding `f(q)` to a `*args` setter -/
def QOne.toArgs : QOne → QArgs
  | .one q => .var [q]
  | .seq l => .seq l

/-- a constructor argument `Qubit | Sequence[Qubit] = None` -/
inductive CArg where
  | none
  | one (q : Nat)
  | seq (l : List Nat)
  deriving Repr, DecidableEq

/-- `if type(x) == Qubit: [x]  elif x is not None: list(x)` — otherwise the attribute is not assigned at all -/
def CArg.norm : CArg → Option (List Nat)
  | .none => Option.none
  | .one q => some [q]
  | .seq l => some l

/-! ### `ProjectorControlledPhaseShift` -/

/-- the attributes of a `ProjectorControlledPhaseShift` object; `none` = the attribute was never assigned (reading it is an
`AttributeError`) -/
structure PState (α : Type) where
  theta : α
  proj : List Int
  enc : Option (List Nat)
  aux : Option (List Nat)
  method : Method
  deriving Repr

/-- `__init__`: `ValueError` for a projection state with an entry outside {0,1} (`issubset`, checked first); a method other
than "auxiliary" empties the auxiliary list; `RuntimeError` for an unknown method (no object then). -/
def PState.init {α : Type} (θ : α) (proj : List Int) (enc aux : CArg) (method : String) : Except Err (PState α) :=
  if proj.any (fun s => s != 0 && s != 1) then .error .valueError else
  if method == "auxiliary" then .ok ⟨θ, proj, enc.norm, aux.norm, .auxiliary⟩
  else if method == "c-phase" then .ok ⟨θ, proj, enc.norm, some [], .cphase⟩
  else .error .runtimeError

/-- the public mutators -/
inductive POp (α : Type) where
  | setTheta (θ : α)
  | setProj (ps : List Int)
  | setMethod (m : String)
  | setEnc (a : QArgs)
  | setAux (a : QArgs)
  deriving Repr

/-- `set(projection_state) == set([0, 1])`: only 0/1 entries and BOTH values present -/
def projSetIsZeroOne (ps : List Int) : Bool :=
  ps.all (fun s => s == 0 || s == 1) && ps.contains 0 && ps.contains 1

def PState.setTheta {α : Type} (s : PState α) (θ : α) : PState α := { s with theta := θ }

/-- one call of a mutator -/
def PState.step {α : Type} (s : PState α) : POp α → Outcome (PState α)
  | .setTheta θ => .ok (s.setTheta θ)
  | .setProj ps =>
    -- `if set(projection_state) != set([0,1]): raise ValueError`
    if projSetIsZeroOne ps then .ok { s with proj := ps } else .fail s .valueError
  | .setMethod m =>
    -- `if method not in [...]: raise RuntimeError`; `self.method = method`; `if method != "auxiliary": self.auxiliary_qubits = []`
    if m == "auxiliary" then .ok { s with method := .auxiliary }
    else if m == "c-phase" then .ok { s with method := .cphase, aux := some [] }
    else .fail s .runtimeError
  | .setEnc a => .ok { s with enc := some a.norm }
  | .setAux a =>
    -- `if self.method != "auxiliary": return self`
    match s.method with
    | .cphase => .ok s
    | .auxiliary => .ok { s with aux := some a.norm }

/-- a history of calls; a raising call leaves the object in `Outcome.state` and the history goes on -/
def PState.run {α : Type} (s : PState α) : List (POp α) → PState α
  | [] => s
  | op :: ops => PState.run (s.step op).state ops

section Scalars
variable {α : Type} [Mul α] [Div α] [Neg α] [Sub α] [OfNat α 1] [OfNat α 2]

/-- `as_circuit` in the state a history left: `AttributeError` (↦ `other`) when a needed attribute was never assigned,
otherwise exactly `Pcps.asCircuit` -/
def PState.asCircuit (s : PState α) : Except Err (List (GateDesc α)) :=
  match s.enc with
  | none => .error .other
  | some enc =>
    if s.proj.length ≠ enc.length then .error .runtimeError else
    if s.proj.any (· != 0) then .error .runtimeError else
    match s.method with
    | .auxiliary =>
      match s.aux with
      | none => .error .other
      | some [] => .error .other
      | some (a :: _) => .ok (auxCircuit s.theta s.proj enc a)
    | .cphase =>
      match enc with
      | [] => .error .other
      | e0 :: _ => .ok (cphaseCircuit s.theta s.proj enc e0)

end Scalars

/-- `as_matrix` (structure of the diagonal; the angle is `s.theta`) -/
def PState.asMatrixDiag {α : Type} (s : PState α) : Except Err (List Bool) := pcpsMatrixDiag s.proj

/-- `num_wires` -/
def PState.numWires {α : Type} (s : PState α) : Except Err Nat :=
  match s.method with
  | .auxiliary =>
    match s.aux, s.enc with
    | some a, some e => .ok (a.length + e.length)
    | _, _ => .error .other
  | .cphase =>
    match s.enc with
    | some e => .ok e.length
    | none => .error .other

/-! ### the block encoding as far as `EigenvalueTransformation` looks at it -/

/-- `auxiliary_qubits`, `num_aux_qubits` and `num_wires - num_aux_qubits` of the block encoding -/
structure BState where
  aux : List Nat
  naux : Nat
  nsys : Nat
  deriving Repr, DecidableEq

/-- `BlockEncodingGate.set_auxiliary_qubits(*args)`: `ValueError` unless exactly `num_aux_qubits` qubits are given -/
def BState.setAux (b : BState) (a : QArgs) : Outcome BState :=
  if a.norm.length ≠ b.naux then .fail b .valueError else .ok { b with aux := a.norm }

/-! ### `EigenvalueTransformation` -/

/-- the attributes of an `EigenvalueTransformation`: the block encoding and the processing object are REFERENCES (the caller
keeps them and may call their methods directly), the angle list is an own copy -/
structure EState (α : Type) where
  block : BState
  proc : PState α
  thetas : Option (List α)
  deriving Repr

/-- calls that change (or may change) the state of an `EigenvalueTransformation` -/
inductive EOp (α : Type) where
  | setThetaSeq (θs : Option (List α))
  | setAux (a : QOne)
  | setProj (ps : List Int)
  | setMethod (m : String)
  | setEnc (a : QOne)
  /-- a call on the processing object the caller still holds -/
  | inner (op : POp α)
  /-- `set_auxiliary_qubits` on the block encoding the caller still holds -/
  | blockSetAux (a : QArgs)
  /-- `as_matrix()` (moves the angle of the processing object) -/
  | asMatrix
  /-- `as_circuit()` (moves the angle of the processing object) -/
  | asCircuit
  deriving Repr

/-- what the matrices are made of: the block encoding's matrix, that of its `inverse()`, and
`phase θ d = np.kron(expm(1j θ (2|k⟩⟨k| − 1)), id)` for the diagonal structure `d` (true = the projection state) -/
structure MatEnv (α M : Type) where
  U : M
  Ui : M
  phase : α → List Bool → M

section EVT
variable {α M : Type} [Mul M] [One M]

/-- `np.kron(self.processing.as_matrix(), id_for_projector)` as a factor of the running product: the exceptions of
`processing.as_matrix()`, then the shape test of `@` (`2**len(projection_state) * 2**num_particles` against
`2**block_encoding.num_wires`, a NumPy `ValueError`) -/
def kronP (env : MatEnv α M) (b : BState) (p : PState α) : Except Err M :=
  match p.asMatrixDiag with
  | .error e => .error e
  | .ok d => if p.proj.length ≠ b.naux then .error .valueError else .ok (env.phase p.theta d)

/-- `self.processing.set_theta(θ); matrix = matrix @ np.kron(self.processing.as_matrix(), id) @ V`:
the angle is written BEFORE anything can raise -/
def evtMulH (env : MatEnv α M) (b : BState) (p : PState α) (acc : M) (θ : α) (V : M) : PState α × Except Err M :=
  let p' := p.setTheta θ
  match kronP env b p' with
  | .error e => (p', .error e)
  | .ok Pm => (p', .ok (acc * Pm * V))

/-- `for i in range(start, dim + start)` of `as_matrix`, threading the processing object -/
def evtLoopH (env : MatEnv α M) (b : BState) (θs : List α) (start : Nat) :
    PState α → M → List Nat → PState α × Except Err M
  | p, acc, [] => (p, .ok acc)
  | p, acc, i :: is =>
    match θs[2 * i - start]?, θs[2 * i + 1 - start]? with
    | some a, some c =>
      match evtMulH env b p acc a env.Ui with
      | (p1, .error e) => (p1, .error e)
      | (p1, .ok acc1) =>
        match evtMulH env b p1 acc1 c env.U with
        | (p2, .error e) => (p2, .error e)
        | (p2, .ok acc2) => evtLoopH env b θs start p2 acc2 is
    | _, _ => (p, .error .other)

/-- `EigenvalueTransformation.as_matrix` line by line: state of the processing object afterwards, and the result -/
def asMatrixH (env : MatEnv α M) (s : EState α) : EState α × Except Err M :=
  match s.thetas with
  | none => (s, .error .valueError)
  | some [] => (s, .error .valueError)
  | some (a0 :: rest) =>
    let l := a0 :: rest
    if l.length % 2 = 0 then
      let r := evtLoopH env s.block l 0 s.proc 1 (List.range' 0 (l.length / 2))
      ({ s with proc := r.1 }, r.2)
    else
      match evtMulH env s.block s.proc 1 a0 env.U with
      | (p1, .error e) => ({ s with proc := p1 }, .error e)
      | (p1, .ok m1) =>
        let r := evtLoopH env s.block l 1 p1 m1 (List.range' 1 ((l.length - 1) / 2))
        ({ s with proc := r.1 }, r.2)

end EVT

section EVTCircuit
variable {α : Type} [Mul α] [Div α] [Neg α] [Sub α] [OfNat α 1] [OfNat α 2]

/-- `self.processing.set_theta(θ); circuit.prepend_circuit(self.processing.as_circuit()); circuit.prepend_gate(g)` -/
def evtPrependH (p : PState α) (θ : α) (g : EvtItem α) (circ : List (EvtItem α)) :
    PState α × Except Err (List (EvtItem α)) :=
  let p' := p.setTheta θ
  match p'.asCircuit with
  | .error e => (p', .error e)
  | .ok sub => (p', .ok (g :: (sub.map EvtItem.gate ++ circ)))

def evtCircuitLoopH (θs : List α) (start : Nat) :
    PState α → List (EvtItem α) → List Nat → PState α × Except Err (List (EvtItem α))
  | p, circ, [] => (p, .ok circ)
  | p, circ, i :: is =>
    match θs[2 * i - start]?, θs[2 * i + 1 - start]? with
    | some a, some c =>
      match evtPrependH p a .encInv circ with
      | (p1, .error e) => (p1, .error e)
      | (p1, .ok c1) =>
        match evtPrependH p1 c .enc c1 with
        | (p2, .error e) => (p2, .error e)
        | (p2, .ok c2) => evtCircuitLoopH θs start p2 c2 is
    | _, _ => (p, .error .other)

/-- `EigenvalueTransformation.as_circuit` line by line. Reading `processing.encoding_qubits` when it was never assigned is an
`AttributeError` (↦ `other`). -/
def asCircuitH (s : EState α) : EState α × Except Err (List (EvtItem α)) :=
  match s.proc.enc with
  | none => (s, .error .other)
  | some enc =>
    if s.block.aux ≠ enc then (s, .error .runtimeError) else
    match s.thetas with
    | none => (s, .error .valueError)
    | some [] => (s, .error .valueError)
    | some (a0 :: rest) =>
      let l := a0 :: rest
      if l.length % 2 = 0 then
        let r := evtCircuitLoopH l 0 s.proc [] (List.range' 0 (l.length / 2))
        ({ s with proc := r.1 }, r.2)
      else
        match evtPrependH s.proc a0 .enc [] with
        | (p1, .error e) => ({ s with proc := p1 }, .error e)
        | (p1, .ok c0) =>
          let r := evtCircuitLoopH l 1 p1 c0 (List.range' 1 ((l.length - 1) / 2))
          ({ s with proc := r.1 }, r.2)

end EVTCircuit

/-- `EigenvalueTransformation.num_wires = block_encoding.num_wires + len(processing.auxiliary_qubits)` -/
def EState.numWires {α : Type} (s : EState α) : Except Err Nat :=
  match s.proc.aux with
  | none => .error .other
  | some a => .ok (s.block.naux + s.block.nsys + a.length)

/-- what a call returns besides changing the state -/
inductive EVal (α M : Type) where
  | none
  | mat (m : M)
  | circ (items : List (EvtItem α))

structure EOut (α M : Type) where
  state : EState α
  raised : Option Err
  val : EVal α M

section Exec
variable {α M : Type} [Mul M] [One M] [Mul α] [Div α] [Neg α] [Sub α] [OfNat α 1] [OfNat α 2]

/-- forwarding a call to the processing object -/
def EState.onProc (s : EState α) (op : POp α) : EOut α M :=
  let o := s.proc.step op
  ⟨{ s with proc := o.state }, o.raised, .none⟩

/-- one call on the `EigenvalueTransformation` (or on one of the two objects it refers to) -/
def EState.exec (env : MatEnv α M) (s : EState α) : EOp α → EOut α M
  | .setThetaSeq θs => ⟨{ s with thetas := θs }, none, .none⟩
  | .setAux a => s.onProc (.setAux a.toArgs)
  | .setProj ps => s.onProc (.setProj ps)
  | .setMethod m => s.onProc (.setMethod m)
  | .setEnc a =>
    -- `self.processing.set_encoding_qubits(q_enc)` and THEN `self.block_encoding.set_auxiliary_qubits(q_enc)`, which may raise
    let o1 := s.proc.step (.setEnc a.toArgs)
    match o1.raised with
    | some e => ⟨{ s with proc := o1.state }, some e, .none⟩
    | none =>
      let o2 := s.block.setAux a.toArgs
      ⟨{ s with proc := o1.state, block := o2.state }, o2.raised, .none⟩
  | .inner op => s.onProc op
  | .blockSetAux a =>
    let o := s.block.setAux a
    ⟨{ s with block := o.state }, o.raised, .none⟩
  | .asMatrix =>
    match asMatrixH env s with
    | (s', .error e) => ⟨s', some e, .none⟩
    | (s', .ok m) => ⟨s', none, .mat m⟩
  | .asCircuit =>
    match asCircuitH s with
    | (s', .error e) => ⟨s', some e, .none⟩
    | (s', .ok c) => ⟨s', none, .circ c⟩

/-- a history of calls -/
def EState.run (env : MatEnv α M) (s : EState α) : List (EOp α) → EState α
  | [] => s
  | op :: ops => EState.run env (s.exec env op).state ops

end Exec

end Qib.Qubitization
