import QibModel.CircuitNet
import QibModel.GateNetOps
/-! Driver ops `circuit.net` and `sim.tn` (C05, tensor-network part): a circuit given as field list + gate
descriptions with numeric leaf matrices (exact Gaussian rationals) ↦ the model's circuit network (tensors, bonds, data
in dictionary order, consistency flags, open axes, dense denotation) and the output of the tensor-network simulator. -/
open Lean
namespace Qib.CircuitNet
open Qib Qib.J Qib.TNet Qib.GateNet
open Qib.Embed (FieldSpec ParticleSpec)

def parseField (j : Json) : Except String FieldSpec :=
  match j with
  | .arr #[a, b, c] => do return ⟨← nat a, ← nat b, ← nat c⟩
  | _ => .error "field = [id, nsites, local_dim]"

def parseParticle (j : Json) : Except String ParticleSpec :=
  match j with
  | .arr #[a, b] => do return ⟨← nat a, ← int b⟩
  | _ => .error "particle = [field id, index]"

def parseInts (j : Json) : Except String (List Int) := do (← list j).mapM int

/-- `"ctrl"` or `{particles, g, ref0, tor, bor}` -/
def parseCInstr (j : Json) : Except String (CInstr GQ) :=
  match j with
  | .str "ctrl" => .ok .ctrl
  | _ => do
    let ps ← (← fList j "particles").mapM parseParticle
    let g ← parseG (← field j "g")
    return .gate { particles := ps, g := g, ref0 := ← fInt j "ref0", tor := ← parseInts (← field j "tor"),
                   bor := ← parseInts (← field j "bor") }

def raised (e : CErr) : Json := Json.mkObj [("raised", .str e.toStr)]

def exJ {β : Type} (f : β → Json) : Except TNet.Err β → Json
  | .ok x => f x
  | .error e => exErr e

/-- tensors, bonds and data of a network in dictionary order, flags, and the dense denotation when it has at most
`limit` terms -/
def tnJson (tn : TN GQ) (limit : Nat) : List (String × Json) :=
  let net := tn.net
  let fullJ : Json :=
    if GateNet.valueCost net ≤ limit then exJ dtJson (fullTensor net tn.D) else .null
  -- `to_full_tensor(*contract_einsum())`, the executable path (with its own rejections)
  let einsumJ : Json :=
    if GateNet.valueCost net ≤ limit then
      exJ dtJson (do let (r, am) ← contractEinsum tn; toFullTensor r am)
    else .null
  [("tensors", .arr (net.tensors.map tensorJson).toArray),
   ("bonds", .arr (net.bonds.map bondJson).toArray),
   ("data", .arr (tn.data.map (fun e => Json.arr #[jInt e.1, dtJson e.2])).toArray),
   ("consistent", exJ Json.bool (isConsistent net)),
   ("consistentData", exJ Json.bool (isConsistentData tn)),
   ("numOpen", exJ jNat (numOpenAxes net)),
   ("shape", exJ ofNats (netShape net)),
   ("cost", jNat (GateNet.valueCost net)),
   ("full", fullJ),
   ("einsum", einsumJ)]

/-- `circuit.net {fields, gates, limit}` ↦ `Circuit(gates).as_tensornet()` -/
def opCircuitNet (j : Json) : Except String Json := do
  let fields ← (← fList j "fields").mapM parseField
  let instrs ← (← fList j "gates").mapM parseCInstr
  let limit := (fNat j "limit").toOption.getD 100000
  match circuitNet fields instrs with
  | .error e => return raised e
  | .ok tn => return Json.mkObj (tnJson tn limit)

/-- `sim.tn {fields, gates, tor, bor, limit}` ↦ `TensorNetworkSimulator().run(Circuit(gates))`: the network that is
contracted (always) and the output tensor (when the single-shot contraction has at most `limit` terms) -/
def opSimTn (j : Json) : Except String Json := do
  let fields ← (← fList j "fields").mapM parseField
  let instrs ← (← fList j "gates").mapM parseCInstr
  let tor ← parseInts (← field j "tor")
  let bor ← parseInts (← field j "bor")
  let limit := (fNat j "limit").toOption.getD 100000
  match tnRunNet fields instrs tor bor with
  | .error e => return raised e
  | .ok tn =>
    let base := tnJson tn 0
    if GateNet.valueCost tn.net ≤ limit then
      match tnRun fields instrs tor bor with
      | .error e => return Json.mkObj (base ++ [("psi", raised e)])
      | .ok d => return Json.mkObj (base ++ [("psi", dtJson d)])
    else return Json.mkObj (base ++ [("psi", .null)])

def dispatch : Dispatch := fun op j =>
  match op with
  | "circuit.net" => some (opCircuitNet j)
  | "sim.tn" => some (opSimTn j)
  | _ => none

end Qib.CircuitNet
