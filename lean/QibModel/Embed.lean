/-!
Core B — embedding of a gate into a register, and circuits as lists of placed gates (C04, C05 matrix part).

Mathlib-free, executable. Mirrors

* `qib/operator/gates.py : _distribute_to_wires`   ↦ `distributeToWires` (the *algorithmic mirror*: sparse COO
  entries, bit scatter with shifts, replication over the complementary wires — same loops, same rejections),
* every `Gate.as_circuit_matrix(fields)`            ↦ `gateCircuitMatrix`,
* `qib/util/util.py : map_particle_to_wire`         ↦ `mapParticleToWire`,
* `qib/util/util.py : permute_gate_wires`           ↦ `permuteGateWires`,
* `qib/circuit/circuit.py : Circuit.as_matrix`, `append_gate`, `prepend_gate`, `append_circuit`,
  `prepend_circuit`                                  ↦ `circuitMatrix`, `circuitMatOf`, `Op`, `step`, `run`.

The *reference* the mirror is proved equal to (`QibProofs/Properties/C04.lean`) is `embedEntry`: flat indices,
wire 0 = most significant bit, first listed wire = most significant gate bit.
-/
namespace Qib.Embed

/-- exception classes of the Python code, as far as the modelled functions raise them -/
inductive Err | assertion | runtimeError | notImplemented | valueError | other
  deriving DecidableEq, Repr

def Err.toStr : Err → String
  | .assertion => "Assertion" | .runtimeError => "RuntimeError" | .notImplemented => "NotImplemented"
  | .valueError => "ValueError" | .other => "Other"

/-! ### Sparse matrices in coordinate form -/

/-- `(row, column, value)` triplets; duplicates add up (this is what `csr_matrix((values,(rowind,colind)))` does). -/
abbrev Coo (α : Type) := List (Nat × Nat × α)

/-- the matrix a COO list stands for -/
def denote {α : Type} [Add α] [Zero α] (coo : Coo α) (R C : Nat) : α :=
  ((coo.filter (fun e => e.1 == R && e.2.1 == C)).map (fun e => e.2.2)).sum

/-- `csr_matrix(dense)`: row-major list of the non-zero entries of a dense `d × d` matrix -/
def cooOfDense {α : Type} [Zero α] [DecidableEq α] (d : Nat) (g : Nat → Nat → α) : Coo α :=
  (List.range d).flatMap fun j =>
    (List.range d).filterMap fun c => if g j c = 0 then none else some (j, c, g j c)

/-! ### The algorithmic mirror of `_distribute_to_wires` -/

/-- `r = 0; for b in range(len(pos)): if x & (1 << b): r += (1 << pos[b])` -/
def scatter (pos : List Nat) (x : Nat) : Nat :=
  pos.zipIdx.foldl (fun r pb => if x.testBit pb.2 then r + (1 <<< pb.1) else r) 0

/-- `list(set(range(nwires)).difference(iwire))` (CPython iterates a set of small ints in ascending order;
the order only fixes the order of the replicated blocks, not their content) -/
def complWires (n : Nat) (iw : List Nat) : List Nat :=
  (List.range n).filter fun w => !iw.contains w

/-- `[(nwires - 1 - ws[len(ws) - 1 - b]) for b in range(len(ws))]` -/
def revPos (n : Nat) (ws : List Nat) : List Nat :=
  ws.reverse.map fun w => n - 1 - w

/-- `_distribute_to_wires(nwires, iwire, gmat)` with `gmat` given by its shape and its CSR entries in
row-major order. The three `assert`s of the code are the three rejections. -/
def distributeToWires {α : Type} [Add α] (n : Nat) (iw : List Nat) (grows gcols : Nat) (coo : Coo α) :
    Except Err (Coo α) :=
  let iwcompl := complWires n iw
  if iw.length + iwcompl.length ≠ n then .error .assertion else
  let m := iw.length
  if ¬ m ≤ n then .error .assertion else
  if ¬ (grows = 2 ^ m ∧ gcols = 2 ^ m) then .error .assertion else
  let P := revPos n iw
  let Q := revPos n iwcompl
  -- first block: scatter row and column bits of every stored entry
  let first : Coo α := coo.map fun e => (scatter P e.1, scatter P e.2.1, e.2.2)
  -- copies (Kronecker product with the identity on the complementary wires)
  let rest : Coo α := (List.range' 1 (2 ^ (n - m) - 1)).flatMap fun k =>
    let koffset := scatter Q k
    first.map fun e => (e.1 + koffset, e.2.1 + koffset, e.2.2)
  .ok (first ++ rest)

/-- Wire lists as Python hands them over (`int`s). A negative entry is never in `range(nwires)`, hence the
length assertion of the code fails. -/
def distributeToWiresI {α : Type} [Add α] (n : Nat) (iw : List Int) (grows gcols : Nat) (coo : Coo α) :
    Except Err (Coo α) :=
  if iw.any (· < 0) then
    -- len(iwire) + len(iwcompl) > nwires
    .error .assertion
  else distributeToWires n (iw.map Int.toNat) grows gcols coo

/-! ### The reference: entry `(R, C)` of the embedded gate, flat indices, wire 0 most significant -/

/-- bit of wire `w` in the flat register index `R` of an `n`-wire register -/
def wireBit (n R w : Nat) : Bool := R.testBit (n - 1 - w)

/-- gate index read off the wires `iw` of `R`; first listed wire = most significant gate bit -/
def gateIdx (n : Nat) (iw : List Nat) (R : Nat) : Nat :=
  iw.foldl (fun a w => 2 * a + (wireBit n R w).toNat) 0

/-- `R` and `C` carry the same bits on every wire not in `iw` -/
def agreeOff (n : Nat) (iw : List Nat) (R C : Nat) : Bool :=
  (List.range n).all fun w => iw.contains w || wireBit n R w == wireBit n C w

/-- `g` acting on the wires `iw`, identity on all other wires -/
def embedEntry {α : Type} [Zero α] (n : Nat) (iw : List Nat) (g : Nat → Nat → α) (R C : Nat) : α :=
  if agreeOff n iw R C then g (gateIdx n iw R) (gateIdx n iw C) else 0

/-! ### Particles, fields, wires -/

/-- what `as_circuit_matrix` looks at in a `Field`: identity of the object, `lattice.nsites`, `local_dim` -/
structure FieldSpec where
  id : Nat
  nsites : Nat
  localDim : Nat
  deriving Repr

/-- a particle: the id of its field object and its (unchecked) index -/
structure ParticleSpec where
  field : Nat
  index : Int
  deriving Repr

def mapParticleToWireGo (pf : Nat) (pidx : Int) : Int → List FieldSpec → Int
  | _, [] => -1
  | i, f :: fs => if pf == f.id then i + pidx else mapParticleToWireGo pf pidx (i + f.nsites) fs

/-- `map_particle_to_wire(fields, p)`: `i = 0; for f in fields: if p.field == f: return i + p.index; i += nsites` ;
`-1` if the field is not listed. -/
def mapParticleToWire (fields : List FieldSpec) (p : ParticleSpec) : Int :=
  mapParticleToWireGo p.field p.index 0 fields

def numWires (fields : List FieldSpec) : Nat := (fields.map (·.nsites)).foldl (· + ·) 0

/-- the body shared by every `as_circuit_matrix(fields)`: local-dimension check, bound particles, wire lookup,
`_distribute_to_wires(nwires, iwire, csr_matrix(self.as_matrix()))`. -/
def gateCircuitMatrix {α : Type} [Add α] [Zero α] [DecidableEq α] (fields : List FieldSpec)
    (particles : List ParticleSpec) (gdim : Nat) (g : Nat → Nat → α) : Except Err (Nat × Coo α) :=
  if fields.any (fun f => f.localDim != 2) then .error .notImplemented else
  if particles.isEmpty then .error .runtimeError else
  let iwire := particles.map (mapParticleToWire fields)
  if iwire.any (· < 0) then .error .runtimeError else
  let n := numWires fields
  match distributeToWiresI n iwire gdim gdim (cooOfDense gdim g) with
  | .error e => .error e
  | .ok coo => .ok (n, coo)

/-! ### `permute_gate_wires` -/

/-- `reshape(u, (2,)*nw)` index of a flat index: most significant bit first -/
def digits (nw R : Nat) : List Bool := (List.range nw).map (wireBit nw R)

/-- inverse of `digits` (`reshape` back) -/
def undigits (bs : List Bool) : Nat := bs.foldl (fun a b => 2 * a + b.toNat) 0

def isPermOfRange (nw : Nat) (perm : List Nat) : Bool :=
  perm.length == nw && (List.range nw).all perm.contains

/-- `np.transpose(t, axes)[i] = t[x]` with `x[axes[a]] = i[a]`: the source index of a flat row (or column) index -/
def permSrcIdx (nw : Nat) (perm : List Nat) (R : Nat) : Nat :=
  undigits ((List.range nw).map fun k => wireBit nw R (perm.idxOf k))

/-- `permute_gate_wires(u, perm)`: reshape to `2nw` axes, `transpose(perm + [nw + p for p in perm])`, reshape back.
`urows × ucols` is the shape of `u`. -/
def permuteGateWires {α : Type} (perm : List Nat) (urows ucols : Nat) (u : Nat → Nat → α) :
    Except Err (Nat → Nat → α) :=
  let nw := perm.length
  if ¬ (urows = 2 ^ nw ∧ ucols = 2 ^ nw) then .error .assertion else
  if ¬ isPermOfRange nw perm then .error .valueError else   -- numpy: repeated axis / axis out of bounds
  .ok fun R C => u (permSrcIdx nw perm R) (permSrcIdx nw perm C)

/-! ### Dense matrices (strictly tabulated) -/

abbrev DMat (α : Type) (N : Nat) := Vector (Vector α N) N

namespace DMat
variable {α : Type} {N : Nat}

def ofFn (f : Fin N → Fin N → α) : DMat α N := Vector.ofFn fun i => Vector.ofFn fun j => f i j

def tab (f : Nat → Nat → α) : DMat α N := ofFn fun i j => f i.1 j.1

def get (A : DMat α N) (i j : Fin N) : α := A[i.1][j.1]

def mul [Add α] [Zero α] [Mul α] (A B : DMat α N) : DMat α N :=
  ofFn fun i j => (List.ofFn fun k : Fin N => A.get i k * B.get k j).sum

def toLists (A : DMat α N) : List (List α) := A.toList.map (·.toList)

end DMat

/-! ### Circuits -/

/-- `mat = first; for gate in rest: mat = gate @ mat` — the loop of `Circuit.as_matrix` on the list of gate matrices -/
def circuitMatOf {M : Type} (mul : M → M → M) : List M → Option M
  | [] => none
  | g :: gs => some (gs.foldl (fun acc h => mul h acc) g)

/-- an entry of `Circuit.gates`: a gate bound to particles with its matrix, or a control instruction -/
inductive Instr (α : Type)
  | gate (particles : List ParticleSpec) (gdim : Nat) (g : Nat → Nat → α)
  | ctrl

/-- `gate.as_circuit_matrix(fields)` as a dense `2^n × 2^n` matrix, `n = numWires fields` -/
def placedMat {α : Type} [Add α] [Zero α] [DecidableEq α] (fields : List FieldSpec)
    (particles : List ParticleSpec) (gdim : Nat) (g : Nat → Nat → α) :
    Except Err (DMat α (2 ^ numWires fields)) :=
  match gateCircuitMatrix fields particles gdim g with
  | .error e => .error e
  | .ok (_, coo) => .ok (DMat.tab (denote coo))

/-- the loop body of `Circuit.as_matrix`: control instructions are skipped -/
def circuitMatrixStep {α : Type} [Add α] [Zero α] [Mul α] [DecidableEq α] (fields : List FieldSpec)
    (acc : Option (DMat α (2 ^ numWires fields))) : Instr α → Except Err (Option (DMat α (2 ^ numWires fields)))
  | .ctrl => .ok acc
  | .gate ps d g =>
    match placedMat fields ps d g with
    | .error e => .error e
    | .ok M => .ok (some (match acc with | none => M | some A => M.mul A))

def circuitMatrixLoop {α : Type} [Add α] [Zero α] [Mul α] [DecidableEq α] (fields : List FieldSpec) :
    Option (DMat α (2 ^ numWires fields)) → List (Instr α) → Except Err (Option (DMat α (2 ^ numWires fields)))
  | acc, [] => .ok acc
  | acc, i :: is =>
    match circuitMatrixStep fields acc i with
    | .error e => .error e
    | .ok acc' => circuitMatrixLoop fields acc' is

/-- `Circuit.as_matrix(fields)`: `RuntimeError` for an empty gate list; a list of control instructions only
leaves `mat` unbound (`UnboundLocalError` ↦ `other`). -/
def circuitMatrix {α : Type} [Add α] [Zero α] [Mul α] [DecidableEq α] (fields : List FieldSpec)
    (instrs : List (Instr α)) : Except Err (DMat α (2 ^ numWires fields)) :=
  if instrs.isEmpty then .error .runtimeError else
  match circuitMatrixLoop fields none instrs with
  | .error e => .error e
  | .ok none => .error .other
  | .ok (some M) => .ok M

/-! ### `StatevectorSimulator.run` (statevector_simulator.py:14-26) -/

/-- matrix–vector product `A @ v` -/
def DMat.mulVec {α : Type} {N : Nat} [Add α] [Zero α] [Mul α] (A : DMat α N) (v : Vector α N) : Vector α N :=
  Vector.ofFn fun i => (List.ofFn fun k : Fin N => A.get i k * v[k.1]).sum

/-- `psi = np.zeros(dim); psi[0] = 1` -/
def basis0 {α : Type} [Zero α] [One α] (N : Nat) : Vector α N := Vector.ofFn fun i => if i.1 = 0 then 1 else 0

/-- `for g in circ.gates: psi = g.as_circuit_matrix(fields) @ psi` – control instructions are NOT skipped here: they have no
`as_circuit_matrix` (`AttributeError` ↦ `other`) -/
def svLoop {α : Type} [Add α] [Zero α] [Mul α] [DecidableEq α] (fields : List FieldSpec) :
    Vector α (2 ^ numWires fields) → List (Instr α) → Except Err (Vector α (2 ^ numWires fields))
  | psi, [] => .ok psi
  | _, .ctrl :: _ => .error .other
  | psi, .gate ps d g :: is =>
    match placedMat fields ps d g with
    | .error e => .error e
    | .ok M => svLoop fields (M.mulVec psi) is

/-- `StatevectorSimulator().run(circ)` with `fields = circ.fields()`: the image of `|0…0⟩` -/
def svRun {α : Type} [Add α] [Zero α] [One α] [Mul α] [DecidableEq α] (fields : List FieldSpec)
    (instrs : List (Instr α)) : Except Err (Vector α (2 ^ numWires fields)) :=
  svLoop fields (basis0 _) instrs

/-! ### `Circuit.inverse` (circuit.py:78-82): `for gate in reversed(self.gates): circ.append_gate(gate.inverse())` -/

/-- the inverse circuit: the reversed list of the gates' inverses. `inv` is the per-gate `inverse()`
(a control instruction has none: the code calls `.inverse()` on it and raises `AttributeError`). -/
def circuitInverse {G : Type} (inv : G → G) (c : List G) : List G := c.reverse.map inv

/-! ### Builder histories: the caller keeps handles to gate objects and may mutate them at any time -/

/-- one call of the builder API, or a mutation of one of the caller's gate objects.
`G` is the *value* of a gate object (particles, matrix). Handles index the caller's objects. -/
inductive Op (G : Type)
  | append (h : Nat)                 -- circuit.append_gate(obj[h])
  | prepend (h : Nat)                -- circuit.prepend_gate(obj[h])
  | appendCircuit (hs : List Nat)    -- circuit.append_circuit(Circuit([obj[h] for h in hs]))
  | prependCircuit (hs : List Nat)   -- circuit.prepend_circuit(Circuit([obj[h] for h in hs]))
  | mutate (h : Nat) (v : G)         -- the caller changes obj[h] in place; its value is now v

/-- caller's objects (by handle) and the circuit's gate list. The circuit stores *values*: `copy(gate)`. -/
structure BState (G : Type) where
  objs : List G
  circ : List G

def lookup {G : Type} (objs : List G) (hs : List Nat) : List G := hs.filterMap (objs[·]?)

def step {G : Type} (s : BState G) : Op G → BState G
  | .append h => { s with circ := s.circ ++ lookup s.objs [h] }
  | .prepend h => { s with circ := lookup s.objs [h] ++ s.circ }
  | .appendCircuit hs => { s with circ := s.circ ++ lookup s.objs hs }
  | .prependCircuit hs => { s with circ := lookup s.objs hs ++ s.circ }
  | .mutate h v => { s with objs := s.objs.set h v }

def run {G : Type} (objs : List G) (ops : List (Op G)) : BState G :=
  ops.foldl step { objs := objs, circ := [] }

/-- the circuit after every op of a history -/
def runTrace {G : Type} (s : BState G) : List (Op G) → List (List G)
  | [] => []
  | o :: os => (step s o).circ :: runTrace (step s o) os

end Qib.Embed
