import QibModel.DriverMain
import QibModel.GateOps
def main : IO Unit := Qib.driverMain Qib.Gate.dispatch
