import QibModel.Backend
/-!
Schedules: several `wait_for_results()` coroutines on ONE experiment, interleaved with each other and with plain
`query_status()` / `results()` calls (`backend/wmi/wmi_experiment.py:71-81`).

`wait_for_results` suspends only in `await asyncio.sleep(...)` inside its polling loop, so between two suspension points its code
runs atomically on the event loop: one scheduler step of a coroutine is "from the resume point to the next `await` or to the return".
`query_status()` and `results()` do not suspend (the latter blocks in `time.sleep`), they are atomic steps as in `stepCall`.
A schedule is any list of actions `spawn` (create a coroutine and run it to its first suspension), `resume i` (let the sleeping
coroutine `i` continue) and `call c`.
-/
namespace Qib.Backend
open QibGen

/-- a `wait_for_results()` coroutine seen from the event loop -/
inductive WState where
  | sleeping                     -- suspended in `await asyncio.sleep(query_frequency)`
  | finished (o : CallOut)       -- returned (`CallOut.res`) or raised
  deriving DecidableEq, Repr

/-- from the head of `while not self.query_status().is_terminal():` to the next suspension, or through the tail
`if self.status is DONE: return self._results; return None` -/
def waitLoopStep (maxR : Nat) (w : World) : WState × World :=
  match queryStatus maxR w with
  | (.ret st, w') =>
    if Status.isTerminal st then (.finished (.res (if w'.exp.status = .DONE then w'.exp.results else none)), w')
    else (.sleeping, w')
  | (.raised e, w') => (.finished (.raised e), w')
  | (.none, w') => (.finished .none, w')

/-- first activation of the coroutine: the cached-results shortcut, then the loop -/
def waitStart (maxR : Nat) (w : World) : WState × World :=
  if w.exp.results.isSome ∧ w.exp.status = .DONE then (.finished (.res w.exp.results), w) else waitLoopStep maxR w

inductive Act where
  | spawn | resume (i : Nat) | call (c : Call)
  deriving DecidableEq, Repr

inductive ActOut where
  | waiter (s : WState) | out (o : CallOut) | invalid      -- `invalid`: resuming a coroutine that is not sleeping (no effect)
  deriving DecidableEq, Repr

structure Sys where
  world : World
  waiters : List WState
  deriving Repr

def stepAct (maxR : Nat) (s : Sys) : Act → ActOut × Sys
  | .spawn =>
    let (ws, w') := waitStart maxR s.world
    (.waiter ws, { world := w', waiters := s.waiters ++ [ws] })
  | .resume i =>
    match s.waiters[i]? with
    | some .sleeping =>
      let (ws, w') := waitLoopStep maxR s.world
      (.waiter ws, { world := w', waiters := s.waiters.set i ws })
    | _ => (.invalid, s)
  | .call c =>
    let (o, w') := stepCall maxR s.world c
    (.out o, { s with world := w' })

/-- run a schedule; after every action: its output, the status and the number of low-level requests made so far -/
def runSched (maxR : Nat) : Sys → List Act → List (ActOut × Status × Nat)
  | _, [] => []
  | s, a :: as =>
    let (o, s') := stepAct maxR s a
    (o, s'.world.exp.status, s'.world.requests) :: runSched maxR s' as

/-- the system after a schedule -/
def afterSched (maxR : Nat) : Sys → List Act → Sys
  | s, [] => s
  | s, a :: as => afterSched maxR (stepAct maxR s a).2 as

/-- a coroutine driven alone: resumed until it finishes (fuel = number of resumptions allowed) -/
def waitAlone (maxR : Nat) : Nat → WState × World → WState × World
  | 0, p => p
  | fuel + 1, (.sleeping, w) => waitAlone maxR fuel (waitLoopStep maxR w)
  | _ + 1, (.finished o, w) => (.finished o, w)

end Qib.Backend
