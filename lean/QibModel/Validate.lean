import QibGen.WmiConfig
import QibModel.Backend
/-!
Model of experiment validation, Qobj assembly and count-key conversion of the WMI backends (C18).

* `validate`  — `WMIExperiment._validate` (`backend/wmi/wmi_experiment.py:153-198`) with
  `GateProperties.check_qubits/check_params` and `ProcessorConfiguration.get_gate_by_name`
  (`backend/processor_configuration.py:47-90`): shots, then one pass over the instructions in order
  (measure exempt; basis gate, gate properties present, qubit tuple, parameter count, coupling of *all*
  pairs when the coupling map is non-empty), then the range check over the particles of *all* instructions.
* `Valid`     — the specification: the conjunction stated in property C18 (decidable).
* `qobj`      — `WMIExperiment.as_qasm` (`wmi_experiment.py:87-133`) with `Circuit.particles/clbits/as_qasm`
  (`circuit/circuit.py:59-76,145-152`).
* `hexToBin`  — the key conversion of `WMIExperimentResults.get_counts(binary=True)` (`wmi_experiment.py:236-241`).

An instruction is what `gate.as_qasm()` reports: name, qubit indices, parameters (kept as opaque exact
tokens; only their number matters for validation), and the memory slots of a measure instruction.
Particles are identified with their index (all qubits of a circuit live in one field).
The two shipped configurations are *generated* from the source (`QibGen.WmiConfig`).
-/
namespace Qib.Wmi
open Qib.Backend (Outcome PyRes World)

/-! ### Instructions and processor configurations -/

structure Instr where
  name : String
  qubits : List Int
  params : List String := []
  /-- `gate.memory()` if `type(gate) is MeasureInstruction`, otherwise `[]` -/
  clbits : List Int := []
  deriving DecidableEq, Repr

/-- the validation loop exempts exactly the instructions whose Qobj name is `measure` -/
def Instr.isMeasure (i : Instr) : Bool := i.name == "measure"

structure GateProps where
  name : String
  /-- the configured qubit tuples -/
  qubits : List (List Int)
  /-- `len(parameters)` -/
  nparams : Nat
  deriving DecidableEq, Repr

structure ProcConfig where
  basisGates : List String
  gates : List GateProps
  couplingMap : List (List Int)
  nQubits : Nat
  maxShots : Nat
  deriving DecidableEq, Repr

/-- `get_gate_by_name`: the first gate-properties entry with that name -/
def ProcConfig.findGate (cfg : ProcConfig) (name : String) : Option GateProps :=
  cfg.gates.find? (fun g => g.name == name)

def mkGates (l : List (String × List (List Int) × Nat)) : List GateProps :=
  l.map fun (n, q, p) => ⟨n, q, p⟩

/-- `WMIQSimProcessor.configuration()` (generated tables) -/
def qsimConfig : ProcConfig :=
  { basisGates := QibGen.wmiqsimBasisGates, gates := mkGates QibGen.wmiqsimGates,
    couplingMap := QibGen.wmiqsimCouplingMap, nQubits := QibGen.wmiqsimNQubits, maxShots := QibGen.wmiqsimMaxShots }

/-- `WMIQCProcessor.configuration()` (generated tables) -/
def qcConfig : ProcConfig :=
  { basisGates := QibGen.wmiqcBasisGates, gates := mkGates QibGen.wmiqcGates,
    couplingMap := QibGen.wmiqcCouplingMap, nQubits := QibGen.wmiqcNQubits, maxShots := QibGen.wmiqcMaxShots }

/-! ### Small list utilities (Python semantics) -/

/-- `itertools.combinations(l, 2)` in its order -/
def pairs : List Int → List (Int × Int)
  | [] => []
  | x :: xs => xs.map (fun y => (x, y)) ++ pairs xs

def insertSorted (x : Int) : List Int → List Int
  | [] => [x]
  | y :: ys => if x < y then x :: y :: ys else if x = y then y :: ys else y :: insertSorted x ys

/-- `sorted(set(l))` -/
def sortDedup (l : List Int) : List Int := l.foldr insertSorted []

def minOf (x : Int) : List Int → Int
  | [] => x
  | y :: ys => minOf (min x y) ys

def maxOf (x : Int) : List Int → Int
  | [] => x
  | y :: ys => maxOf (max x y) ys

/-- `min(l, default=d)` -/
def minD (l : List Int) (d : Int) : Int := match l with | [] => d | x :: xs => minOf x xs
/-- `max(l, default=d)` -/
def maxD (l : List Int) (d : Int) : Int := match l with | [] => d | x :: xs => maxOf x xs

/-- indices of `circuit.particles()`: all particles of all instructions, as a set, sorted by index -/
def particles (instrs : List Instr) : List Int := sortDedup (instrs.flatMap (·.qubits))

/-- `circuit.clbits()` -/
def clbitsOf (instrs : List Instr) : List Int := sortDedup (instrs.flatMap (·.clbits))

/-! ### `_validate` -/

inductive Err where
  | shots          -- "Number of shots exceeds maximum allowed number of shots."
  | unsupported    -- "... is not supported by the processor."
  | unconfigured   -- "... is not configured by the processor."
  | qubitTuple     -- "... is not configured for the used qubits."
  | paramCount     -- "... is not configured for the used parameters."
  | coupling       -- "... is not performed on coupled qubits."
  | range          -- "Number of qubits exceeds maximum allowed number of qubits, or indexes are incorrect."
  deriving DecidableEq, Repr

instance : DecidableEq (Except Err Unit) := fun a b =>
  match a, b with
  | .ok (), .ok () => isTrue rfl
  | .error e, .error f => if h : e = f then isTrue (by rw [h]) else isFalse (by intro h'; cases h'; exact h rfl)
  | .ok _, .error _ => isFalse (by intro h; cases h)
  | .error _, .ok _ => isFalse (by intro h; cases h)

/-- body of the `for gate in self.circuit.gates` loop -/
def checkInstr (cfg : ProcConfig) (i : Instr) : Except Err Unit :=
  if i.name == "measure" then .ok ()
  else if !cfg.basisGates.contains i.name then .error .unsupported
  else match cfg.findGate i.name with
    | none => .error .unconfigured
    | some gp =>
      if !gp.qubits.contains i.qubits then .error .qubitTuple
      else if i.params.length != gp.nparams then .error .paramCount
      else if i.qubits.length > 1 && !cfg.couplingMap.isEmpty then
        if (pairs i.qubits).all (fun p => cfg.couplingMap.contains [p.1, p.2]) then .ok () else .error .coupling
      else .ok ()

def validateLoop (cfg : ProcConfig) : List Instr → Except Err Unit
  | [] => .ok ()
  | i :: is =>
    match checkInstr cfg i with
    | .error e => .error e
    | .ok () => validateLoop cfg is

/-- the final "number of qubits is adequate" check over `circuit.particles()` -/
def rangeCheck (cfg : ProcConfig) (instrs : List Instr) : Except Err Unit :=
  let ps := particles instrs
  if ps.length > cfg.nQubits || minD ps 0 < 0 || maxD ps 0 ≥ (cfg.nQubits : Int) then .error .range else .ok ()

def validate (cfg : ProcConfig) (shots : Int) (instrs : List Instr) : Except Err Unit :=
  if shots > (cfg.maxShots : Int) then .error .shots
  else match validateLoop cfg instrs with
    | .error e => .error e
    | .ok () => rangeCheck cfg instrs

/-! ### Specification: what property C18 says an acceptable experiment is -/

/-- the gate is used on a configured qubit tuple, with the configured number of parameters, and — when the
processor has a coupling map — every pair of its qubits is coupled -/
def GateOK (cfg : ProcConfig) (i : Instr) (gp : GateProps) : Prop :=
  i.qubits ∈ gp.qubits ∧ i.params.length = gp.nparams ∧
  (cfg.couplingMap ≠ [] → ∀ p ∈ pairs i.qubits, [p.1, p.2] ∈ cfg.couplingMap)

instance (cfg : ProcConfig) (i : Instr) (gp : GateProps) : Decidable (GateOK cfg i gp) := by
  unfold GateOK; infer_instance

/-- a measurement, or a basis gate with gate properties that fit -/
def InstrOK (cfg : ProcConfig) (i : Instr) : Prop :=
  i.name = "measure" ∨
  (i.name ∈ cfg.basisGates ∧ ∃ gp, cfg.findGate i.name = some gp ∧ GateOK cfg i gp)

instance decExSome {α : Type} (o : Option α) (P : α → Prop) [DecidablePred P] :
    Decidable (∃ a, o = some a ∧ P a) :=
  match o with
  | none => isFalse (by simp)
  | some a => if h : P a then isTrue ⟨a, rfl, h⟩ else isFalse (by simpa using h)

instance (cfg : ProcConfig) (i : Instr) : Decidable (InstrOK cfg i) := by
  unfold InstrOK; infer_instance

/-- **Valid**: shots within the limit, *every* instruction acceptable, *every* addressed qubit index
(of gates and of measure instructions alike) inside the processor. -/
def Valid (cfg : ProcConfig) (shots : Int) (instrs : List Instr) : Prop :=
  shots ≤ (cfg.maxShots : Int) ∧
  (∀ i ∈ instrs, InstrOK cfg i) ∧
  (∀ i ∈ instrs, ∀ q ∈ i.qubits, 0 ≤ q ∧ q < (cfg.nQubits : Int))

instance (cfg : ProcConfig) (shots : Int) (instrs : List Instr) : Decidable (Valid cfg shots instrs) := by
  unfold Valid; infer_instance

/-! ### `submit_experiment` = validate, then send -/

/-- `submit_experiment`: construct the experiment (validation raises `ValueError`), and only then hand the
Qobj to the transport (`Backend.submit`, the retry loop of C17 driven by a scripted outcome list). -/
def submitExperiment (cfg : ProcConfig) (shots : Int) (instrs : List Instr) (maxR : Nat) (os : List Outcome) :
    Except Err (PyRes Unit) × World :=
  match validate cfg shots instrs with
  | .error e => (.error e, { exp := { status := .ERROR, results := none }, outcomes := os, requests := 0 })
  | .ok () => let (r, w) := Backend.submit maxR os; (.ok r, w)

/-! ### Qobj -/

/-- one entry of `experiments[0].instructions` -/
structure QInstr where
  name : String
  qubits : List Int
  params : List String
  memory : List Int
  deriving DecidableEq, Repr

structure Qobj where
  /-- `header.qubit_labels.qubits = [['q', i], ...]` -/
  qubitLabels : List Int
  /-- `experiments[0].header.n_qubits` -/
  nQubitsHeader : Nat
  /-- `experiments[0].header.qreg_sizes.q` -/
  qregSize : Nat
  /-- `experiments[0].config.n_qubits` -/
  nQubitsExpConfig : Nat
  /-- `config.n_qubits` -/
  nQubitsConfig : Nat
  /-- `header.clbit_labels.clbits = [['c', i], ...]` -/
  clbitLabels : List Int
  memorySlotsHeader : Nat
  cregSize : Nat
  memorySlotsExpConfig : Nat
  memorySlotsConfig : Nat
  instructions : List QInstr
  shots : Int
  deriving DecidableEq, Repr

def Instr.toQ (i : Instr) : QInstr := ⟨i.name, i.qubits, i.params, i.clbits⟩

def qobj (shots : Int) (instrs : List Instr) : Qobj :=
  let qs := particles instrs
  let cs := clbitsOf instrs
  { qubitLabels := qs, nQubitsHeader := qs.length, qregSize := qs.length,
    nQubitsExpConfig := qs.length, nQubitsConfig := qs.length,
    clbitLabels := cs, memorySlotsHeader := cs.length, cregSize := cs.length,
    memorySlotsExpConfig := cs.length, memorySlotsConfig := cs.length,
    instructions := instrs.map Instr.toQ, shots := shots }

/-! ### Names of controlled gates (`ControlledGate.as_qasm`, `operator/gates.py:2099-2165`) -/

/-- singly controlled targets with a Qobj name (the `cu3` branch reads attributes a `RotationGate` does not
have and is outside the model) -/
def ctrl1Names : List (String × String) :=
  [("x", "cx"), ("y", "cy"), ("z", "cz"), ("h", "ch"), ("rx", "crx"), ("ry", "cry"), ("rz", "crz"), ("s", "cs"), ("sdg", "csdg")]

/-- the name `as_qasm` reports for a controlled gate: it looks at the number of controls and at the type of
the target, and *not* at the control state; `none` = `NotImplementedError` -/
def ctrlQasmName (target : String) (ctrlState : List Bool) : Option String :=
  match ctrlState.length with
  | 1 => ctrl1Names.lookup target
  | 2 => if target == "x" then some "ccx" else none
  | _ => none

/-- what a controlled-gate name of the Qobj instruction set means: the target acts iff every control is |1> -/
def nameCtrlState (name : String) : Option (List Bool) :=
  if name == "ccx" then some [true, true]
  else if (ctrl1Names.map (·.2)).contains name then some [true]
  else none

/-! ### Count keys: hexadecimal → zero-padded binary -/

def hexDigit (c : Char) : Option Nat :=
  if '0' ≤ c ∧ c ≤ '9' then some (c.toNat - '0'.toNat)
  else if 'a' ≤ c ∧ c ≤ 'f' then some (c.toNat - 'a'.toNat + 10)
  else if 'A' ≤ c ∧ c ≤ 'F' then some (c.toNat - 'A'.toNat + 10)
  else none

def hexFold (acc : Nat) : List Char → Option Nat
  | [] => some acc
  | c :: cs => match hexDigit c with
    | none => none
    | some d => hexFold (16 * acc + d) cs

/-- `int(key, 16)` on the domain "optional `0x`/`0X`, then at least one hexadecimal digit"
(signs, underscores and surrounding blanks, which Python also accepts, are outside the model) -/
def parseHex (key : List Char) : Option Nat :=
  match key with
  | '0' :: 'x' :: d :: ds => hexFold 0 (d :: ds)
  | '0' :: 'X' :: d :: ds => hexFold 0 (d :: ds)
  | d :: ds => hexFold 0 (d :: ds)
  | [] => none

/-- binary digits, most significant first; `[]` for 0 -/
def binDigits : Nat → List Char
  | 0 => []
  | n + 1 => binDigits ((n + 1) / 2) ++ [if (n + 1) % 2 = 1 then '1' else '0']

/-- `bin(v).split('b')[1]` -/
def toBin (v : Nat) : List Char := if v = 0 then ['0'] else binDigits v

/-- `s.zfill(n)` for an unsigned digit string -/
def zfill (n : Nat) (s : List Char) : List Char := List.replicate (n - s.length) '0' ++ s

/-- the string read as a base-2 numeral -/
def binVal (s : List Char) : Nat := s.foldl (fun a c => 2 * a + (if c = '1' then 1 else 0)) 0

def hexToBin (n : Nat) (key : List Char) : Option (List Char) :=
  match parseHex key with
  | none => none
  | some v => some (zfill n (toBin v))

/-- Python dict insertion: overwrite the value of an existing key in place, otherwise append -/
def dictInsert (d : List (List Char × Int)) (k : List Char) (v : Int) : List (List Char × Int) :=
  match d with
  | [] => [(k, v)]
  | (k', v') :: rest => if k' = k then (k', v) :: rest else (k', v') :: dictInsert rest k v

/-- `get_counts(binary=True)`: the dict comprehension over `self._counts.items()`;
`none` = `int(key, 16)` raised -/
def countsStep (n : Nat) (acc : Option (List (List Char × Int))) (kv : List Char × Int) :
    Option (List (List Char × Int)) :=
  match acc, hexToBin n kv.1 with
  | some d, some b => some (dictInsert d b kv.2)
  | _, _ => none

def countsBinary (n : Nat) (kvs : List (List Char × Int)) : Option (List (List Char × Int)) :=
  kvs.foldl (countsStep n) (some [])

end Qib.Wmi
