import Lean.Data.Json
/-! Small JSON helpers shared by the driver ops (core Lean only). -/
open Lean
namespace Qib.J

def err {α} (msg : String) : Except String α := .error msg

def field (j : Json) (k : String) : Except String Json :=
  match j.getObjVal? k with
  | .ok v => .ok v
  | .error _ => .error s!"missing field {k}"

def str (j : Json) : Except String String :=
  match j with | .str s => .ok s | _ => .error "expected string"

def nat (j : Json) : Except String Nat :=
  match j.getNat? with | .ok n => .ok n | .error _ => .error "expected nat"

def int (j : Json) : Except String Int :=
  match j.getInt? with | .ok n => .ok n | .error _ => .error "expected int"

def bool (j : Json) : Except String Bool :=
  match j with | .bool b => .ok b | _ => .error "expected bool"

def arr (j : Json) : Except String (Array Json) :=
  match j with | .arr a => .ok a | _ => .error "expected array"

def list (j : Json) : Except String (List Json) := do return (← arr j).toList

def listOf {α} (f : Json → Except String α) (j : Json) : Except String (List α) := do
  (← list j).mapM f

def fStr (j : Json) (k : String) : Except String String := do str (← field j k)
def fNat (j : Json) (k : String) : Except String Nat := do nat (← field j k)
def fInt (j : Json) (k : String) : Except String Int := do int (← field j k)
def fBool (j : Json) (k : String) : Except String Bool := do bool (← field j k)
def fList (j : Json) (k : String) : Except String (List Json) := do list (← field j k)

def ofNats (l : List Nat) : Json := .arr (l.map (fun n => Json.num (JsonNumber.fromNat n))).toArray
def ofInts (l : List Int) : Json := .arr (l.map (fun n => Json.num (JsonNumber.fromInt n))).toArray
def ofStrs (l : List String) : Json := .arr (l.map Json.str).toArray

end Qib.J
