import QibModel.DriverMain
import QibModel.PauliOps
open Lean Qib

def pauliDispatch : Dispatch := fun op j =>
  match op with
  | "ps.mul" => some (Pauli.opMul j)
  | "ps.commutes" => some (Pauli.opCommutes j)
  | "ps.herm" => some (Pauli.opHerm j)
  | "wps.flags" => some (Pauli.opWpsFlags j)
  | "ps.str" => some (Pauli.opStr j)
  | "ps.parse" => some (Pauli.opParse j)
  | "ps.refactor" => some (Pauli.opRefactor j)
  | "ps.mat" => some (Pauli.opMat j)
  | "ps.entries" => some (Pauli.opEntries j)
  | "ps.ctor" => some (Pauli.opCtor j)
  | "ps.single" => some (Pauli.opSingle j)
  | "ps.setpauli" => some (Pauli.opSetPauli j)
  | "pop.history" => some (Pauli.opHistory j)
  | _ => none

def main : IO Unit := driverMain pauliDispatch
