import QibModel.BackendSched
import QibModel.BackendOps
/-! Driver op `exp.schedule` (C17, schedules): submit, then a list of actions `"spawn"`, `["resume", i]`, `"query"`, `"results"`. -/
open Lean
namespace Qib.Backend
open Qib.J QibGen

def parseAct (j : Json) : Except String Act :=
  match j with
  | .str "spawn" => .ok .spawn
  | .str "query" => .ok (.call .query)
  | .str "results" => .ok (.call .results)
  | .arr #[.str "resume", i] => do return .resume (← nat i)
  | _ => .error "bad action"

def actOutJson : ActOut → Json
  | .waiter .sleeping => Json.str "sleeping"
  | .waiter (.finished o) => callOutJson o
  | .out o => callOutJson o
  | .invalid => Json.str "invalid"

def opExpSchedule (j : Json) : Except String Json := do
  let os ← (← fList j "outcomes").mapM parseOutcome
  let acts ← (← fList j "schedule").mapM parseAct
  let (sr, w) := submit nwMaxRetries os
  let sj : Json := match sr with
    | .ret () => Json.str "ok"
    | .raised e => Json.arr #[.str "raised", .str (Err.toStr e)]
    | .none => Json.str "none"
  let outs := match sr with
    | .ret () => runSched nwMaxRetries { world := w, waiters := [] } acts
    | _ => []
  let cj := outs.map fun (o, st, rq) =>
    Json.mkObj [("out", actOutJson o), ("status", .str (Status.toStr st)), ("requests", Json.num (JsonNumber.fromNat rq))]
  return Json.mkObj [("submit", sj), ("status", .str (Status.toStr w.exp.status)),
    ("requests", Json.num (JsonNumber.fromNat w.requests)), ("steps", Json.arr cj.toArray)]

end Qib.Backend
