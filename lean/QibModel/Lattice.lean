/-!
Core E – lattices (C14). Mathlib-free, executable model of the index arithmetic performed by
`src/qib/lattice/*.py` (state of the code *after* the two `fix:` commits 88129b6 and da8956d).

* `sprod / ravel / unravel` : `math.prod`, `np.ravel_multi_index`, `np.unravel_index` (C order).
* `rollPair`                : one pair `(i, j)` of `zip(idx_cut.reshape(-1), ids_cut.reshape(-1))` where
                              `ids = np.roll(idx, s, axis=d)` and the axis is singled out as
                              `(prod shape[:d], shape[d], prod shape[d+1:])`.
* per lattice class: `nsites`, `adj`, `i2c`, `c2i`, constructor checks (`mk…`), mirroring the rejections.

Coordinates are exchanged in an exact integer encoding: integer-like classes use the coordinate itself,
the odd-face-centred lattice doubled coordinates (`(x+½, y+½) ↦ [2x+1, 2y+1]`), the hexagonal lattice
`[row, 2·y]` (COLS_SHIFTED_UP, `x = row·√3/2`) resp. `[2·x, col]` (ROWS_SHIFTED_LEFT, `y = col·√3/2`).
-/
namespace Qib.Lattice

inductive Err | valueError | assertion | notImplemented | other
  deriving DecidableEq, Repr

/-! ### mixed radix (numpy C order) -/

/-- `math.prod(shape)` -/
def sprod : List Nat → Nat
  | [] => 1
  | n :: ns => n * sprod ns

/-- `np.ravel_multi_index(c, shape)` for in-range coordinates -/
def ravel : List Nat → List Nat → Nat
  | _ :: ns, c :: cs => c * sprod ns + ravel ns cs
  | _, _ => 0

/-- `np.unravel_index(i, shape)` for `i < prod shape` -/
def unravel : List Nat → Nat → List Nat
  | [], _ => []
  | _ :: ns, i => i / sprod ns :: unravel ns (i % sprod ns)

/-- coordinates inside the box `shape` -/
def validCoord : List Nat → List Nat → Bool
  | [], [] => true
  | n :: ns, c :: cs => decide (c < n) && validCoord ns cs
  | _, _ => false

/-! ### `np.roll` pairing with boundary cut -/

/-- `np.roll(idx, s, axis)`: position `k` of the rolled array holds the entry of position `(k - s) mod n`
(`plus = true` is `s = +1`) -/
def rollSrc (n : Nat) (plus : Bool) (k : Nat) : Nat :=
  if plus then (k + n - 1) % n else (k + 1) % n

/-- positions kept by the cut `[:, 1:, :]` (`s = +1`) resp. `[:, :-1, :]` (`s = -1`) -/
def keptByCut (n : Nat) (plus : Bool) (k : Nat) : Bool :=
  if plus then decide (1 ≤ k) else decide (k + 1 < n)

/-- `(i, j)` is one of the pairs `zip(idx…, ids…)` written into the adjacency matrix for an axis of extent
`n` and stride `B` (= product of the later extents), shift `s`; periodic axis: all pairs except
self-pairs, open axis: the pairs surviving the cut. `j` is `i` with digit `k` replaced by `rollSrc k`. -/
def rollPair (n B : Nat) (per plus : Bool) (i j : Nat) : Bool :=
  let k := (i / B) % n
  (if per then i != j else keptByCut n plus k) && (j + k * B == i + rollSrc n plus k * B)

/-- both shifts along axis `d` of a grid -/
def axisAdj (shape : List Nat) (pbc : List Bool) (d i j : Nat) : Bool :=
  let n := shape.getD d 1
  let B := sprod (shape.drop (d + 1))
  let per := pbc.getD d false
  rollPair n B per false i j || rollPair n B per true i j

/-- `for d in range(ndim): for s in [-1, 1]: …` of `IntegerLattice.adjacency_matrix` -/
def gridAdj (shape : List Nat) (pbc : List Bool) (i j : Nat) : Bool :=
  decide (i < sprod shape) && decide (j < sprod shape) &&
    (List.range shape.length).any fun d => axisAdj shape pbc d i j

/-! ### triangular lattice: additional diagonal shift (roll along axis 0 and axis 1 by the same `s`) -/

/-- pair of the double roll for a 2-D grid `n0 × n1`; every open axis is cut, fully periodic: self-pairs skipped -/
def diagPair (n0 n1 : Nat) (p0 p1 plus : Bool) (i j : Nat) : Bool :=
  let x := i / n1
  let y := i % n1
  (if p0 && p1 then i != j else (p0 || keptByCut n0 plus x) && (p1 || keptByCut n1 plus y)) &&
    (j == rollSrc n0 plus x * n1 + rollSrc n1 plus y)

def triDiag (shape : List Nat) (pbc : List Bool) (i j : Nat) : Bool :=
  match shape with
  | [n0, n1] =>
    decide (i < n0 * n1) && decide (j < n0 * n1) &&
      (diagPair n0 n1 (pbc.getD 0 false) (pbc.getD 1 false) false i j ||
       diagPair n0 n1 (pbc.getD 0 false) (pbc.getD 1 false) true i j)
  | _ => false

def triAdj (shape : List Nat) (pbc : List Bool) (i j : Nat) : Bool :=
  gridAdj shape pbc i j || triDiag shape pbc i j

/-! ### odd-face-centred lattice -/

/-- the faces that receive a number, in the order of the double loop
`for x in range(n0-1): for y in range(n1-1): if (x+y) % 2 == 1: continue; …; i += 1` -/
def faceCells (n0 n1 : Nat) : List (Nat × Nat) :=
  (List.range (n0 - 1)).flatMap fun x =>
    (List.range (n1 - 1)).filterMap fun y => if (x + y) % 2 == 1 then none else some (x, y)

def ofcNverts (n0 n1 : Nat) : Nat := n0 * n1
def ofcNsites (n0 n1 : Nat) : Nat := n0 * n1 + ((n0 - 1) * (n1 - 1) + 1) / 2

/-- face number `i` (≥ nverts) is linked with corner `j` -/
def faceAdj (n0 n1 : Nat) (i j : Nat) : Bool :=
  match (faceCells n0 n1)[i - n0 * n1]? with
  | some (x, y) => j == x * n1 + y || j == x * n1 + (y + 1) || j == (x + 1) * n1 + y || j == (x + 1) * n1 + (y + 1)
  | none => false

/-- the vertex-vertex pairing of `OddFaceCenteredLattice.adjacency_matrix`: as `rollPair`, but its periodic branch
writes every pair (it has no `i != j` test; the constructor refuses a periodic axis of odd extent instead) -/
def rollPairRaw (n B : Nat) (per plus : Bool) (i j : Nat) : Bool :=
  let k := (i / B) % n
  (if per then true else keptByCut n plus k) && (j + k * B == i + rollSrc n plus k * B)

def gridAdjRaw (shape : List Nat) (pbc : List Bool) (i j : Nat) : Bool :=
  decide (i < sprod shape) && decide (j < sprod shape) &&
    (List.range shape.length).any fun d =>
      let n := shape.getD d 1
      let B := sprod (shape.drop (d + 1))
      let per := pbc.getD d false
      rollPairRaw n B per false i j || rollPairRaw n B per true i j

def ofcAdj (n0 n1 : Nat) (pbc : List Bool) (i j : Nat) : Bool :=
  let nv := n0 * n1
  decide (i < ofcNsites n0 n1) && decide (j < ofcNsites n0 n1) &&
    (gridAdjRaw [n0, n1] pbc i j ||
     (decide (nv ≤ i) && decide (j < nv) && faceAdj n0 n1 i j) ||
     (decide (nv ≤ j) && decide (i < nv) && faceAdj n0 n1 j i))

/-- `index_to_coord` of a face number `k = i - nverts` (closed form used by the code), `w = n1 - 1` -/
def faceCoord (w k : Nat) : Nat × Nat :=
  let x := 2 * k / w
  (x, 2 * (k - (x * w + 1) / 2) + x % 2)

/-- `coord_to_index` of face `(x, y)` relative to `nverts` -/
def faceIndex (w x y : Nat) : Nat := (x * w + 1) / 2 + y / 2

/-- `np.round` (half to even) of `(t - 1)/2` for an integer `t` (doubled coordinate minus one half) -/
def roundHalfEven (t : Int) : Int :=
  if t % 2 == 1 then (t - 1) / 2
  else let m := t / 2; if (m - 1) % 2 == 0 then m - 1 else m

/-! ### brick lattice embedded in a square grid -/

inductive Conv | cols | rows
  deriving DecidableEq, Repr

structure Brick where
  m : Nat
  n : Nat
  delete : Bool
  conv : Conv
  deriving Repr

namespace Brick

/-- `_shape_square` -/
def R (b : Brick) : Nat := match b.conv with
  | .cols => if b.n > 1 then 2 * b.m + 2 else 2 * b.m + 1
  | .rows => b.m + 1
def C (b : Brick) : Nat := match b.conv with
  | .cols => b.n + 1
  | .rows => if b.m > 1 then 2 * b.n + 2 else 2 * b.n + 1

/-- the two surplus grid points exist -/
def hasExtra (b : Brick) : Bool := match b.conv with
  | .cols => decide (b.n > 1)
  | .rows => decide (b.m > 1)

def nsitesSquare (b : Brick) : Nat := b.R * b.C

def nsites (b : Brick) : Nat :=
  if !b.delete && b.hasExtra then 2 * b.m * b.n + 2 * (b.m + b.n) + 2 else 2 * b.m * b.n + 2 * (b.m + b.n)

/-- axis along which all links exist -/
def dSquare (b : Brick) : Nat := match b.conv with | .cols => 0 | .rows => 1

def parityShiftCondition (b : Brick) : Bool := match b.conv with
  | .cols => b.n % 2 == 1
  | .rows => decide (b.m > 1)

/-- the `if (s == -1 and t == 0) or (s == 1 and t == 1)` selection of the half-connected axis -/
def parOK (b : Brick) (plus : Bool) (i : Nat) : Bool :=
  let t := if b.parityShiftCondition then (i + i / b.C) % 2 else i % 2
  if plus then t == 1 else t == 0

/-- adjacency on the full square grid before the surplus points are treated -/
def sqAdj (b : Brick) (i j : Nat) : Bool :=
  decide (i < b.nsitesSquare) && decide (j < b.nsitesSquare) &&
  ((rollPair b.R b.C false false i j && (b.dSquare == 0 || b.parOK false i)) ||
   (rollPair b.R b.C false true i j && (b.dSquare == 0 || b.parOK true i)) ||
   (rollPair b.C 1 false false i j && (b.dSquare == 1 || b.parOK false i)) ||
   (rollPair b.C 1 false true i j && (b.dSquare == 1 || b.parOK true i)))

/-- square-grid indices of the two surplus points (as used by `_disconnect_extra_points`) -/
def extra1 (b : Brick) : Nat := match b.conv with
  | .cols => (b.R - 1) * b.C
  | .rows => b.C - 1
def extra2 (b : Brick) : Nat := match b.conv with
  | .cols => if b.C % 2 == 0 then b.R * b.C - 1 else b.C - 1
  | .rows => if b.R % 2 == 1 then (b.R - 1) * b.C else b.R * b.C - 1

/-- `np.delete(adj, k, axis)`: new index `a` ↦ old index -/
def skip (k a : Nat) : Nat := if a < k then a else a + 1

/-- the two `np.delete` calls of `_delete_extra_points` (second index in the numbering after the first deletion):
new index ↦ square-grid index -/
def undelete (b : Brick) (a : Nat) : Nat := match b.conv with
  | .cols =>
    let k1 := (b.R - 1) * b.C
    let k2 := if b.C % 2 == 0 then b.R * b.C - 2 else b.C - 1
    skip k1 (skip k2 a)
  | .rows =>
    let k1 := b.C - 1
    let k2 := if b.R % 2 == 1 then (b.R - 1) * b.C - 1 else b.R * b.C - 2
    skip k1 (skip k2 a)

def adj (b : Brick) (i j : Nat) : Bool :=
  decide (i < b.nsites) && decide (j < b.nsites) &&
  (if b.hasExtra then
    (if b.delete then b.sqAdj (b.undelete i) (b.undelete j)
     else b.sqAdj i j && i != b.extra1 && i != b.extra2 && j != b.extra1 && j != b.extra2)
   else b.sqAdj i j)

/-- the `shift` computed by `index_to_coord` (delete = True) -/
def i2cShift (b : Brick) (i : Nat) : Nat :=
  if b.delete && b.hasExtra then
    match b.conv with
    | .cols =>
      let s1 := if i ≥ b.C - 1 && b.n % 2 == 0 then 1 else 0
      let s2 := if i ≥ (b.R - 1) * b.C - s1 then 1 else 0
      s1 + s2
    | .rows =>
      let s1 := if i ≥ b.C - 1 then 1 else 0
      let s2 := if i ≥ (b.R - 1) * b.C - s1 && b.m % 2 == 0 then 1 else 0
      s1 + s2
  else 0

/-- square-grid coordinate `(row, col)` of site `i` -/
def i2c (b : Brick) (i : Int) : Except Err (Nat × Nat) :=
  if b.delete && i ≥ b.nsites then .error .assertion
  else if i < 0 then .error .valueError
  else
    let k := i.toNat + b.i2cShift i.toNat
    if k < b.nsitesSquare then .ok (k / b.C, k % b.C) else .error .valueError

/-- `np.ravel_multi_index(c, shape_square)` with its rejections -/
def ravelSq (b : Brick) (c : List Int) : Except Err Int :=
  match c with
  | [r, k] => if 0 ≤ r && r < b.R && 0 ≤ k && k < b.C then .ok (r * b.C + k) else .error .valueError
  | _ => .error .valueError

/-- `cond0 and c[1] == v` with Python's short circuit: `c[1]` is only touched (IndexError) if `cond0` holds -/
def andEq1 (cond0 : Bool) (c1 : Option Int) (v : Int) : Except Err Bool :=
  if !cond0 then .ok false else match c1 with
    | none => .error .other
    | some x => .ok (x == v)

/-- `coord_to_index`; `none` is Python's `None` for a deleted surplus point -/
def c2i (b : Brick) (c : List Int) : Except Err (Option Int) :=
  if b.delete && b.hasExtra then
    match c with
    | [] => .error .other     -- c[0]: IndexError
    | c0 :: rest =>
      let c1 : Option Int := rest.head?
      let R : Int := b.R
      let C : Int := b.C
      match b.conv with
      | .cols => do
        -- even and odd columns specific cases (`none` = return None, `some shift` otherwise)
        let r1 : Option Int ←
          if b.n % 2 == 0 then do
            if ← andEq1 (c0 == 0) c1 (C - 1) then pure none else pure (some (if c0 > 0 then 1 else 0))
          else do
            if ← andEq1 (c0 == R - 1) c1 (C - 1) then pure none else pure (some 0)
        match r1 with
        | none => return none
        | some s1 =>
          -- common shift for even and odd cases
          let r2 : Option Int ←
            if c0 == R - 1 then do
              if ← andEq1 true c1 0 then pure none else pure (some (s1 + 1))
            else pure (some s1)
          match r2 with
          | none => return none
          | some s => return some ((← b.ravelSq c) - s)
      | .rows => do
        let r1 : Option Int ←
          if b.m % 2 == 0 then do
            if ← andEq1 (c0 == R - 1) c1 0 then pure none else pure (some (if c0 == R - 1 then 1 else 0))
          else do
            if ← andEq1 (c0 == R - 1) c1 (C - 1) then pure none else pure (some 0)
        match r1 with
        | none => return none
        | some s1 =>
          let r2 : Option Int ←
            if c0 == 0 then do
              if ← andEq1 true c1 (C - 1) then pure none else pure (some s1)
            else pure (some (s1 + 1))
          match r2 with
          | none => return none
          | some s => return some ((← b.ravelSq c) - s)
  else (b.ravelSq c).map some

end Brick

/-! ### hexagonal lattice (coordinates exact: `[row, 2y]` resp. `[2x, col]`) -/

/-- twice the long coordinate of grid point `k` in a line of parity `par` (0: even line) -/
def hexLong (par k : Nat) : Nat :=
  if par % 2 == 0 then 1 + 2 * ((k + 1) / 2) + 4 * (k / 2) else 2 * (k / 2) + 4 * ((k + 1) / 2)

def hexCoord (conv : Conv) (r c : Nat) : List Int := match conv with
  | .cols => [(r : Int), (hexLong r c : Int)]
  | .rows => [(hexLong c r : Int), (c : Int)]

/-- the inverse used by `coord_to_index`: from twice the long coordinate back to the grid position, given the
parity of the line; `none` = "Incompatible set of coordinates" -/
def hexLongInv (par t : Int) : Option Int :=
  if par % 2 == 0 then
    -- y - 0.5 must be an integer: t odd
    if t % 2 == 1 then let v := (t - 1) / 2; some (2 * (v / 3) + v % 3) else none
  else
    if t % 2 == 0 then let v := t / 2; some (2 * (v / 3) + (v % 3) / 2) else none

/-! ### the lattice classes together -/

inductive Lat
  | integer (shape : List Nat) (pbc : List Bool)
  | triangular (shape : List Nat) (pbc : List Bool)
  | ofc (n0 n1 : Nat) (pbc : List Bool)
  | brick (b : Brick)
  | hex (m n : Nat) (conv : Conv)
  | full (shape : List Nat)
  | custom (shape : List Nat) (adj : List (List Bool))
  | layered (base : Lat) (nl : Nat)
  deriving Repr

/-- `pbc` argument: a single bool or one flag per axis -/
inductive PbcSpec | all (b : Bool) | per (l : List Bool)

def PbcSpec.expand (shape : List Nat) : PbcSpec → Except Err (List Bool)
  | .all b => .ok (List.replicate shape.length b)
  | .per l => if l.length = shape.length then .ok l else .error .assertion

def mkInteger (shape : List Nat) (p : PbcSpec) : Except Err Lat := do
  return .integer shape (← p.expand shape)

def mkTriangular (shape : List Nat) (p : PbcSpec) : Except Err Lat :=
  if shape.length > 2 then .error .notImplemented else do
  return .triangular shape (← p.expand shape)

def mkOfc (shape : List Nat) (p : PbcSpec) : Except Err Lat :=
  match shape with
  | [n0, n1] => do
    let pbc ← p.expand shape
    if (n0 % 2 == 1 && pbc.getD 0 false) || (n1 % 2 == 1 && pbc.getD 1 false) then .error .valueError
    else return .ofc n0 n1 pbc
  | _ => .error .valueError

/-- `pbcTrue`: the argument `pbc is True` -/
def mkBrick (shape : List Nat) (pbcTrue delete : Bool) (conv : Conv) : Except Err Lat :=
  match shape with
  | [m, n] => if pbcTrue then .error .notImplemented else .ok (.brick ⟨m, n, delete, conv⟩)
  | _ => .error .notImplemented

def mkHex (shape : List Nat) (pbcTrue : Bool) (conv : Conv) : Except Err Lat :=
  match shape with
  | [m, n] => if pbcTrue then .error .notImplemented else .ok (.hex m n conv)
  | _ => .error .notImplemented

/-- `rows`: the matrix handed to the constructor (integers); the class stores `np.array(adj, dtype=bool)` -/
def mkCustom (shape : List Nat) (rows : List (List Int)) : Except Err Lat :=
  let n := sprod shape
  let a : List (List Bool) := rows.map fun r => r.map fun v => v != 0
  if !(a.length == n && a.all fun r => r.length == n) then .error .valueError
  else if !((List.range n).all fun i => (List.range n).all fun j =>
      (a.getD i []).getD j false == (a.getD j []).getD i false) then .error .valueError
  else if !((List.range n).all fun i => (a.getD i []).getD i false == false) then .error .valueError
  else .ok (.custom shape a)

def mkLayered (base : Lat) (nl : Int) : Except Err Lat :=
  if nl < 1 then .error .valueError else .ok (.layered base nl.toNat)

namespace Lat

def nsites : Lat → Nat
  | integer shape _ => sprod shape
  | triangular shape _ => sprod shape
  | ofc n0 n1 _ => ofcNsites n0 n1
  | brick b => b.nsites
  | hex m n _ => 2 * m * n + 2 * (m + n)
  | full shape => sprod shape
  | custom shape _ => sprod shape
  | layered base nl => nl * base.nsites

/-- entry `(i, j)` of `adjacency_matrix()` -/
def adj : Lat → Nat → Nat → Bool
  | integer shape pbc, i, j => gridAdj shape pbc i j
  | triangular shape pbc, i, j => triAdj shape pbc i j
  | ofc n0 n1 pbc, i, j => ofcAdj n0 n1 pbc i j
  | brick b, i, j => b.adj i j
  | hex m n conv, i, j => Brick.adj ⟨m, n, true, conv⟩ i j
  | full shape, i, j => decide (i < sprod shape) && decide (j < sprod shape) && i != j
  | custom shape a, i, j => decide (i < sprod shape) && decide (j < sprod shape) && (a.getD i []).getD j false
  | layered base nl, i, j =>
    let nb := base.nsites
    decide (i < nl * nb) && decide (j < nl * nb) &&
      (if i / nb == j / nb then base.adj (i % nb) (j % nb) else i % nb == j % nb)

def adjMatrix (l : Lat) : List (List Nat) :=
  (List.range l.nsites).map fun i => (List.range l.nsites).map fun j => if l.adj i j then 1 else 0

/-- `assert i < nsites; np.unravel_index(i, shape)` -/
def gridI2c (shape : List Nat) (i : Int) : Except Err (List Int) :=
  if i ≥ sprod shape then .error .assertion
  else if i < 0 then .error .valueError
  else .ok ((unravel shape i.toNat).map Int.ofNat)

/-- `for i, n in enumerate(shape): assert c[i] < n` -/
def assertLoop : List Nat → List Int → Except Err Unit
  | [], _ => .ok ()
  | _ :: _, [] => .error .other       -- IndexError
  | n :: ns, c :: cs => if c < n then assertLoop ns cs else .error .assertion

/-- `np.ravel_multi_index(c, shape)` with its rejections (wrong length, negative or too large entry) -/
def ravelChecked (shape : List Nat) (c : List Int) : Except Err Int :=
  if c.length = shape.length && (List.zip c shape).all (fun (v, n) => 0 ≤ v && v < n)
  then .ok (ravel shape (c.map Int.toNat)) else .error .valueError

def gridC2i (shape : List Nat) (c : List Int) : Except Err (Option Int) := do
  assertLoop shape c
  return some (← ravelChecked shape c)

/-- `index_to_coord(i)` in the exact encoding -/
def i2c : Lat → Int → Except Err (List Int)
  | integer shape _, i => gridI2c shape i
  | triangular shape _, i => gridI2c shape i
  | full shape, i => gridI2c shape i
  | custom shape _, i => gridI2c shape i
  | ofc n0 n1 _, i =>
    let nv : Int := n0 * n1
    if i < nv then
      (if i < 0 then .error .valueError else .ok ((unravel [n0, n1] i.toNat).map fun (v : Nat) => 2 * (v : Int)))
    else if n1 - 1 = 0 then .error .other      -- ZeroDivisionError
    else
      let (x, y) := faceCoord (n1 - 1) (i - nv).toNat
      .ok [2 * (x : Int) + 1, 2 * (y : Int) + 1]
  | brick b, i => do
    let (r, c) ← b.i2c i
    return [(r : Int), (c : Int)]
  | hex m n conv, i => do
    let (r, c) ← Brick.i2c ⟨m, n, true, conv⟩ i
    return hexCoord conv r c
  | layered base nl, i =>
    let nb : Int := base.nsites
    if i ≥ nl * nb then .error .assertion
    else do
      let rest ← base.i2c (i % nb)
      return (i / nb) :: rest

/-- `coord_to_index(c)`; `flt`: the coordinate is handed over as floats (matters for the odd-face-centred
lattice only, which dispatches on the dtype); `none` is Python's `None` -/
def c2i : Lat → Bool → List Int → Except Err (Option Int)
  | integer shape _, _, c => gridC2i shape c
  | triangular shape _, _, c => gridC2i shape c
  | full shape, _, c => gridC2i shape c
  | custom shape _, _, c => gridC2i shape c
  | ofc n0 n1 _, flt, c =>
    if !flt then
      -- integer dtype: doubled vertex coordinates
      (ravelChecked [n0, n1] (c.map (· / 2))).map some
    else match c with
      | [t0, t1] =>
        let x := roundHalfEven t0
        let y := roundHalfEven t1
        if (x + y) % 2 == 1 then .error .valueError
        else if x < 0 || y < 0 || x ≥ (n0 : Int) - 1 || y ≥ (n1 : Int) - 1 then .error .valueError
        else .ok (some ((n0 * n1 : Nat) + faceIndex (n1 - 1) x.toNat y.toNat : Nat))
      | _ => .error .valueError
  | brick b, _, c => b.c2i c
  | hex m n conv, _, c =>
    match c with
    | a :: t :: _ =>
      match conv with
      | .cols =>   -- a = row, t = 2y
        match hexLongInv a t with
        | none => .error .valueError
        | some k => Brick.c2i ⟨m, n, true, conv⟩ [a, k]
      | .rows =>   -- a = 2x, t = col
        match hexLongInv t a with
        | none => .error .valueError
        | some k => Brick.c2i ⟨m, n, true, conv⟩ [k, t]
    | _ => .error .other
  | layered base nl, flt, c =>
    match c with
    | [] => .error .other
    | l :: rest =>
      if l ≥ nl then .error .assertion
      else do
        match ← base.c2i flt rest with
        | none => .error .other        -- int + None: TypeError
        | some v => return some (l * base.nsites + v)

end Lat
end Qib.Lattice
