import QibModel.DriverMain
import QibModel.QubitizationOps
/-! Executable `drv_qubitization`: ops of C19 (`pcps.circuit`, `pcps.matrix`, `evt.matrix`, `evt.circuit`). -/

def main : IO Unit := Qib.driverMain Qib.Qubitization.dispatch
