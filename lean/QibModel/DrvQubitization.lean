import QibModel.DriverMain
import QibModel.QubitizationOps
import QibModel.QubitizationHistOps
/-! Executable `drv_qubitization`: ops of C19 (`pcps.circuit`, `pcps.matrix`, `evt.matrix`, `evt.circuit`; histories of mutator
calls: `pcps.history`, `evt.history`). -/

def main : IO Unit := Qib.driverMain fun op j =>
  match Qib.Qubitization.dispatch op j with
  | some r => some r
  | none => Qib.Qubitization.dispatchHist op j
