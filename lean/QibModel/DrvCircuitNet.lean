import QibModel.CircuitNetOps
/-! Model driver for the circuit-network core (C05, tensor-network part): ops `circuit.net`, `sim.tn`. -/
def main : IO Unit := Qib.driverMain Qib.CircuitNet.dispatch
