import QibModel.TNetOps
import QibModel.TNetPublic
/-! Driver op `net.historyP` (C08, public stage): the histories of `net.history` enlarged by the public surgery calls
`merge_tensors`, `merge_bonds`, `add_tensor`, `add_bond`, `generate_bonds`, `wrap`; every state reply additionally carries the answers of
all public queries (`q`). The old operations are delegated to `opStep` unchanged. -/
open Lean
namespace Qib.TNet
open Qib.J

/-- ids the queries are probed with: every key of both dictionaries and a few fixed ones -/
def probeIds (net : Net) : List Int := dkeys net.tensors ++ dkeys net.bonds ++ [-2, -1, 0, 3]

def stensorJson (t : STensor) : Json :=
  .arr #[jInt t.tid, ofNats t.shape, ofInts t.bids, match t.dataref with | some r => jInt r | none => .null]

/-- every public query of `SymbolicTensorNetwork` -/
def queriesJson (net : Net) : Json :=
  let ids := probeIds net
  Json.mkObj [
    ("num_tensors", exJson jNat (numTensors net)), ("num_bonds", jNat (numBonds net)),
    ("num_open_axes", exJson jNat (numOpenAxes net)), ("shape", exJson ofNats (netShape net)),
    ("tensor_ids", exJson ofInts (tensorIds net)),
    ("has_tensor", .arr (ids.map (fun i => Json.bool (hasTensor net i))).toArray),
    ("get_tensor", .arr (ids.map (fun i => exJson stensorJson (getTensor net i))).toArray),
    ("has_bond", .arr (ids.map (fun i => Json.bool (hasBond net i))).toArray),
    ("get_bond", .arr (ids.map (fun i => exJson (fun (b : SBond) => Json.arr #[jInt b.bid, ofInts b.tids]) (getBond net i))).toArray),
    ("bond_axes", .arr (ids.map (fun i => exJson ofNats (getBondAxes net i))).toArray)]

def stateJsonP (h : HNet) (limit : Nat) : Json :=
  (stateJson h limit).mergeObj (Json.mkObj [("q", queriesJson h.net)])

def opStepP (limit : Nat) (nets : List HNet) (op : Json) : Except String (List HNet × Json) := do
  let l ← list op
  let kind ← match l with | k :: _ => str k | [] => err "empty op"
  let i ← match l with | _ :: i :: _ => nat i | _ => err "op without net index"
  let h ← getNet nets i
  if h.dead then return (nets, Json.mkObj [("dead", .bool true)])
  -- a public call may raise after it has written: the reply then carries the state left behind
  let finishO := fun (o : Outcome) =>
    match o.err with
    | none => let h' := { h with net := o.net }; (nets.set i h', stateJsonP h' limit)
    | some e =>
      let dies := decide (o.net ≠ h.net)
      (nets.set i { h with dead := dies },
        Json.mkObj ([("err", .str e.toStr), ("dies", .bool dies)] ++ netJson o.net))
  match kind, l with
  | "merge_tensors", [_, _, a, b] => return finishO (mergeTensorsP h.net (← int a) (← int b))
  | "merge_bonds", [_, _, a, b] => return finishO (mergeBondsP h.net (← int a) (← int b))
  | "add_tensor", [_, _, tid, shape, bids, dref] =>
    return finishO (addTensorP h.net (← int tid) (← listOf nat shape) (← listOf int bids) (← parseOptInt dref))
  | "add_bond", [_, _, bid, tids] => return finishO (addBondP h.net (← int bid) (← listOf int tids))
  | "generate_bonds", [_, _] => return finishO (generateBondsP h.net)
  | "wrap", [_, _, dref, v, sh] =>
    let shape ← listOf nat sh
    let r ← int dref
    let d : DT Int := ⟨shape, ← parseNT v⟩
    match wrap shape (some r) with
    | .ok n =>
      let h' : HNet := { net := n, data := [(r, d)], dead := false }
      return (nets.set i h', stateJsonP h' limit)
    | .error e => return (nets, Json.mkObj [("err", .str e.toStr), ("dies", .bool false)])
  | "set_data", _ :: _ :: tid :: dref :: v :: sh :: _ =>
    -- harness-level: `net.tensors[tid].dataref = dref; data[dref] = array`
    let t ← int tid
    let r ← int dref
    let d : DT Int := ⟨← listOf nat sh, ← parseNT v⟩
    if !dhas h.net.tensors t then
      return (nets, Json.mkObj ([("err", .str "KeyError"), ("dies", .bool false)] ++ netJson h.net))
    let h' : HNet := { h with
      net := { h.net with tensors := dmodify h.net.tensors t (fun x => { x with dataref := some r }) },
      data := dset h.data r d }
    return (nets.set i h', stateJsonP h' limit)
  | _, _ =>
    let (nets', j) ← opStep limit nets op
    match nets'[i]?, j.getObjVal? "consistent" with
    | some h', .ok _ => return (nets', j.mergeObj (Json.mkObj [("q", queriesJson h'.net)]))
    | _, _ => return (nets', j)

def opHistoryP (j : Json) : Except String Json := do
  let limit := (fNat j "limit").toOption.getD 20000
  let nets ← (← fList j "nets").mapM (fun n => do
    return ({ net := ← parseNet (← field n "net"), data := ← parseData (← field n "data"), dead := false } : HNet))
  let init := nets.map (fun h => stateJsonP h limit)
  let (_, outs) ← (← fList j "ops").foldlM (fun (st : List HNet × List Json) op => do
    let (nets, o) ← opStepP limit st.1 op
    pure (nets, st.2 ++ [o])) (nets, [])
  return Json.mkObj [("init", .arr init.toArray), ("steps", .arr outs.toArray)]

end Qib.TNet
