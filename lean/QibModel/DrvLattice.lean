import QibModel.DriverMain
import QibModel.LatticeOps
open Lean Qib

def latticeDispatch : Dispatch := fun op j =>
  match op with
  | "lat.nsites" => some (Lattice.opNsites j)
  | "lat.adj" => some (Lattice.opAdj j)
  | "lat.shift" => some (Lattice.opShift j)
  | "lat.i2c" => some (Lattice.opI2c j)
  | "lat.c2i" => some (Lattice.opC2i j)
  | _ => none

def main : IO Unit := driverMain latticeDispatch
