import QibModel.Qasm
import QibModel.ValidateOps
import QibModel.GQ
/-! Driver ops `qasm.object`, `qasm.circuit`, `qasm.decode`, `qasm.table` (C18, object -> Qobj instruction). -/
open Lean
namespace Qib.Qasm
open Qib.J QibGen.Qasm

def excStr : Exc → String
  | .NotImplementedError => "NotImplementedError"
  | .AttributeError => "AttributeError"
  | .IndexError => "IndexError"
  | .TypeError => "TypeError"
  | .ValueError => "ValueError"

def parseRatJ (j : Json) : Except String Rat := do GQ.parseRat (← str j)

def parseOptInt (j : Json) : Except String (Option Int) :=
  match j with
  | .null => .ok none
  | _ => do return some (← int j)

def parseOptInts (j : Json) : Except String (Option (List Int)) :=
  match j with
  | .null => .ok none
  | _ => do return some (← (← list j).mapM int)

/-- `"omitted"` | `null` | `[ints]` -/
def parseArg (j : Json) : Except String Arg :=
  match j with
  | .str "omitted" => .ok .omitted
  | .null => .ok .none
  | _ => do return .val (← (← list j).mapM int)

partial def parseGRecipe (j : Json) : Except String GRecipe := do
  match ← fStr j "k" with
  | "leaf" =>
    return .leaf (← fStr j "cls") (← (← fList j "params").mapM parseRatJ) (← (← fList j "qubits").mapM parseOptInt)
  | "ctrl" =>
    return .controlled (← parseGRecipe (← field j "target")) (← fNat j "n") (← parseOptInts (← field j "cs"))
      (← parseOptInts (← field j "controls"))
  | k => .error s!"unknown gate kind {k}"

def parseRecipe (j : Json) : Except String Recipe := do
  match ← fStr j "k" with
  | "measure" =>
    let ons ← (← fList j "ons").mapM fun p => do
      match p with
      | .arr #[a, b] => do return (← parseArg a, ← parseArg b)
      | _ => .error "bad on() pair"
    return .measure (← parseArg (← field j "q")) (← parseArg (← field j "c")) ons
  | "barrier" => return .barrier (← parseArg (← field j "q")) (← (← fList j "ons").mapM parseArg)
  | "delay" =>
    return .delay (← parseRatJ (← field j "duration")) (← parseArg (← field j "q")) (← (← fList j "ons").mapM parseArg)
      (← (← fList j "sets").mapM parseRatJ)
  | "other" => return .other (← fStr j "cls")
  | _ => return .gate (← parseGRecipe j)

def optIntJ : Option Int → Json
  | none => .null
  | some i => Wmi.intJ i

def optIntsJ : Option (List Int) → Json
  | none => .null
  | some l => ofInts l

def ratsJ (l : List Rat) : Json := ofStrs (l.map ratToken)

def gateJson : Gate → Json
  | .leaf c ps qs => Json.mkObj [("k", .str "leaf"), ("cls", .str c), ("params", ratsJ ps), ("qubits", .arr (qs.map optIntJ).toArray)]
  | .controlled t n cs ctrls => Json.mkObj [("k", .str "ctrl"), ("target", gateJson t), ("n", Wmi.natJ n),
      ("cs", .arr (cs.map fun b => Wmi.natJ (if b then 1 else 0)).toArray), ("controls", ofInts ctrls)]

def objJson : Obj → Json
  | .gate g => gateJson g
  | .measure qs cs => Json.mkObj [("k", .str "measure"), ("qubits", optIntsJ qs), ("clbits", optIntsJ cs)]
  | .barrier qs => Json.mkObj [("k", .str "barrier"), ("qubits", optIntsJ qs)]
  | .delay d qs => Json.mkObj [("k", .str "delay"), ("duration", .str (ratToken d)), ("qubits", optIntsJ qs)]
  | .other c => Json.mkObj [("k", .str "other"), ("cls", .str c)]

/-- only the keys that are present -/
def dictJson (d : QDict) : Json :=
  Json.mkObj ([("name", Json.str d.name)] ++
    (match d.params with | some l => [("params", ratsJ l)] | none => []) ++
    (match d.qubits with | some l => [("qubits", ofInts l)] | none => []) ++
    (match d.memory with | some l => [("memory", ofInts l)] | none => []) ++
    (match d.duration with | some r => [("duration", Json.str (ratToken r))] | none => []))

def parseDict (j : Json) : Except String QDict := do
  let opt (k : String) {α} (f : Json → Except String α) : Except String (Option α) :=
    match j.getObjVal? k with
    | .ok v => do return some (← f v)
    | .error _ => pure none
  return { name := ← fStr j "name",
           params := ← opt "params" (fun v => do (← list v).mapM parseRatJ),
           qubits := ← opt "qubits" (fun v => do (← list v).mapM int),
           memory := ← opt "memory" (fun v => do (← list v).mapM int),
           duration := ← opt "duration" parseRatJ }

def buildGen (r : Recipe) : Except Exc Obj :=
  r.build genTable QibGen.Qasm.measureClbitsCtorDefault QibGen.Qasm.measureClbitsOnDefault

/-- one object: construction (what the constructors reject), `as_qasm()`, and the inverse applied to the result -/
def opObject (j : Json) : Except String Json := do
  let r ← parseRecipe (← field j "obj")
  match buildGen r with
  | .error e => return Json.mkObj [("stage", .str "build"), ("raised", .str (excStr e))]
  | .ok o =>
    let common := [("state", objJson o), ("wf", Json.bool (decide (o.WF genTable))), ("std", Json.bool (decide o.StdCtrl)),
      ("particles", ofInts o.particles), ("serialisable", Json.bool (decide (o.Serialisable genTable)))]
    match o.asQasm genTable with
    | .error e => return Json.mkObj ([("stage", .str "as_qasm"), ("raised", .str (excStr e))] ++ common)
    | .ok d =>
      let dec := decode genTable d
      return Json.mkObj ([("dict", dictJson d),
        ("decoded", match dec with | some o' => objJson o' | none => Json.null),
        ("roundtrip", Json.bool (dec == some o.norm)),
        ("instr", Json.mkObj [("name", .str d.toInstr.name), ("qubits", ofInts d.toInstr.qubits), ("params", ofStrs d.toInstr.params),
                              ("memory", ofInts d.toInstr.clbits)])] ++ common)

/-- `decode` alone, on a dictionary the implementation returned -/
def opDecode (j : Json) : Except String Json := do
  let d ← parseDict (← field j "dict")
  match decode genTable d with
  | none => return Json.mkObj [("decoded", Json.null)]
  | some o => return Json.mkObj [("decoded", objJson o),
      ("back", match o.asQasm genTable with | .ok d' => dictJson d' | .error e => Json.mkObj [("raised", .str (excStr e))])]

/-- a whole circuit: `Circuit.as_qasm()`, then validation and Qobj of `QibModel/Validate.lean` on the resulting instruction records -/
def opCircuit (j : Json) : Except String Json := do
  let rs ← (← fList j "objs").mapM parseRecipe
  let cfg ← Wmi.parseConfig (← field j "config")
  let shots ← fInt j "shots"
  let rec builds : List Recipe → Except Exc (List Obj)
    | [] => .ok []
    | r :: rest => match buildGen r with
      | .error e => .error e
      | .ok o => match builds rest with
        | .error e => .error e
        | .ok os => .ok (o :: os)
  match builds rs with
  | .error e => return Json.mkObj [("stage", .str "build"), ("raised", .str (excStr e))]
  | .ok os =>
    match circuitQasm genTable os with
    | .error e => return Json.mkObj [("stage", .str "as_qasm"), ("raised", .str (excStr e))]
    | .ok ds =>
      let instrs := ds.map QDict.toInstr
      return Json.mkObj [("dicts", .arr (ds.map dictJson).toArray),
        ("res", Wmi.resJson (Wmi.validate cfg shots instrs)),
        ("valid", .bool (decide (Wmi.Valid cfg shots instrs))),
        ("qobj", Wmi.qobjJson (Wmi.qobj shots instrs)),
        ("decoded_all", .bool ((ds.map (decode genTable)) == os.map (fun o => some o.norm)))]

/-- the generated table as the driver sees it (names, classes) - used by the harness to report coverage -/
def opTable (_ : Json) : Except String Json :=
  return Json.mkObj [("leaf", .arr (genTable.leaf.map fun r => Json.arr #[.str r.cls, .str r.name]).toArray),
    ("ctrl", .arr (genTable.ctrl.map fun r => Json.arr #[Wmi.natJ r.ncontrols, .str r.tcls, .str r.name]).toArray),
    ("names", ofStrs genTable.names), ("wf", .bool (decide genTable.WF)), ("standard", .bool (decide genTable.Standard)),
    ("std_names", .arr (stdName.map fun p => Json.arr #[.str p.1, .str p.2]).toArray),
    ("noqasm", ofStrs QibGen.Qasm.noQasmClasses)]

end Qib.Qasm
