/-!
Core C — symbolic tensor networks (`src/qib/tensor_network/symbolic_network.py`,
`tensor_network.py`, `contraction_tree.py`), Mathlib-free and executable.

Python dictionaries (`tensors`, `bonds`) are association lists in insertion order: `pop` removes the entry,
assignment of a new key appends, assignment to an existing key (or in-place mutation of the stored object)
keeps the position. The model is pure: every place where the implementation must not alias (the deep copy
in `merge`) is an explicit comparison in the correspondence check.

Everything the code rejects is an `Except.error` of the same exception class.
-/
namespace Qib.TNet

inductive Err where
  | valueError | runtimeError | assertion | keyError | indexError | typeError
  deriving DecidableEq, Repr

def Err.toStr : Err → String
  | .valueError => "ValueError" | .runtimeError => "RuntimeError" | .assertion => "Assertion"
  | .keyError => "KeyError" | .indexError => "IndexError" | .typeError => "TypeError"

/-- `SymbolicTensor` -/
structure STensor where
  tid : Int
  shape : List Nat
  bids : List Int
  dataref : Option Int
  deriving DecidableEq, Repr

/-- `SymbolicBond` -/
structure SBond where
  bid : Int
  tids : List Int
  deriving DecidableEq, Repr

/-- `SymbolicTensorNetwork`: the two dictionaries, in insertion order, with their keys. -/
structure Net where
  tensors : List (Int × STensor)
  bonds : List (Int × SBond)
  deriving DecidableEq, Repr

/-! ### dictionary helpers -/
section Dict
variable {β : Type}

def dget (d : List (Int × β)) (k : Int) : Option β := d.lookup k
def dhas (d : List (Int × β)) (k : Int) : Bool := d.any (fun e => e.1 == k)
def dkeys (d : List (Int × β)) : List Int := d.map (·.1)
/-- `d.pop(k)` (entry removed) -/
def dpop (d : List (Int × β)) (k : Int) : List (Int × β) := d.filter (fun e => e.1 != k)
/-- in-place mutation of the object stored under `k` -/
def dmodify (d : List (Int × β)) (k : Int) (f : β → β) : List (Int × β) :=
  d.map (fun e => if e.1 == k then (e.1, f e.2) else e)
/-- `d[k] = v` -/
def dset (d : List (Int × β)) (k : Int) (v : β) : List (Int × β) :=
  if dhas d k then d.map (fun e => if e.1 == k then (k, v) else e) else d ++ [(k, v)]
/-- `d.update(o)` -/
def dupdate (d o : List (Int × β)) : List (Int × β) := o.foldl (fun d e => dset d e.1 e.2) d

end Dict

/-- insertion into a sorted list -/
def insertSorted (x : Int) : List Int → List Int
  | [] => [x]
  | y :: ys => if x ≤ y then x :: y :: ys else y :: insertSorted x ys

/-- `list.sort()` on integers (the result is unique, so the algorithm does not matter) -/
def isort : List Int → List Int
  | [] => []
  | x :: xs => insertSorted x (isort xs)

/-- replace every occurrence of `x` by `y` -/
def replaceAll (x y : Int) (l : List Int) : List Int := l.map (fun t => if t == x then y else t)

/-- `max(keys, default=0)` -/
def maxKey (l : List Int) : Int := match l with
  | [] => 0
  | x :: xs => xs.foldl max x

/-! ### constructors (with the code's rejections) -/

def mkTensor (tid : Int) (shape : List Nat) (bids : List Int) (dataref : Option Int) : Except Err STensor :=
  if shape.length != bids.length then .error .valueError else .ok ⟨tid, shape, bids, dataref⟩

def mkBond (bid : Int) (tids : List Int) : Except Err SBond :=
  if tids.length < 2 then .error .valueError else .ok ⟨bid, isort tids⟩

def Net.empty : Net := ⟨[], []⟩

def addTensor (net : Net) (t : STensor) : Except Err Net :=
  if dhas net.tensors t.tid then .error .valueError else .ok { net with tensors := net.tensors ++ [(t.tid, t)] }

def addBond (net : Net) (b : SBond) : Except Err Net :=
  if dhas net.bonds b.bid then .error .valueError else .ok { net with bonds := net.bonds ++ [(b.bid, b)] }

/-- sorted list without duplicates: `sorted(list(set(l)))` -/
def sortedDedup (l : List Int) : List Int := (isort l).eraseDups

/-- `generate_bonds` -/
def generateBonds (net : Net) : Except Err Net := do
  if !net.bonds.isEmpty then throw .runtimeError
  let bidlist := sortedDedup (net.tensors.flatMap (fun e => e.2.bids))
  bidlist.foldlM (fun net bid => do
    let tids := net.tensors.flatMap (fun e => (e.2.bids.filter (· == bid)).map (fun _ => e.2.tid))
    addBond net (← mkBond bid tids)) net

/-! ### counts -/

def virt (net : Net) : Except Err STensor :=
  match dget net.tensors (-1) with
  | some t => .ok t
  | none => .error .runtimeError

def numTensors (net : Net) : Except Err Nat := do
  let _ ← virt net
  return net.tensors.length - 1

def numBonds (net : Net) : Nat := net.bonds.length

def numOpenAxes (net : Net) : Except Err Nat := do return (← virt net).shape.length

def netShape (net : Net) : Except Err (List Nat) := do return (← virt net).shape

/-- `tensor_ids()` -/
def tensorIds (net : Net) : Except Err (List Int) := do
  let _ ← virt net
  return (isort (dkeys net.tensors)).erase (-1)

/-! ### bond axes -/

/-- position of the `j`-th occurrence of `b` in `l` (offset `ax`) -/
def nthIdxFrom (b : Int) : List Int → Nat → Nat → Option Nat
  | [], _, _ => none
  | x :: xs, j, ax => if x == b then (match j with | 0 => some ax | j + 1 => nthIdxFrom b xs j (ax + 1))
                      else nthIdxFrom b xs j (ax + 1)

def nthIdx (b : Int) (l : List Int) (j : Nat) : Option Nat := nthIdxFrom b l j 0

/-- `get_bond_axes`: for the i-th tensor id of the bond, the axis carrying its j-th reference,
j = number of earlier occurrences of the same id. `KeyError` for a missing bond or tensor (raised while
scanning), `AssertionError` when an axis is not found (checked at the end) or the key does not match. -/
def getBondAxes (net : Net) (bid : Int) : Except Err (List Nat) := do
  let some bond := dget net.bonds bid | throw .keyError
  if bond.bid != bid then throw .assertion
  let opt ← (List.range bond.tids.length).mapM (fun i => do
    let t := bond.tids[i]!
    let j := (bond.tids.take i).count t
    let some tensor := dget net.tensors t | throw Err.keyError
    pure (nthIdx bid tensor.bids j))
  if opt.all Option.isSome then return opt.map (fun o => o.getD 0) else throw .assertion

/-! ### consistency check (`is_consistent`, every test in the code's order) -/

/-- the per-tensor part: key = id, every bond id exists and the bond refers back to the tensor once for every
axis attached to it (the multiplicity test now in /repo; it used to be `tensor.tid in bond.tids`) -/
def checkTensor (net : Net) (k : Int) (t : STensor) : Bool :=
  k == t.tid && t.bids.all (fun bid =>
    match dget net.bonds bid with
    | none => false
    | some bond => bond.tids.count t.tid == t.bids.count bid)

/-- the per-bond part; may raise like the code does (`get_bond_axes`, `tensor.shape[ax]`) -/
def checkBond (net : Net) (k : Int) (bond : SBond) : Except Err Bool := do
  if k != bond.bid then return false
  if bond.tids.length < 2 then return false
  let axes ← getBondAxes net bond.bid
  let pairs := bond.tids.zip axes
  if (List.range pairs.length).any (fun i => (pairs.take i).contains pairs[i]!) then return false
  let dims ← pairs.mapM (fun (p : Int × Nat) => do
    match dget net.tensors p.1 with
    | none => pure (none : Option Nat)
    | some tensor =>
      if tensor.bids.length ≤ p.2 then pure none
      else if tensor.bids[p.2]! != bond.bid then pure none
      else match tensor.shape[p.2]? with
        | some d => pure (some d)
        | none => throw Err.indexError)
  -- a `none` entry is a `return False` of the code; it precedes any later IndexError only if it comes first,
  -- which `mapM` does not reproduce exactly – unreachable after a successful `getBondAxes` (see C08 lemmas)
  if dims.any Option.isNone then return false
  match dims with
  | [] => return true
  | d0 :: _ => return dims.all (· == d0)

def allM {γ : Type} (f : γ → Except Err Bool) : List γ → Except Err Bool
  | [] => .ok true
  | x :: xs => do if (← f x) then allM f xs else return false

def isConsistent (net : Net) : Except Err Bool := do
  if !dhas net.tensors (-1) then return false
  if !(net.tensors.all (fun e => checkTensor net e.1 e.2)) then return false
  allM (fun (e : Int × SBond) => checkBond net e.1 e.2) net.bonds

/-! ### surgery -/

/-- `SymbolicTensor.transpose` (with the validation now in /repo: a full permutation is required);
`axes = none` is the default (reversed). -/
def STensor.transpose (t : STensor) (axes : Option (List Int)) : Except Err STensor := do
  let n := t.shape.length
  let axes : List Int := match axes with
    | some a => a
    | none => (List.range n).reverse.map Int.ofNat
  if isort axes != (List.range n).map Int.ofNat then throw .valueError
  let ax := axes.map Int.toNat
  let shape ← ax.mapM (fun a => match t.shape[a]? with | some d => pure d | none => throw Err.indexError)
  let bids ← ax.mapM (fun a => match t.bids[a]? with | some d => pure d | none => throw Err.indexError)
  return { t with shape := shape, bids := bids }

def transpose (net : Net) (axes : Option (List Int)) : Except Err Net := do
  let v ← virt net
  let v' ← v.transpose axes
  return { net with tensors := dmodify net.tensors (-1) (fun _ => v') }

/-- `rename_tensor` -/
def renameTensor (net : Net) (cur new : Int) : Except Err Net := do
  if !dhas net.tensors cur then throw .valueError
  if dhas net.tensors new then throw .valueError
  let some tensor := dget net.tensors cur | throw .keyError
  if tensor.tid != cur then throw .assertion
  if !(tensor.bids.all (dhas net.bonds)) then throw .keyError
  -- the loop over `tensor.bids` touches exactly the bonds listed there and is idempotent per bond
  let bonds := net.bonds.map (fun e =>
    if tensor.bids.contains e.1 then (e.1, { e.2 with tids := isort (replaceAll cur new e.2.tids) }) else e)
  return { tensors := dpop net.tensors cur ++ [(new, { tensor with tid := new })], bonds := bonds }

/-- `merge_tensors` -/
def mergeTensors (net : Net) (tid1 tid2 : Int) : Except Err Net := do
  if tid1 == tid2 then return net
  let some _ := dget net.tensors tid1 | throw .keyError
  let some tensor2 := dget net.tensors tid2 | throw .keyError
  if !(tensor2.bids.all (dhas net.bonds)) then throw .keyError
  let bonds := net.bonds.map (fun e =>
    if tensor2.bids.contains e.1 then (e.1, { e.2 with tids := isort (replaceAll tid2 tid1 e.2.tids) }) else e)
  let tensors := dmodify (dpop net.tensors tid2) tid1
    (fun t => { t with shape := t.shape ++ tensor2.shape, bids := t.bids ++ tensor2.bids })
  return { tensors := tensors, bonds := bonds }

/-- `rename_bond` -/
def renameBond (net : Net) (cur new : Int) : Except Err Net := do
  if !dhas net.bonds cur then throw .valueError
  if dhas net.bonds new then throw .valueError
  let some bond := dget net.bonds cur | throw .keyError
  if bond.bid != cur then throw .assertion
  if !(bond.tids.all (dhas net.tensors)) then throw .keyError
  let tensors := net.tensors.map (fun e =>
    if bond.tids.contains e.1 then (e.1, { e.2 with bids := replaceAll cur new e.2.bids }) else e)
  return { tensors := tensors, bonds := dpop net.bonds cur ++ [(new, { bond with bid := new })] }

/-- `merge_bonds` -/
def mergeBonds (net : Net) (bid1 bid2 : Int) : Except Err Net := do
  if bid1 == bid2 then return net
  let some _ := dget net.bonds bid1 | throw .keyError
  let some bond2 := dget net.bonds bid2 | throw .keyError
  if !(bond2.tids.all (dhas net.tensors)) then throw .keyError
  let tensors := net.tensors.map (fun e =>
    if bond2.tids.contains e.1 then (e.1, { e.2 with bids := replaceAll bid2 bid1 e.2.bids }) else e)
  let bonds := dmodify (dpop net.bonds bid2) bid1 (fun b => { b with tids := isort (b.tids ++ bond2.tids) })
  return { tensors := tensors, bonds := bonds }

/-- is `a` a permutation of `b` (used to validate the set-iteration orders handed to `merge`) -/
def isPermOf (a b : List Int) : Bool := isort a == isort b

/-- one step of the join loop of `merge` -/
def joinStep (orig : Nat) (st : Net × List Nat) (ja : Nat × Nat) : Except Err (Net × List Nat) := do
  let some toa := dget st.1.tensors (-1) | throw .keyError
  let some b1 := toa.bids[ja.1]? | throw .indexError
  let some b2 := toa.bids[orig + ja.2]? | throw .indexError
  let net ← mergeBonds st.1 b1 b2
  return (net, (st.2.erase ja.1).erase (orig + ja.2))

/-- one step of the deletion loop of `merge` -/
def delStep (net : Net) (delax : Nat) : Except Err Net := do
  let some toa := dget net.tensors (-1) | throw .keyError
  let some bid := toa.bids[delax]? | throw .indexError
  let some bond := dget net.bonds bid | throw .keyError
  let tids := bond.tids.erase (-1)
  if tids.length < 2 then throw .assertion
  return { net with bonds := dmodify net.bonds bid (fun b => { b with tids := tids }) }

/-- `merge(self, other, join_axes)`. `tidOrder`/`bidOrder` are the iteration orders of the Python *sets*
`self.tensors.keys() & other.tensors.keys()` and `self.bonds.keys() & other.bonds.keys()` (CPython's set
order is outside the model; the driver checks that they are permutations of the intersections and the
theorems hold for every such order). -/
def merge (self other : Net) (join : List (Int × Int)) (tidOrder bidOrder : List Int) : Except Err Net := do
  for ja in join do
    if ja.1 < 0 || ja.1 ≥ (← numOpenAxes self) then throw .valueError
    if ja.2 < 0 || ja.2 ≥ (← numOpenAxes other) then throw .valueError
  let orig ← numOpenAxes self
  -- disjoint tensor ids
  let nextTid := maxKey (dkeys self.tensors ++ dkeys other.tensors) + 1
  let (other, tmpOpen, _) ← tidOrder.foldlM (fun (st : Net × Int × Int) tid => do
    let o ← renameTensor st.1 tid st.2.2
    pure (o, (if tid == -1 then st.2.2 else st.2.1), st.2.2 + 1)) (other, (-1 : Int), nextTid)
  -- disjoint bond ids
  let nextBid := maxKey (dkeys self.bonds ++ dkeys other.bonds) + 1
  let (other, _) ← bidOrder.foldlM (fun (st : Net × Int) bid => do
    let o ← renameBond st.1 bid st.2
    pure (o, st.2 + 1)) (other, nextBid)
  let net : Net := { tensors := dupdate self.tensors other.tensors, bonds := dupdate self.bonds other.bonds }
  let net ← mergeTensors net (-1) tmpOpen
  let some toa := dget net.tensors (-1) | throw .keyError
  let joinN := join.map (fun ja => (ja.1.toNat, ja.2.toNat))
  let (net, axesMap) ← joinN.foldlM (joinStep orig) (net, List.range toa.shape.length)
  let delAxes := (joinN.flatMap (fun ja => [ja.1, orig + ja.2])).eraseDups
  let net ← delAxes.foldlM delStep net
  let some toa := dget net.tensors (-1) | throw .keyError
  let shape ← axesMap.mapM (fun a => match toa.shape[a]? with | some d => pure d | none => throw Err.indexError)
  let bids ← axesMap.mapM (fun a => match toa.bids[a]? with | some d => pure d | none => throw Err.indexError)
  return { net with tensors := dmodify net.tensors (-1) (fun t => { t with shape := shape, bids := bids }) }

/-- the intersections whose iteration order `merge` needs -/
def sharedTids (self other : Net) : List Int := (dkeys self.tensors).filter (dhas other.tensors)
def sharedBids (self other : Net) : List Int := (dkeys self.bonds).filter (dhas other.bonds)


/-! ### dense tensors (nested lists: `get (ofFn sh f) idx = f idx` needs no index arithmetic) -/

inductive NT (α : Type) where
  | s (v : α)
  | a (xs : List (NT α))

def NT.ofFn {α : Type} : List Nat → (List Nat → α) → NT α
  | [], f => .s (f [])
  | d :: ds, f => .a ((List.range d).map (fun i => NT.ofFn ds (fun is => f (i :: is))))

def NT.get {α : Type} [Zero α] : NT α → List Nat → α
  | .s v, [] => v
  | .a xs, i :: is => match xs[i]? with
      | some x => x.get is
      | none => 0
  | .s _, _ :: _ => 0
  | .a _, [] => 0

/-- a dense tensor with its shape -/
structure DT (α : Type) where
  shape : List Nat
  t : NT α

def DT.ofFn {α : Type} (shape : List Nat) (f : List Nat → α) : DT α := ⟨shape, NT.ofFn shape f⟩
def DT.get {α : Type} [Zero α] (d : DT α) (idx : List Nat) : α := d.t.get idx

/-! ### sums over label assignments -/
section Sums
variable {α : Type} [Zero α] [One α] [Add α] [Mul α]
variable {L : Type} [DecidableEq L]

def upd (σ : L → Nat) (l : L) (v : Nat) : L → Nat := fun x => if x = l then v else σ x

/-- `pin ls vs σ`: the assignment sending `ls[k] ↦ vs[k]` (first occurrence wins), `σ` elsewhere -/
def pin : List L → List Nat → (L → Nat) → (L → Nat)
  | l :: ls, v :: vs, σ => upd (pin ls vs σ) l v
  | _, _, σ => σ

/-- `sumOver dim ls f σ = Σ_{v₁<dim l₁} … Σ_{vₙ<dim lₙ} f (σ[l₁↦v₁,…,lₙ↦vₙ])` -/
def sumOver (dim : L → Nat) : List L → ((L → Nat) → α) → (L → Nat) → α
  | [], f, σ => f σ
  | l :: ls, f, σ => ((List.range (dim l)).map (fun v => sumOver dim ls f (upd σ l v))).sum

/-- product of a list of factors (right fold, so that `prodL (x :: xs) = x * prodL xs`) -/
def prodL (l : List α) : α := l.foldr (· * ·) 1

/-- all pins on the same label carry the same value, and there is one value per leg -/
def pinsOK (ls : List L) (idx : List Nat) : Bool :=
  ls.length == idx.length &&
  (List.range ls.length).all (fun k => (List.range ls.length).all (fun k' =>
    !(ls[k]? == ls[k']?) || idx[k]? == idx[k']?))

end Sums

/-! ### the denotation of a network -/
section Denote
variable {α : Type} [Zero α] [One α] [Add α] [Mul α]

def realTensors (net : Net) : List STensor := (net.tensors.filter (fun e => e.1 != -1)).map (·.2)

/-- (bond id, dimension) for every leg of every tensor, in dictionary order -/
def legDims (net : Net) : List (Int × Nat) := net.tensors.flatMap (fun e => e.2.bids.zip e.2.shape)

def bondDim (net : Net) (b : Int) : Nat := ((legDims net).lookup b).getD 1

/-- bonds without an open leg -/
def internalBids (net : Net) (v : STensor) : List Int := (dkeys net.bonds).filter (fun b => !v.bids.contains b)

/-- The value of the network at the logical multi-index `idx`: sum over all assignments of an index to
every bond without open leg of the product of the tensor entries, the bonds with open legs being pinned to
`idx` (two open legs on one bond ⇒ Kronecker delta). `D r i` is the entry `i` of the array stored under
data reference `r`. -/
def full (net : Net) (D : Option Int → List Nat → α) (idx : List Nat) : α :=
  match dget net.tensors (-1) with
  | none => 0
  | some v =>
    if pinsOK v.bids idx then
      sumOver (bondDim net) (internalBids net v)
        (fun σ => prodL ((realTensors net).map (fun t => D t.dataref (t.bids.map σ))))
        (pin v.bids idx (fun _ => 0))
    else 0

end Denote

/-! ### generic explicit-index einsum -/
section Einsum
variable {α : Type} [Zero α] [One α] [Add α] [Mul α]

def hasDup (l : List Nat) : Bool := (List.range l.length).any (fun i => (l.take i).contains l[i]!)

/-- the summand of an einsum: product over the operands of their entries at the labelled positions -/
def einsumTerm (args : List (DT α × List Nat)) (σ : Nat → Nat) : α :=
  prodL (args.map (fun a => a.1.get (a.2.map σ)))

def einsumDims (args : List (DT α × List Nat)) : List (Nat × Nat) := args.flatMap (fun a => a.2.zip a.1.shape)

def einsumSummed (args : List (DT α × List Nat)) (out : List Nat) : List Nat :=
  (((einsumDims args).map (·.1)).eraseDups).filter (fun l => !out.contains l)

/-- function-level meaning of `np.einsum(t₁, l₁, …, tₙ, lₙ, out)` -/
def einsumSem (args : List (DT α × List Nat)) (out : List Nat) (o : List Nat) : α :=
  sumOver (fun l => ((einsumDims args).lookup l).getD 1) (einsumSummed args out) (einsumTerm args)
    (pin out o (fun _ => 0))

/-- `np.einsum` with explicit index lists (no broadcasting of size-1 axes: a label must have one
dimension; an output label must be unique and occur in an operand) -/
def einsumEval (args : List (DT α × List Nat)) (out : List Nat) : Except Err (DT α) := do
  if args.any (fun a => a.2.length != a.1.shape.length) then throw .valueError
  let dims := einsumDims args
  if dims.any (fun p => dims.any (fun q => p.1 == q.1 && p.2 != q.2)) then throw .valueError
  if hasDup out then throw .valueError
  if out.any (fun l => !(dims.map (·.1)).contains l) then throw .valueError
  return DT.ofFn (out.map (fun l => (dims.lookup l).getD 1)) (einsumSem args out)

end Einsum

/-! ### `as_einsum` -/

/-- position of `x` in `l` (`list.index`) -/
def indexOf? {γ : Type} [BEq γ] (l : List γ) (x : γ) : Option Nat :=
  if l.contains x then some (l.idxOf x) else none

/-- relabel by order of first occurrence; `seen` lists the old labels already given a new one -/
def condense : List (List Nat) → List Nat → List (List Nat) × List Nat
  | [], seen => ([], seen)
  | row :: rows, seen =>
    let (row', seen') := row.foldl (fun (acc : List Nat × List Nat) x =>
      if acc.2.contains x then (acc.1 ++ [acc.2.idxOf x], acc.2) else (acc.1 ++ [acc.2.length], acc.2 ++ [x])) ([], seen)
    let (rows', seen'') := condense rows seen'
    (row' :: rows', seen'')

structure EinsumSpec where
  tids : List Int
  tidx : List (List Nat)
  idxout : List Nat
  axesMap : List Nat
  deriving DecidableEq, Repr

/-- consecutive index blocks `[[0..n₁), [n₁..n₁+n₂), …]` -/
def blocks : List Nat → Nat → List (List Nat)
  | [], _ => []
  | n :: ns, off => ((List.range n).map (· + off)) :: blocks ns (off + n)

def setAt (tidx : List (List Nat)) (i ax v : Nat) : List (List Nat) :=
  tidx.modify i (fun row => row.set ax v)

def as_einsum_bond (net : Net) (tids : List Int) (tidx : List (List Nat)) (bond : SBond) :
    Except Err (List (List Nat)) := do
  let it ← bond.tids.mapM (fun t => match indexOf? tids t with | some i => pure i | none => throw Err.valueError)
  let axes ← getBondAxes net bond.bid
  let pos := it.zip axes
  let vals ← pos.mapM (fun (p : Nat × Nat) => match tidx[p.1]? with
    | some row => (match row[p.2]? with | some v => pure v | none => throw Err.indexError)
    | none => throw Err.indexError)
  let imin := match vals with | [] => 0 | v :: vs => vs.foldl min v
  return pos.foldl (fun tidx p => setAt tidx p.1 p.2 imin) tidx

/-- `as_einsum` -/
def asEinsum (net : Net) : Except Err EinsumSpec := do
  let keys := dkeys net.tensors
  if keys.isEmpty then throw .indexError
  if !keys.contains (-1) then throw .assertion
  let tids := (isort keys).erase (-1) ++ [-1]
  let ndims ← tids.mapM (fun t => match dget net.tensors t with
    | some x => pure x.shape.length | none => throw Err.keyError)
  let tidx ← net.bonds.foldlM (fun tidx e => as_einsum_bond net tids tidx e.2) (blocks ndims 0)
  let (tidx, _) := condense tidx []
  let idxoutLogical := tidx.getLast?.getD []
  let idxout := idxoutLogical.eraseDups
  return { tids := tids.dropLast, tidx := tidx.dropLast, idxout := idxout,
           axesMap := idxoutLogical.map (fun i => idxout.idxOf i) }

/-! ### contraction trees -/

inductive Scaffold where
  | leaf (t : Int)
  | node (l r : Scaffold)
  | bad
  deriving Repr, Inhabited

inductive Side where | L | R
  deriving DecidableEq, Repr

structure NodeInfo where
  tid : Int
  idxL : List Nat
  idxR : List Nat
  idxout : List Nat
  openaxes : List (Int × Nat)
  trackaxes : List Nat
  deriving DecidableEq, Repr

inductive Tree where
  | leaf (i : NodeInfo)
  | node (i : NodeInfo) (l r : Tree)
  deriving Repr

def Tree.info : Tree → NodeInfo
  | .leaf i => i
  | .node i _ _ => i

/-- `n.trackaxes[n.openaxes.index(ta)]` when `ta in n.openaxes` -/
def trackOf (n : NodeInfo) (ta : Int × Nat) : Option (Except Err Nat) :=
  if n.openaxes.contains ta then
    some (match n.trackaxes[n.openaxes.idxOf ta]? with | some k => .ok k | none => .error .indexError)
  else none

abbrev BMap := List (Option (Side × Nat))

/-- body of the first loop of `_build_contraction_tree` -/
def bondScanStep (net : Net) (nL nR : NodeInfo) (st : List Int × List BMap × List (Int × Nat)) (od : Int × Nat) :
    Except Err (List Int × List BMap × List (Int × Nat)) := do
  let (bidlist, bmaps, openaxes) := st
  let some tensor := dget net.tensors od.1 | throw .keyError
  let some bid := tensor.bids[od.2]? | throw .indexError
  if bidlist.contains bid then return st
  let some bond := dget net.bonds bid | throw .keyError
  let axes ← getBondAxes net bid
  let bmap ← (bond.tids.zip axes).mapM (fun (ta : Int × Nat) =>
    match trackOf nL ta with
    | some r => do pure (some (Side.L, ← r))
    | none => match trackOf nR ta with
      | some r => do pure (some (Side.R, ← r))
      | none => pure (none : Option (Side × Nat)))
  let openaxes ← if bmap.all Option.isSome then
      (bond.tids.zip axes).foldlM (fun (oa : List (Int × Nat)) ta =>
        if oa.contains ta then pure (oa.erase ta) else throw Err.valueError) openaxes
    else pure openaxes
  return (bidlist ++ [bid], bmaps ++ [bmap], openaxes)

/-- `lst.remove(x)` -/
def removeFirst (l : List Nat) (x : Nat) : Except Err (List Nat) :=
  if l.contains x then .ok (l.erase x) else .error .valueError

structure IdxState where
  idxL : List Nat
  idxR : List Nat
  idxout : List Nat
  j : Option Nat

/-- body of the inner loop over one `bmap` -/
def assignStep (fully : Bool) (st : IdxState) (bm : Option (Side × Nat)) : Except Err IdxState := do
  match bm with
  | none => return st
  | some (side, k) =>
    let cur := match side with | .L => st.idxL | .R => st.idxR
    let some lk := cur[k]? | throw .indexError
    match st.j with
    | some j =>
      let idxout ← if st.idxout.contains lk && lk != j then removeFirst st.idxout lk else pure st.idxout
      match side with
      | .L => return { st with idxL := st.idxL.set k j, idxout := idxout }
      | .R => return { st with idxR := st.idxR.set k j, idxout := idxout }
    | none =>
      let idxout ← if fully then removeFirst st.idxout lk else pure st.idxout
      return { st with idxout := idxout, j := some lk }

def assignBond (st : IdxState) (bmap : BMap) : Except Err IdxState := do
  let st ← bmap.foldlM (assignStep (bmap.all Option.isSome)) { st with j := none }
  return { st with j := none }

/-- `_build_contraction_tree` -/
def buildTree (net : Net) : Scaffold → Int → Except Err Tree
  | .bad, _ => .error .assertion
  | .leaf t, _ => do
    if t == -1 then throw .valueError
    let some tensor := dget net.tensors t | throw .keyError
    let n := tensor.shape.length
    return .leaf { tid := t, idxL := [], idxR := [], idxout := List.range n,
                   openaxes := (List.range n).map (fun i => (t, i)), trackaxes := List.range n }
  | .node sl sr, nextTid => do
    let tL ← buildTree net sl nextTid
    let nL := tL.info
    let nextTid := if nL.tid ≥ nextTid then nL.tid + 1 else nextTid
    let tR ← buildTree net sr nextTid
    let nR := tR.info
    let nextTid := if nR.tid ≥ nextTid then nR.tid + 1 else nextTid
    if nL.openaxes.any nR.openaxes.contains then throw .assertion
    let allOpen := nL.openaxes ++ nR.openaxes
    let (_, bmaps, openaxes) ← allOpen.foldlM (bondScanStep net nL nR) ([], [], allOpen)
    let degL := nL.idxout.length
    let degR := nR.idxout.length
    let idxL := List.range degL
    let idxR := (List.range degR).map (· + degL)
    let st ← bmaps.foldlM assignBond { idxL := idxL, idxR := idxR, idxout := idxL ++ idxR, j := none }
    let trackaxes ← openaxes.mapM (fun ta =>
      match trackOf nL ta with
      | some r => do
        let k ← r
        let some lk := st.idxL[k]? | throw Err.indexError
        match indexOf? st.idxout lk with | some p => pure p | none => throw Err.valueError
      | none => match trackOf nR ta with
        | some r => do
          let k ← r
          let some lk := st.idxR[k]? | throw Err.indexError
          match indexOf? st.idxout lk with | some p => pure p | none => throw Err.valueError
        | none => throw Err.assertion)
    return .node { tid := nextTid, idxL := st.idxL, idxR := st.idxR, idxout := st.idxout,
                   openaxes := openaxes, trackaxes := trackaxes } tL tR

/-- `build_contraction_tree` -/
def buildContractionTree (net : Net) (s : Scaffold) : Except Err Tree :=
  buildTree net s (maxKey (dkeys net.tensors) + 1)

/-- stable `argsort` (numpy's result on a permutation is its inverse) -/
def argsort (l : List Nat) : List Nat :=
  let ins := fun (acc : List Nat) (i : Nat) =>
    let v := l[i]!
    (acc.takeWhile (fun j => l[j]! ≤ v)) ++ [i] ++ (acc.dropWhile (fun j => l[j]! ≤ v))
  (List.range l.length).foldl ins []

def pick {γ : Type} (l : List γ) (idx : List Nat) : Except Err (List γ) :=
  idx.mapM (fun i => match l[i]? with | some x => pure x | none => throw Err.indexError)

/-- the node-local part of `permute_axes` -/
def permuteInfo (n : NodeInfo) (sort : List Nat) : Except Err NodeInfo := do
  if sort.length != n.idxout.length then throw .valueError
  let idxout ← pick n.idxout sort
  let inv := argsort sort
  let track ← pick inv n.trackaxes
  return { n with idxout := idxout, trackaxes := track }

/-- `node.permute_axes(sort)` for the node reached from the root by `path` (`false` = left child);
the parent's `idxL`/`idxR` is permuted alongside. -/
def permuteAt : Tree → List Bool → List Nat → Except Err Tree
  | .leaf i, [], sort => do return .leaf (← permuteInfo i sort)
  | .node i l r, [], sort => do return .node (← permuteInfo i sort) l r
  | .leaf _, _ :: _, _ => .error .keyError
  | .node i l r, b :: path, sort => do
    if b then
      let r' ← permuteAt r path sort
      if path.isEmpty then return .node { i with idxR := ← pick i.idxR sort } l r'
      else return .node i l r'
    else
      let l' ← permuteAt l path sort
      if path.isEmpty then return .node { i with idxL := ← pick i.idxL sort } l' r
      else return .node i l' r

/-- the axes-map logic and root permutation of `contract_tree`: returns the permuted tree, the root
permutation and the final axes map -/
def contractTreePrep (net : Net) (tree : Tree) : Except Err (Tree × List Nat × List Nat) := do
  let root := tree.info
  let some toa := dget net.tensors (-1) | throw .keyError
  let axesMap ← toa.bids.mapM (fun bid => do
    let some bond := dget net.bonds bid | throw Err.keyError
    let axes ← getBondAxes net bid
    let r ← (bond.tids.zip axes).foldlM (fun (acc : Option Nat) (ta : Int × Nat) => do
      if ta.1 == -1 then return acc
      match trackOf root ta with
      | none => throw Err.runtimeError
      | some r =>
        let k ← r
        match acc with
        | none => return some k
        | some k0 => if k0 != k then throw Err.runtimeError else return acc) none
    match r with | some k => pure k | none => throw Err.runtimeError)
  let ndim := root.idxout.length
  let (sortIdx, c) ← axesMap.foldlM (fun (st : List (Option Nat) × Nat) ax => do
    match st.1[ax]? with
    | none => throw Err.indexError
    | some (some _) => return st
    | some none => return (st.1.set ax (some st.2), st.2 + 1)) (List.replicate ndim none, 0)
  if c != ndim then throw .assertion
  let sortIdx := sortIdx.map (fun o => o.getD 0)
  let perm := argsort sortIdx
  let tree ← permuteAt tree [] perm
  return (tree, perm, ← pick sortIdx axesMap)

/-! ### evaluation -/
section Eval
variable {α : Type} [Zero α] [One α] [Add α] [Mul α]

/-- `np.transpose(t, perm)` -/
def DT.transpose (d : DT α) (perm : List Nat) : DT α :=
  DT.ofFn (perm.map (fun p => d.shape[p]?.getD 0))
    (fun idx => d.get ((List.range d.shape.length).map (fun m => idx[perm.idxOf m]?.getD 0)))

/-- `perform_tree_contraction` -/
def treeEval (dict : Int → Option (DT α)) : Tree → Except Err (DT α)
  | .leaf i => match dict i.tid with
    | some d => .ok d
    | none => .error .keyError
  | .node i l r => do
    let tL ← treeEval dict l
    let tR ← treeEval dict r
    einsumEval [(tL, i.idxL), (tR, i.idxR)] i.idxout

/-- `to_full_tensor(tensor, axes_map)` as a function of the logical multi-index -/
def toFullSem (t : DT α) (axesMap : List Nat) (idx : List Nat) : α :=
  let slots := (List.range t.shape.length).map (fun ax =>
    ((List.range axesMap.length).filter (fun j => axesMap[j]? == some ax)).map (fun j => idx[j]?.getD 0))
  if slots.all (fun s => match s with | [] => true | v :: vs => vs.all (· == v)) then
    t.get ((slots.zip t.shape).map (fun (p : List Nat × Nat) => match p.1 with | [] => p.2 - 1 | v :: _ => v))
  else 0

def toFullTensor (t : DT α) (axesMap : List Nat) : Except Err (DT α) := do
  let shape ← pick t.shape axesMap
  return DT.ofFn shape (toFullSem t axesMap)

/-- dense tensor of the denotation -/
def fullTensor (net : Net) (D : Option Int → List Nat → α) : Except Err (DT α) := do
  let v ← virt net
  return DT.ofFn v.shape (full net D)

end Eval


/-! ### decidable certificates for contraction trees

`nodeOK` relates the five lists of a node to bond ids; `C07_treeNode_ok_sound` proves that a tree all of whose
nodes are certified evaluates to the denotation. The driver evaluates the certificate on every node of every
sampled tree. -/

/-- the bond attached to axis `ta.2` of tensor `ta.1` -/
def legBond (net : Net) (ta : Int × Nat) : Option Int := (dget net.tensors ta.1).bind (fun t => t.bids[ta.2]?)

/-- the bond carried by leg `k` of a node: that of the first open axis tracked to `k` -/
def nodeLegBond (net : Net) (c : NodeInfo) (k : Nat) : Option Int :=
  match (c.openaxes.zip c.trackaxes).find? (fun p => p.2 == k) with
  | some p => legBond net p.1
  | none => none

def nodupB {γ : Type} [BEq γ] : List γ → Bool
  | [] => true
  | x :: xs => !xs.contains x && nodupB xs

/-- the open-axis tracking of one node is well formed: one track per open axis, every leg tracked,
open axes tracked to the same leg lie on the same bond -/
def infoOK (net : Net) (c : NodeInfo) : Bool :=
  c.trackaxes.length == c.openaxes.length && nodupB c.openaxes &&
  (c.openaxes.zip c.trackaxes).all (fun p =>
    decide (p.2 < c.idxout.length) && (legBond net p.1).isSome && nodeLegBond net c p.2 == legBond net p.1) &&
  (List.range c.idxout.length).all (fun k => c.trackaxes.contains k)

/-- all legs `(tid, axis)` of a bond -/
def bondLegs (net : Net) (bid : Int) : List (Int × Nat) :=
  match dget net.bonds bid, getBondAxes net bid with
  | some bond, .ok axes => bond.tids.zip axes
  | _, _ => []

/-- (bond, label) for every leg of the two children -/
def legLabels (net : Net) (n cL cR : NodeInfo) : List (Option Int × Option Nat) :=
  (List.range cL.idxout.length).map (fun k => (nodeLegBond net cL k, n.idxL[k]?)) ++
  (List.range cR.idxout.length).map (fun k => (nodeLegBond net cR k, n.idxR[k]?))

/-- bonds contracted at this node: every leg of the bond is an open axis of one of the children -/
def contractedAt (net : Net) (cL cR : NodeInfo) (b : Int) : Bool :=
  let legs := bondLegs net b
  !legs.isEmpty && legs.all (fun ta => cL.openaxes.contains ta || cR.openaxes.contains ta)

/-- certificate of an inner node with children `cL`, `cR` -/
def nodeOK (net : Net) (n cL cR : NodeInfo) : Bool :=
  let pairs := legLabels net n cL cR
  let both := cL.openaxes ++ cR.openaxes
  infoOK net cL && infoOK net cR && infoOK net n &&
  !(cL.openaxes.any cR.openaxes.contains) &&
  n.idxL.length == cL.idxout.length && n.idxR.length == cR.idxout.length &&
  -- labels and bonds correspond one to one
  pairs.all (fun p => p.1.isSome && p.2.isSome && pairs.all (fun q => (p.1 == q.1) == (p.2 == q.2))) &&
  -- output labels: exactly the labels of the bonds not contracted here, once each
  nodupB n.idxout &&
  n.idxout.all (fun l => pairs.any (fun p => p.2 == some l)) &&
  pairs.all (fun p => match p.1, p.2 with
    | some b, some l => n.idxout.contains l == !contractedAt net cL cR b
    | _, _ => false) &&
  -- remaining open axes, in order, and their legs
  n.openaxes == both.filter (fun ta => match legBond net ta with
    | some b => !contractedAt net cL cR b
    | none => false) &&
  (n.openaxes.zip n.trackaxes).all (fun p =>
    match pairs.find? (fun q => q.1 == legBond net p.1) with
    | some q => (match q.2 with | some l => n.idxout[p.2]? == some l | none => false)
    | none => false)

/-- certificate of a leaf: its open axes are all axes of an existing real tensor, tracked bijectively -/
def leafOK (net : Net) (i : NodeInfo) : Bool :=
  match dget net.tensors i.tid with
  | none => false
  | some t =>
    i.tid != -1 && i.openaxes == (List.range t.shape.length).map (fun a => (i.tid, a)) &&
    i.idxout.length == t.shape.length && infoOK net i && nodupB i.trackaxes

def treeLeaves : Tree → List Int
  | .leaf i => [i.tid]
  | .node _ l r => treeLeaves l ++ treeLeaves r

/-- certificate for every node, in preorder -/
def treeOKList (net : Net) : Tree → List Bool
  | .leaf i => [leafOK net i]
  | .node i l r => nodeOK net i l.info r.info :: (treeOKList net l ++ treeOKList net r)

/-- certificate of the root against the network: the leaves are exactly the real tensors, every root leg
carries an open bond, and `axesMap` sends logical axis `i` to the root leg carrying the bond of that axis -/
def rootOK (net : Net) (tree : Tree) (axesMap : List Nat) : Bool :=
  match dget net.tensors (-1) with
  | none => false
  | some v =>
    let root := tree.info
    nodupB (treeLeaves tree) && isort (treeLeaves tree) == (isort (dkeys net.tensors)).erase (-1) &&
    axesMap.length == v.bids.length &&
    (List.range v.bids.length).all (fun i => match axesMap[i]? with
      | some k => nodeLegBond net root k == v.bids[i]?
      | none => false) &&
    (List.range root.idxout.length).all (fun k => match nodeLegBond net root k with
      | some b => v.bids.contains b
      | none => false)

/-- the strengthened root certificate: `rootOK` and, in addition, distinct legs of the root carry distinct bonds
(`rootOK` alone is unsound for a single-leaf tree whose tensor repeats a bond; the code refuses that input, found while
proving `C07_tree_sound`, see `QibProofs/Lemmas/TNetTreeRoot.lean`) -/
def rootOKStrong (net : Net) (tree : Tree) (axesMap : List Nat) : Bool :=
  rootOK net tree axesMap &&
    nodupB ((List.range tree.info.idxout.length).map (nodeLegBond net tree.info))

/-- certificate of an `as_einsum` result: labels are an injective renaming of bond ids -/
def einsumOK (net : Net) (e : EinsumSpec) : Bool :=
  match dget net.tensors (-1) with
  | none => false
  | some v =>
    let legs : List (Int × Nat) := (e.tids.zip e.tidx).flatMap (fun p =>
      match dget net.tensors p.1 with
      | some t => t.bids.zip p.2
      | none => [])
    let vlabels := e.axesMap.map (fun k => e.idxout[k]?.getD 0)
    let all := legs ++ v.bids.zip vlabels
    e.tids == (isort (dkeys net.tensors)).erase (-1) && e.tidx.length == e.tids.length &&
    (e.tids.zip e.tidx).all (fun p => match dget net.tensors p.1 with
      | some t => t.bids.length == p.2.length
      | none => false) &&
    e.axesMap.length == v.bids.length && e.axesMap.all (· < e.idxout.length) &&
    nodupB e.idxout && e.idxout.all vlabels.contains &&
    all.all (fun p => all.all (fun q => (p.1 == q.1) == (p.2 == q.2)))

end Qib.TNet
