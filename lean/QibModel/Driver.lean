import QibModel.Json
import QibModel.BackendOps
/-!
Line-protocol driver: one JSON object per input line (`{"id":…, "op":…, …}`), one JSON reply per line
(`{"id":…, "ok":…}` or `{"id":…, "err":…}`). Executes the *model's* definitions only.
-/
open Lean Qib

def dispatch (op : String) (j : Json) : Except String Json :=
  match op with
  | "http.history" => Backend.opHttpHistory j
  | "exp.history" => Backend.opExpHistory j
  | "status.map" => Backend.opStatusMap j
  | _ => .error s!"unknown op {op}"

def handleLine (line : String) : String :=
  match Json.parse line with
  | .error e => (Json.mkObj [("id", Json.null), ("err", .str s!"parse: {e}")]).compress
  | .ok j =>
    let id := (j.getObjVal? "id").toOption.getD Json.null
    match j.getObjVal? "op" with
    | .ok (.str op) =>
      match dispatch op j with
      | .ok r => (Json.mkObj [("id", id), ("ok", r)]).compress
      | .error e => (Json.mkObj [("id", id), ("err", .str e)]).compress
    | _ => (Json.mkObj [("id", id), ("err", .str "no op")]).compress

partial def loop (h : IO.FS.Stream) (out : IO.FS.Stream) : IO Unit := do
  let line ← h.getLine
  if line.isEmpty then return ()
  if line.trimAscii.toString.isEmpty then loop h out else
  out.putStrLn (handleLine line)
  loop h out

def main : IO Unit := do
  let out ← IO.getStdout
  loop (← IO.getStdin) out
  out.flush
