import QibModel.GQ
import QibModel.Pauli
import QibGen.VqeTables
/-!
Model of `algorithms/vqe` (C20), Mathlib-free, on exact Gaussian rationals.

The shapes that matter are *generated* from the current source by `harness/translators/vqe.py` into
`QibGen/VqeTables.lean` (which state factor is conjugated and which product comes first in
`measure_expectation_statevector`; the accepted `excitations` settings; the operator kinds of the cluster terms per
`as_matrix` branch and their order; the sign / conjugation of the adjoint part of the exponent; `num_parameters`);
the definitions below are driven by those tables, the theorems of `Properties/C20.lean` re-check them on every run.

* `expect ψ P` mirrors `measure_expectation_statevector`: `(state.conj().T @ M) @ state`, i.e. first the
  row vector `vⱼ = Σᵢ conj ψᵢ · Pᵢⱼ`, then `Σⱼ vⱼ · ψⱼ` (or the column vector `M @ state` first, if the source
  says so). NumPy refuses the product when the length of the
  state differs from the matrix dimension; the model refuses the same inputs (`Except`).
  `expectPauli ψ op` is the same call on a `PauliOperator` given as (string, weight) list: the matrix is
  assembled from the entries of the Pauli model (`QibModel/Pauli.lean`, bridged to `PS.mat` in C09); the
  empty operator has the integer `0` as "matrix" and `.toarray()` fails on it (`AttributeError`).
* `cre L i` / `ann L i` are the Jordan–Wigner ladder matrices exactly as `FieldOperator.as_matrix` builds
  them: `kron(I,…,I, U, Z,…,Z)` with `U = |1⟩⟨0|` at site `i` (site 0 = slowest index) and
  `a = (a†).conj().T`; `termMat L kinds coeffs` is the matrix of one `FieldOperatorTerm`
  (`nditer` order = row-major multi-index, zero coefficients skipped, product left to right starting from the
  identity). The code path of `qUCC.as_matrix` reaches this matrix through
  `jordan_wigner_encode_field_operator(...).as_matrix()`; that the encoding reproduces the matrix is
  property C11, and the correspondence of C20 compares the two exactly on every sample.
* `quccTerms L exc params` = the list of cluster matrices `T` (`[T₁]`, `[T₂]`, or `[T₁, T₂]` for `"sd"`)
  including the constructor's / `as_matrix`' rejections; `quccGenerator T = T − Tᴴ` is the argument handed to
  `scipy.linalg.expm`; the exponential itself is not computable in exact arithmetic and is covered by the
  theorems of `QibProofs/Properties/C20.lean` (every such exponential is unitary and conserves `N`).
* `numberOp L` is the total particle-number operator `Σₖ a†ₖ aₖ`: diagonal, entry = number of set site bits.
-/
namespace Qib.Vqe
open Qib QibGen.Vqe

/-- entrywise difference (left operand fixes the shape, like the other `Mat` operations) -/
def sub (A B : Mat) : Mat := Mat.ofFn A.n A.m fun i j => A.get i j - B.get i j

def zeros (n m : Nat) : Mat := Mat.ofFn n m fun _ _ => 0

/-- `Σ_{k<n} f k`, summed in index order -/
def sumRange (n : Nat) (f : Nat → GQ) : GQ := (List.range n).foldl (fun acc k => acc + f k) 0

/-! ### expectation value -/

/-- a state factor as it enters the product: conjugated or not (generated flag) -/
def cj (b : Bool) (z : GQ) : GQ := if b then z.conj else z

/-- `a @ M` with `a` the left state factor: the row vector `vⱼ = Σᵢ aᵢ · Pᵢⱼ` -/
def rowVec (ψ : Array GQ) (P : Mat) : Array GQ :=
  Array.ofFn (n := P.m) fun j => sumRange ψ.size fun i => cj expectConjLeft (ψ.getD i 0) * P.get i j.val

/-- `(a @ M) @ b` without the shape checks -/
def expectLF (ψ : Array GQ) (P : Mat) : GQ :=
  let v := rowVec ψ P
  sumRange v.size fun j => v.getD j 0 * cj expectConjRight (ψ.getD j 0)

/-- `M @ b` with `b` the right state factor: the column vector `vᵢ = Σⱼ Pᵢⱼ · bⱼ` -/
def colVec (ψ : Array GQ) (P : Mat) : Array GQ :=
  Array.ofFn (n := P.n) fun i => sumRange ψ.size fun j => P.get i.val j * cj expectConjRight (ψ.getD j 0)

/-- `a @ (M @ b)` without the shape checks -/
def expectRF (ψ : Array GQ) (P : Mat) : GQ :=
  let v := colVec ψ P
  sumRange v.size fun i => cj expectConjLeft (ψ.getD i 0) * v.getD i 0

/-- the product in the order the source forms it -/
def expectRaw (ψ : Array GQ) (P : Mat) : GQ := if expectLeftFirst then expectLF ψ P else expectRF ψ P

/-- `measure_expectation_statevector`: NumPy's `@` raises `ValueError` unless `len(state) = M.shape[0]`
(first product) and `M.shape[1] = len(state)` (second product). -/
def expect (ψ : Array GQ) (P : Mat) : Except String GQ :=
  if ψ.size ≠ P.n then .error "ValueError"
  else if P.m ≠ ψ.size then .error "ValueError"
  else .ok (expectRaw ψ P)

/-- the property's reference value `Σᵢⱼ conj ψᵢ · Pᵢⱼ · ψⱼ` (double sum, conjugate on the LEFT factor) -/
def expectSpec (ψ : Array GQ) (P : Mat) : GQ :=
  sumRange ψ.size fun i => sumRange ψ.size fun j => (ψ.getD i 0).conj * P.get i j * ψ.getD j 0

/-! ### Pauli operators as dense matrices -/

def gqOfPauli (g : Qib.Pauli.GQ) : GQ := ⟨g.re, g.im⟩
def gqOfInts (p : Int × Int) : GQ := ⟨(p.1 : Rat), (p.2 : Rat)⟩

/-- `Σ weight · as_matrix(string)` at flat indices (site 0 most significant) -/
def pauliEntry (op : Qib.Pauli.PauliOp Qib.Pauli.GQ) (r c : Nat) : GQ :=
  op.foldl (fun acc e => acc + gqOfPauli e.2 * gqOfInts (e.1.matEntry r c)) 0

def pauliMat (n : Nat) (op : Qib.Pauli.PauliOp Qib.Pauli.GQ) : Mat :=
  Mat.ofFn (2 ^ n) (2 ^ n) (pauliEntry op)

/-- `measure_expectation_statevector(pauli_op, state)`; `PauliOperator.as_matrix()` of the empty operator is
the integer 0, on which `.toarray()` raises `AttributeError` -/
def expectPauli (ψ : Array GQ) (op : Qib.Pauli.PauliOp Qib.Pauli.GQ) : Except String GQ :=
  match op with
  | [] => .error "AttributeError"
  | (P, _) :: _ => expect ψ (pauliMat P.z.length op)

/-! ### Jordan–Wigner ladder matrices and field-operator terms -/

/-- site factor of the creation operator on site `i`: `I` (k < i), `U = [[0,0],[1,0]]` (k = i), `Z` (k > i) -/
def creSite (i k : Nat) (r c : Bool) : Int :=
  if k < i then (if r = c then 1 else 0)
  else if k = i then (if r && !c then 1 else 0)
  else (if r = c then (if r then -1 else 1) else 0)

/-- entry of `kron(…kron(kron(1, A₀), A₁)…, A_{L-1})` with the site factors above -/
def creEntry (L i r c : Nat) : Int :=
  ((List.range L).map fun k => creSite i k (Qib.Pauli.bitAt L k r) (Qib.Pauli.bitAt L k c)).prod

/-- `clist[i]` -/
def cre (L i : Nat) : Mat := Mat.ofFn (2 ^ L) (2 ^ L) fun r c => gqOfInts (creEntry L i r c, 0)

/-- `alist[i] = clist[i].conj().T` -/
def ann (L i : Nat) : Mat := (cre L i).adjoint

def ladder (L : Nat) (create : Bool) (i : Nat) : Mat := if create then cre L i else ann L i

/-- the `k` digits of `idx` in base `L`, most significant first (`nditer` multi-index of a `(L,…,L)` array) -/
def multiIndex (L : Nat) : Nat → Nat → List Nat
  | 0, _ => []
  | k + 1, idx => (idx / L ^ k) % L :: multiIndex L k idx

/-- `fstring = identity @ op₀ @ op₁ @ …` -/
def fstring (L : Nat) (kinds : List Bool) (js : List Nat) : Mat :=
  (List.zip kinds js).foldl (fun acc p => acc.mul (ladder L p.1 p.2)) (Mat.one (2 ^ L))

/-- one accumulation step `op += coeff * fstring` (skipped for a zero coefficient) -/
def termStep (L : Nat) (kinds : List Bool) (coeffs : Array GQ) (acc : Mat) (idx : Nat) : Mat :=
  let c := coeffs.getD idx 0
  if c = 0 then acc else acc.add (Mat.smul c (fstring L kinds (multiIndex L kinds.length idx)))

/-- matrix of `FieldOperator([FieldOperatorTerm(opdesc, coeffs)])`, `coeffs` flattened row-major -/
def termMat (L : Nat) (kinds : List Bool) (coeffs : Array GQ) : Mat :=
  (List.range (L ^ kinds.length)).foldl (termStep L kinds coeffs) (zeros (2 ^ L) (2 ^ L))

/-! ### the ansatz -/

/-- constructor check on `excitations`: only the settings listed in the source are accepted -/
def parseExc (s : String) : Except String String :=
  if s ∈ excSettings then .ok s else .error "ValueError"

/-- `num_parameters`: `Σ nqubits**k` over the exponents of the matching branch (else branch = last resort) -/
def numParamExpsOf (exc : String) : List Nat :=
  match numParamExps.find? (fun e => e.1 == some exc) with
  | some e => e.2
  | none => match numParamExps.find? (fun e => e.1 == none) with
    | some e => e.2
    | none => []

def numParameters (L : Nat) (exc : String) : Nat := ((numParamExpsOf exc).map fun k => L ^ k).sum

/-- the operator kinds of the cluster terms of the `as_matrix` branch for `exc` -/
def kindsOf (exc : String) : Option (List (List Bool)) := (branches.find? fun b => b.1 == exc).map (·.2)

/-- number of parameters `as_matrix` insists on: one coefficient array of shape `(L,…,L)` per cluster term -/
def paramCount (L : Nat) (kss : List (List Bool)) : Nat := (kss.map fun k => L ^ k.length).sum

/-- consecutive slices of the parameter vector, reshaped row-major, one per cluster term -/
def sliceTerms (L : Nat) : List (List Bool) → Array GQ → Nat → List Mat
  | [], _, _ => []
  | k :: ks, params, off =>
    termMat L k (params.extract off (off + L ^ k.length)) :: sliceTerms L ks params (off + L ^ k.length)

/-- the cluster matrices `T` of `qUCC.as_matrix(params)` in the order in which their exponentials are multiplied;
a wrong number of parameters is rejected with `ValueError`; a setting without a branch makes `as_matrix` fall
through and return `None` -/
def quccTerms (L : Nat) (exc : String) (params : Array GQ) : Except String (List Mat) :=
  match kindsOf exc with
  | none => .error "NoneReturned"
  | some kss =>
    if params.size ≠ paramCount L kss then .error "ValueError" else .ok (sliceTerms L kss params 0)

/-- the adjoint part of the exponent: `T_mat.conjugate().T` (or `T_mat.T`, if the source says so) -/
def adjPart (T : Mat) : Mat := if genAdjointConj then T.adjoint else T.transpose

/-- exponent of the coupled-cluster ansatz: `T_mat - T_mat.conjugate().T` (sign and conjugation from the source) -/
def quccGenerator (T : Mat) : Mat :=
  Mat.ofFn T.n T.m fun i j => T.get i j + gqOfInts (genAdjointSign, 0) * (adjPart T).get i j

/-! ### particle number -/

/-- number of occupied sites of the basis state with flat index `b` on `L` sites -/
def bitCount (L b : Nat) : Nat := ((List.range L).map fun k => (Qib.Pauli.bitAt L k b).toNat).sum

/-- total particle number on `L` Jordan–Wigner sites: `Σₖ a†ₖ aₖ = diag(bitCount b)`, `b < 2^L` -/
def numberOp (L : Nat) : Mat :=
  Mat.ofFn (2 ^ L) (2 ^ L) fun i j => if i = j then GQ.ofRat (bitCount L i : Nat) else 0

def commutator (A B : Mat) : Mat := sub (A.mul B) (B.mul A)

def isZero (A : Mat) : Bool := A.data.all fun z => z == (0 : GQ)

/-- `Gᴴ = −G` -/
def isSkewAdjoint (G : Mat) : Bool := G.n == G.m && G.adjoint.beq G.neg

/-- `[N, G] = 0` for the number operator of matching size (`G` must be `2^L × 2^L`) -/
def commutesWithN (L : Nat) (G : Mat) : Bool :=
  G.n == 2 ^ L && G.m == 2 ^ L && isZero (commutator (numberOp L) G)

end Qib.Vqe
