import QibModel.GQ
/-!
Model of `algorithms/vqe` (C20), Mathlib-free, on exact Gaussian rationals.

* `expect ψ P` mirrors `measure_expectation_statevector`: `(state.conj().T @ M) @ state`, i.e. first the
  row vector `vⱼ = Σᵢ conj ψᵢ · Pᵢⱼ`, then `Σⱼ vⱼ · ψⱼ`. NumPy refuses the product when the length of the
  state differs from the matrix dimension; the model refuses the same inputs (`Except`).
* `quccGenerator T = T − Tᴴ` is the argument handed to `scipy.linalg.expm` in `qUCC.as_matrix`
  (`T_mat - T_mat.conjugate().T`); the exponential itself is not computable in exact arithmetic and is
  covered by the theorems of `QibProofs/Properties/C20.lean` (every such exponential is unitary).
* `numberOp L` is the total particle-number operator `Σₖ a†ₖ aₖ` after the Jordan–Wigner encoding:
  `a†ₖ aₖ ↦ (1 − Zₖ)/2`, a diagonal matrix whose entry at basis index `b` is bit `k` of `b`; the sum over all
  `k` is the number of set bits of `b` and therefore does not depend on the bit order (most/least
  significant site first) used by `PauliString.as_matrix`.
-/
namespace Qib.Vqe
open Qib

/-- entrywise difference (left operand fixes the shape, like the other `Mat` operations) -/
def sub (A B : Mat) : Mat := Mat.ofFn A.n A.m fun i j => A.get i j - B.get i j

/-- `Σ_{k<n} f k`, summed in index order -/
def sumRange (n : Nat) (f : Nat → GQ) : GQ := (List.range n).foldl (fun acc k => acc + f k) 0

/-- `state.conj().T @ M`: the row vector `vⱼ = Σᵢ conj ψᵢ · Pᵢⱼ` -/
def conjRow (ψ : Array GQ) (P : Mat) : Array GQ :=
  Array.ofFn (n := P.m) fun j => sumRange ψ.size fun i => (ψ.getD i 0).conj * P.get i j.val

/-- `(state.conj().T @ M) @ state` without the shape checks -/
def expectRaw (ψ : Array GQ) (P : Mat) : GQ :=
  let v := conjRow ψ P
  sumRange v.size fun j => v.getD j 0 * ψ.getD j 0

/-- `measure_expectation_statevector`: NumPy's `@` raises `ValueError` unless `len(state) = M.shape[0]`
(first product) and `M.shape[1] = len(state)` (second product). -/
def expect (ψ : Array GQ) (P : Mat) : Except String GQ :=
  if ψ.size ≠ P.n then .error "ValueError: matmul shape mismatch (state vs. rows)"
  else if P.m ≠ ψ.size then .error "ValueError: matmul shape mismatch (columns vs. state)"
  else .ok (expectRaw ψ P)

/-- the property's reference value `Σᵢⱼ conj ψᵢ · Pᵢⱼ · ψⱼ` (double sum, conjugate on the LEFT factor) -/
def expectSpec (ψ : Array GQ) (P : Mat) : GQ :=
  sumRange ψ.size fun i => sumRange ψ.size fun j => (ψ.getD i 0).conj * P.get i j * ψ.getD j 0

/-- exponent of the coupled-cluster ansatz: `T_mat - T_mat.conjugate().T` -/
def quccGenerator (T : Mat) : Mat := sub T T.adjoint

/-- number of set bits -/
def popcount : Nat → Nat
  | 0 => 0
  | n + 1 => (n + 1) % 2 + popcount ((n + 1) / 2)
decreasing_by omega

/-- total particle number on `L` Jordan–Wigner sites: `diag(popcount b)`, `b < 2^L` -/
def numberOp (L : Nat) : Mat :=
  Mat.ofFn (2 ^ L) (2 ^ L) fun i j => if i = j then GQ.ofRat (popcount i : Nat) else 0

def commutator (A B : Mat) : Mat := sub (A.mul B) (B.mul A)

def isZero (A : Mat) : Bool := A.data.all fun z => z == (0 : GQ)

/-- `Gᴴ = −G` -/
def isSkewAdjoint (G : Mat) : Bool := G.n == G.m && G.adjoint.beq G.neg

/-- `[N, G] = 0` for the number operator of matching size (`G` must be `2^L × 2^L`) -/
def commutesWithN (L : Nat) (G : Mat) : Bool :=
  G.n == 2 ^ L && G.m == 2 ^ L && isZero (commutator (numberOp L) G)

/-- `Σ |zᵢⱼ|²`, used to compare a commutator against a tolerance when the entries carry float rounding -/
def normSq (A : Mat) : Rat := A.data.foldl (fun acc z => acc + (z.re * z.re + z.im * z.im)) 0

end Qib.Vqe
