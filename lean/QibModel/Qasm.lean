import QibGen.QasmTable
import QibModel.Validate
/-!
Model of the translation  gate / instruction OBJECT  →  Qobj instruction dictionary (`as_qasm()`), property C18.

* `Table`      — what the classes say (`QibGen.Qasm`, regenerated from `operator/gates.py`, `operator/control_instructions.py`,
                 `util/const.py` on every run); `genTable` is the table of the current source. Everything below is generic in the table.
* `Gate`, `Obj` — the STATE of an object as far as `as_qasm` can see it: class tag, numeric parameters (exact rationals, flattened in
                 the order of `__init__`), qubit attributes (`none` = not bound yet), control qubits (`[]` = `set_control` not called
                 yet), control state; qubits / clbits / duration of the control instructions (`none` = the attribute is `None`).
                 Qubits are identified with their index (all qubits of a circuit live in one field).
* `asQasm`     — the dictionary `as_qasm()` returns, or the exception it raises. A dictionary display evaluates its entries in source
                 order, so the first key (in the order of the class's `keys`) whose value raises decides the exception.
* constructors — `mkControlled`, `setControl`, `assignMeasure` (`_assign_qubits_clbits`), `Recipe.build`: how the states are reached
                 through the public API, including what the constructors reject.
* `decode`     — the inverse: name → class, params → parameters, qubits → controls then targets (all controls on |1>).
* `toInstr`    — the instruction record the validation / Qobj model of `QibModel/Validate.lean` starts from.
-/
namespace Qib.Qasm
open QibGen.Qasm (Exc Key QSrc Dflt LeafRow CtrlRow InstrRow)

/-! ### Tables -/

structure Table where
  leaf : List LeafRow
  ctrl : List CtrlRow
  /-- class name of the controlled gate (its `type(...)` as a target of another controlled gate) -/
  ctrlCls : String
  gateDefault : Exc
  instrDefault : Exc
  measure : InstrRow
  barrier : InstrRow
  delay : InstrRow
  deriving DecidableEq, Repr

/-- the table of the current source -/
def genTable : Table :=
  { leaf := QibGen.Qasm.leafRows, ctrl := QibGen.Qasm.ctrlRows, ctrlCls := QibGen.Qasm.ctrlCls,
    gateDefault := QibGen.Qasm.gateDefault, instrDefault := QibGen.Qasm.instrDefault,
    measure := QibGen.Qasm.measureRow, barrier := QibGen.Qasm.barrierRow, delay := QibGen.Qasm.delayRow }

/-! ### Objects -/

inductive Gate where
  /-- an object of a class without sub-gates: numeric parameters, qubit attributes (`none` = unbound) -/
  | leaf (cls : String) (params : List Rat) (qubits : List (Option Int))
  /-- `ControlledGate(target, ncontrols, ctrl_state)`, `control_qubits = controls` -/
  | controlled (target : Gate) (ncontrols : Nat) (ctrlState : List Bool) (controls : List Int)
  deriving DecidableEq, Repr

inductive Obj where
  | gate (g : Gate)
  /-- `MeasureInstruction`: `self.qubits`, `self.clbits` -/
  | measure (qubits clbits : Option (List Int))
  | barrier (qubits : Option (List Int))
  | delay (duration : Rat) (qubits : Option (List Int))
  /-- any other control instruction class -/
  | other (cls : String)
  deriving DecidableEq, Repr

/-- the returned dictionary: `name` and the keys that are present -/
structure QDict where
  name : String
  params : Option (List Rat) := none
  qubits : Option (List Int) := none
  memory : Option (List Int) := none
  duration : Option Rat := none
  deriving DecidableEq, Repr

instance exceptDecEq {ε α} [DecidableEq ε] [DecidableEq α] : DecidableEq (Except ε α) := fun a b =>
  match a, b with
  | .ok x, .ok y => if h : x = y then isTrue (by rw [h]) else isFalse (by intro h'; cases h'; exact h rfl)
  | .error e, .error f => if h : e = f then isTrue (by rw [h]) else isFalse (by intro h'; cases h'; exact h rfl)
  | .ok _, .error _ => isFalse (by intro h; cases h)
  | .error _, .ok _ => isFalse (by intro h; cases h)

/-! ### Evaluation of a dictionary display -/

def errOf {α} : Except Exc α → Option Exc
  | .ok _ => none
  | .error e => some e

def valOf {α} : Except Exc α → Option α
  | .ok a => some a
  | .error _ => none

/-- what every key would evaluate to (each may raise) -/
structure Vals where
  params : Except Exc (List Rat)
  qubits : Except Exc (List Int)
  memory : Except Exc (List Int)
  duration : Except Exc Rat

def Vals.err (v : Vals) : Key → Option Exc
  | .params => errOf v.params
  | .qubits => errOf v.qubits
  | .memory => errOf v.memory
  | .duration => errOf v.duration

/-- `{'name': name, k1: v1, k2: v2, ...}`: the first key whose value raises decides; otherwise exactly the listed keys are present -/
def assemble (name : String) (keys : List Key) (v : Vals) : Except Exc QDict :=
  match keys.findSome? v.err with
  | some e => .error e
  | none => .ok { name := name,
                  params := if Key.params ∈ keys then valOf v.params else none,
                  qubits := if Key.qubits ∈ keys then valOf v.qubits else none,
                  memory := if Key.memory ∈ keys then valOf v.memory else none,
                  duration := if Key.duration ∈ keys then valOf v.duration else none }

/-- `[self.theta]`, `[self.ntheta[0], ...]`, `[self.tgate.theta, self.tgate.phi, ...]`: left to right; an attribute the object does
not have raises AttributeError -/
def evalParams (ps : List Rat) : List (Option Nat) → Except Exc (List Rat)
  | [] => .ok []
  | none :: _ => .error .AttributeError
  | some k :: rest =>
    match ps[k]? with
    | none => .error .AttributeError
    | some p =>
      match evalParams ps rest with
      | .error e => .error e
      | .ok l => .ok (p :: l)

/-- `self.control_qubits[k].index` (IndexError when `set_control` has not been called) / `self.qubit.index`
(AttributeError: 'NoneType' object has no attribute 'index', when the qubit is not bound) -/
def evalQubit (ctrls : List Int) (own : List (Option Int)) : QSrc → Except Exc Int
  | .ctrl k => match ctrls[k]? with
    | some c => .ok c
    | none => .error .IndexError
  | .own k => match own[k]? with
    | some (some q) => .ok q
    | _ => .error .AttributeError

def evalQubits (ctrls : List Int) (own : List (Option Int)) : List QSrc → Except Exc (List Int)
  | [] => .ok []
  | s :: rest =>
    match evalQubit ctrls own s with
    | .error e => .error e
    | .ok q =>
      match evalQubits ctrls own rest with
      | .error e => .error e
      | .ok l => .ok (q :: l)

/-- a gate object has no `clbits` / `duration` -/
def gateVals (params : List (Option Nat)) (qubits : List QSrc) (ps : List Rat) (ctrls : List Int) (own : List (Option Int)) : Vals :=
  { params := evalParams ps params, qubits := evalQubits ctrls own qubits,
    memory := .error .AttributeError, duration := .error .AttributeError }

/-- `[q.index for q in self.qubits]` / `[c for c in self.clbits]`: iterating `None` raises TypeError -/
def listVal : Option (List Int) → Except Exc (List Int)
  | none => .error .TypeError
  | some l => .ok l

/-! ### `as_qasm` -/

/-- `type(g).__name__` -/
def Gate.cls (T : Table) : Gate → String
  | .leaf c _ _ => c
  | .controlled _ _ _ _ => T.ctrlCls

def Gate.ownParams : Gate → List Rat
  | .leaf _ ps _ => ps
  | .controlled _ _ _ _ => []

def Gate.ownQubits : Gate → List (Option Int)
  | .leaf _ _ qs => qs
  | .controlled _ _ _ _ => []

/-- method resolution: the class's own `as_qasm`, if it defines one -/
def findLeaf (T : Table) (c : String) : Option LeafRow := T.leaf.find? (fun r => r.cls == c)

/-- the if/elif tree of `ControlledGate.as_qasm`: first branch with `self.ncontrols == n` and `type(self.tgate) is C` -/
def findCtrl (T : Table) (n : Nat) (c : String) : Option CtrlRow := T.ctrl.find? (fun r => r.ncontrols == n && r.tcls == c)

def Gate.asQasm (T : Table) : Gate → Except Exc QDict
  | .leaf c ps qs =>
    match findLeaf T c with
    | none => .error T.gateDefault
    | some r => assemble r.name r.keys (gateVals r.params r.qubits ps [] qs)
  | .controlled tg n _ ctrls =>
    match findCtrl T n (tg.cls T) with
    | none => .error T.gateDefault          -- `return super().as_qasm()`
    | some r => assemble r.name r.keys (gateVals r.params r.qubits tg.ownParams ctrls tg.ownQubits)

def Obj.asQasm (T : Table) : Obj → Except Exc QDict
  | .gate g => g.asQasm T
  | .measure qs cs => assemble T.measure.name T.measure.keys
      { params := .error .AttributeError, qubits := listVal qs, memory := listVal cs, duration := .error .AttributeError }
  | .barrier qs => assemble T.barrier.name T.barrier.keys
      { params := .error .AttributeError, qubits := listVal qs, memory := .error .AttributeError, duration := .error .AttributeError }
  | .delay d qs => assemble T.delay.name T.delay.keys
      { params := .error .AttributeError, qubits := listVal qs, memory := .error .AttributeError, duration := .ok d }
  | .other _ => .error T.instrDefault

/-- `Circuit.as_qasm`: the list of the dictionaries, in order; the first instruction that raises ends it -/
def circuitQasm (T : Table) : List Obj → Except Exc (List QDict)
  | [] => .ok []
  | o :: os =>
    match o.asQasm T with
    | .error e => .error e
    | .ok d =>
      match circuitQasm T os with
      | .error e => .error e
      | .ok ds => .ok (d :: ds)

/-! ### Constructors (how the states are reached) -/

/-- `ControlledGate.__init__`: `ctrl_state = None` means all ones; wrong length / an entry other than 0, 1: ValueError -/
def mkControlled (tg : Gate) (n : Nat) (cs : Option (List Int)) : Except Exc Gate :=
  match cs with
  | none => .ok (.controlled tg n (List.replicate n true) [])
  | some l =>
    if l.length ≠ n then .error .ValueError
    else if l.all (fun b => b == 0 || b == 1) then .ok (.controlled tg n (l.map (· == 1)) [])
    else .error .ValueError

/-- `ControlledGate.set_control` -/
def setControl (g : Gate) (qs : List Int) : Except Exc Gate :=
  match g with
  | .controlled tg n cs _ => if qs.length ≠ n then .error .ValueError else .ok (.controlled tg n cs qs)
  | .leaf _ _ _ => .error .AttributeError

/-- Python truthiness of an optional list -/
def truthy : Option (List Int) → Bool
  | some (_ :: _) => true
  | _ => false

def optLen : Option (List Int) → Nat
  | some l => l.length
  | none => 0

/-- `MeasureInstruction._assign_qubits_clbits` (constructor and `on`): lengths must match when both are given; the memory slots
default to the qubit indices; without qubits both attributes are `None` -/
def assignMeasure (qs cs : Option (List Int)) : Except Exc Obj :=
  if truthy qs && truthy cs && optLen qs != optLen cs then .error .ValueError
  else if truthy qs then .ok (.measure qs (if truthy cs then cs else qs))
  else .ok (.measure none none)

/-- how a Python argument is passed -/
inductive Arg where
  | omitted
  | none
  | val (l : List Int)
  deriving DecidableEq, Repr

def Arg.resolve (d : Dflt) : Arg → Except Exc (Option (List Int))
  | .omitted => match d with
    | .required => .error .TypeError
    | .none => .ok Option.none
    | .empty => .ok (some [])
  | .none => .ok Option.none
  | .val l => .ok (some l)

inductive GRecipe where
  | leaf (cls : String) (params : List Rat) (qubits : List (Option Int))
  /-- `ControlledGate(target, n, ctrl_state)` followed by `set_control(*controls)` if `controls` is given -/
  | controlled (target : GRecipe) (n : Nat) (ctrlState : Option (List Int)) (controls : Option (List Int))
  deriving Repr

inductive Recipe where
  | gate (g : GRecipe)
  /-- `MeasureInstruction(q, c)` followed by `.on(q', c')` calls -/
  | measure (q c : Arg) (ons : List (Arg × Arg))
  | barrier (q : Arg) (ons : List Arg)
  /-- `DelayInstruction(duration, q)`, `.on(q')` calls, then `duration = d'` assignments -/
  | delay (duration : Rat) (q : Arg) (ons : List Arg) (sets : List Rat)
  | other (cls : String)
  deriving Repr

def GRecipe.build : GRecipe → Except Exc Gate
  | .leaf c ps qs => .ok (.leaf c ps qs)
  | .controlled t n cs ctrls =>
    match t.build with
    | .error e => .error e
    | .ok tg =>
      match mkControlled tg n cs with
      | .error e => .error e
      | .ok g =>
        match ctrls with
        | none => .ok g
        | some qs => setControl g qs

def measureOns (T : Table) (cd : Dflt) : Obj → List (Arg × Arg) → Except Exc Obj
  | o, [] => .ok o
  | _, (q, c) :: rest =>
    match q.resolve T.measure.onDefault, c.resolve cd with
    | .ok qs, .ok cs =>
      match assignMeasure qs cs with
      | .error e => .error e
      | .ok o' => measureOns T cd o' rest
    | .error e, _ => .error e
    | _, .error e => .error e

def lastOn (d : Dflt) (cur : Option (List Int)) : List Arg → Except Exc (Option (List Int))
  | [] => .ok cur
  | a :: rest =>
    match a.resolve d with
    | .error e => .error e
    | .ok v => lastOn d v rest

/-- `clbitsCtor`, `clbitsOn`: defaults of the `clbits` arguments of `MeasureInstruction` -/
def Recipe.build (T : Table) (clbitsCtor clbitsOn : Dflt) : Recipe → Except Exc Obj
  | .gate g => match g.build with
    | .error e => .error e
    | .ok x => .ok (.gate x)
  | .measure q c ons =>
    match q.resolve T.measure.ctorDefault, c.resolve clbitsCtor with
    | .ok qs, .ok cs =>
      match assignMeasure qs cs with
      | .error e => .error e
      | .ok o => measureOns T clbitsOn o ons
    | .error e, _ => .error e
    | _, .error e => .error e
  | .barrier q ons =>
    match q.resolve T.barrier.ctorDefault with
    | .error e => .error e
    | .ok qs => match lastOn T.barrier.onDefault qs ons with
      | .error e => .error e
      | .ok v => .ok (.barrier v)
  | .delay d q ons sets =>
    match q.resolve T.delay.ctorDefault with
    | .error e => .error e
    | .ok qs => match lastOn T.delay.onDefault qs ons with
      | .error e => .error e
      | .ok v => .ok (.delay (sets.getLast?.getD d) v)
  | .other c => .ok (.other c)

/-! ### The inverse -/

/-- exactly the keys of the class are present -/
def shapeOK (keys : List Key) (d : QDict) : Bool :=
  d.params.isSome == decide (Key.params ∈ keys) && d.qubits.isSome == decide (Key.qubits ∈ keys) &&
  d.memory.isSome == decide (Key.memory ∈ keys) && d.duration.isSome == decide (Key.duration ∈ keys)

def decodeLeaf (r : LeafRow) (d : QDict) : Option Obj :=
  let ps := d.params.getD []
  let qs := d.qubits.getD []
  if shapeOK r.keys d && ps.length == r.nparams && qs.length == r.nqubits then
    some (.gate (.leaf r.cls ps (qs.map some)))
  else none

/-- the branch never returns: it reads an attribute the target class does not have -/
def ctrlRaises (r : CtrlRow) : Bool := r.keys.contains Key.params && r.params.contains none

/-- a controlled-gate name of the Qobj instruction set means: controls first, then the target's qubits; every control on |1> -/
def decodeCtrl (r : CtrlRow) (d : QDict) : Option Obj :=
  let ps := d.params.getD []
  let qs := d.qubits.getD []
  if shapeOK r.keys d && !ctrlRaises r && ps.length == r.tnparams && qs.length == r.ncontrols + r.tnqubits then
    some (.gate (.controlled (.leaf r.tcls ps ((qs.drop r.ncontrols).map some)) r.ncontrols
      (List.replicate r.ncontrols true) (qs.take r.ncontrols)))
  else none

def decode (T : Table) (d : QDict) : Option Obj :=
  match T.leaf.find? (fun r => r.name == d.name) with
  | some r => decodeLeaf r d
  | none =>
    match T.ctrl.find? (fun r => r.name == d.name) with
    | some r => decodeCtrl r d
    | none =>
      if d.name == T.measure.name then
        (if shapeOK T.measure.keys d then some (.measure d.qubits d.memory) else none)
      else if d.name == T.barrier.name then
        (if shapeOK T.barrier.keys d then some (.barrier d.qubits) else none)
      else if d.name == T.delay.name then
        (if shapeOK T.delay.keys d then d.duration.map (fun x => .delay x d.qubits) else none)
      else none

/-- what the Qobj cannot express: the control state (a controlled-gate name always means "all controls on |1>") -/
def Gate.norm : Gate → Gate
  | .controlled tg n _ ctrls => .controlled tg n (List.replicate n true) ctrls
  | g => g

def Obj.norm : Obj → Obj
  | .gate g => .gate g.norm
  | o => o

/-- the standard control state: the target acts iff every control is |1> -/
def Gate.StdCtrl : Gate → Prop
  | .controlled _ n cs _ => cs = List.replicate n true
  | .leaf _ _ _ => True

instance (g : Gate) : Decidable g.StdCtrl := by
  cases g <;> simp only [Gate.StdCtrl] <;> infer_instance

def Obj.StdCtrl : Obj → Prop
  | .gate g => g.StdCtrl
  | _ => True

instance (o : Obj) : Decidable o.StdCtrl := by
  cases o <;> simp only [Obj.StdCtrl] <;> infer_instance

/-! ### Well-formedness -/

/-- a leaf class whose dictionary is "own parameters in order, own qubits in order" -/
def LeafRowOK (r : LeafRow) : Prop :=
  r.keys.Nodup ∧ Key.qubits ∈ r.keys ∧ Key.memory ∉ r.keys ∧ Key.duration ∉ r.keys ∧
  (Key.params ∈ r.keys ↔ r.nparams ≠ 0) ∧
  r.params = (List.range r.nparams).map some ∧
  r.qubits = (List.range r.nqubits).map QSrc.own

instance (r : LeafRow) : Decidable (LeafRowOK r) := by unfold LeafRowOK; infer_instance

/-- a branch of the controlled-gate tree: either it can never return (`raises`), or its dictionary is "the target's parameters in
order; the control qubits in order, then the target's qubits in order" -/
def CtrlRowOK (r : CtrlRow) : Prop :=
  r.keys.Nodup ∧ Key.qubits ∈ r.keys ∧ Key.memory ∉ r.keys ∧ Key.duration ∉ r.keys ∧
  (ctrlRaises r = true ∨
    ((Key.params ∈ r.keys ↔ r.tnparams ≠ 0) ∧
     r.params = (List.range r.tnparams).map some ∧
     r.qubits = (List.range r.ncontrols).map QSrc.ctrl ++ (List.range r.tnqubits).map QSrc.own))

instance (r : CtrlRow) : Decidable (CtrlRowOK r) := by unfold CtrlRowOK; infer_instance

/-- all names a dictionary can carry -/
def Table.names (T : Table) : List String :=
  T.leaf.map (·.name) ++ T.ctrl.map (·.name) ++ [T.measure.name, T.barrier.name, T.delay.name]

/-- **the table is an injective naming**: every row has the canonical layout, names are pairwise distinct over all classes and
branches, the three instructions carry qubits (+ memory / duration); a class / a branch occurs once -/
def Table.WF (T : Table) : Prop :=
  (∀ r ∈ T.leaf, LeafRowOK r) ∧ (∀ r ∈ T.ctrl, CtrlRowOK r) ∧ T.names.Nodup ∧
  (∀ r ∈ T.ctrl, r.tcls ≠ T.ctrlCls) ∧
  (T.measure.keys.Nodup ∧ Key.qubits ∈ T.measure.keys ∧ Key.memory ∈ T.measure.keys ∧ Key.params ∉ T.measure.keys ∧ Key.duration ∉ T.measure.keys) ∧
  (T.barrier.keys.Nodup ∧ Key.qubits ∈ T.barrier.keys ∧ Key.memory ∉ T.barrier.keys ∧ Key.params ∉ T.barrier.keys ∧ Key.duration ∉ T.barrier.keys) ∧
  (T.delay.keys.Nodup ∧ Key.qubits ∈ T.delay.keys ∧ Key.duration ∈ T.delay.keys ∧ Key.params ∉ T.delay.keys ∧ Key.memory ∉ T.delay.keys) ∧
  (T.leaf.map (·.cls)).Nodup ∧ (T.ctrl.map (fun r => (r.ncontrols, r.tcls))).Nodup

section
variable {T : Table} (h : T.WF)
include h
theorem Table.WF.leafOK : ∀ r ∈ T.leaf, LeafRowOK r := h.1
theorem Table.WF.ctrlOK : ∀ r ∈ T.ctrl, CtrlRowOK r := h.2.1
theorem Table.WF.namesNodup : T.names.Nodup := h.2.2.1
theorem Table.WF.noNested : ∀ r ∈ T.ctrl, r.tcls ≠ T.ctrlCls := h.2.2.2.1
theorem Table.WF.measureOK : T.measure.keys.Nodup ∧ Key.qubits ∈ T.measure.keys ∧ Key.memory ∈ T.measure.keys ∧ Key.params ∉ T.measure.keys ∧ Key.duration ∉ T.measure.keys := h.2.2.2.2.1
theorem Table.WF.barrierOK : T.barrier.keys.Nodup ∧ Key.qubits ∈ T.barrier.keys ∧ Key.memory ∉ T.barrier.keys ∧ Key.params ∉ T.barrier.keys ∧ Key.duration ∉ T.barrier.keys := h.2.2.2.2.2.1
theorem Table.WF.delayOK : T.delay.keys.Nodup ∧ Key.qubits ∈ T.delay.keys ∧ Key.duration ∈ T.delay.keys ∧ Key.params ∉ T.delay.keys ∧ Key.memory ∉ T.delay.keys := h.2.2.2.2.2.2.1
theorem Table.WF.leafClsNodup : (T.leaf.map (·.cls)).Nodup := h.2.2.2.2.2.2.2.1
theorem Table.WF.ctrlKeyNodup : (T.ctrl.map (fun r => (r.ncontrols, r.tcls))).Nodup := h.2.2.2.2.2.2.2.2
end

instance (T : Table) : Decidable T.WF := by unfold Table.WF; infer_instance

/-- the descriptor describes an object of its class: as many parameter values / qubit attributes as the class has; as many control
state bits as controls; `control_qubits` either not set yet or of length `ncontrols` (what `__init__` / `set_control` guarantee) -/
def Gate.WF (T : Table) : Gate → Prop
  | .leaf c ps qs => ∀ r, findLeaf T c = some r → ps.length = r.nparams ∧ qs.length = r.nqubits
  | .controlled tg n cs ctrls =>
    cs.length = n ∧ (ctrls = [] ∨ ctrls.length = n) ∧
    ∀ r, findCtrl T n (tg.cls T) = some r → tg.ownParams.length = r.tnparams ∧ tg.ownQubits.length = r.tnqubits

def optDecide {α} (o : Option α) (P : α → Prop) [DecidablePred P] : Decidable (∀ a, o = some a → P a) :=
  match o with
  | none => isTrue (by simp)
  | some a => if h : P a then isTrue (by simpa using h) else isFalse (by simpa using h)

instance (T : Table) (g : Gate) : Decidable (g.WF T) := by
  cases g <;> simp only [Gate.WF]
  · exact optDecide _ _
  · have := optDecide (findCtrl T ‹Nat› (Gate.cls T ‹Gate›)) (fun r => (Gate.ownParams ‹Gate›).length = r.tnparams ∧ (Gate.ownQubits ‹Gate›).length = r.tnqubits)
    infer_instance

def Obj.WF (T : Table) : Obj → Prop
  | .gate g => g.WF T
  | _ => True

instance (T : Table) (o : Obj) : Decidable (o.WF T) := by
  cases o <;> simp only [Obj.WF] <;> infer_instance

/-! ### Specification vocabulary -/

/-- what kind of object it is, as far as the choice of the Qobj name is concerned: the class, and for a controlled gate the number of
controls and the class of the target -/
inductive Tag where
  | leaf (cls : String)
  | ctrl (n : Nat) (tcls : String)
  | measure | barrier | delay
  | other (cls : String)
  deriving DecidableEq, Repr

def Obj.tag (T : Table) : Obj → Tag
  | .gate (.leaf c _ _) => .leaf c
  | .gate (.controlled tg n _ _) => .ctrl n (tg.cls T)
  | .measure _ _ => .measure
  | .barrier _ => .barrier
  | .delay _ _ => .delay
  | .other c => .other c

/-- name → kind of object (the class a Qobj name stands for) -/
def nameTag (T : Table) (name : String) : Option Tag :=
  match T.leaf.find? (fun r => r.name == name) with
  | some r => some (.leaf r.cls)
  | none =>
    match T.ctrl.find? (fun r => r.name == name) with
    | some r => some (.ctrl r.ncontrols r.tcls)
    | none =>
      if name == T.measure.name then some .measure
      else if name == T.barrier.name then some .barrier
      else if name == T.delay.name then some .delay
      else none

/-- name → (number of parameters, number of qubits) of the instructions that carry this name -/
def nameArity (T : Table) (name : String) : Option (Nat × Nat) :=
  match T.leaf.find? (fun r => r.name == name) with
  | some r => some (r.nparams, r.nqubits)
  | none =>
    match T.ctrl.find? (fun r => r.name == name) with
    | some r => some (r.tnparams, r.ncontrols + r.tnqubits)
    | none => none

/-- **which objects have a Qobj form**: the class (the branch of the controlled-gate tree) exists and can return, every qubit the
dictionary lists is bound, the control qubits are set; an instruction has its qubit (and memory) lists -/
def Obj.Serialisable (T : Table) : Obj → Prop
  | .gate (.leaf c _ qs) => (findLeaf T c).isSome = true ∧ ∀ q ∈ qs, q.isSome = true
  | .gate (.controlled tg n _ ctrls) =>
    (∃ r, findCtrl T n (tg.cls T) = some r ∧ ctrlRaises r = false) ∧ ctrls.length = n ∧ ∀ q ∈ tg.ownQubits, q.isSome = true
  | .measure qs cs => qs.isSome = true ∧ cs.isSome = true
  | .barrier qs => qs.isSome = true
  | .delay _ qs => qs.isSome = true
  | .other _ => False

instance (T : Table) (o : Obj) : Decidable (o.Serialisable T) := by
  cases o with
  | gate g => cases g <;> simp only [Obj.Serialisable] <;> infer_instance
  | measure _ _ => simp only [Obj.Serialisable]; infer_instance
  | barrier _ => simp only [Obj.Serialisable]; infer_instance
  | delay _ _ => simp only [Obj.Serialisable]; infer_instance
  | other _ => simp only [Obj.Serialisable]; infer_instance

/-- specification: the OpenQASM 2 (`qelib1.inc`) / Qiskit standard-gate name that denotes the gate of each class. (`u3` for the
rotation-vector gate is qib's own convention `const.GATE_R`, see the remark in `C18Qasm.lean`.) -/
def stdName : List (String × String) :=
  [("IdentityGate", "id"), ("PauliXGate", "x"), ("PauliYGate", "y"), ("PauliZGate", "z"), ("HadamardGate", "h"), ("SxGate", "sx"),
   ("RxGate", "rx"), ("RyGate", "ry"), ("RzGate", "rz"), ("RotationGate", "u3"), ("SGate", "s"), ("SAdjGate", "sdg"), ("TGate", "t"),
   ("TAdjGate", "tdg"), ("ISwapGate", "iswap")]

/-- a gate with `n` controls (all on |1>) is called `c…c` + the name of its target: cx, cy, cz, ch, crx, cry, crz, cu3, cs, csdg, ccx -/
def stdCtrlName (n : Nat) (base : String) : String := String.join (List.replicate n "c") ++ base

/-- the table uses the standard names -/
def Table.Standard (T : Table) : Prop :=
  (∀ r ∈ T.leaf, stdName.lookup r.cls = some r.name) ∧
  (∀ r ∈ T.ctrl, ∃ b, stdName.lookup r.tcls = some b ∧ r.name = stdCtrlName r.ncontrols b) ∧
  T.measure.name = "measure" ∧ T.barrier.name = "barrier" ∧ T.delay.name = "delay"

instance (T : Table) : Decidable T.Standard := by unfold Table.Standard; infer_instance

/-! ### Link to the validation / Qobj model -/

/-- exact transport of a parameter (same text as the harness's `common.q`) -/
def ratToken (r : Rat) : String := toString r.num ++ "/" ++ toString r.den

/-- the instruction record `QibModel/Validate.lean` starts from: name, qubits, parameters, memory slots -/
def QDict.toInstr (d : QDict) : Wmi.Instr :=
  { name := d.name, qubits := d.qubits.getD [], params := (d.params.getD []).map ratToken, clbits := d.memory.getD [] }

/-- `gate.particles()` as indices: a leaf gate reports its qubits only when all of them are bound (`if self.qubit: return [self.qubit]`,
`if self.q1 and self.q2: ...`); a controlled gate its control qubits followed by the particles of its target -/
def Gate.particles : Gate → List Int
  | .leaf _ _ qs => if qs.all Option.isSome then qs.filterMap id else []
  | .controlled tg _ _ ctrls => ctrls ++ tg.particles

/-- `instruction.particles()`: the qubit list, `[]` when it is `None` or empty -/
def Obj.particles : Obj → List Int
  | .gate g => g.particles
  | .measure qs _ => qs.getD []
  | .barrier qs => qs.getD []
  | .delay _ qs => qs.getD []
  | .other _ => []

end Qib.Qasm
