import QibModel.Compact
import QibModel.Encode
/-!
C13, spectral part — executable definitions used by `Properties/C13Spec.lean` (Mathlib-free).

* `fermiOp n0 n1 terms` : the fermionic operator `compact_encode_field_operator` was given, as data of the C11 model
  (`QibModel/Encode.lean`): one fermionic field on `n0·n1` sites, per term the operator descriptions
  `(FERMI_CREATE, FERMI_ANNIHIL)`, the shape `(L, L)` and all entries `([i, j], c_ij)` of the coefficient array in `nditer`
  (C) order.  Its matrix in the representation of `FieldOperator.as_matrix` is `refMat` of C11 (`Σ c_ij a†_i a_j` with the
  Jordan-Wigner ladder matrices of `field_operator.py`).
* `oddMask n`, `wString n`, `conjW` : the Pauli string `W = Z₁ Z₃ Z₅ …` (a `Z` on every odd site) and conjugation of a
  string by it (`W P W† = ± P`, minus iff `P` has an odd number of `X`/`Y` letters on odd sites).
* `chainW n0 n1` : the unitary of the chain theorem as a Pauli string: `W` for a single row (`n0 = 1`), the identity for a
  single column.
* `canonSign`, `conjOp` : what the harness compares (phase of every string moved into its weight).
-/
namespace Qib.Compact
open Qib.Pauli

/-- entries of an `L × L` coefficient array in `nditer` (C) order -/
def hopEntries (L : Nat) (c : List (List Rat)) : List (List Nat × GQ) :=
  (List.range L).flatMap fun i => (List.range L).map fun j => ([i, j], realW (cget c i j))

/-- `FieldOperatorTerm([IFODesc(field, FERMI_CREATE), IFODesc(field, FERMI_ANNIHIL)], coeffs)` -/
def fermiTerm (L : Nat) (c : List (List Rat)) : Encode.Term GQ :=
  ⟨[⟨0, .create⟩, ⟨0, .annihil⟩], [L, L], hopEntries L c⟩

/-- the field operator whose terms have the coefficient matrices of `terms`, on one fermionic field with `n0·n1` sites -/
def fermiOp (n0 n1 : Nat) (terms : List Term) : Encode.FieldOp GQ :=
  ⟨[⟨true, n0 * n1⟩], terms.map fun t => fermiTerm (n0 * n1) t.coeffs⟩

/-- `[false, true, false, true, …]` of length `n` -/
def oddMask (n : Nat) : List Bool := (List.range n).map fun k => k % 2 == 1

/-- `W = Z` on every odd site -/
def wString (n : Nat) : PS := ⟨oddMask n, List.replicate n false, 0⟩

/-- the unitary of the chain theorem: `W` for a single row, the identity for a single column -/
def chainW (n0 n1 : Nat) : PS := if n0 = 1 then wString (n0 * n1) else PS.identity (n0 * n1)

/-- `W P W†` for a Pauli string `W`: `P` if they commute, `-P` otherwise -/
def conjBy (W P : PS) : PS := if W.commutesWith P then P else ⟨P.z, P.x, P.q + 2⟩

/-- conjugation of every string of an operator -/
def conjOp (W : PS) (op : PauliOp GQ) : PauliOp GQ := op.map fun e => (conjBy W e.1, e.2)

/-- `(-i)^q` as a Gaussian rational -/
def phaseGQ (q : Fin 4) : GQ :=
  match q.val with
  | 0 => ⟨1, 0⟩
  | 1 => ⟨0, -1⟩
  | 2 => ⟨-1, 0⟩
  | _ => ⟨0, 1⟩

/-- phase of every string moved into its weight, strings with equal letters merged, zero weights dropped -/
def canonOp (op : PauliOp GQ) : PauliOp GQ :=
  PauliOp.removeZero (fun w => w.absLe 0)
    (op.foldl (fun (acc : PauliOp GQ) e => PauliOp.add acc ⟨e.1.z, e.1.x, 0⟩ (phaseGQ e.1.q * e.2)) ([] : PauliOp GQ))

end Qib.Compact
