import QibModel.DriverMain
import QibModel.VqeOps
/-!
Shared driver of the algorithm cores (`drv_algo`): C19 (qubitization) and C20 (VQE).
Every core exports one `Qib.Dispatch` that answers `none` for ops it does not know; `main` tries them
in order. To add a core: import its ops module and append its dispatch to `dispatchers`.
-/
namespace Qib.Algo

def dispatchers : List Qib.Dispatch := [Qib.Vqe.dispatch]

def dispatch : Qib.Dispatch := fun op j => dispatchers.findSome? fun d => d op j

end Qib.Algo

def main : IO Unit := Qib.driverMain Qib.Algo.dispatch
