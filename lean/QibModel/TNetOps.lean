import QibModel.TNet
import QibModel.Json
/-! Driver ops `net.history`, `net.einsum`, `net.tree`, `net.value` (C08, C07; reusable for C06/C05). -/
open Lean
namespace Qib.TNet
open Qib.J

/-! ### JSON in -/

def parseOptInt (j : Json) : Except String (Option Int) :=
  match j with
  | .null => .ok none
  | _ => do return some (← int j)

def parseTensor (j : Json) : Except String (Int × STensor) := do
  match ← list j with
  | [k, tid, shape, bids, dref] =>
    return (← int k, ⟨← int tid, ← listOf nat shape, ← listOf int bids, ← parseOptInt dref⟩)
  | _ => err "tensor: expected [key, tid, shape, bids, dataref]"

def parseBond (j : Json) : Except String (Int × SBond) := do
  match ← list j with
  | [k, bid, tids] => return (← int k, ⟨← int bid, ← listOf int tids⟩)
  | _ => err "bond: expected [key, bid, tids]"

def parseNet (j : Json) : Except String Net := do
  return ⟨← (← fList j "tensors").mapM parseTensor, ← (← fList j "bonds").mapM parseBond⟩

partial def parseNT (j : Json) : Except String (NT Int) :=
  match j with
  | .arr xs => do return .a (← xs.toList.mapM parseNT)
  | _ => do return .s (← int j)

partial def shapeOfJson (j : Json) : List Nat :=
  match j with
  | .arr xs => xs.size :: (if h : 0 < xs.size then shapeOfJson xs[0] else [])
  | _ => []

abbrev Data := List (Int × DT Int)

def parseData (j : Json) : Except String Data := do
  (← list j).mapM (fun e => do
    match ← list e with
    | [k, v, sh] => return (← int k, ⟨← listOf nat sh, ← parseNT v⟩)
    | [k, v] => return (← int k, ⟨shapeOfJson v, ← parseNT v⟩)
    | _ => err "data: expected [dataref, nested array(, shape)]")

partial def parseScaffold (j : Json) : Scaffold :=
  match j with
  | .arr #[l, r] => .node (parseScaffold l) (parseScaffold r)
  | .arr _ => .bad
  | _ => match j.getInt? with
    | .ok t => .leaf t
    | .error _ => .bad

/-! ### JSON out -/

def jInt (n : Int) : Json := Json.num (JsonNumber.fromInt n)
def jNat (n : Nat) : Json := Json.num (JsonNumber.fromNat n)
def jErr (e : Err) : Json := Json.mkObj [("err", .str e.toStr)]

def tensorJson (e : Int × STensor) : Json :=
  .arr #[jInt e.1, jInt e.2.tid, ofNats e.2.shape, ofInts e.2.bids,
         match e.2.dataref with | some r => jInt r | none => .null]

def bondJson (e : Int × SBond) : Json := .arr #[jInt e.1, jInt e.2.bid, ofInts e.2.tids]

def netJson (net : Net) : List (String × Json) :=
  [("tensors", .arr (net.tensors.map tensorJson).toArray), ("bonds", .arr (net.bonds.map bondJson).toArray)]

partial def ntJson : NT Int → Json
  | .s v => jInt v
  | .a xs => .arr (xs.map ntJson).toArray

def dtJson (d : DT Int) : Json := Json.mkObj [("shape", ofNats d.shape), ("v", ntJson d.t)]

def exJson {γ : Type} (f : γ → Json) : Except Err γ → Json
  | .ok v => f v
  | .error e => jErr e

partial def ntFlat : NT Int → List Int
  | .s v => [v]
  | .a xs => xs.flatMap ntFlat

/-! ### data-level operations of `TensorNetwork` -/

def dataAcc (data : Data) (r : Option Int) (idx : List Nat) : Int :=
  match r with
  | none => 0
  | some k => match data.lookup k with
    | some d => d.get idx
    | none => 0

/-- `np.array_equal` -/
def dtEq (a b : DT Int) : Bool := a.shape == b.shape && ntFlat a.t == ntFlat b.t

/-- `TensorNetwork.is_consistent` -/
def isConsistentData (net : Net) (data : Data) : Except Err Bool := do
  if !(← isConsistent net) then return false
  return net.tensors.all (fun e => e.2.tid == -1 ||
    match e.2.dataref with
    | none => false
    | some r => match data.lookup r with
      | none => false
      | some d => d.shape == e.2.shape)

/-- number of terms of the dense value: entries of the logical tensor times internal assignments -/
def valueCost (net : Net) : Nat :=
  match dget net.tensors (-1) with
  | none => 1
  | some v => (internalBids net v).foldl (fun c b => c * bondDim net b) (v.shape.foldl (· * ·) 1)

/-- `contract_einsum`: raw result and axes map -/
def contractEinsum (net : Net) (data : Data) : Except Err (DT Int × List Nat) := do
  let e ← asEinsum net
  let args ← (e.tids.zip e.tidx).mapM (fun (p : Int × List Nat) => do
    let some t := dget net.tensors p.1 | throw Err.keyError
    let some r := t.dataref | throw Err.keyError
    let some d := data.lookup r | throw Err.keyError
    pure (d, p.2))
  let shape ← netShape net
  let ones ← (List.range e.idxout.length).filterMapM (fun k => do
    let j := e.idxout[k]!
    if e.tidx.any (·.contains j) then pure none
    else match indexOf? e.axesMap k with
      | none => throw Err.valueError
      | some p => match shape[p]? with
        | none => throw Err.indexError
        | some d => pure (some (DT.ofFn [d] (fun _ => (1 : Int)), [j])))
  let r ← einsumEval (args ++ ones) e.idxout
  return (r, e.axesMap)

def tensorDict (net : Net) (data : Data) (t : Int) : Option (DT Int) :=
  if t == -1 then none else
  match dget net.tensors t with
  | some x => x.dataref.bind (fun r => data.lookup r)
  | none => none

/-- `contract_tree` (with the single-leaf transposition now in /repo) -/
def contractTree (net : Net) (data : Data) (s : Scaffold) : Except Err (DT Int × List Nat × Tree) := do
  let tree ← buildContractionTree net s
  let (tree, perm, axesMap) ← contractTreePrep net tree
  -- the dictionary comprehension reads every tensor's data first
  for e in net.tensors do
    if e.2.tid != -1 then
      match e.2.dataref.bind (fun r => data.lookup r) with
      | some _ => pure ()
      | none => throw Err.keyError
  let dict : Int → Option (DT Int) := match tree with
    | .leaf i => fun t => if t == i.tid then (tensorDict net data t).map (fun d => d.transpose perm) else tensorDict net data t
    | .node _ _ _ => tensorDict net data
  let r ← treeEval dict tree
  return (r, axesMap, tree)

/-! ### `net.history` -/

structure HNet where
  net : Net
  data : Data
  dead : Bool

def dataJson (data : Data) : Json := .arr (data.map (fun e => Json.arr #[jInt e.1, dtJson e.2])).toArray

def stateJson (h : HNet) (limit : Nat) : Json :=
  let cnt : Json := match numTensors h.net, numOpenAxes h.net with
    | .ok nt, .ok no => .arr #[jNat nt, jNat (numBonds h.net), jNat no]
    | _, _ => .null
  let value : Json :=
    if valueCost h.net ≤ limit then exJson dtJson (fullTensor h.net (dataAcc h.data)) else .null
  Json.mkObj (netJson h.net ++ [
    ("consistent", exJson Json.bool (isConsistent h.net)),
    ("consistentData", exJson Json.bool (isConsistentData h.net h.data)),
    ("counts", cnt), ("shape", exJson ofNats (netShape h.net)),
    ("datarefs", ofInts (h.data.map (·.1))), ("value", value)])

def parseJoin (j : Json) : Except String (List (Int × Int)) := do
  (← list j).mapM (fun p => do
    match ← list p with
    | [a, b] => return (← int a, ← int b)
    | _ => err "join: expected pairs")

/-- `TensorNetwork.merge`: the symbolic merge happens first and is not undone by the data clash -/
def mergeData (a b : HNet) (join : List (Int × Int)) (to bo : List Int) : Except Err HNet × Bool :=
  match merge a.net b.net join to bo with
  | .error e => (.error e, e != .valueError)   -- the range checks precede every mutation
  | .ok net =>
    if b.data.any (fun e => match a.data.lookup e.1 with
        | some d => !dtEq d e.2
        | none => false) then (.error .valueError, true)
    else (.ok { net := net, data := dupdate a.data b.data, dead := false }, false)

def getNet (nets : List HNet) (i : Nat) : Except String HNet :=
  match nets[i]? with | some h => .ok h | none => .error "bad net index"

def opStep (limit : Nat) (nets : List HNet) (op : Json) : Except String (List HNet × Json) := do
  let l ← list op
  let kind ← match l with | k :: _ => str k | [] => err "empty op"
  let i ← match l with | _ :: i :: _ => nat i | _ => err "op without net index"
  let h ← getNet nets i
  if h.dead then return (nets, Json.mkObj [("dead", .bool true)])
  let finish := fun (r : Except Err HNet) (dies : Bool) =>
    match r with
    | .ok h' => (nets.set i h', stateJson h' limit)
    | .error e => (nets.set i { h with dead := dies }, Json.mkObj [("err", .str e.toStr), ("dies", .bool dies)])
  match kind, l with
  | "rename_tensor", [_, _, a, b] =>
    return finish ((renameTensor h.net (← int a) (← int b)).map (fun n => { h with net := n })) false
  | "rename_bond", [_, _, a, b] =>
    return finish ((renameBond h.net (← int a) (← int b)).map (fun n => { h with net := n })) false
  | "transpose", [_, _, ax] =>
    let axes ← match ax with | .null => pure none | _ => do pure (some (← listOf int ax))
    return finish ((transpose h.net axes).map (fun n => { h with net := n })) false
  | "merge", [_, _, jn, join, to, bo] =>
    let o ← getNet nets (← nat jn)
    if o.dead then return (nets, Json.mkObj [("dead", .bool true)])
    let to ← listOf int to
    let bo ← listOf int bo
    if !isPermOf to (sharedTids h.net o.net) || !isPermOf bo (sharedBids h.net o.net) then
      err "merge: the given set orders are not permutations of the shared ids"
    let (r, dies) := mergeData h o (← parseJoin join) to bo
    return finish r dies
  | _, _ => err s!"unknown history op {kind}"

def opHistory (j : Json) : Except String Json := do
  let limit := (fNat j "limit").toOption.getD 20000
  let nets ← (← fList j "nets").mapM (fun n => do
    return ({ net := ← parseNet (← field n "net"), data := ← parseData (← field n "data"), dead := false } : HNet))
  let init := nets.map (fun h => stateJson h limit)
  let (_, outs) ← (← fList j "ops").foldlM (fun (st : List HNet × List Json) op => do
    let (nets, o) ← opStep limit st.1 op
    pure (nets, st.2 ++ [o])) (nets, [])
  return Json.mkObj [("init", .arr init.toArray), ("steps", .arr outs.toArray)]

/-! ### `net.einsum` -/

def opEinsum (j : Json) : Except String Json := do
  let net ← parseNet (← field j "net")
  return exJson (fun (e : EinsumSpec) => Json.mkObj [
    ("tids", ofInts e.tids), ("tidx", .arr (e.tidx.map ofNats).toArray), ("idxout", ofNats e.idxout),
    ("axes_map", ofNats e.axesMap), ("einsumOK", .bool (einsumOK net e))]) (asEinsum net)

/-! ### `net.tree` -/

def infoJson (i : NodeInfo) : Json := Json.mkObj [
  ("tid", jInt i.tid), ("idxL", ofNats i.idxL), ("idxR", ofNats i.idxR), ("idxout", ofNats i.idxout),
  ("openaxes", .arr (i.openaxes.map (fun p => Json.arr #[jInt p.1, jNat p.2])).toArray),
  ("trackaxes", ofNats i.trackaxes)]

/-- nodes in preorder -/
def treeNodes : Tree → List NodeInfo
  | .leaf i => [i]
  | .node i l r => i :: (treeNodes l ++ treeNodes r)

def treeJson (t : Tree) : Json := .arr ((treeNodes t).map infoJson).toArray

def parsePermutes (j : Json) : Except String (List (List Bool × List Nat)) := do
  match j.getObjVal? "permutes" with
  | .error _ => return []
  | .ok p => (← list p).mapM (fun e => do
    match ← list e with
    | [path, sort] => return (← listOf (fun b => do return (← nat b) != 0) path, ← listOf nat sort)
    | _ => err "permutes: expected [path, sort]")

def applyPermutes (t : Tree) (ps : List (List Bool × List Nat)) : Except Err Tree :=
  ps.foldlM (fun t p => permuteAt t p.1 p.2) t

def opTree (j : Json) : Except String Json := do
  let net ← parseNet (← field j "net")
  let s := parseScaffold (← field j "scaffold")
  let ps ← parsePermutes j
  match buildContractionTree net s with
  | .error e => return Json.mkObj [("build", jErr e)]
  | .ok tree =>
    let prep : Json := match contractTreePrep net tree with
      | .error e => jErr e
      | .ok (t, perm, am) => Json.mkObj [("nodes", treeJson t), ("perm", ofNats perm), ("axes_map", ofNats am),
          ("nodeOK", .arr ((treeOKList net t).map Json.bool).toArray), ("rootOK", .bool (rootOKStrong net t am))]
    let permuted : Json := match applyPermutes tree ps with
      | .error e => jErr e
      | .ok t => Json.mkObj [("nodes", treeJson t), ("nodeOK", .arr ((treeOKList net t).map Json.bool).toArray)]
    return Json.mkObj [("build", treeJson tree),
      ("nodeOK", .arr ((treeOKList net tree).map Json.bool).toArray), ("prep", prep), ("permuted", permuted)]

/-! ### `net.value` -/

/-- leaves of a tree with the permutation accumulated on them (`trackaxes` of a leaf: axis ↦ leg) -/
def leafPerms : Tree → List (Int × List Nat)
  | .leaf i => [(i.tid, argsort i.trackaxes)]
  | .node _ l r => leafPerms l ++ leafPerms r

def opValue (j : Json) : Except String Json := do
  let net ← parseNet (← field j "net")
  let data ← parseData (← field j "data")
  let fullJ := exJson dtJson (fullTensor net (dataAcc data))
  let einJ : Json := match contractEinsum net data with
    | .error e => jErr e
    | .ok (r, am) => Json.mkObj [("raw", dtJson r), ("axes_map", ofNats am), ("full", exJson dtJson (toFullTensor r am))]
  let mut out := [("full", fullJ), ("einsum", einJ)]
  match j.getObjVal? "scaffold" with
  | .error _ => pure ()
  | .ok sj =>
    let s := parseScaffold sj
    let treeJ : Json := match contractTree net data s with
      | .error e => jErr e
      | .ok (r, am, t) => Json.mkObj [("raw", dtJson r), ("axes_map", ofNats am), ("full", exJson dtJson (toFullTensor r am)),
          ("certified", .bool ((treeOKList net t).all id && rootOKStrong net t am))]
    out := out ++ [("tree", treeJ)]
    -- the raw built tree, re-ordered by `permute_axes` calls; leaf data transposed by the caller accordingly
    let ps ← parsePermutes j
    let permJ : Json := match (do
        let t ← buildContractionTree net s
        let t0 := t
        let t ← applyPermutes t ps
        let dict : Int → Option (DT Int) := fun tid =>
          match (leafPerms t).lookup tid with
          | some perm => (tensorDict net data tid).map (fun d => d.transpose perm)
          | none => tensorDict net data tid
        let r0 ← treeEval (tensorDict net data) t0
        let r ← treeEval dict t
        pure (r0, r, t) : Except Err (DT Int × DT Int × Tree)) with
      | .error e => jErr e
      | .ok (r0, r, t) => Json.mkObj [("raw0", dtJson r0), ("raw", dtJson r), ("rootOut", ofNats t.info.idxout),
          ("certified", .bool ((treeOKList net t).all id))]
    out := out ++ [("tree_perm", permJ)]
  return Json.mkObj out

end Qib.TNet
