import QibModel.Gate
/-!
Executable model of what the gate classes of `gates.py` let a caller CONSTRUCT and BIND (C01, "for every gate object the
library can construct"): every `__init__` with its checks in the order of the code and the exception type it raises, and
the binding methods `on` / `set_control` / `set_auxiliary_qubits` with their arity checks and what they overwrite.

* `Expr`     – a caller's expression: a constructor call whose gate-valued arguments are again expressions
               (`ControlledGate(tgate, …)`, `MultiplexedGate([…], …)`), or a chained method call `e.on(…)`
               (the binding methods return `self`). Array arguments are described by what `np.array(arg)` /
               `np.asarray(arg)` makes of them (`NdArr`: shape, dtype class, entries); integer arguments are `Int`
               (negative values are possible and reach the `2**n` comparisons); the numerical payload the resulting
               object reports later (closed-form / `expm` / `qr` / `sqrtm` results) travels with the expression, as in
               `QibModel/Gate.lean`, and is never looked at by a constructor.
* `eval`     – Python's evaluation: arguments first (left to right, the first exception wins), then the constructor.
* `Obj`      – the live object: the `Gate.Tree` it denotes (so `Tree.mat` is its `as_matrix()`), `num_wires` as the code
               computes it (`Int`: `PhaseFactorGate` never validates `nwires`), whether `as_matrix()` can return a finite
               matrix at all (`Status`), and the binding state (`Bind`).
What the constructors do NOT check is as much part of the model as what they check: nothing for the closed-form classes,
`PhaseFactorGate` (any `nwires`), `TimeEvolutionGate` (any operator, any time), `BlockEncodingGate` (any operator: neither
Hermiticity nor the norm bound), `PrepareGate` accepts the zero vector (and divides by 0), `GeneralGate` tests unitarity
with `np.allclose` only, `MultiplexedGate` compares the number and (since the repair `53831ae`) the widths of its targets but not
their particles, no constructor checks that a gate-valued argument is bound. Core Lean only (the driver `drv_gatector` executes exactly these definitions).
-/
namespace Qib.GateCtor
open Qib Qib.Gate

/-- the exception classes the constructors / binding methods raise -/
inductive ErrKind | valueError | typeError | attributeError
  deriving DecidableEq, Repr, Inhabited

/-- dtype class of an array argument after `np.array` -/
inductive DType | int | float | complex
  deriving DecidableEq, Repr, Inhabited

/-- what `np.array(arg)` is: shape, dtype class and the entries in row-major order -/
structure NdArr where
  shape : List Nat
  dtype : DType
  data : Array GQ
  /-- an array has as many entries as its shape says -/
  wf : data.size = shape.foldl (· * ·) 1

instance : Repr NdArr := ⟨fun a _ => repr (a.shape, a.data)⟩
instance : Inhabited NdArr := ⟨⟨[0], .float, #[], rfl⟩⟩

/-- can `as_matrix()` of the constructed object return a finite matrix? `raises`: it raises (e.g. `np.identity(2**-1)`),
`nan`: it returns NaN entries (zero preparation vector divided by its norm) -/
inductive Status | ok | raises | nan
  deriving DecidableEq, Repr, Inhabited

/-- a particle argument: `None`, a particle (identified by a number), or some other object (`opaque`, e.g. a list handed to
a method that expects one particle) -/
inductive Slot | none | particle (id : Nat) | opaque
  deriving DecidableEq, Repr, Inhabited

/-- Python truthiness of a particle argument (`if self.qubit:`): only `None` is falsy -/
def Slot.truthy : Slot → Bool
  | .none => false
  | _ => true

/-- binding state of a live gate object, by the attribute layout of its class -/
inductive Bind where
  /-- `self.qubit` of the one-qubit classes -/
  | one (q : Slot)
  /-- `self.q1, self.q2` of Rxx/Ryy/Rzz (`hasOn = false`: the class has no `on`) and iSWAP (`hasOn = true`) -/
  | two (q1 q2 : Slot) (hasOn : Bool)
  /-- `self.prtcl` / `self.qubits` of PhaseFactorGate, PrepareGate, GeneralGate -/
  | list (ps : List Slot)
  /-- `self.auxiliary_qubits` of BlockEncodingGate -/
  | aux (ps : List Slot)
  /-- TimeEvolutionGate: the particles are those of the operator's fields, nothing to bind -/
  | fixed
  /-- ControlledGate: `ncontrols`, `control_qubits`, binding of the target gate object -/
  | ctrl (nc : Nat) (cq : List Slot) (t : Bind)
  /-- MultiplexedGate: `ncontrols`, `control_qubits`, bindings of the target gate objects -/
  | mplx (nc : Nat) (cq : List Slot) (ts : List Bind)
  deriving Repr, Inhabited

/-- a live gate object -/
structure Obj where
  /-- the gate tree it denotes: `as_matrix()` is `tree.mat` whenever `status = ok` -/
  tree : Tree
  /-- `num_wires` as the code computes it -/
  nw : Int
  status : Status
  bind : Bind
  deriving Repr, Inhabited

inductive Meth | on | setControl | setAux
  deriving DecidableEq, Repr, Inhabited

/-- the arguments of a binding call: ONE positional argument that is a `Sequence` (list / tuple) with the given elements, or
positional arguments none of which is a `Sequence` -/
inductive CallArgs | seq (ps : List Slot) | pos (ps : List Slot)
  deriving Repr, Inhabited

/-- `*args` methods: `if len(args) == 1 and isinstance(args[0], Sequence): list(args[0]) else list(args)` -/
def CallArgs.eff : CallArgs → List Slot
  | .seq ps => ps
  | .pos ps => ps

/-- the positional arguments as a fixed-signature method (`on(self, qubit)`) receives them -/
def CallArgs.positional : CallArgs → List Slot
  | .seq _ => [Slot.opaque]
  | .pos ps => ps

structure Call where
  meth : Meth
  args : CallArgs
  deriving Repr, Inhabited

/-- a caller's expression (see the file header) -/
inductive Expr where
  /-- `K(qubit)` / `K(theta, qubit)` for the 13 one-qubit closed-form classes: no check -/
  | leaf (cls : String) (m mi : Mat) (flag : Bool) (q : Slot)
  /-- `RxxGate/RyyGate/RzzGate(theta, q1, q2)`: no check -/
  | leaf2 (cls : String) (m mi : Mat) (flag : Bool) (q1 q2 : Slot)
  /-- `ISwapGate(q1, q2)`: both or none -/
  | iswap (q1 q2 : Slot) (m mi : Mat)
  /-- `RotationGate(ntheta, qubit)`: `np.asarray(ntheta).shape` must be `(3,)` -/
  | rotation (shape : List Nat) (q : Slot) (m mi : Mat)
  /-- `PhaseFactorGate(phi, nwires)`: no check -/
  | phase (nwires : Int) (m mi : Mat)
  /-- `PrepareGate(vec, nqubits, transpose)`; `q`, `x`: what `np.linalg.qr` and `sign·sqrt|vec|` will be -/
  | prepare (vec : NdArr) (nqubits : Int) (tr : Bool) (q : Mat) (x : List Rat)
  /-- `GeneralGate(mat, nwires)` -/
  | general (mat : NdArr) (nwires : Int)
  /-- `TimeEvolutionGate(h, t)` for an operator on `w` sites with matrix `h`; `m`, `mi`: `expm(∓ i t h)`: no check -/
  | timeEvo (w : Nat) (h : Mat) (t : Rat) (m mi : Mat)
  /-- `BlockEncodingGate(h, method)` for an operator on `nsites` sites; `s`: what `sqrtm(1 - h²)` will be: no check -/
  | block (nsites : Nat) (method : Method) (h s : Mat)
  /-- `ControlledGate(tgate, ncontrols, ctrl_state)`; `ctrl = none`: the default argument -/
  | controlled (tg : Expr) (ncontrols : Int) (ctrl : Option (List Rat))
  /-- `MultiplexedGate(tgates, ncontrols)` -/
  | multiplexed (tgs : List Expr) (ncontrols : Int)
  /-- `e.on(…)`, `e.set_control(…)`, `e.set_auxiliary_qubits(…)` (each returns `self`) -/
  | call (e : Expr) (c : Call)
  deriving Repr, Inhabited

/-! ### constants of the checks (exact values of the double-precision literals in the source) -/

/-- the double `1e-12` of `if abs(n - 1) > 1e-12` (PrepareGate) -/
def prepTol : Rat := 4951760157141521 / 4951760157141521099596496896
/-- `np.allclose` on an off-diagonal entry of the identity: `atol + rtol * 0` = the double `1e-8` -/
def tolOff : Rat := 3022314549036573 / 302231454903657293676544
/-- `np.allclose` on a diagonal entry of the identity: the double `1e-8 + 1e-5 * 1.0` -/
def tolDiag : Rat := 1477215265422661 / 147573952589676412928

/-- `2 ** n` compared with a length: for `n < 0` Python's `2 ** n` is a fraction in `(0, 1)` and equals no length -/
def pow2 (n : Int) : Option Nat := if 0 ≤ n then some (2 ^ n.toNat) else none

def ratAbs (r : Rat) : Rat := if r < 0 then -r else r

/-- `np.linalg.norm(vec, ord=1)` of a real vector, exactly -/
def norm1 (d : Array GQ) : Rat := d.foldl (fun acc z => acc + ratAbs z.re) 0

/-- `abs(a - b) <= atol + rtol * abs(b)` (`np.isclose`) against an entry `b` of the identity matrix (`diag`: `b = 1`, else
`b = 0`), decided exactly over the Gaussian rationals: `|a - b|² ≤ tol²` -/
def closeId (a : GQ) (diag : Bool) : Bool :=
  let b : Rat := if diag then 1 else 0
  let tol : Rat := if diag then tolDiag else tolOff
  decide ((a.re - b) * (a.re - b) + a.im * a.im ≤ tol * tol)

/-- `np.allclose(mat @ mat.conj().T, np.identity(mat.shape[0]))`, decided exactly -/
def allcloseUnitary (m : Mat) : Bool :=
  let p := m.mul m.adjoint
  (List.range m.n).all fun i => (List.range m.n).all fun j => closeId (p.get i j) (i == j)

/-! ### the constructors (arguments already evaluated) -/

def ctorIswap (q1 q2 : Slot) (m mi : Mat) : Except ErrKind Obj :=
  -- `if (q1 and not q2) or (not q1 and q2): raise ValueError`
  if (q1.truthy && !q2.truthy) || (!q1.truthy && q2.truthy) then .error .valueError
  else .ok ⟨.leaf "ISwapGate" 2 m mi false, 2, .ok, .two q1 q2 true⟩

def ctorRotation (shape : List Nat) (q : Slot) (m mi : Mat) : Except ErrKind Obj :=
  -- `if self.ntheta.shape != (3,): raise ValueError`
  if shape ≠ [3] then .error .valueError
  else .ok ⟨.leaf "RotationGate" 1 m mi false, 1, .ok, .one q⟩

/-- no check; for `nwires < 0` the object exists, `num_wires` is negative and `as_matrix()` raises
(`np.identity(2**nwires)` with a fractional size) -/
def ctorPhase (nwires : Int) (m mi : Mat) : Obj :=
  ⟨.leaf "PhaseFactorGate" nwires.toNat m mi false, nwires, if nwires < 0 then .raises else .ok, .list []⟩

/-- what `as_matrix()` of an accepted preparation gate can return: a float zero vector was divided by its norm 0 and is NaN
(a zero vector of length 1 is the exception: LAPACK's QR of a 1 x 1 NaN column is the identity and `nan < 0` is False) -/
def prepStatus (len : Nat) (n : Rat) : Status := if n = 0 ∧ len ≠ 1 then .nan else .ok

def ctorPrepare (v : NdArr) (nq : Int) (tr : Bool) (q : Mat) (x : List Rat) : Except ErrKind Obj :=
  match v.shape with
  | [len] =>
    -- `if not np.isrealobj(vec): raise ValueError` (a complex dtype, whatever the entries)
    if v.dtype = .complex then .error .valueError else
    -- `if vec.shape[0] != 2**nqubits: raise ValueError`
    if pow2 nq ≠ some len then .error .valueError else
    let n := norm1 v.data
    -- `if abs(n - 1) > 1e-12: vec /= n` – in place: an integer array cannot hold the quotient (UFuncTypeError, a TypeError);
    -- a float zero vector becomes NaN and the object is returned all the same
    if prepTol < ratAbs (n - 1) ∧ v.dtype = .int then .error .typeError
    else .ok ⟨.prepare nq.toNat q x tr, nq, prepStatus len n, .list []⟩
  -- `if vec.ndim != 1: raise ValueError`
  | _ => .error .valueError

def ctorGeneral (a : NdArr) (nwires : Int) : Except ErrKind Obj :=
  match pow2 nwires with
  | none => .error .valueError
  | some d =>
    -- `if mat.shape != (2**nwires, 2**nwires): raise ValueError`
    if a.shape ≠ [d, d] then .error .valueError else
    let m : Mat := ⟨d, d, a.data⟩
    -- `if not np.allclose(mat @ mat.conj().T, np.identity(mat.shape[0])): raise ValueError`
    if !allcloseUnitary m then .error .valueError
    else .ok ⟨.general nwires.toNat m, nwires, .ok, .list []⟩

/-- no check -/
def ctorTimeEvo (w : Nat) (m mi : Mat) : Obj := ⟨.timeEvo w m mi, w, .ok, .fixed⟩

/-- no check; `num_wires` = sites of the operator + one auxiliary qubit -/
def ctorBlock (nsites : Nat) (method : Method) (h s : Mat) : Obj :=
  ⟨.block (nsites + 1) method h s, (nsites : Int) + 1, .ok, .aux []⟩

/-- the control pattern the constructor works with: `ctrl_state = ncontrols * [1]` for the default argument -/
def ctrlList (nc : Int) (ctrl : Option (List Rat)) : List Rat :=
  match ctrl with
  | none => List.replicate nc.toNat 1
  | some l => l

def ctorControlled (t : Obj) (nc : Int) (ctrl : Option (List Rat)) : Except ErrKind Obj :=
  let cs := ctrlList nc ctrl
  -- `if len(ctrl_state) != ncontrols: raise ValueError`
  if (cs.length : Int) ≠ nc then .error .valueError else
  -- `for i in ctrl_state: if not i in (0, 1): raise ValueError` (`in` compares with `==`: `1.0`, `True` pass)
  if cs.any (fun x => x ≠ 0 && x ≠ 1) then .error .valueError
  else .ok ⟨.controlled (cs.map (· == 1)) t.tree, t.nw + nc, t.status, .ctrl nc.toNat [] t.bind⟩

/-- `as_matrix()` of a multiplexer evaluates the target matrices in order: the first raising target raises; otherwise a
NaN target makes the block-diagonal matrix NaN -/
def mplxStatus (ts : List Obj) : Status :=
  if ts.any (fun t => t.status = .raises) then .raises
  else if ts.any (fun t => t.status = .nan) then .nan else .ok

def ctorMultiplexed (ts : List Obj) (nc : Int) : Except ErrKind Obj :=
  -- `if len(tgates) != 2**ncontrols: raise ValueError`
  if pow2 nc ≠ some ts.length then .error .valueError else
  match ts with
  | [] => .error .valueError
  | t0 :: _ =>
    -- `if any(g.num_wires != tgates[0].num_wires for g in tgates): raise ValueError`
    if ts.any (fun t => t.nw ≠ t0.nw) then .error .valueError
    else .ok ⟨.multiplexed nc.toNat (ts.map (·.tree)), t0.nw + nc, mplxStatus ts, .mplx nc.toNat [] (ts.map (·.bind))⟩

/-! ### the binding methods -/

/-- `o.on(…)` / `o.set_control(…)` / `o.set_auxiliary_qubits(…)`: the class of the object decides which methods exist
(`AttributeError` otherwise), fixed-signature methods raise `TypeError` on a wrong number of positional arguments, the
`*args` methods raise `ValueError` unless the effective list has the required length; only the binding is overwritten -/
def applyCall (o : Obj) (c : Call) : Except ErrKind Obj :=
  match o.bind, c.meth with
  | .one _, .on =>
    match c.args.positional with
    | [q] => .ok { o with bind := .one q }
    | _ => .error .typeError
  | .two _ _ true, .on =>
    match c.args.positional with
    | [a, b] => .ok { o with bind := .two a b true }
    | _ => .error .typeError
  | .list _, .on =>
    -- `if len(prtcl) != self.nwires: raise ValueError`
    if (c.args.eff.length : Int) ≠ o.nw then .error .valueError else .ok { o with bind := .list c.args.eff }
  | .aux _, .setAux =>
    -- `if len(auxiliary_qubits) != self.num_aux_qubits: raise ValueError` (`num_aux_qubits` is 1 for every method)
    if c.args.eff.length ≠ 1 then .error .valueError else .ok { o with bind := .aux c.args.eff }
  | .ctrl nc _ t, .setControl =>
    -- `if len(control_qubits) != self.ncontrols: raise ValueError`
    if c.args.eff.length ≠ nc then .error .valueError else .ok { o with bind := .ctrl nc c.args.eff t }
  | .mplx nc _ ts, .setControl =>
    if c.args.eff.length ≠ nc then .error .valueError else .ok { o with bind := .mplx nc c.args.eff ts }
  | _, _ => .error .attributeError

/-! ### evaluation of an expression -/

mutual
def eval : Expr → Except ErrKind Obj
  | .leaf cls m mi f q => .ok ⟨.leaf cls 1 m mi f, 1, .ok, .one q⟩
  | .leaf2 cls m mi f q1 q2 => .ok ⟨.leaf cls 2 m mi f, 2, .ok, .two q1 q2 false⟩
  | .iswap q1 q2 m mi => ctorIswap q1 q2 m mi
  | .rotation shape q m mi => ctorRotation shape q m mi
  | .phase nw m mi => .ok (ctorPhase nw m mi)
  | .prepare v nq tr q x => ctorPrepare v nq tr q x
  | .general a nw => ctorGeneral a nw
  | .timeEvo w _ _ m mi => .ok (ctorTimeEvo w m mi)
  | .block ns meth h s => .ok (ctorBlock ns meth h s)
  -- the gate-valued argument first (its exception wins), then the constructor
  | .controlled tg nc ctrl => (eval tg).bind fun t => ctorControlled t nc ctrl
  | .multiplexed tgs nc => (evalList tgs).bind fun ts => ctorMultiplexed ts nc
  | .call e c => (eval e).bind fun o => applyCall o c
termination_by structural e => e
/-- a list display `[e₁, e₂, …]`: left to right, the first exception wins -/
def evalList : List Expr → Except ErrKind (List Obj)
  | [] => .ok []
  | e :: es => (eval e).bind fun o => (evalList es).bind fun os => .ok (o :: os)
termination_by structural es => es
end

/-- `construct`: what Python makes of the caller's expression -/
def construct (e : Expr) : Except ErrKind Obj := eval e

/-! ### `particles()` of the classes whose particles are stored in the object -/

mutual
def Bind.particles : Bind → List Slot
  | .one q => if q.truthy then [q] else []
  | .two q1 q2 true => if q1.truthy && q2.truthy then [q1, q2] else []
  | .two q1 q2 false => [q2, q1]
  | .list ps => ps
  | .aux ps => ps
  | .fixed => []
  | .ctrl _ cq t => cq ++ t.particles
  | .mplx _ cq ts => cq ++ headParticles ts
def headParticles : List Bind → List Slot
  | [] => []
  | t :: _ => t.particles
end

end Qib.GateCtor
