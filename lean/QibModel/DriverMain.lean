import QibModel.Json
/-!
Line-protocol driver shell: one JSON object per input line (`{"id":…, "op":…, …}`), one JSON reply per
line (`{"id":…, "ok":…}` or `{"id":…, "err":…}`). Each core has its own executable whose `main` is
`Qib.driverMain <dispatch>`; only the model's own definitions are executed.
-/
open Lean
namespace Qib

abbrev Dispatch := String → Json → Option (Except String Json)

def handleLine (d : Dispatch) (line : String) : String :=
  match Json.parse line with
  | .error e => (Json.mkObj [("id", Json.null), ("err", .str s!"parse: {e}")]).compress
  | .ok j =>
    let id := (j.getObjVal? "id").toOption.getD Json.null
    match j.getObjVal? "op" with
    | .ok (.str op) =>
      match d op j with
      | some (.ok r) => (Json.mkObj [("id", id), ("ok", r)]).compress
      | some (.error e) => (Json.mkObj [("id", id), ("err", .str e)]).compress
      | none => (Json.mkObj [("id", id), ("err", .str s!"unknown op {op}")]).compress
    | _ => (Json.mkObj [("id", id), ("err", .str "no op")]).compress

partial def driverLoop (d : Dispatch) (h : IO.FS.Stream) (out : IO.FS.Stream) : IO Unit := do
  let line ← h.getLine
  if line.isEmpty then return ()
  if line.trimAscii.toString.isEmpty then driverLoop d h out else
  out.putStrLn (handleLine d line)
  driverLoop d h out

def driverMain (d : Dispatch) : IO Unit := do
  let out ← IO.getStdout
  driverLoop d (← IO.getStdin) out
  out.flush

end Qib
