import QibModel.DriverMain
import QibModel.CompactOps
open Lean Qib

def compactDispatch : Dispatch := fun op j =>
  match op with
  | "compact.vertex" => some (Compact.opVertex j)
  | "compact.edge" => some (Compact.opEdge j)
  | "compact.loop" => some (Compact.opLoop j)
  | "compact.closed" => some (Compact.opClosed j)
  | "compact.shape" => some (Compact.opShape j)
  | "compact.encode" => some (Compact.opEncode j)
  | "compact.chain" => some (Compact.opChain j)
  | "ofc.face" => some (Compact.opFace j)
  | _ => none

def main : IO Unit := driverMain compactDispatch
