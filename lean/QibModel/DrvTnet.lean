import QibModel.DriverMain
import QibModel.TNetOps
import QibModel.TNetPublicOps
open Lean Qib

def tnetDispatch : Dispatch := fun op j =>
  match op with
  | "net.history" => some (TNet.opHistory j)
  | "net.historyP" => some (TNet.opHistoryP j)
  | "net.einsum" => some (TNet.opEinsum j)
  | "net.tree" => some (TNet.opTree j)
  | "net.value" => some (TNet.opValue j)
  | _ => none

def main : IO Unit := driverMain tnetDispatch
