import QibModel.GateNet
import QibModel.GQ
import QibModel.DriverMain
/-! Driver op `gate.net` (C06): a gate description with numeric leaf matrices (exact Gaussian rationals) ↦ the
model's network, data arrays, consistency flags, open-axis layout, dense denotation and matrix. -/
open Lean
namespace Qib.GateNet
open Qib Qib.J Qib.TNet

/-! ### JSON in -/

def parseBools (j : Json) : Except String (List Bool) := do
  (← list j).mapM fun x => do
    let n ← nat x
    if n == 0 then pure false else if n == 1 then pure true else .error "control bit must be 0 or 1"

def matFn (M : Mat) : Nat → Nat → GQ := fun i j => M.get i j

partial def parseG (j : Json) : Except String (G GQ) := do
  let k ← fStr j "k"
  match k with
  | "leaf" => return .leaf (← fNat j "w") (matFn (← Mat.ofJson (← field j "m")))
  | "dense" => return .dense (← fNat j "w") (matFn (← Mat.ofJson (← field j "m")))
  | "phase" => return .phase (← fNat j "n") (← GQ.ofJson (← field j "u")) (← GQ.ofJson (← field j "un"))
  | "prepare" =>
    let x ← (← fList j "x").mapM GQ.ofJson
    let xa := x.toArray
    return .prepare (← fNat j "n") (fun i => xa.getD i 0) (matFn (← Mat.ofJson (← field j "m"))) (← fBool j "tr")
  | "block" => return .block (← fNat j "w") (matFn (← Mat.ofJson (← field j "m")))
  | "controlled" => return .controlled (← parseBools (← field j "cs")) (← parseG (← field j "t"))
  | "multiplexed" => return .multiplexed (← fNat j "nc") (← (← fList j "ts").mapM parseG)
  | _ => .error s!"bad gate kind {k}"

/-! ### JSON out -/

def jInt (n : Int) : Json := Json.num (JsonNumber.fromInt n)
def jNat (n : Nat) : Json := Json.num (JsonNumber.fromNat n)

def tensorJson (e : Int × STensor) : Json :=
  .arr #[jInt e.1, jInt e.2.tid, ofNats e.2.shape, ofInts e.2.bids,
         match e.2.dataref with | some r => jInt r | none => .null]

def bondJson (e : Int × SBond) : Json := .arr #[jInt e.1, jInt e.2.bid, ofInts e.2.tids]

partial def ntFlat {α : Type} : NT α → List α
  | .s v => [v]
  | .a xs => xs.flatMap ntFlat

def dtJson (d : DT GQ) : Json :=
  Json.mkObj [("shape", ofNats d.shape), ("v", .arr ((ntFlat d.t).map GQ.toJson).toArray)]

def exErr (e : TNet.Err) : Json := Json.mkObj [("err", .str e.toStr)]

/-- number of terms of the dense value -/
def valueCost (net : Net) : Nat :=
  match dget net.tensors (-1) with
  | none => 1
  | some v => (internalBids net v).foldl (fun c b => c * bondDim net b) (v.shape.foldl (· * ·) 1)

def matJson (w : Nat) (M : Nat → Nat → GQ) : Json :=
  let d := 2 ^ w
  (Mat.ofFn d d M).toJson

def opGateNet (j : Json) : Except String Json := do
  let g ← parseG (← field j "g")
  let limit := (fNat j "limit").toOption.getD 3000000
  let w := g.wires
  let base : List (String × Json) := [("wires", jNat w)]
  let base := if (4 : Nat) ^ w ≤ limit then base ++ [("mat", matJson w g.mat)] else base
  match gateNet g with
  | .error e => return Json.mkObj (base ++ [("err", .str e.toStr)])
  | .ok tn =>
    let net := tn.net
    let fullJ : Json :=
      if valueCost net ≤ limit then
        (match fullTensor net tn.D with
         | .ok d => dtJson d
         | .error e => exErr e)
      else .null
    return Json.mkObj (base ++ [
      ("tensors", .arr (net.tensors.map tensorJson).toArray),
      ("bonds", .arr (net.bonds.map bondJson).toArray),
      ("data", .arr (tn.data.map (fun e => Json.arr #[jInt e.1, dtJson e.2])).toArray),
      ("consistent", match isConsistent net with | .ok b => .bool b | .error e => exErr e),
      ("consistentData", match isConsistentData tn with | .ok b => .bool b | .error e => exErr e),
      ("numOpen", match numOpenAxes net with | .ok n => jNat n | .error e => exErr e),
      ("shape", match netShape net with | .ok s => ofNats s | .error e => exErr e),
      ("full", fullJ)])

def dispatch : Dispatch := fun op j =>
  match op with
  | "gate.net" => some (opGateNet j)
  | _ => none

end Qib.GateNet
