import QibModel.Pauli
/-!
Core D — executable model of `qib/transform/jordan_wigner_encoding.py` and `qib/transform/parity_encoding.py`
(Mathlib-free; reuses the Pauli model `QibModel/Pauli.lean`: `PS`, `PS.mul`, `PS.refactorSign`,
`PauliOp.add`, `PauliOp.removeZero`).

The field operator is *data*: the fields it refers to (particle type, number of lattice sites), and per term
the operator descriptions (field id, operator type), the shape of the coefficient array and its entries
`(multi_index, coefficient)` in the order in which `np.nditer` visits them (zero entries included; the model
skips them itself, like the code).

* `ladderStrings enc L i` : the strings built in the `for i in range(L)` loop – `(s₀, s₁ᶜ, s₁ᵃ)` with
  `clist[i] = [s₀, s₁ᶜ]`, `alist[i] = [s₀, s₁ᵃ]`;
  Jordan-Wigner: `za = i*[0]+[0]+(L-i-1)*[1]`, `zb = i*[0]+[1]+(L-i-1)*[1]`, `x = i*[0]+[1]+(L-i-1)*[0]`;
  parity: `za = L*[0]` (i = 0) or `(i-1)*[0]+[1]+(L-i)*[0]`, `zb = i*[0]+[1]+(L-i-1)*[0]`, `x = i*[0]+[1]+(L-i-1)*[1]`;
  phases `q = 0`, `1` (create), `3` (annihilate).
* `expand`       : the product expansion `pstrings = [ps @ s₀ …] + [ps @ s₁ …]` along `enumerate(multi_index)`,
  with the code's rejections (`RuntimeError` for a non-fermionic operator type, `IndexError` for a site
  index `≥ L` or a multi-index longer than `opdesc`).
* `addStrings`   : `sign = ps.refactor_sign(); add_pauli_string(ps, sign * weight)` for every string.
* `encodeTerm`   : the `nditer` loop (`ValueError` for a zero-sized coefficient array, `coeff == 0` skipped,
  `weight = 0.5 ** len(opdesc) * coeff`).
* `encodeRaw`    : field check (`NotImplementedError` unless exactly one field and it is fermionic), all terms.
* `encode`       : `encodeRaw` followed by `remove_zero_weight_strings(tol)`.
-/
namespace Qib.Encode
open Qib.Pauli

/-- exception classes raised by the encoders -/
inductive Err where
  | notImplemented | runtimeError | indexError | valueError
  deriving DecidableEq, Repr

def Err.toStr : Err → String
  | .notImplemented => "NotImplementedError"
  | .runtimeError => "RuntimeError"
  | .indexError => "IndexError"
  | .valueError => "ValueError"

/-- scalars of the weights: what `0.5 ** k * coeff`, `sign * weight`, `weight += …`, `coeff == 0` need -/
class EncScalar (α : Type) extends Add α, Mul α, One α where
  /-- the literal `0.5` -/
  half : α
  /-- an `int` sign factor as a scalar (`sign * weight`) -/
  ofInt : Int → α
  /-- `coeff == 0` -/
  isZero : α → Bool

instance : EncScalar GQ where
  half := ⟨1 / 2, 0⟩
  ofInt n := ⟨(n : Rat), 0⟩
  isZero a := a.re == 0 && a.im == 0

/-- `0.5 ** k` -/
def powHalf {α : Type} [EncScalar α] : Nat → α
  | 0 => 1
  | k + 1 => powHalf k * EncScalar.half

/-- which encoder -/
inductive Enc where
  | jw | parity
  deriving DecidableEq, Repr

/-- `IFOType` as far as the encoders distinguish it -/
inductive OType where
  | create   -- FERMI_CREATE
  | annihil  -- FERMI_ANNIHIL
  | other    -- any other member (reachable only by mutating an `IFODesc` after construction)
  deriving DecidableEq, Repr

/-- `IFODesc`: field (identified by its position in `FieldOp.fields`) and operator type -/
structure Desc where
  field : Nat
  otype : OType
  deriving DecidableEq, Repr

/-- `Field`: is the particle type `FERMION`, and `lattice.nsites` -/
structure FieldSpec where
  fermion : Bool
  nsites : Nat
  deriving DecidableEq, Repr

/-- `FieldOperatorTerm`: operator descriptions, `coeffs.shape`, and the entries in `nditer` order -/
structure Term (α : Type) where
  ops : List Desc
  shape : List Nat
  entries : List (List Nat × α)

structure FieldOp (α : Type) where
  fields : List FieldSpec
  terms : List (Term α)

/-! ### the strings per ladder operator -/

/-- `a*[u] + [v] + b*[w]` -/
def pat (a : Nat) (u v : Bool) (b : Nat) (w : Bool) : List Bool :=
  List.replicate a u ++ [v] ++ List.replicate b w

/-- `(za, zb, x)` of the loop body for site `i` -/
def zzx : Enc → Nat → Nat → List Bool × List Bool × List Bool
  | .jw, L, i => (pat i false false (L - i - 1) true, pat i false true (L - i - 1) true, pat i false true (L - i - 1) false)
  | .parity, L, i =>
    ((if i = 0 then List.replicate L false else pat (i - 1) false true (L - i) false),
     pat i false true (L - i - 1) false, pat i false true (L - i - 1) true)

/-- `PauliString(za, x, 0)` -/
def s0 (enc : Enc) (L i : Nat) : PS := ⟨(zzx enc L i).1, (zzx enc L i).2.2, 0⟩
/-- `PauliString(zb, x, 1)` (creation) -/
def s1c (enc : Enc) (L i : Nat) : PS := ⟨(zzx enc L i).2.1, (zzx enc L i).2.2, 1⟩
/-- `PauliString(zb, x, 3)` (annihilation) -/
def s1a (enc : Enc) (L i : Nat) : PS := ⟨(zzx enc L i).2.1, (zzx enc L i).2.2, 3⟩

/-- `clist[i]` (create = true) / `alist[i]` -/
def ladderPair (enc : Enc) (L i : Nat) (create : Bool) : PS × PS :=
  (s0 enc L i, if create then s1c enc L i else s1a enc L i)

/-! ### the reference ladder operator (what `FieldOperator.as_matrix` builds per site) -/

/-- one Kronecker factor of `clist[i]` / `alist[i]` at site `k`: identity before `i`, `U = [[0,0],[1,0]]` (creation) or its
transpose on site `i`, `Z` on later sites -/
def ladderSite (i : Nat) (create : Bool) (k : Nat) (rb cb : Bool) : Int :=
  if k < i then (if rb = cb then 1 else 0)
  else if k = i then (if create then (if rb && !cb then 1 else 0) else (if !rb && cb then 1 else 0))
  else (if rb = cb then (if rb then -1 else 1) else 0)

/-- entry of the reference ladder matrix at flat indices (site 0 most significant) -/
def ladderEntry (L i : Nat) (create : Bool) (r c : Nat) : Int :=
  ((List.range L).map fun k => ladderSite i create k (bitAt L k r) (bitAt L k c)).prod

/-- all non-zero entries `(r, c, value)`, row-major -/
def ladderSparse (L i : Nat) (create : Bool) : List (Nat × Nat × Int) :=
  let d := 2 ^ L
  (List.range d).flatMap fun r => (List.range d).filterMap fun c =>
    let e := ladderEntry L i create r c
    if e == 0 then none else some (r, c, e)

/-! ### product expansion -/

/-- `[ps @ a for ps in pstrings] + [ps @ b for ps in pstrings]` -/
def expandStep (ps : List PS) (a b : PS) : List PS := ps.map (·.mul a) ++ ps.map (·.mul b)

/-- the loop `for i, j in enumerate(it.multi_index)`: `term.opdesc[i]` (IndexError if `i` is out of range),
its type (RuntimeError if not fermionic), then `clist[j]` / `alist[j]` (IndexError if `j ≥ L`) -/
def expand (enc : Enc) (L : Nat) : List Desc → List Nat → List PS → Except Err (List PS)
  | _, [], acc => .ok acc
  | [], _ :: _, _ => .error .indexError
  | d :: ds, j :: js, acc =>
    match d.otype with
    | .other => .error .runtimeError
    | .create =>
      if j < L then expand enc L ds js (expandStep acc (s0 enc L j) (s1c enc L j)) else .error .indexError
    | .annihil =>
      if j < L then expand enc L ds js (expandStep acc (s0 enc L j) (s1a enc L j)) else .error .indexError

variable {α : Type} [EncScalar α]

/-- `for ps in pstrings: sign = ps.refactor_sign(); pauliop.add_pauli_string(WeightedPauliString(ps, sign * weight))` -/
def addStrings (op : PauliOp α) (strings : List PS) (w : α) : PauliOp α :=
  strings.foldl (fun o ps => o.add ps.refactorSign.2 (EncScalar.ofInt ps.refactorSign.1 * w)) op

/-- one coefficient of a term -/
def encodeEntry (enc : Enc) (L : Nat) (ops : List Desc) (op : PauliOp α) (e : List Nat × α) :
    Except Err (PauliOp α) :=
  if EncScalar.isZero e.2 then .ok op else
  match expand enc L ops e.1 [PS.identity L] with
  | .error err => .error err
  | .ok strings => .ok (addStrings op strings (powHalf ops.length * e.2))

/-- left fold that stops at the first exception -/
def foldE {β γ : Type} (f : β → γ → Except Err β) : β → List γ → Except Err β
  | b, [] => .ok b
  | b, c :: cs => match f b c with
    | .error e => .error e
    | .ok b' => foldE f b' cs

/-- one term: `np.nditer` refuses zero-sized arrays (`ValueError`), then every coefficient -/
def encodeTerm (enc : Enc) (L : Nat) (op : PauliOp α) (t : Term α) : Except Err (PauliOp α) :=
  if t.shape.any (· == 0) then .error .valueError else
  foldE (encodeEntry enc L t.ops) op t.entries

/-- `FieldOperator.fields()`: the distinct fields in order of first appearance -/
def fieldIds (terms : List (Term α)) : List Nat :=
  (terms.flatMap fun t => t.ops.map (·.field)).eraseDups

/-- `len(fields) != 1 or fields[0].ptype != FERMION → NotImplementedError`; otherwise `L = nsites` -/
def fieldCheck (fop : FieldOp α) : Except Err Nat :=
  match fieldIds fop.terms with
  | [f] => match fop.fields[f]? with
    | some spec => if spec.fermion then .ok spec.nsites else .error .notImplemented
    | none => .error .notImplemented
  | _ => .error .notImplemented

/-- the operator before pruning -/
def encodeRaw (enc : Enc) (fop : FieldOp α) : Except Err (PauliOp α) :=
  match fieldCheck fop with
  | .error e => .error e
  | .ok L => foldE (encodeTerm enc L) [] fop.terms

/-- the encoder: `encodeRaw` then `remove_zero_weight_strings(tol)` (`isZ w` = `abs(w) <= tol`) -/
def encode (enc : Enc) (isZ : α → Bool) (fop : FieldOp α) : Except Err (PauliOp α) :=
  match encodeRaw enc fop with
  | .error e => .error e
  | .ok op => .ok (op.removeZero isZ)

end Qib.Encode
