import QibModel.Embed
import QibModel.Json
/-!
Driver ops of Core B (C04, C05 matrix part): `embed`, `gate.circuit_matrix`, `wire`, `permute`,
`circuit.matrix`, `circuit.history`. Exact Gaussian rationals only.

Numbers: a JSON integer or a string `"p/q"`; complex = `[re, im]`.
Replies: `{"raised": kind}` when the modelled code raises, otherwise the value.
Dense matrices may be requested rounded: with `"round_bits": b` every real/imaginary part `x` is returned as the
integer `⌊x·2^b + 1/2⌋` (a string), i.e. the nearest multiple of `2^-b` — exact integer arithmetic, no floats.
-/
open Lean
namespace Qib.Embed
open Qib.J

/-- Gaussian rationals -/
structure GQ where
  re : Rat
  im : Rat
  deriving DecidableEq

instance : Zero GQ := ⟨⟨0, 0⟩⟩
instance : One GQ := ⟨⟨1, 0⟩⟩
instance : Add GQ := ⟨fun a b => ⟨a.re + b.re, a.im + b.im⟩⟩
instance : Neg GQ := ⟨fun a => ⟨-a.re, -a.im⟩⟩
instance : Mul GQ := ⟨fun a b =>
  -- skip the four rational products when a factor is zero (embedded gates are sparse); same value
  if a = ⟨0, 0⟩ ∨ b = ⟨0, 0⟩ then ⟨0, 0⟩ else ⟨a.re * b.re - a.im * b.im, a.re * b.im + a.im * b.re⟩⟩

/-! #### parsing -/

def parseRat (j : Json) : Except String Rat :=
  match j with
  | .str s =>
    match s.splitOn "/" with
    | [a] => match a.toInt? with | some n => .ok (n : Rat) | none => .error s!"bad rational {s}"
    | [a, b] =>
      match a.toInt?, b.toNat? with
      | some n, some d => if d = 0 then .error "zero denominator" else .ok ((n : Rat) / (d : Rat))
      | _, _ => .error s!"bad rational {s}"
    | _ => .error s!"bad rational {s}"
  | _ => match j.getInt? with
    | .ok n => .ok (n : Rat)
    | .error _ => .error "expected integer or \"p/q\""

def parseGQ (j : Json) : Except String GQ :=
  match j with
  | .arr #[a, b] => do return ⟨← parseRat a, ← parseRat b⟩
  | _ => do return ⟨← parseRat j, 0⟩

/-- a dense matrix as array of rows; returns (rows, cols, entry function backed by arrays) -/
def parseDense (j : Json) : Except String (Nat × Nat × (Nat → Nat → GQ)) := do
  let rows ← (← arr j).mapM fun r => do (← arr r).mapM parseGQ
  let nr := rows.size
  let nc := if h : 0 < rows.size then rows[0].size else 0
  if rows.any (fun r => r.size != nc) then throw "ragged matrix"
  return (nr, nc, fun i k => (rows.getD i #[]).getD k 0)

def parseField (j : Json) : Except String FieldSpec :=
  match j with
  | .arr #[a, b, c] => do return ⟨← nat a, ← nat b, ← nat c⟩
  | _ => .error "field = [id, nsites, local_dim]"

def parseParticle (j : Json) : Except String ParticleSpec :=
  match j with
  | .arr #[a, b] => do return ⟨← nat a, ← int b⟩
  | _ => .error "particle = [field id, index]"

/-- value of a gate object / control instruction as the builder sees it -/
def parseInstr (j : Json) : Except String (Instr GQ) :=
  match j with
  | .str "ctrl" => .ok .ctrl
  | _ => do
    let ps ← (← fList j "particles").mapM parseParticle
    let (nr, _, g) ← parseDense (← field j "g")
    return .gate ps nr g

/-! #### printing -/

def ratJson (x : Rat) : Json := .str s!"{x.num}/{x.den}"
def gqJson (z : GQ) : Json := .arr #[ratJson z.re, ratJson z.im]

def roundBits (b : Nat) (x : Rat) : Int :=
  (2 * x.num * (2 : Int) ^ b + x.den) / (2 * (x.den : Int))

def gqOut (rb : Option Nat) (z : GQ) : Json :=
  match rb with
  | none => gqJson z
  | some b => .arr #[.str (toString (roundBits b z.re)), .str (toString (roundBits b z.im))]

def raised (e : Err) : Json := Json.mkObj [("raised", .str e.toStr)]

def dmatJson {N : Nat} (rb : Option Nat) (A : DMat GQ N) : Json :=
  .arr (A.toArray.map fun r => .arr (r.toArray.map (gqOut rb)))

def denseJson (rb : Option Nat) (d : Nat) (f : Nat → Nat → GQ) : Json :=
  .arr ((Array.range d).map fun i => .arr ((Array.range d).map fun k => gqOut rb (f i k)))

/-- canonical form of a COO list: sorted by (row, col), duplicates summed (what scipy's constructor does) -/
def canonCoo (coo : Coo GQ) : List (Nat × Nat × GQ) :=
  let sorted := coo.toArray.qsort (fun a b => a.1 < b.1 || (a.1 == b.1 && a.2.1 < b.2.1))
  sorted.foldl (init := ([] : List (Nat × Nat × GQ))) (fun acc e =>
    match acc with
    | (r, c, v) :: rest => if r == e.1 && c == e.2.1 then (r, c, v + e.2.2) :: rest else e :: acc
    | [] => [e]) |>.reverse

def cooJson (coo : Coo GQ) : Json :=
  .arr ((canonCoo coo).map fun e => Json.arr #[.num (JsonNumber.fromNat e.1), .num (JsonNumber.fromNat e.2.1), gqJson e.2.2]).toArray

def optRound (j : Json) : Option Nat := (fNat j "round_bits").toOption

/-! #### ops -/

/-- `embed {n, iw, g}` ↦ `_distribute_to_wires(n, iw, csr_matrix(g))` -/
def opEmbed (j : Json) : Except String Json := do
  let n ← fNat j "n"
  let iw ← (← fList j "iw").mapM int
  let (nr, nc, g) ← parseDense (← field j "g")
  -- csr_matrix(g) stores the non-zero entries of the nr × nc array row by row
  let coo : Coo GQ := (List.range nr).flatMap fun r =>
    (List.range nc).filterMap fun c => if g r c = 0 then none else some (r, c, g r c)
  match distributeToWiresI n iw nr nc coo with
  | .error e => return raised e
  | .ok out => return Json.mkObj [("coo", cooJson out), ("nnz", .num (JsonNumber.fromNat out.length))]

/-- `gate.circuit_matrix {fields, particles, g}` ↦ `gate.as_circuit_matrix(fields)` -/
def opGateCircuitMatrix (j : Json) : Except String Json := do
  let fields ← (← fList j "fields").mapM parseField
  let ps ← (← fList j "particles").mapM parseParticle
  let (nr, _, g) ← parseDense (← field j "g")
  match gateCircuitMatrix fields ps nr g with
  | .error e => return raised e
  | .ok (n, out) => return Json.mkObj [("n", .num (JsonNumber.fromNat n)), ("coo", cooJson out)]

/-- `wire {fields, particle}` ↦ `map_particle_to_wire(fields, p)` -/
def opWire (j : Json) : Except String Json := do
  let fields ← (← fList j "fields").mapM parseField
  let p ← parseParticle (← field j "particle")
  return .num (JsonNumber.fromInt (mapParticleToWire fields p))

/-- `permute {u, perm}` ↦ `permute_gate_wires(u, perm)` -/
def opPermute (j : Json) : Except String Json := do
  let perm ← (← fList j "perm").mapM nat
  let (nr, nc, u) ← parseDense (← field j "u")
  match permuteGateWires perm nr nc u with
  | .error e => return raised e
  | .ok f => return Json.mkObj [("mat", denseJson none nr f)]

def matOrRaised (rb : Option Nat) {N : Nat} : Except Err (DMat GQ N) → Json
  | .error e => raised e
  | .ok M => Json.mkObj [("mat", dmatJson rb M)]

/-- `circuit.matrix {fields, gates}` ↦ `Circuit(gates).as_matrix(fields)` -/
def opCircuitMatrix (j : Json) : Except String Json := do
  let fields ← (← fList j "fields").mapM parseField
  let instrs ← (← fList j "gates").mapM parseInstr
  return matOrRaised (optRound j) (circuitMatrix fields instrs)

/-- a gate object together with the value of its `inverse()`: `{particles, g, ginv}` -/
def parseGateWithInverse (j : Json) : Except String (Instr GQ × Instr GQ) := do
  let ps ← (← fList j "particles").mapM parseParticle
  let ips ← (← fList j "iparticles").mapM parseParticle
  let (nr, _, g) ← parseDense (← field j "g")
  let (ni, _, gi) ← parseDense (← field j "ginv")
  return (.gate ps nr g, .gate ips ni gi)

/-- matrices of `C`, of `C.inverse()` (the model's `circuitInverse`: reversed list of the inverses) and their product -/
def circuitInverseReply (fields : List FieldSpec) (rb : Option Nat) (gs : List (Instr GQ × Instr GQ)) : Json :=
  let c := gs.map Prod.fst
  -- `inverse()` of the k-th gate object is the value the implementation reported for it
  let ci := (circuitInverse (fun (p : Instr GQ × Instr GQ) => (p.2, p.1)) gs).map Prod.fst
  let M := circuitMatrix fields c
  let Mi := circuitMatrix fields ci
  let prod : Json := match M, Mi with
    | .ok A, .ok B => Json.mkObj [("mat", dmatJson rb (DMat.mul B A))]
    | _, _ => Json.null
  Json.mkObj [("c", matOrRaised rb M), ("ci", matOrRaised rb Mi), ("prod", prod), ("len", .num (JsonNumber.fromNat ci.length))]

/-- `circuit.inverse {fields, gates:[{particles,g,iparticles,ginv}]}` ↦ the matrices of `C`, of `C.inverse()` and their product
`C.inverse().as_matrix(fields) @ C.as_matrix(fields)`; with `steps: [[gate…]…]` instead of `gates`: the same for every state of a
circuit object that is edited between calls of `inverse()` (the model is a pure function of the current gate list) -/
def opCircuitInverse (j : Json) : Except String Json := do
  let fields ← (← fList j "fields").mapM parseField
  let rb := optRound j
  match fList j "steps" with
  | .ok steps =>
    let rs ← steps.mapM fun st => do
      let gs ← (← list st).mapM parseGateWithInverse
      return circuitInverseReply fields rb gs
    return Json.mkObj [("steps", .arr rs.toArray)]
  | .error _ =>
    let gs ← (← fList j "gates").mapM parseGateWithInverse
    return circuitInverseReply fields rb gs

/-- `sim.statevector {fields, gates}` ↦ `StatevectorSimulator().run(Circuit(gates))` (fields = `circ.fields()`, passed by the harness) -/
def opStatevector (j : Json) : Except String Json := do
  let fields ← (← fList j "fields").mapM parseField
  let instrs ← (← fList j "gates").mapM parseInstr
  let rb := optRound j
  match svRun fields instrs with
  | .error e => return raised e
  | .ok psi => return Json.mkObj [("psi", .arr (psi.toArray.map (gqOut rb)))]

def parseOp (j : Json) : Except String (Op (Instr GQ)) :=
  match j with
  | .arr #[.str "append", h] => do return .append (← nat h)
  | .arr #[.str "prepend", h] => do return .prepend (← nat h)
  | .arr #[.str "appendCircuit", hs] => do return .appendCircuit (← (← list hs).mapM nat)
  | .arr #[.str "prependCircuit", hs] => do return .prependCircuit (← (← list hs).mapM nat)
  | .arr #[.str "mutate", h, v] => do return .mutate (← nat h) (← parseInstr v)
  | _ => .error "bad builder op"

/-- `circuit.history {fields, handles, ops}`: after every op the value of `circuit.as_matrix(fields)` -/
def opCircuitHistory (j : Json) : Except String Json := do
  let fields ← (← fList j "fields").mapM parseField
  let objs ← (← fList j "handles").mapM parseInstr
  let ops ← (← fList j "ops").mapM parseOp
  let rb := optRound j
  let circs := runTrace { objs := objs, circ := [] } ops
  let steps := circs.map fun c => match matOrRaised rb (circuitMatrix fields c) with
    | .obj kvs => Json.obj (kvs.insert "len" (.num (JsonNumber.fromNat c.length)))
    | x => x
  return Json.mkObj [("steps", .arr steps.toArray)]

end Qib.Embed
