import QibModel.Qubitization
import QibModel.GQ
import QibModel.DriverMain
/-!
Driver ops of C19 (`drv_qubitization`); exact rationals only.

* `pcps.circuit` `{theta, proj, enc, aux, method, wires?}` ↦ `ProjectorControlledPhaseShift(theta, proj, enc, aux, method).as_circuit()`:
  `{raised}` or `{gates: [...]}`; with `wires` (register order, first = most significant) also `act`: for every basis state
  of the register the image basis state and the accumulated phase angle of the whole circuit and of each single gate.
* `pcps.matrix` `{proj, method}` ↦ structure of `as_matrix()`: `{raised}` or `{diag: [bool,…]}` (true = `e^{+iθ}`, false = `e^{-iθ}`).
* `evt.matrix` `{U, Ui, Ps: [Mat,…] | null, ns}` ↦ `EigenvalueTransformation.as_matrix()` where `Ps[k]` is the phase-shift matrix of
  the `k`-th angle and `ns` the dimension of the encoded system: `{raised}` or `{mat, spec}` (`spec` = defining product).
* `evt.circuit` `{proj, enc, aux, method, enc_aux, thetas | null}` ↦ `EigenvalueTransformation.as_circuit()`: `{raised}` or `{items}`.
-/
open Lean
namespace Qib.Qubitization
open Qib Qib.J

def jNat (n : Nat) : Json := Json.num (JsonNumber.fromNat n)
def jInt (n : Int) : Json := Json.num (JsonNumber.fromInt n)
def jRat (r : Rat) : Json := .str (GQ.ratStr r)
def raised (e : Err) : Json := Json.mkObj [("raised", .str e.toStr)]

def parseRat (j : Json) : Except String Rat := do GQ.parseRat (← str j)

def gateJson : GateDesc Rat → Json
  | .cx cs st t => Json.mkObj [("k", "cx"), ("ctrls", ofNats cs), ("cstate", ofInts st), ("target", jNat t)]
  | .rz a t => Json.mkObj [("k", "rz"), ("angle", jRat a), ("target", jNat t)]
  | .crz a cs st t => Json.mkObj [("k", "crz"), ("angle", jRat a), ("ctrls", ofNats cs), ("cstate", ofInts st), ("target", jNat t)]
  | .phase φ n qs => Json.mkObj [("k", "phase"), ("phi", jRat φ), ("nwires", jNat n), ("qubits", ofNats qs)]

def itemJson : EvtItem Rat → Json
  | .enc => .str "enc"
  | .encInv => .str "encInv"
  | .gate g => gateJson g

def parsePcps (j : Json) (θ : Rat) : Except String (Except Err (Pcps Rat)) := do
  let proj ← (← fList j "proj").mapM int
  let enc ← (← fList j "enc").mapM nat
  let aux ← (← fList j "aux").mapM nat
  let method ← fStr j "method"
  return Pcps.init θ proj enc aux method

/-- bit of the register wire at position `pos` (0 = most significant) in the flat index `R` of an `n`-wire register -/
def wireBit (n R pos : Nat) : Bool := R.testBit (n - 1 - pos)

/-- the state `label ↦ bit` of the flat index `R`; labels outside the register read 0 -/
def bitsOf (wires : List Nat) (R : Nat) : Nat → Bool := fun lbl =>
  let pos := wires.idxOf lbl
  if pos < wires.length then wireBit wires.length R pos else false

def indexOf (wires : List Nat) (bits : Nat → Bool) : Nat :=
  wires.foldl (fun acc lbl => 2 * acc + (bits lbl).toNat) 0

def actTable (wires : List Nat) (c : List (GateDesc Rat)) : Json :=
  .arr ((Array.range (2 ^ wires.length)).map fun R =>
    let r := circuitAct c (bitsOf wires R)
    Json.arr #[jNat (indexOf wires r.1), jRat r.2])

def opPcpsCircuit (j : Json) : Except String Json := do
  let θ ← parseRat (← field j "theta")
  match ← parsePcps j θ with
  | .error e => return raised e
  | .ok p =>
    match p.asCircuit with
    | .error e => return raised e
    | .ok gs =>
      let base := [("gates", Json.arr (gs.map gateJson).toArray)]
      match (fList j "wires").toOption with
      | none => return Json.mkObj base
      | some ws =>
        let wires ← ws.mapM nat
        if wires.length > 12 then throw "register too large" else
        return Json.mkObj (base ++ [("act", actTable wires gs),
          ("gateacts", Json.arr (gs.map fun g => actTable wires [g]).toArray)])

def opPcpsMatrix (j : Json) : Except String Json := do
  let proj ← (← fList j "proj").mapM int
  let method ← fStr j "method"
  if proj.length > 12 then throw "projection state too long" else
  match Pcps.init (0 : Rat) proj [] [] method with
  | .error e => return raised e
  | .ok p =>
    match pcpsMatrixDiag p.proj with
    | .error e => return raised e
    | .ok d => return Json.mkObj [("diag", .arr (d.map Json.bool).toArray)]

def opEvtMatrix (j : Json) : Except String Json := do
  let U ← Mat.ofJson (← field j "U")
  let Ui ← Mat.ofJson (← field j "Ui")
  let ns ← fNat j "ns"
  let Ps : Option (List Mat) ← match ← field j "Ps" with
    | .null => pure none
    | v => do pure (some (← (← list v).mapM Mat.ofJson))
  let N := U.n
  if U.m != N || Ui.n != N || Ui.m != N then throw "U, Ui must be square of equal size"
  for P in Ps.getD [] do
    if P.n * ns != N || P.m * ns != N then throw "phase-shift matrix size"
  let _ : Mul Mat := ⟨Mat.mul⟩
  let _ : One Mat := ⟨Mat.one N⟩
  let arr := (Ps.getD []).toArray
  let P : Nat → Mat := fun k => (arr.getD k (Mat.one 0)).kron (Mat.one ns)
  let idx : Option (List Nat) := Ps.map fun l => List.range l.length
  match evtMatrix P U Ui idx with
  | .error e => return raised e
  | .ok M => return Json.mkObj [("mat", M.toJson), ("spec", (evtSpec P U Ui (idx.getD [])).toJson)]

def opEvtCircuit (j : Json) : Except String Json := do
  let encAux ← (← fList j "enc_aux").mapM nat
  let θs : Option (List Rat) ← match ← field j "thetas" with
    | .null => pure none
    | v => do pure (some (← (← list v).mapM parseRat))
  match ← parsePcps j 0 with
  | .error e => return raised e
  | .ok p =>
    match evtCircuit p encAux θs with
    | .error e => return raised e
    | .ok items => return Json.mkObj [("items", Json.arr (items.map itemJson).toArray)]

def dispatch : Dispatch := fun op j =>
  match op with
  | "pcps.circuit" => some (opPcpsCircuit j)
  | "pcps.matrix" => some (opPcpsMatrix j)
  | "evt.matrix" => some (opEvtMatrix j)
  | "evt.circuit" => some (opEvtCircuit j)
  | _ => none

end Qib.Qubitization
