import QibProofs.Properties.C17
