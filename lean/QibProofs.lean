import QibProofs.Properties.C01
import QibProofs.Properties.C02
import QibProofs.Properties.C03
import QibProofs.Properties.C16
import QibProofs.Properties.C17
