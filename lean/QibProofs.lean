/-!
Library root of the proof files. Deliberately imports nothing: every property module `QibProofs.Properties.Cxx` (and its helper
lemmas under `QibProofs.Lemmas`) is its own build target - `./setup.sh` and `./check Cxx` build exactly the modules listed in
`LEAN_FILES` of `harness/props/cxx.py` - so independently developed cores never have to share one name space.
-/
