"""one line per seedtool / benigntool log:  summ.py /tmp/seedlogs/*.json"""
import json, sys
for f in sys.argv[1:]:
    try:
        t = open(f).read(); d = json.loads(t[t.index('{'):])
    except Exception as e:
        print(f, "unparsed", str(e)[:50]); continue
    if 'seed' in d:
        print(d['seed'], "confirmed", d.get('confirmed'), "tests", d.get('tests', {}).get('passed'), d.get('tests', {}).get('failed'), "detected_by", d.get('detected_by'),
              {c: (r['rc'], (r.get('first_replay') or {}).get('key')) for c, r in d['checks'].items()})
    else:
        print(d['id'], "equiv", d.get('confirmed_equivalent_by_its_own_evidence'), "tests", d.get('tests', {}).get('passed'), "alarms", d.get('alarms'),
              {c: (r['rc'], [x.get('key') for x in r.get('replays', [])][:2]) for c, r in d['checks'].items()})
