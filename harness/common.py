"""Shared machinery for the qib verification checks.

Life-cycle of one check (see DESIGN.md 2.1):
  regenerate QibGen from /repo  ->  lake build (proof obligations)  ->  axiom audit
  ->  correspondence (real qib vs. Lean driver)  ->  on any break: failing-input search with the
  property's direct oracle  ->  evidence + exit code.
"""
from __future__ import annotations
import fcntl, hashlib, json, os, random, re, subprocess, sys, time, traceback
from fractions import Fraction
from pathlib import Path

ROOT = Path(__file__).resolve().parent.parent
REPO = Path(os.environ.get("QIB_REPO", "/repo"))
LEAN = Path(os.environ.get("VERIF_LEAN", ROOT / "lean"))


def _scratch_lean():
    """Checks against a scratch worktree (QIB_REPO=/tmp/...; seeded changes, mutation self-tests) must not regenerate
    lean/QibGen in the shared project: they work on a private copy of the lake project (source + build products),
    synchronised from /verif/lean at the start of the run. Registered commands (QIB_REPO unset) always use /verif/lean."""
    global LEAN
    if "VERIF_LEAN" in os.environ or REPO.resolve() == Path("/repo"):
        return
    src = ROOT / "lean"
    dst = Path("/tmp/verif-lean-scratch") / hashlib.sha1(str(REPO.resolve()).encode()).hexdigest()[:10]
    dst.mkdir(parents=True, exist_ok=True)
    (src / ".verif.lock").touch()
    with open(src / ".verif.lock", "w") as lf, open(dst / ".verif.lock", "w") as lf2:
        fcntl.flock(lf2, fcntl.LOCK_EX)
        fcntl.flock(lf, fcntl.LOCK_EX)
        subprocess.run(["rsync", "-a", "--delete", "--exclude", ".verif.lock", "--exclude", ".lake/audit", str(src) + "/", str(dst) + "/"], check=True)
    LEAN = dst


_scratch_lean()
EVID = ROOT / "evidence"
REPLAYS = ROOT / "replays"
KNOWN = ROOT / "known_findings.json"
BIN = LEAN / ".lake" / "build" / "bin"
LOCK = LEAN / ".verif.lock"
ALLOWED_AXIOMS = {"propext", "Classical.choice", "Quot.sound"}
FORBIDDEN = re.compile(r"\bsorry\b|\badmit\b|^axiom |native_decide|bv_decide|implemented_by|\bunsafe |maxHeartbeats 0|ofReduceBool")

TRUSTED_BASE_COMMON = [
    "Lean 4.33 kernel (thorough tier: re-checked with leanchecker)",
    "Mathlib v4.33 definitions used in statements (Matrix, Complex, Real.cos/sin, NormedSpace.exp)",
    "axioms: propext, Classical.choice, Quot.sound only (audited per theorem on every run); no native_decide/bv_decide/sorry",
    "correspondence harness: generators, canonicalisation, exact float->rational transport, tolerance 1e-9",
    "CPython / NumPy / SciPy kernels (modelled by their index formulas, not verified)",
]


class Lock:
    def __enter__(self):
        LOCK.parent.mkdir(parents=True, exist_ok=True)
        self.f = open(LOCK, "w")
        fcntl.flock(self.f, fcntl.LOCK_EX)
        return self

    def __exit__(self, *a):
        fcntl.flock(self.f, fcntl.LOCK_UN)
        self.f.close()


def sh(cmd, cwd=None, timeout=None, env=None):
    e = dict(os.environ)
    if env:
        e.update(env)
    p = subprocess.run(cmd, cwd=cwd, shell=isinstance(cmd, str), capture_output=True, text=True, timeout=timeout, env=e)
    return p.returncode, p.stdout + p.stderr


def write_if_changed(path: Path, content: str) -> bool:
    path.parent.mkdir(parents=True, exist_ok=True)
    if path.exists() and path.read_text() == content:
        return False
    tmp = path.with_suffix(path.suffix + ".tmp%d" % os.getpid())
    tmp.write_text(content)
    os.replace(tmp, path)
    return True


# ---------------------------------------------------------------------------------------------
# Lean side
# ---------------------------------------------------------------------------------------------

def lake_build(targets, timeout=3000):
    """Build the given lake targets (module names or exe). Returns (ok, log)."""
    with Lock():
        rc, out = sh(["lake", "build", *targets], cwd=LEAN, timeout=timeout)
    return rc == 0, out


def failing_decls(log: str):
    """Names of theorem-ish declarations around build errors (best effort, from file:line)."""
    res = []
    for m in re.finditer(r"^error: (\S+?\.lean):(\d+):(\d+): (.*)$", log, re.M):
        f, line = m.group(1), int(m.group(2))
        p = LEAN / f
        name = None
        if p.exists():
            lines = p.read_text().splitlines()
            for i in range(min(line, len(lines)) - 1, -1, -1):
                mm = re.match(r"\s*(?:private |protected |noncomputable )*(?:theorem|lemma|def|example|instance)\s+(\S+)?", lines[i])
                if mm:
                    name = mm.group(1) or "example"
                    break
        res.append({"file": f, "line": line, "decl": name, "msg": m.group(4)[:200]})
    return res


def property_theorems(prop_files):
    """(module, [theorem names]) for every property file: all `theorem` declarations in it."""
    out = []
    for rel in prop_files:
        p = LEAN / rel
        txt = strip_comments(p.read_text())     # a comment line starting with the word `theorem` is not a theorem
        ns = []
        names = []
        for line in txt.splitlines():
            m = re.match(r"namespace (\S+)", line)
            if m:
                ns.append(m.group(1))
            m = re.match(r"end (\S+)", line)
            if m and ns and ns[-1] == m.group(1):
                ns.pop()
            m = re.match(r"(?:protected |noncomputable )*theorem\s+(\S+)", line)
            if m:
                names.append(".".join(ns + [m.group(1)]))
        mod = rel[:-5].replace("/", ".")
        out.append((mod, names))
    return out


def strip_comments(txt: str) -> str:
    # remove nested block comments and line comments
    res, depth, i = [], 0, 0
    while i < len(txt):
        if txt.startswith("/-", i):
            depth += 1; i += 2; continue
        if txt.startswith("-/", i) and depth > 0:
            depth -= 1; i += 2; continue
        if depth == 0:
            if txt.startswith("--", i):
                j = txt.find("\n", i)
                i = len(txt) if j < 0 else j
                continue
            res.append(txt[i])
        elif txt[i] == "\n":
            res.append("\n")
        i += 1
    return "".join(res)


def forbidden_tokens(files):
    hits = []
    for rel in files:
        p = LEAN / rel
        if not p.exists():
            continue
        for n, line in enumerate(strip_comments(p.read_text()).splitlines(), 1):
            if FORBIDDEN.search(line):
                hits.append(f"{rel}:{n}: {line.strip()[:120]}")
    return hits


def lean_closure(prop_files):
    """All project-local .lean files transitively imported by the given files."""
    seen, todo = [], list(prop_files)
    while todo:
        rel = todo.pop()
        if rel in seen or not (LEAN / rel).exists():
            continue
        seen.append(rel)
        for m in re.finditer(r"^import (Qib\S+)", (LEAN / rel).read_text(), re.M):
            todo.append(m.group(1).replace(".", "/") + ".lean")
    return seen


def audit_axioms(prop_id, prop_files):
    """#print axioms for every property theorem. Returns (ok, per-theorem dict, log). One Lean run per property module: modules of
    different cores never have to be importable together."""
    thms = property_theorems(prop_files)
    adir = LEAN / ".lake" / "audit"
    adir.mkdir(parents=True, exist_ok=True)
    per, logs, rcs = {}, [], []
    for k, (mod, names) in enumerate(thms):
        src = f"import {mod}\n" + "".join(f"#print axioms {n}\n" for n in names)
        f = adir / f"Audit_{prop_id}_{k}_{os.getpid()}.lean"
        f.write_text(src)
        try:
            with Lock():
                rc, out = sh(["lake", "env", "lean", str(f)], cwd=LEAN, timeout=1800)
        finally:
            f.unlink(missing_ok=True)
        rcs.append(rc)
        logs.append(out)
        for m in re.finditer(r"'([^']+)' depends on axioms: \[([^\]]*)\]", out):
            per[m.group(1)] = [a.strip() for a in m.group(2).replace("\n", " ").split(",") if a.strip()]
        for m in re.finditer(r"'([^']+)' does not depend on any axioms", out):
            per[m.group(1)] = []
    names = [n for _, ns in thms for n in ns]
    bad = {n: a for n, a in per.items() if not set(a) <= ALLOWED_AXIOMS}
    missing = [n for n in names if n not in per]
    ok = all(rc == 0 for rc in rcs) and not bad and not missing
    return ok, per, ("\n".join(logs) if not ok else "")


class Driver:
    """Feeds JSON lines to the compiled Lean driver and returns the parsed replies."""

    def __init__(self, exe):
        self.exe = BIN / exe
        if not self.exe.exists():
            raise RuntimeError(f"driver {exe} not built")

    def run(self, reqs, timeout=3000):
        if not reqs:
            return []
        data = "\n".join(json.dumps(r, separators=(",", ":")) for r in reqs) + "\n"
        p = subprocess.run([str(self.exe)], input=data, capture_output=True, text=True, timeout=timeout)
        lines = [l for l in p.stdout.splitlines() if l.strip()]
        if p.returncode != 0 or len(lines) != len(reqs):
            raise RuntimeError(f"driver failed rc={p.returncode} replies={len(lines)}/{len(reqs)} stderr={p.stderr[:500]}")
        return [json.loads(l) for l in lines]


# ---------------------------------------------------------------------------------------------
# exact numbers across the boundary
# ---------------------------------------------------------------------------------------------

def q(x) -> str:
    """float/int/Fraction -> exact rational string 'p/q'."""
    if isinstance(x, Fraction):
        f = x
    elif isinstance(x, int):
        f = Fraction(x)
    else:
        x = float(x)
        if x != x or x in (float("inf"), float("-inf")):
            # a non-finite value produced by the code under test is an OBSERVATION (it never equals a model value), not a harness error
            return "nan" if x != x else ("inf" if x > 0 else "-inf")
        f = Fraction(*x.as_integer_ratio())
    return f"{f.numerator}/{f.denominator}"


def cq(z):
    z = complex(z)
    return [q(z.real), q(z.imag)]


def unq(s) -> Fraction:
    if isinstance(s, (int,)):
        return Fraction(s)
    if s in ("nan", "inf", "-inf"):
        raise ValueError(f"non-finite value {s} where an exact rational was expected")
    a, _, b = s.partition("/")
    return Fraction(int(a), int(b or 1))


def uncq(p) -> complex:
    f = lambda t: float(t) if t in ("nan", "inf", "-inf") else float(unq(t))
    return complex(f(p[0]), f(p[1]))


# ---------------------------------------------------------------------------------------------
# results, evidence, replays
# ---------------------------------------------------------------------------------------------

def load_known():
    if KNOWN.exists():
        return json.loads(KNOWN.read_text())
    return []


def _freeze(case):
    """snapshot of a case at the moment it is reported (generators may reuse and mutate the objects they yielded)"""
    try:
        return json.loads(json.dumps(case, default=str))
    except Exception:
        return case


class Report:
    def __init__(self, prop_id, tier, seed):
        self.prop, self.tier, self.seed = prop_id, tier, seed
        self.t0 = time.time()
        self.violations = []      # dicts: key, what, case, failing_input_found, broken
        self.known_hits = {}
        self.known = {k["key"]: k for k in load_known() if k.get("property") == prop_id and k.get("status") == "known"}
        self.cov = {"evaluations": 0, "distinct_nontrivial": 0, "samples": [], "distribution": {}}
        self.distinct = set()
        self.broken = []          # names of obligations / correspondence ops that no longer check

    def count(self, key, n=1):
        d = self.cov["distribution"]
        d[key] = d.get(key, 0) + n

    def case(self, case, nontrivial=True):
        self.cov["evaluations"] += 1
        if nontrivial:
            h = hashlib.sha1(json.dumps(case, sort_keys=True, default=str).encode()).hexdigest()
            self.distinct.add(h)
        if len(self.cov["samples"]) < 5 and self.cov["evaluations"] % 97 in (1, 2, 3, 4, 5):
            self.cov["samples"].append(case)

    def finding(self, key, what, case, kind="property-violation", expected=None, observed=None, stage=None):
        """A concrete failing input of the property on the real implementation."""
        if key in self.known:
            self.known_hits.setdefault(key, what)
            return
        if any(v["key"] == key for v in self.violations):
            return
        case = _freeze(case)
        self.violations.append({"key": key, "what": what, "case": case, "kind": kind, "stage": stage,
                                "expected": expected, "observed": observed, "failing_input_found": True})

    def tie_broken(self, name, kind, detail, case=None, expected=None, observed=None):
        """A proof obligation / translation / correspondence that no longer checks (not yet a violation)."""
        self.broken.append({"broken": name, "kind": kind, "detail": detail, "case": _freeze(case),
                            "expected": expected, "observed": observed})

    def finish(self, level, obligations, discharged, checker_cmd, trusted, assumptions, rule, extra=None):
        # a broken tie without a concrete failing input is still a violation (no-failing-input-found)
        lines = []
        REPLAYS.joinpath(self.prop).mkdir(parents=True, exist_ok=True)
        for v in self.violations[:6]:   # at most six lines; every further finding is listed inside the first replay
            if v is self.violations[0] and len(self.violations) > 1:
                v = dict(v, all_findings=[{"key": w["key"], "what": w["what"], "case": w["case"]} for w in self.violations[:50]])
            rp = self._replay(v)
            lines.append(f"VIOLATION property={self.prop} replay={rp}")
        if self.broken and not self.violations:
            v = {"key": "tie:" + self.broken[0]["broken"], "what": self.broken[0]["detail"], "case": self.broken[0].get("case"),
                 "kind": self.broken[0]["kind"], "expected": self.broken[0].get("expected"), "observed": self.broken[0].get("observed"),
                 "failing_input_found": False, "broken": [b["broken"] for b in self.broken], "all_broken": self.broken[:20]}
            rp = self._replay(v)
            lines.append(f"VIOLATION property={self.prop} replay={rp} no-failing-input-found")
        for k, what in self.known_hits.items():
            print(f"KNOWN-FINDING: property={self.prop} {k}: {what}")
        for k in self.known:
            if k not in self.known_hits:
                print(f"NOTE: known finding {k} was not re-confirmed on this run (stale entry or not sampled)")
        self.cov["distinct_nontrivial"] = len(self.distinct)
        self.cov["rule"] = rule
        self.cov["obligations"] = obligations
        if discharged >= 1:
            self.cov["discharged"] = discharged
        else:  # schema: a proof-level file with discharged=0 is invalid; fall back to the generic keys and say so
            self.cov["discharged_zero"] = True
            self.cov["evaluations"] = max(self.cov["evaluations"], 1)
        self.cov["checker_cmd"] = checker_cmd
        self.cov["trusted_base"] = trusted
        self.cov["traces_validated_against_impl"] = self.cov["evaluations"]
        if not self.cov["samples"]:
            self.cov["samples"] = [{"note": "no correspondence cases were run (build or translation failed first)"}]
        if extra:
            self.cov.update(extra)
        try:
            import translate
            if translate.MODES:
                self.cov["translator_modes"] = dict(translate.MODES)
        except Exception:
            pass
        # schema: `exhaustive` is a boolean about the WHOLE input space; completely enumerated finite sub-spaces are listed separately
        if not isinstance(self.cov.get("exhaustive", False), bool):
            self.cov["exhaustive_subspaces"] = self.cov.pop("exhaustive")
        for k in ("evaluations", "distinct_nontrivial", "obligations", "discharged", "traces_validated_against_impl"):
            if k in self.cov:
                self.cov[k] = int(self.cov[k])
        ev = {"property_id": self.prop, "tier": self.tier, "seed": self.seed, "level": level,
              "coverage": self.cov, "assumptions": assumptions, "wall_s": round(time.time() - self.t0, 2),
              "violations": len(lines), "known_findings_confirmed": sorted(self.known_hits)}
        EVID.mkdir(exist_ok=True)
        if getattr(self, "replay", None) is None:      # a single-case replay does not replace the evidence of the last full run
            if REPO.resolve() == Path("/repo"):
                (EVID / f"{self.prop}.json").write_text(json.dumps(ev, indent=1, default=str))
            else:                                      # a run against a scratch worktree (seeded / harmless change) is not evidence about /repo
                d = REPLAYS / "scratch-evidence"
                d.mkdir(parents=True, exist_ok=True)
                (d / f"{self.prop}.json").write_text(json.dumps(ev, indent=1, default=str))
        for l in lines:
            print(l)
        print(f"[{self.prop}] tier={self.tier} seed={self.seed} evaluations={self.cov['evaluations']} distinct={len(self.distinct)} "
              f"obligations={discharged}/{obligations} violations={len(lines)} known={len(self.known_hits)} wall={ev['wall_s']}s")
        return 1 if lines else 0

    def _replay(self, v):
        body = {"property": self.prop, "tier": self.tier, "seed": self.seed, **v,
                "rerun": f"./check {self.prop} --tier {self.tier} --seed {self.seed}"}
        h = hashlib.sha1(json.dumps(body, sort_keys=True, default=str).encode()).hexdigest()[:12]
        rp = REPLAYS / self.prop / f"{h}.json"
        rp.write_text(json.dumps(body, indent=1, default=str))
        return str(rp.relative_to(ROOT))


def import_qib():
    """Import the real qib from /repo/src (working tree)."""
    src = str(REPO / "src")
    if src not in sys.path:
        sys.path.insert(0, src)
    os.environ.setdefault("QC_TUM_QIB_VERIF", "1")
    import qib  # noqa
    assert Path(qib.__file__).resolve().is_relative_to(REPO.resolve()), qib.__file__
    return qib


# ---------------------------------------------------------------------------------------------
# generic correspondence runner
# ---------------------------------------------------------------------------------------------

CORPUS = ROOT / "harness" / "corpus"


def _with_corpus(rep, opname, cases):
    """Minimised past failures run first: harness/corpus/<property>/*.json holds concrete cases (in the generator's own case format, tagged
    with the stage they belong to) on which a seeded or historical defect manifested; they are replayed before the generated cases of
    that stage on every run, so that detection of those defects does not depend on the random stream."""
    rp = getattr(rep, "replay", None)
    if rp is not None and isinstance(rp.get("case"), dict):
        # `./check Cxx --replay <file>`: only the recorded case, in the stage it was found in
        if rp.get("stage") in (None, opname):
            yield rp["case"]
        return
    d = CORPUS / rep.prop
    n = 0
    if d.is_dir():
        for f in sorted(d.glob("*.json")):
            try:
                e = json.loads(f.read_text())
            except Exception:
                continue
            if e.get("stage") == opname and isinstance(e.get("case"), dict):
                n += 1
                yield e["case"]
    if n:
        rep.count("corpus-cases:" + opname, n)
    yield from cases


class _CaseTimeout(BaseException):
    pass


class _watchdog:
    """per-case time limit for the code under test (SIGALRM, main thread only; a no-op elsewhere)"""
    def __init__(self, seconds):
        self.s = seconds
        self.on = False

    def __enter__(self):
        import signal, threading
        if self.s > 0 and threading.current_thread() is threading.main_thread() and hasattr(signal, "setitimer"):
            def h(sig, frm):
                raise _CaseTimeout()
            self.old = signal.signal(signal.SIGALRM, h)
            signal.setitimer(signal.ITIMER_REAL, self.s)
            self.on = True
        return self

    def __exit__(self, *a):
        if self.on:
            import signal
            signal.setitimer(signal.ITIMER_REAL, 0)
            signal.signal(signal.SIGALRM, self.old)
        return False


def run_correspondence(rep: Report, drv, cases, impl, model_req, compare, oracle, opname, batch=4000, nontrivial=None, req_uses_output=False):
    """For every case: run the real implementation (`impl`), the direct property oracle on what the
    implementation did (`oracle` -> list of (key, what)), and - when a driver is available - the Lean
    model on the same input (`model_req` -> request dict); `compare(case, impl_out, model_reply)` returns
    None or a description of the disagreement."""
    buf = []
    cases = _with_corpus(rep, opname, cases)

    def flush():
        if not buf:
            return
        replies = None
        if drv is not None:
            reqs = []
            for i, (c, o) in enumerate(buf):
                r = model_req(c, o) if req_uses_output else model_req(c)
                r["id"] = i
                reqs.append(r)
            try:
                replies = drv.run(reqs)
            except Exception as e:  # driver crash = broken tie
                rep.tie_broken(opname, "correspondence", f"driver failed: {e}")
                replies = None
        for i, (c, o) in enumerate(buf):
            pub = {k: v for k, v in o.items() if not k.startswith("_")} if isinstance(o, dict) else o
            try:
                found = list(oracle(c, o))
            except Exception as e:
                # the oracle calls the code under test too (e.g. to re-embed a result): an exception there is a broken correspondence
                # on this case, reported with the case - not a crash of the check
                found = []
                rep.count("oracle-raised")
                if len([b for b in rep.broken if b["broken"] == opname + ":oracle"]) < 3:
                    rep.tie_broken(opname + ":oracle", "correspondence", f"the property oracle raised {type(e).__name__}: {e} "
                                   f"({traceback.format_exc()[-300:]})", case=c, observed=pub)
            for key, what in found:
                rep.finding(key, what, c, observed=pub, stage=opname)
            if replies is not None:
                r = replies[i]
                if "err" in r:
                    d = f"model rejected input: {r['err']}"
                else:
                    d = compare(c, o, r["ok"])
                if d:
                    rep.count("disagreements")
                    if len([b for b in rep.broken if b["broken"] == opname]) < 3:
                        rep.tie_broken(opname, "correspondence", d, case=c, expected=(r.get("err") if "err" in r else None), observed=pub)
        buf.clear()

    t_stage = time.time()
    for c in cases:
        if (getattr(rep, "stage_deadline", None) and time.time() - t_stage > rep.stage_deadline) or \
                (getattr(rep, "global_deadline", None) and time.time() > rep.global_deadline):
            rep.count("deepening:stage-time-box-reached:" + opname)      # time-boxed pass of the deepened search (check.py)
            break
        # snapshot: generators may reuse and later mutate the objects they yield, and the oracle / replay of a batch runs after
        # the generator has moved on; the snapshot is what the implementation, the model, the oracle and the replay file all see
        c = _freeze(c)
        try:
            with _watchdog(float(os.environ.get("VERIF_CASE_TIMEOUT_S", "600"))):
                o = impl(c)
        except _CaseTimeout:
            # the code under test did not return on this case (e.g. a loop that no longer terminates): reported with the case, the run goes on
            rep.count("case-timeouts")
            o = {"harness_exception": "the implementation did not return within the per-case time limit"}
            if len([b for b in rep.broken if b["broken"] == opname + ":no-return"]) < 3:
                rep.tie_broken(opname + ":no-return", "correspondence", "the implementation did not return on this case within "
                               + os.environ.get("VERIF_CASE_TIMEOUT_S", "600") + " s (the model returns at once)", case=c)
        except Exception as e:  # harness bug or unexpected crash: treat as broken tie, keep going
            o = {"harness_exception": f"{type(e).__name__}: {e}", "tb": traceback.format_exc()[-600:]}
            for attr in ("inverse_raised", "ckey"):
                if hasattr(e, attr):
                    o[attr] = getattr(e, attr)
        rep.case(c, nontrivial(c, o) if nontrivial else True)
        buf.append((c, o))
        if len(buf) >= batch:
            flush()
    flush()
