"""C16 stages that reuse the machinery of other cores: is_hermitian() of field-operator terms / field operators (Core D, check C10:
model `Fermi.isHermitianTol`, theorems C10_hermitianFlag_sound/_tol) and of the model Hamiltonians (check C15: theorems C15_*_hermitian*).
The cases, implementation adapters and model requests are those of c10.py / c15.py restricted to the Hermiticity answers; the findings
are re-keyed to C16 (`C16:unsound-flag:<class>`)."""
from __future__ import annotations
from common import run_correspondence, lake_build, Driver


def _driver(rep, name):
    ok, log = lake_build([name])
    if ok:
        return Driver(name)
    rep.tie_broken(name, "correspondence", "model driver does not build: " + log[-400:])
    return None


def run_field_operator_flags(rep, tier, rng):
    from props import c10
    c10.setup()
    drv = _driver(rep, c10.DRIVER)

    def cases():
        for c in c10.gen_cases(tier, rng):
            if c["op"] in ("fterm.herm", "fop.herm"):
                rep.count("fieldop:" + c["op"])
                yield c

    def oracle(case, o):
        out = []
        for key, what in c10.oracle(case, o):
            if "flag-unsound" in key:
                cls = "FieldOperatorTerm" if key.endswith(":term") else "FieldOperator"
                out.append((f"C16:unsound-flag:{cls}", what))
        return out
    run_correspondence(rep, drv, cases(), c10.impl, lambda c: c10.strip_dtype(c10.model_req(c)), c10.compare, oracle,
                       "fterm.herm/fop.herm", batch=400)


def run_hamiltonian_flags(rep, tier, rng):
    from props import c15
    c15.setup()
    drv = _driver(rep, c15.DRIVER)
    # the Hermiticity claim of a Hamiltonian is checked on the matrix of every constructed instance: all ops of the C15 stream carry it
    budget = 4000 if tier == "thorough" else 2500

    def cases():
        n = 0
        for c in c15.gen_cases(tier, rng):
            rep.count("hamiltonian:" + c["op"])
            yield c
            n += 1
            if n >= budget:
                return

    def oracle(case, o):
        out = []
        for key, what in c15.oracle(case, o):
            if key.startswith("C15:hermitian:") or key.startswith("C15:hermitian-flag:"):
                out.append(("C16:unsound-flag:" + key.split(":", 2)[2], what))
        return out
    run_correspondence(rep, drv, cases(), c15.impl, c15.model_req, c15.compare, oracle, "ham.*", batch=300)


def run_qucc_unitary(rep, tier, rng):
    """C01 stage: `qUCC.as_matrix(params)` is square of size 2^sites and unitary, and `is_unitary()` claims hold - the qUCC part of the
    C20 machinery (model `quccGenerator`, theorems C20_qucc_unitary*, C20_ansatz_unitary_conserves_N), findings re-keyed to C01."""
    from props import c20
    c20.setup()
    drv = _driver(rep, c20.DRIVER)

    def cases():
        for c in c20.gen_qucc(tier, rng):
            rep.count("qucc:" + str(c.get("kind")))
            yield c

    def oracle(case, o):
        out = []
        for key, what in c20.oracle(case, o):
            if key in ("C20:qucc:not-unitary", "C20:qucc:shape", "C20:qucc:is_unitary-flag") or key.startswith("C20:qucc:no-matrix"):
                out.append(("C01:" + key.split(":", 1)[1].replace("qucc:", "qUCC:"), what))
        return out
    run_correspondence(rep, drv, cases(), c20.impl, c20.model_req, c20.compare, oracle, "vqe.qucc", batch=400, req_uses_output=True)
