"""Source fingerprints: has the code a property depends on changed since the pinned tree?

A fingerprint is the SHA-1 of the docstring-free, position-free AST dump of a source file (formatting, comments and docstrings do not
count). `harness/fingerprints.json` (committed; `python3 harness/fingerprint.py --write` on the unchanged tree) holds the reference values.
A difference is NEVER an alarm. It only tells the check that the code under one of its properties is not the code the last full validation
saw, and the check answers by deepening its failing-input search (more random passes of the quick generator with fresh seeds, then a
time-boxed prefix of the thorough generator, see check.py) - the same thing it does when a proof obligation or a correspondence breaks
without a concrete failing input."""
import ast, hashlib, json, os, sys
from pathlib import Path
ROOT = Path(__file__).resolve().parent.parent
REPO = Path(os.environ.get("QIB_REPO", "/repo"))
REF = ROOT / "harness" / "fingerprints.json"

G = "operator/gates.py"
P = "operator/pauli_operator.py"
F = "operator/field_operator.py"
FIELD = ["field/field.py", "field/particle.py"]
LATT = ["lattice/integer_lattice.py", "lattice/triangular_lattice.py", "lattice/brick_lattice.py", "lattice/hexagonal_lattice.py",
        "lattice/odd_face_centered_lattice.py", "lattice/layered_lattice.py", "lattice/fully_connected_lattice.py",
        "lattice/customized_lattice.py", "lattice/abstract_lattice.py", "lattice/shifted_lattice_convention.py"]
TN = ["tensor_network/symbolic_network.py", "tensor_network/tensor_network.py", "tensor_network/contraction_tree.py"]
HAM = ["operator/ising_hamiltonian.py", "operator/heisenberg_hamiltonian.py", "operator/fermi_hubbard_hamiltonian.py", "operator/molecular_hamiltonian.py"]
BACK = ["backend/experiment.py", "backend/wmi/wmi_experiment.py", "backend/wmi/wmi_qsim_processor.py", "backend/wmi/wmi_qc_processor.py",
        "backend/processor_configuration.py", "backend/wmi/wmi_options.py", "backend/options.py", "backend/quantum_processor.py",
        "util/networking.py", "util/const.py"]
DEPS = {
    "C01": [G, P, "algorithms/vqe/ansatz/ansatz.py", "transform/jordan_wigner_encoding.py", F],
    "C02": [G, P],
    "C03": [G, "circuit/circuit.py", "util/util.py"] + FIELD,
    "C04": [G, "util/util.py"] + FIELD,
    "C05": [G, "circuit/circuit.py", "util/util.py", "simulator/statevector_simulator.py", "simulator/tensor_network_simulator.py",
            "operator/control_instructions.py"] + TN + FIELD,
    "C06": [G] + TN,
    "C07": TN,
    "C08": TN,
    "C09": [P],
    "C10": [F] + FIELD,
    "C11": ["transform/jordan_wigner_encoding.py", P, F],
    "C12": ["transform/parity_encoding.py", P, F],
    "C13": ["transform/compact_encoding.py", "lattice/odd_face_centered_lattice.py", "lattice/integer_lattice.py", P, F],
    "C14": LATT,
    "C15": HAM + [P, F] + LATT,
    "C16": [G, P, F] + HAM,
    "C17": BACK,
    "C18": BACK + ["operator/control_instructions.py", "circuit/circuit.py", G],
    "C19": ["algorithms/qubitization/eigenvalue_transformation.py", "algorithms/qubitization/projector_controlled_phase_shift.py", G,
            "circuit/circuit.py", P],
    "C20": ["algorithms/vqe/vqe.py", "algorithms/vqe/ansatz/ansatz.py", "algorithms/vqe/optimizer.py", "transform/jordan_wigner_encoding.py", P, F],
}


def _strip_doc(tree):
    for n in ast.walk(tree):
        if isinstance(n, (ast.FunctionDef, ast.AsyncFunctionDef, ast.ClassDef, ast.Module)):
            b = n.body
            if b and isinstance(b[0], ast.Expr) and isinstance(getattr(b[0], "value", None), ast.Constant) and isinstance(b[0].value.value, str):
                n.body = b[1:] or [ast.Pass()]
    return tree


PY = "%d.%d" % sys.version_info[:2]      # ast.dump differs between interpreter versions: a stored reference is only used by the same version


def fp_text(text):
    import warnings
    try:
        with warnings.catch_warnings():
            warnings.simplefilter("ignore")
            return hashlib.sha1(ast.dump(_strip_doc(ast.parse(text)), annotate_fields=False, include_attributes=False).encode()).hexdigest()
    except Exception as e:          # unparsable source counts as changed
        return "unreadable:" + type(e).__name__


def fp(rel, repo=None):
    try:
        return fp_text(((repo or REPO) / "src" / "qib" / rel).read_text())
    except Exception as e:
        return "unreadable:" + type(e).__name__


def fp_head(rel):
    """fingerprint of the file as committed in the repository's HEAD (None if git cannot tell)"""
    import subprocess
    try:
        r = subprocess.run(["git", "-C", str(REPO), "show", "HEAD:src/qib/" + rel], capture_output=True, text=True, timeout=60)
        return fp_text(r.stdout) if r.returncode == 0 else None
    except Exception:
        return None


def changed_files(prop):
    """files under `prop` whose working-tree fingerprint differs from the committed HEAD of the repository, or from the stored reference
    of the pinned tree (used only under the interpreter version that wrote it); empty on the unchanged tree"""
    try:
        ref = json.loads(REF.read_text())
    except Exception:
        ref = {}
    stored = ref.get("files", {}) if ref.get("python") == PY else {}
    out = []
    for f in DEPS.get(prop, []):
        cur = fp(f)
        h = fp_head(f)
        if (h is not None and cur != h) or (stored.get(f) is not None and cur != stored[f]):
            out.append(f)
    return out


if __name__ == "__main__":
    if "--write" in sys.argv:
        files = sorted({f for fs in DEPS.values() for f in fs})
        REF.write_text(json.dumps({"python": PY, "repo_head": __import__("subprocess").run(["git", "-C", "/repo", "rev-parse", "--short", "HEAD"], capture_output=True, text=True).stdout.strip(),
                                   "files": {f: fp(f, Path("/repo")) for f in files}}, indent=1, sort_keys=True))
        print("wrote", REF, len(files), "files")
    else:
        for p in sorted(DEPS):
            print(p, changed_files(p))
