"""Systematic mutation campaign (complements the hand-made seeded changes of seeded/): small syntactic mutants of /repo/src/qib, generated from
the AST, are applied one at a time to a scratch worktree; a mutant that still passes the unedited test-suite is run against the checks that
cover the mutated file. Result per mutant: killed-by-tests / detected (which check, which finding key) / survived (all named checks green).
Survivors are NOT violations by themselves (most are equivalent mutants or changes outside every property); they are triaged by hand and
every one that does break a property becomes a strengthening of a check (DESIGN 10.7).

  mutcampaign.py gen   [--per-file N] [--seed S]          -> mutants/PLAN.json        (deterministic sample of mutation sites)
  mutcampaign.py run   [--workers K] [--only substring]   -> mutants/RESULTS.jsonl    (resumable: mutants already recorded are skipped)
  mutcampaign.py table                                    -> prints a summary; rewrites the MUTTABLE block of DESIGN.md if present

/repo is never touched: every worker owns /tmp/mut/w<k>/repo (git worktree of HEAD) and the scratch Lean project keyed by that path."""
import ast, hashlib, json, os, random, re, shutil, subprocess, sys, threading, time
from concurrent.futures import ThreadPoolExecutor
from pathlib import Path
ROOT = Path(__file__).resolve().parent.parent
SRC = Path("/repo/src/qib")
OUT = ROOT / "mutants"
ENV = dict(os.environ, OPENBLAS_NUM_THREADS="1", OMP_NUM_THREADS="1", PYTHONWARNINGS="ignore", PYTHONDONTWRITEBYTECODE="1")

# which checks cover which file (function-level refinement for gates.py below)
FILEMAP = {
    "operator/gates.py": ["C01", "C02", "C03"],
    "operator/control_instructions.py": ["C18", "C05"],
    "operator/pauli_operator.py": ["C09", "C16", "C11"],
    "operator/field_operator.py": ["C10", "C16"],
    "operator/ising_hamiltonian.py": ["C15", "C16"],
    "operator/heisenberg_hamiltonian.py": ["C15", "C16"],
    "operator/fermi_hubbard_hamiltonian.py": ["C15", "C16"],
    "operator/molecular_hamiltonian.py": ["C15", "C16"],
    "circuit/circuit.py": ["C05", "C03"],
    "tensor_network/symbolic_network.py": ["C08", "C07", "C05"],
    "tensor_network/tensor_network.py": ["C07", "C08", "C06"],
    "tensor_network/contraction_tree.py": ["C07"],
    "lattice/integer_lattice.py": ["C14", "C15"],
    "lattice/triangular_lattice.py": ["C14"],
    "lattice/brick_lattice.py": ["C14"],
    "lattice/hexagonal_lattice.py": ["C14"],
    "lattice/odd_face_centered_lattice.py": ["C14", "C13"],
    "lattice/layered_lattice.py": ["C14"],
    "lattice/fully_connected_lattice.py": ["C14"],
    "lattice/customized_lattice.py": ["C14"],
    "transform/jordan_wigner_encoding.py": ["C11", "C20"],
    "transform/parity_encoding.py": ["C12"],
    "transform/compact_encoding.py": ["C13"],
    "backend/experiment.py": ["C17", "C18"],
    "backend/wmi/wmi_experiment.py": ["C17", "C18"],
    "backend/wmi/wmi_qsim_processor.py": ["C18", "C17"],
    "backend/wmi/wmi_qc_processor.py": ["C18", "C17"],
    "backend/processor_configuration.py": ["C18"],
    "backend/wmi/wmi_options.py": ["C18"],
    "util/networking.py": ["C17"],
    "util/const.py": ["C17", "C18"],
    "util/util.py": ["C04", "C05"],
    "field/field.py": ["C04", "C05"],
    "field/particle.py": ["C04", "C05"],
    "simulator/statevector_simulator.py": ["C05"],
    "simulator/tensor_network_simulator.py": ["C05"],
    "algorithms/qubitization/eigenvalue_transformation.py": ["C19"],
    "algorithms/qubitization/projector_controlled_phase_shift.py": ["C19"],
    "algorithms/vqe/vqe.py": ["C20"],
    "algorithms/vqe/ansatz/ansatz.py": ["C20", "C01"],
}
GATEFUNC = {
    "as_matrix": ["C01", "C02", "C03"], "inverse": ["C03", "C01"], "is_hermitian": ["C16"], "as_tensornet": ["C06", "C05"],
    "_distribute_to_wires": ["C04", "C05"], "_circuit_matrix": ["C05", "C04"], "as_circuit_matrix": ["C04", "C05"], "_as_circuit_matrix": ["C04", "C05"],
    "as_qasm": ["C18"], "as_openQASM": ["C18"], "__copy__": ["C05", "C03"], "particles": ["C03", "C05", "C04"], "fields": ["C05", "C03"],
    "__init__": ["C01", "C02", "C03"], "num_wires": ["C01", "C06"], "on": ["C03", "C05"], "set_control": ["C03", "C06", "C02"],
    "is_unitary": ["C01"], "__eq__": ["C05", "C03"],
}
SKIPFUNC = {"__str__", "__repr__"}


def sh(cmd, cwd=None, env=None, timeout=7200):
    try:
        p = subprocess.run(cmd, shell=True, cwd=cwd, env=env or ENV, capture_output=True, text=True, timeout=timeout)
        return p.returncode, p.stdout + p.stderr
    except subprocess.TimeoutExpired:
        return 124, "timeout"


# ------------------------------------------------------------------------------------------------- generation
CMP = {ast.Lt: ("<", "<="), ast.LtE: ("<=", "<"), ast.Gt: (">", ">="), ast.GtE: (">=", ">"), ast.Eq: ("==", "!="), ast.NotEq: ("!=", "==")}
BIN = {ast.Add: ("+", "-"), ast.Sub: ("-", "+"), ast.LShift: ("<<", ">>"), ast.FloorDiv: ("//", "%"), ast.Mod: ("%", "//"), ast.Mult: ("*", "+")}


class Sites(ast.NodeVisitor):
    def __init__(self, text):
        self.lines = text.split("\n")
        self.sites = []
        self.stack = []

    def seg(self, node):
        if node.lineno != node.end_lineno:
            return None
        return self.lines[node.lineno - 1][node.col_offset:node.end_col_offset]

    def add(self, kind, lineno, c0, c1, new):
        old = self.lines[lineno - 1][c0:c1]
        if old != new:
            self.sites.append({"kind": kind, "line": lineno, "c0": c0, "c1": c1, "old": old, "new": new,
                               "func": ".".join(self.stack[-2:]) if self.stack else ""})

    def between(self, kind, left, right, tok, new):
        """replace operator token `tok` found between two operand nodes on one line"""
        if left.end_lineno != right.lineno:
            return
        line = self.lines[right.lineno - 1]
        gap = line[left.end_col_offset:right.col_offset]
        k = gap.find(tok)
        if k < 0 or gap.strip(" ()") != tok:
            return
        c0 = left.end_col_offset + k
        self.add(kind, right.lineno, c0, c0 + len(tok), new)

    def visit_FunctionDef(self, node):
        if node.name in SKIPFUNC:
            return
        self.stack.append(node.name)
        body = node.body
        if body and isinstance(body[0], ast.Expr) and isinstance(getattr(body[0], "value", None), ast.Constant) and isinstance(body[0].value.value, str):
            body = body[1:]
        for b in body:
            self.visit(b)
        self.stack.pop()

    def visit_ClassDef(self, node):
        self.stack.append(node.name)
        self.generic_visit(node)
        self.stack.pop()

    def visit_Raise(self, node):
        return          # messages and exception types are not behaviour any property speaks about

    def visit_Compare(self, node):
        if len(node.ops) == 1 and type(node.ops[0]) in CMP:
            tok, new = CMP[type(node.ops[0])]
            self.between("cmp", node.left, node.comparators[0], tok, new)
        self.generic_visit(node)

    def visit_BinOp(self, node):
        if type(node.op) in BIN:
            tok, new = BIN[type(node.op)]
            self.between("binop", node.left, node.right, tok, new)
        if isinstance(node.op, ast.MatMult):
            a, b = self.seg(node.left), self.seg(node.right)
            if a and b and node.left.lineno == node.right.lineno and a != b:
                self.add("matmul-swap", node.lineno, node.col_offset, node.end_col_offset, f"{b} @ {a}")
        self.generic_visit(node)

    def visit_BoolOp(self, node):
        if len(node.values) == 2:
            tok, new = ("and", "or") if isinstance(node.op, ast.And) else ("or", "and")
            self.between("boolop", node.values[0], node.values[1], tok, new)
        self.generic_visit(node)

    def visit_UnaryOp(self, node):
        s = self.seg(node)
        if s and isinstance(node.op, ast.USub) and not isinstance(node.operand, ast.Constant):
            self.add("neg-drop", node.lineno, node.col_offset, node.end_col_offset, self.seg(node.operand))
        if s and isinstance(node.op, ast.Not):
            self.add("not-drop", node.lineno, node.col_offset, node.end_col_offset, self.seg(node.operand))
        self.generic_visit(node)

    def visit_Constant(self, node):
        v = node.value
        s = self.seg(node)
        if s is None or isinstance(v, (bool, str, bytes)) or v is None:
            return
        if isinstance(v, int) and abs(v) <= 4:
            self.add("const", node.lineno, node.col_offset, node.end_col_offset, str(v + 1))
            if v >= 1:
                self.add("const", node.lineno, node.col_offset, node.end_col_offset, str(v - 1))
        elif isinstance(v, complex) and s.endswith("j"):
            self.add("const-j", node.lineno, node.col_offset, node.end_col_offset, "(-" + s + ")")
        elif isinstance(v, float) and v != 0:
            self.add("const-f", node.lineno, node.col_offset, node.end_col_offset, "(-" + s + ")")

    def visit_Attribute(self, node):
        s = self.seg(node)
        if s and node.attr == "T":
            self.add("T-drop", node.lineno, node.col_offset, node.end_col_offset, self.seg(node.value))
        self.generic_visit(node)

    def visit_Call(self, node):
        s = self.seg(node)
        f = node.func
        if s:
            if isinstance(f, ast.Attribute) and f.attr in ("conj", "conjugate") and not node.args:
                self.add("conj-drop", node.lineno, node.col_offset, node.end_col_offset, self.seg(f.value))
            name = f.id if isinstance(f, ast.Name) else (f.attr if isinstance(f, ast.Attribute) else "")
            if name in ("copy", "deepcopy", "sorted", "reversed", "abs", "list") and len(node.args) == 1 and not node.keywords and self.seg(node.args[0]):
                if not (name == "list" and not isinstance(node.args[0], (ast.Name, ast.Attribute))):
                    self.add(name + "-drop", node.lineno, node.col_offset, node.end_col_offset, self.seg(node.args[0]))
            if name in ("kron", "dot", "matmul", "outer", "tensordot") and len(node.args) >= 2:
                a, b = self.seg(node.args[0]), self.seg(node.args[1])
                if a and b and a != b and node.args[0].lineno == node.args[1].lineno == node.lineno:
                    self.add("arg-swap", node.lineno, node.args[0].col_offset, node.args[1].end_col_offset, f"{b}, {a}")
            if name == "range" and 1 <= len(node.args) <= 2 and not isinstance(node.args[-1], ast.Constant):
                e = self.seg(node.args[-1])
                if e:
                    self.add("range-short", node.lineno, node.args[-1].col_offset, node.args[-1].end_col_offset, f"({e}) - 1")
                if len(node.args) == 2 and self.seg(node.args[0]) and not isinstance(node.args[0], ast.Constant):
                    self.add("range-late", node.lineno, node.args[0].col_offset, node.args[0].end_col_offset, f"({self.seg(node.args[0])}) + 1")
        self.generic_visit(node)

    def visit_Subscript(self, node):
        sl = node.slice
        if isinstance(sl, ast.Tuple) and len(sl.elts) == 2 and self.seg(sl):
            a, b = self.seg(sl.elts[0]), self.seg(sl.elts[1])
            if a and b and a != b and not isinstance(node.ctx, ast.Del):
                self.add("index-swap", node.lineno, sl.elts[0].col_offset, sl.elts[1].end_col_offset, f"{b}, {a}")
        self.generic_visit(node)

    def visit_Expr(self, node):
        # a dropped statement: method call used for its effect (append/remove/pop/update/set_...), single line
        v = node.value
        if isinstance(v, ast.Call) and isinstance(v.func, ast.Attribute) and self.seg(node) and self.stack:
            if v.func.attr in ("append", "remove", "pop", "update", "add", "extend", "insert", "sort", "reverse", "clear") or v.func.attr.startswith(("set_", "_set", "rename", "merge")):
                self.add("stmt-drop", node.lineno, node.col_offset, node.end_col_offset, "pass")
        self.generic_visit(node)

    def visit_AugAssign(self, node):
        s = self.seg(node)
        if s and self.stack:
            self.add("stmt-drop", node.lineno, node.col_offset, node.end_col_offset, "pass")
        self.generic_visit(node)


def gen(per_file, seed):
    rng = random.Random(seed)
    plan = []
    for rel in sorted(FILEMAP):
        text = (SRC / rel).read_text()
        v = Sites(text)
        v.visit(ast.parse(text))
        sites = v.sites
        # stratify: at most 3 mutants per (function, kind), then sample
        rng.shuffle(sites)
        seen, pick = {}, []
        for s in sites:
            k = (s["func"], s["kind"])
            if seen.get(k, 0) < 2:
                seen[k] = seen.get(k, 0) + 1
                pick.append(s)
        n = per_file * (6 if rel == "operator/gates.py" else 2 if rel in ("tensor_network/symbolic_network.py", "operator/pauli_operator.py") else 1)
        cap, nc, pk = max(1, n // 3), 0, []
        for s in pick:
            if s["kind"] == "const":
                if nc >= cap:
                    continue
                nc += 1
            pk.append(s)
        pick = pk[:n]
        for s in pick:
            s["file"] = rel
            s["id"] = hashlib.sha1(f"{rel}:{s['line']}:{s['c0']}:{s['new']}".encode()).hexdigest()[:10]
            fn = s["func"].split(".")[-1]
            s["checks"] = GATEFUNC.get(fn, FILEMAP[rel]) if rel == "operator/gates.py" else FILEMAP[rel]
            plan.append(s)
        print(rel, len(sites), "sites ->", len(pick))
    OUT.mkdir(exist_ok=True)
    (OUT / "PLAN.json").write_text(json.dumps(plan, indent=0))
    print(len(plan), "mutants planned")


# ------------------------------------------------------------------------------------------------- running
LOCK = threading.Lock()
HEAD = None


def apply(wt, m):
    p = wt / "src" / "qib" / m["file"]
    lines = p.read_text().split("\n")
    l = lines[m["line"] - 1]
    assert l[m["c0"]:m["c1"]] == m["old"], (l, m)
    lines[m["line"] - 1] = l[:m["c0"]] + m["new"] + l[m["c1"]:]
    p.write_text("\n".join(lines))


def run_one(m, k):
    wt = Path(f"/tmp/mut/w{k}/repo")
    if not wt.exists():
        wt.parent.mkdir(parents=True, exist_ok=True)
        sh(f"git -C /repo worktree add --detach {wt} HEAD")
    sh("git checkout -q -- .", cwd=wt)
    rec = dict(m, at=HEAD)
    env = dict(ENV, PYTHONPATH=str(wt / "src"))
    try:
        apply(wt, m)
        rec["diff"] = sh("git diff -U0", cwd=wt)[1][-1500:]
        rc, out = sh("/venv/bin/python -c 'import qib'", cwd=wt, env=env, timeout=300)
        if rc != 0:
            rec["outcome"] = "does-not-import"
            return rec
        t0 = time.time()
        rc, out = sh("/venv/bin/python -m pytest -x -q -p no:cacheprovider --timeout=900 tests", cwd=wt, env=env, timeout=3600)
        rec["tests_s"] = round(time.time() - t0)
        if rc != 0:
            f = re.findall(r"^FAILED (\S+)", out, re.M)
            if f == ["tests/test_compact_encoding.py::TestCompactEncoding::test_field_operator_encoding"] or f == ["tests/test_compact_encoding.py::test_field_operator_encoding"]:
                rc2, _ = sh("/venv/bin/python -m pytest -q -p no:cacheprovider --timeout=900 tests", cwd=wt, env=env, timeout=3600)   # upstream flaky test
                if rc2 != 0:
                    rec["outcome"], rec["killed_by"] = "killed-by-tests", f[:3]
                    return rec
            else:
                rec["outcome"], rec["killed_by"] = "killed-by-tests", f[:3]
                return rec
        rec["checks_run"] = {}
        for c in m["checks"]:
            t0 = time.time()
            rc, out = sh(f"./check {c} --tier quick", cwd=ROOT, env=dict(ENV, QIB_REPO=str(wt)), timeout=3600)
            v = [l for l in out.splitlines() if l.startswith("VIOLATION")]
            key = None
            if v:
                mm = re.search(r"replay=(\S+)", v[0])
                if mm and (ROOT / mm.group(1)).exists():
                    r = json.loads((ROOT / mm.group(1)).read_text())
                    key = {"key": r.get("key"), "failing_input_found": r.get("failing_input_found")}
            rec["checks_run"][c] = {"rc": rc, "first": key, "wall_s": round(time.time() - t0), "tail": "" if rc in (0, 1) else out[-300:]}
            if rc == 1:
                rec["outcome"], rec["detected_by"] = "detected", c
                return rec
        rec["outcome"] = "survived" if all(x["rc"] == 0 for x in rec["checks_run"].values()) else "infra"
        return rec
    except Exception as e:
        rec["outcome"], rec["error"] = "infra", repr(e)[:300]
        return rec
    finally:
        sh("git checkout -q -- .", cwd=wt)


def run(workers, only):
    global HEAD
    HEAD = sh("git -C /repo rev-parse --short HEAD")[1].strip()
    plan = json.loads((OUT / "PLAN.json").read_text())
    resf = OUT / "RESULTS.jsonl"
    done = set()
    if resf.exists():
        for l in resf.read_text().splitlines():
            r = json.loads(l)
            if r.get("outcome") != "infra":
                done.add(r["id"])
    todo = [m for m in plan if m["id"] not in done and (not only or only in m["file"] or only in m["checks"])]
    random.Random(7).shuffle(todo)
    print(len(todo), "mutants to run,", len(done), "already recorded", flush=True)
    free = list(range(workers))

    def job(m):
        with LOCK:
            k = free.pop()
        try:
            rec = run_one(m, k)
        finally:
            with LOCK:
                free.append(k)
        with LOCK:
            with open(resf, "a") as f:
                f.write(json.dumps(rec) + "\n")
        print(rec["id"], rec["file"], rec["line"], rec["kind"], rec["old"], "->", rec["new"], "|", rec["outcome"], rec.get("detected_by") or rec.get("killed_by") or "", flush=True)

    with ThreadPoolExecutor(workers) as ex:
        list(ex.map(job, todo))
    for k in range(workers):
        wt = Path(f"/tmp/mut/w{k}/repo")
        sh(f"git -C /repo worktree remove --force {wt}")
        shutil.rmtree(f"/tmp/verif-lean-scratch/{hashlib.sha1(str(wt.resolve()).encode()).hexdigest()[:10]}", ignore_errors=True)
    shutil.rmtree("/tmp/mut", ignore_errors=True)


def table():
    rows = {}
    for l in (OUT / "RESULTS.jsonl").read_text().splitlines():
        r = json.loads(l)
        rows[r["id"]] = r
    tri = {}
    tf = OUT / "TRIAGE.json"
    if tf.exists():
        tri = json.loads(tf.read_text())
    agg = {}
    for r in rows.values():
        a = agg.setdefault(r["file"], {"killed-by-tests": 0, "detected": 0, "survived": 0, "does-not-import": 0, "infra": 0})
        a[r["outcome"]] = a.get(r["outcome"], 0) + 1
    out = ["| File | mutants | killed by the test-suite | pass the tests: detected by a check | pass the tests: all named checks green | of these triaged equivalent / outside every property / MISS |", "|---|---|---|---|---|---|"]
    tot = [0, 0, 0, 0]
    for f in sorted(agg):
        a = agg[f]
        sv = [r for r in rows.values() if r["file"] == f and r["outcome"] == "survived"]
        t = [tri.get(r["id"], {}).get("verdict", "untriaged") for r in sv]
        cell = " / ".join(str(sum(1 for x in t if x == v)) for v in ("equivalent", "outside", "miss")) + (f" (+{t.count('untriaged')} untriaged)" if "untriaged" in t else "")
        n = sum(a.values())
        out.append(f"| {f} | {n} | {a['killed-by-tests'] + a['does-not-import']} | {a['detected']} | {a['survived']} | {cell} |")
        tot = [tot[0] + n, tot[1] + a['killed-by-tests'] + a['does-not-import'], tot[2] + a['detected'], tot[3] + a['survived']]
    out.append(f"| **total** | {tot[0]} | {tot[1]} | {tot[2]} | {tot[3]} | |")
    text = "\n".join(out)
    print(text)
    p = ROOT / "DESIGN.md"
    s = p.read_text()
    if "<!-- MUTTABLE:BEGIN -->" in s:
        a, b = s.index("<!-- MUTTABLE:BEGIN -->"), s.index("<!-- MUTTABLE:END -->")
        p.write_text(s[:a] + "<!-- MUTTABLE:BEGIN -->\n" + text + "\n" + s[b:])


if __name__ == "__main__":
    cmd = sys.argv[1]
    arg = lambda n, d: (sys.argv[sys.argv.index(n) + 1] if n in sys.argv else d)
    if cmd == "gen":
        gen(int(arg("--per-file", "8")), int(arg("--seed", "1")))
    elif cmd == "run":
        run(int(arg("--workers", "4")), arg("--only", ""))
    else:
        table()
