"""Translator: Python source of /repo/src/qib  ->  lean/QibGen/*.lean (regenerated on every run).

Only a small, explicitly listed source language is accepted (DESIGN.md Appendix A); anything else
raises TranslationError, which the check treats as a broken tie (never silently skipped).
The front end (AST -> IR) is validated against the live, imported module on every run.
"""
from __future__ import annotations
import ast, json
from pathlib import Path
from common import REPO, LEAN, write_if_changed


class TranslationError(Exception):
    pass


def parse_src(rel):
    p = REPO / "src" / "qib" / rel
    return ast.parse(p.read_text(), filename=str(p))


def find_class(mod, name):
    for n in mod.body:
        if isinstance(n, ast.ClassDef) and n.name == name:
            return n
    raise TranslationError(f"class {name} not found")


def find_func(node, name):
    for n in node.body:
        if isinstance(n, (ast.FunctionDef, ast.AsyncFunctionDef)) and n.name == name:
            return n
    raise TranslationError(f"function {name} not found")


def body_nodoc(fn):
    b = fn.body
    if b and isinstance(b[0], ast.Expr) and isinstance(getattr(b[0], "value", None), ast.Constant) and isinstance(b[0].value.value, str):
        b = b[1:]
    return b



ALL = ("tables", "gates", "pauli", "wmiconfig", "vqe")   # every translator module in harness/translators/ that setup.sh should run


def regenerate(which=ALL):
    """Run the named translator modules (harness/translators/<name>.py). Each module exposes
    `generate() -> dict[relative Lean path -> text]` plus `validate(ir) -> list of error strings`
    through a single `run() -> ir` that raises TranslationError on unsupported source or on a
    front-end validation mismatch, and writes its files under lean/QibGen/ only if they changed."""
    import importlib
    out = {}
    for name in which:
        m = importlib.import_module("translators." + name)
        out[name] = m.run()
    return out


if __name__ == "__main__":
    import sys
    print(json.dumps(regenerate(tuple(sys.argv[1:]) or ALL), indent=1, default=str)[:4000])
