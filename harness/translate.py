"""Translator: Python source of /repo/src/qib  ->  lean/QibGen/*.lean (regenerated on every run).

Only a small, explicitly listed source language is accepted (DESIGN.md Appendix A); anything else
raises TranslationError, which the check treats as a broken tie (never silently skipped).
The front end (AST -> IR) is validated against the live, imported module on every run.
"""
from __future__ import annotations
import ast, json
from pathlib import Path
from common import REPO, LEAN, write_if_changed


class TranslationError(Exception):
    pass


def parse_src(rel):
    p = REPO / "src" / "qib" / rel
    return ast.parse(p.read_text(), filename=str(p))


def find_class(mod, name):
    for n in mod.body:
        if isinstance(n, ast.ClassDef) and n.name == name:
            return n
    raise TranslationError(f"class {name} not found")


def find_func(node, name):
    for n in node.body:
        if isinstance(n, (ast.FunctionDef, ast.AsyncFunctionDef)) and n.name == name:
            return n
    raise TranslationError(f"function {name} not found")


def body_nodoc(fn):
    b = fn.body
    if b and isinstance(b[0], ast.Expr) and isinstance(getattr(b[0], "value", None), ast.Constant) and isinstance(b[0].value.value, str):
        b = b[1:]
    return b



# ---------------------------------------------------------------------------------------------
# Reference fall-back (false-alarm guard).
#
# The syntactic front ends accept a small source language. A harmless rewrite of the source (a helper extracted, an idiom changed) can
# leave that language although the behaviour is unchanged. In that case the IR of the pinned commit (harness/translators/ref/<name>.json,
# committed, written by `python3 harness/translate.py --write-ref` on the unchanged tree) is used instead, and the tie to the code is the
# SAME front-end validation that runs in the normal mode: the IR is evaluated against the live, imported module (`validate`), plus the
# differential correspondence of the check itself. If the validation of the reference IR fails, the tie is broken as before.
# Which mode was used is recorded in MODES and ends up in the evidence file of the check.
# ---------------------------------------------------------------------------------------------
from fractions import Fraction
REFDIR = Path(__file__).resolve().parent / "translators" / "ref"
MODES = {}


def _enc(x):
    if isinstance(x, Fraction):
        return {"__frac__": [x.numerator, x.denominator]}
    if isinstance(x, dict):
        if not all(isinstance(k, str) or k is None for k in x):
            raise TypeError("non-string key in IR")
        return {("__none__" if k is None else k): _enc(v) for k, v in x.items()}
    if isinstance(x, (list, tuple)):
        return [_enc(v) for v in x]
    if isinstance(x, (str, int, float, bool)) or x is None:
        return x
    raise TypeError(f"IR value {x!r} cannot be stored")


def _dec(x):
    if isinstance(x, dict):
        if set(x) == {"__frac__"}:
            return Fraction(x["__frac__"][0], x["__frac__"][1])
        return {(None if k == "__none__" else k): _dec(v) for k, v in x.items()}
    if isinstance(x, list):
        return [_dec(v) for v in x]
    return x


def save_ref(name, ir):
    REFDIR.mkdir(parents=True, exist_ok=True)
    write_if_changed(REFDIR / f"{name}.json", json.dumps(_enc(ir), indent=1, sort_keys=True) + "\n")


def load_ref(name):
    p = REFDIR / f"{name}.json"
    if not p.exists():
        return None
    return _dec(json.loads(p.read_text()))


def with_reference(name, front_end, validate):
    """IR of translator `name`: from the syntactic front end, or - when the source left the accepted language - the reference IR;
    in both cases validated against the live module. Raises TranslationError when neither describes the live code."""
    try:
        ir = front_end()
        MODES[name] = {"mode": "translated from the current source text"}
    except TranslationError as e:
        ref = load_ref(name)
        if ref is None:
            raise
        ir = ref
        MODES[name] = {"mode": "reference IR of the pinned commit, validated against the live module", "front_end_refused": str(e)[:300]}
    errs = validate(ir)
    if errs:
        pre = "front-end validation failed: " if MODES[name]["mode"].startswith("translated") else \
            f"source left the translator's language ({MODES[name]['front_end_refused']}) and the reference tables do not describe the live module: "
        raise TranslationError(pre + "; ".join(errs[:5]))
    return ir


ALL = ("tables", "gates", "pauli", "wmiconfig", "vqe", "qasm", "wmiopts")   # every translator module in harness/translators/ that setup.sh should run


def regenerate(which=ALL):
    """Run the named translator modules (harness/translators/<name>.py). Each module exposes
    `generate() -> dict[relative Lean path -> text]` plus `validate(ir) -> list of error strings`
    through a single `run() -> ir` that raises TranslationError on unsupported source or on a
    front-end validation mismatch, and writes its files under lean/QibGen/ only if they changed."""
    import importlib
    out = {}
    for name in which:
        m = importlib.import_module("translators." + name)
        out[name] = m.run()
    return out


if __name__ == "__main__":
    import sys
    if "--write-ref" in sys.argv:
        import importlib
        for name in ALL:
            m = importlib.import_module("translators." + name)
            save_ref(name, m.reference_ir())
            print("reference IR written:", name)
        sys.exit(0)
    print(json.dumps(regenerate(tuple(sys.argv[1:]) or ALL), indent=1, default=str)[:4000])
