"""Translator: Python source of /repo/src/qib  ->  lean/QibGen/*.lean (regenerated on every run).

Only a small, explicitly listed source language is accepted (DESIGN.md Appendix A); anything else
raises TranslationError, which the check treats as a broken tie (never silently skipped).
The front end (AST -> IR) is validated against the live, imported module on every run.
"""
from __future__ import annotations
import ast, json
from pathlib import Path
from common import REPO, LEAN, write_if_changed


class TranslationError(Exception):
    pass


def _parse(rel):
    p = REPO / "src" / "qib" / rel
    return ast.parse(p.read_text(), filename=str(p))


def _find_class(mod, name):
    for n in mod.body:
        if isinstance(n, ast.ClassDef) and n.name == name:
            return n
    raise TranslationError(f"class {name} not found")


def _find_func(node, name):
    for n in node.body:
        if isinstance(n, (ast.FunctionDef, ast.AsyncFunctionDef)) and n.name == name:
            return n
    raise TranslationError(f"function {name} not found")


def _body_nodoc(fn):
    b = fn.body
    if b and isinstance(b[0], ast.Expr) and isinstance(getattr(b[0], "value", None), ast.Constant) and isinstance(b[0].value.value, str):
        b = b[1:]
    return b


# ---------------------------------------------------------------------------------------------
# backend tables (C17, C18)
# ---------------------------------------------------------------------------------------------

def status_enum():
    cls = _find_class(_parse("backend/experiment.py"), "ExperimentStatus")
    members = []
    for n in cls.body:
        if isinstance(n, ast.Assign) and len(n.targets) == 1 and isinstance(n.targets[0], ast.Name) and isinstance(n.value, ast.Constant):
            members.append(n.targets[0].id)
    if not members:
        raise TranslationError("ExperimentStatus has no members")
    fn = _find_func(cls, "is_terminal")
    body = _body_nodoc(fn)
    if len(body) != 1 or not isinstance(body[0], ast.Return):
        raise TranslationError("is_terminal: expected a single return")
    cmp_ = body[0].value
    if not (isinstance(cmp_, ast.Compare) and isinstance(cmp_.left, ast.Name) and cmp_.left.id == "self"
            and len(cmp_.ops) == 1 and isinstance(cmp_.ops[0], ast.In) and isinstance(cmp_.comparators[0], (ast.List, ast.Tuple, ast.Set))):
        raise TranslationError("is_terminal: expected `return self in [ExperimentStatus.X, ...]`")
    term = []
    for e in cmp_.comparators[0].elts:
        if not (isinstance(e, ast.Attribute) and isinstance(e.value, ast.Name) and e.value.id == "ExperimentStatus"):
            raise TranslationError("is_terminal: unexpected list element")
        term.append(e.attr)
    return members, term


def wmi_status_table():
    cls = _find_class(_parse("backend/wmi/wmi_experiment.py"), "WMIExperiment")
    fn = _find_func(cls, "_from_wmi_status")
    body = _body_nodoc(fn)
    if len(body) != 1 or not isinstance(body[0], ast.If):
        raise TranslationError("_from_wmi_status: expected one if/elif chain")

    def status_of(stmts):
        st = None
        for s in stmts:
            if (isinstance(s, ast.Assign) and len(s.targets) == 1 and isinstance(s.targets[0], ast.Attribute)
                    and isinstance(s.targets[0].value, ast.Name) and s.targets[0].value.id == "self"):
                if s.targets[0].attr == "status":
                    v = s.value
                    if not (isinstance(v, ast.Attribute) and isinstance(v.value, ast.Name) and v.value.id == "ExperimentStatus"):
                        raise TranslationError("_from_wmi_status: status must be an ExperimentStatus literal")
                    st = v.attr
                elif s.targets[0].attr == "error":
                    pass
                else:
                    raise TranslationError("_from_wmi_status: unexpected assignment")
            else:
                raise TranslationError("_from_wmi_status: unexpected statement")
        if st is None:
            raise TranslationError("_from_wmi_status: branch without status assignment")
        return st

    table, node = [], body[0]
    while True:
        t = node.test
        if not (isinstance(t, ast.Compare) and isinstance(t.left, ast.Name) and t.left.id == "status" and len(t.ops) == 1
                and isinstance(t.ops[0], ast.Eq) and isinstance(t.comparators[0], ast.Constant) and isinstance(t.comparators[0].value, str)):
            raise TranslationError("_from_wmi_status: expected `status == '<literal>'`")
        table.append((t.comparators[0].value, status_of(node.body)))
        if len(node.orelse) == 1 and isinstance(node.orelse[0], ast.If):
            node = node.orelse[0]
            continue
        if not node.orelse:
            raise TranslationError("_from_wmi_status: no catch-all else branch")
        default = status_of(node.orelse)
        break
    return table, default


def const_int(name):
    for n in _parse("util/const.py").body:
        tgt = None
        if isinstance(n, ast.AnnAssign) and isinstance(n.target, ast.Name):
            tgt, val = n.target.id, n.value
        elif isinstance(n, ast.Assign) and len(n.targets) == 1 and isinstance(n.targets[0], ast.Name):
            tgt, val = n.targets[0].id, n.value
        if tgt == name:
            if isinstance(val, ast.Constant) and isinstance(val.value, int) and val.value >= 0:
                return val.value
            raise TranslationError(f"{name}: expected a non-negative int literal")
    raise TranslationError(f"{name} not found")


def gen_tables():
    members, term = status_enum()
    table, default = wmi_status_table()
    maxr = const_int("NW_MAX_RETRIES")
    s = "-- GENERATED by harness/translate.py from /repo/src/qib -- do not edit\nnamespace QibGen\n\n"
    s += "inductive Status where\n  | " + " | ".join(members) + "\n  deriving DecidableEq, Repr, Inhabited\n\n"
    s += "def terminalList : List Status := [" + ", ".join("." + t for t in term) + "]\n\n"
    s += "def wmiStatusTable : List (String × Status) :=\n  [" + ", ".join(f'({json.dumps(k)}, .{v})' for k, v in table) + "]\n\n"
    s += f"def wmiStatusDefault : Status := .{default}\n\n"
    s += f"def nwMaxRetries : Nat := {maxr}\n\nend QibGen\n"
    ir = {"members": members, "terminal": term, "table": table, "default": default, "maxRetries": maxr}
    return s, ir


def validate_tables(ir):
    """Front-end validation against the live module."""
    from common import import_qib
    import_qib()
    from qib.backend import ExperimentStatus
    from qib.backend.wmi import WMIExperiment
    from qib.util import const
    errs = []
    if [m.name for m in ExperimentStatus] != ir["members"]:
        errs.append("enum members differ from live module")
    for m in ExperimentStatus:
        if m.is_terminal() != (m.name in ir["terminal"]):
            errs.append(f"is_terminal({m.name}) differs")

    class Dummy:
        pass
    for k, v in ir["table"] + [("__unknown__", ir["default"]), ("", ir["default"]), ("Pending", ir["default"])]:
        d = Dummy()
        WMIExperiment._from_wmi_status(d, k)
        if d.status.name != v:
            errs.append(f"_from_wmi_status({k!r}) = {d.status.name}, IR says {v}")
    if const.NW_MAX_RETRIES != ir["maxRetries"]:
        errs.append("NW_MAX_RETRIES differs")
    return errs


ALL = ("tables",)


def regenerate(which=("tables",)):
    """Regenerate the requested artefacts. Returns dict(name -> IR). Raises TranslationError."""
    out = {}
    if "tables" in which:
        s, ir = gen_tables()
        errs = validate_tables(ir)
        if errs:
            raise TranslationError("front-end validation failed: " + "; ".join(errs))
        write_if_changed(LEAN / "QibGen" / "Tables.lean", s)
        out["tables"] = ir
    return out


if __name__ == "__main__":
    print(json.dumps(regenerate(), indent=1))
