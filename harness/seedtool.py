"""Confirm a seeded property-breaking change and run the checks against it.

  seedtool.py <seed dir with patch.diff, demo.py, meta.json> <seed id, e.g. C03-1> <checks, comma separated> [--skip-tests]

1. fresh scratch worktree of /repo (HEAD);  2. demo on the clean tree must exit 0;  3. `git apply patch.diff`; demo must fail;
4. the pinned test-suite must give the same result as on the clean tree (61 passed);  5. every named check is run with
QIB_REPO=<worktree> (quick tier);  6. the seed is stored under /verif/seeded/<id>/ with what was run and what was detected;
7. worktree and scratch Lean project are removed."""
import hashlib, json, os, re, shutil, subprocess, sys, time
from pathlib import Path
ROOT = Path(__file__).resolve().parent.parent
ENV = dict(os.environ, OPENBLAS_NUM_THREADS="1", OMP_NUM_THREADS="1", PYTHONWARNINGS="ignore", PYTHONDONTWRITEBYTECODE="1")


def sh(cmd, cwd=None, env=None, timeout=7200):
    p = subprocess.run(cmd, shell=True, cwd=cwd, env=env or ENV, capture_output=True, text=True, timeout=timeout)
    return p.returncode, p.stdout + p.stderr


def main():
    src, sid, checks = Path(sys.argv[1]), sys.argv[2], sys.argv[3].split(",")
    skip_tests = "--skip-tests" in sys.argv
    wt = Path(f"/tmp/seedverify/{sid}/repo")
    sh(f"git -C /repo worktree remove --force {wt}")
    wt.parent.mkdir(parents=True, exist_ok=True)
    rc, out = sh(f"git -C /repo worktree add --detach {wt} HEAD")
    assert rc == 0, out
    rec = {"seed": sid, "checks": {}, "at_repo_head": sh("git -C /repo rev-parse --short HEAD")[1].strip()}
    env = dict(ENV, PYTHONPATH=str(wt / "src"))
    try:
        rc, out = sh(f"/venv/bin/python {src/'demo.py'}", cwd=wt, env=env, timeout=1800)
        rec["demo_clean_rc"] = rc
        rc, out = sh(f"git apply {src/'patch.diff'}", cwd=wt)
        rec["apply_rc"] = rc
        if rc != 0:
            rec["apply_out"] = out[-400:]
        rc, out = sh(f"/venv/bin/python {src/'demo.py'}", cwd=wt, env=env, timeout=1800)
        rec["demo_patched_rc"] = rc
        rec["demo_patched_tail"] = out[-300:]
        if not skip_tests:
            t0 = time.time()
            rc, out = sh("/venv/bin/python -m pytest -ra -q -p no:cacheprovider --timeout=900 --continue-on-collection-errors", cwd=wt, env=env, timeout=7200)
            m = re.search(r"(\d+) passed", out)
            f = re.search(r"(\d+) failed", out)
            rec["tests"] = {"rc": rc, "passed": int(m.group(1)) if m else 0, "failed": int(f.group(1)) if f else 0,
                            "wall_s": round(time.time() - t0), "failures": re.findall(r"^FAILED (\S+)", out, re.M)[:10]}
            # upstream test with an unseeded RNG and an exact-zero assertion: flaky on the unchanged tree as well; re-run it alone
            FLAKY = "tests/test_compact_encoding.py::TestCompactEncoding::test_field_operator_encoding"
            if rec["tests"]["failures"] == [FLAKY]:
                for _ in range(3):
                    rc2, _o = sh(f"/venv/bin/python -m pytest -q -p no:cacheprovider --timeout=900 {FLAKY}", cwd=wt, env=env, timeout=3600)
                    if rc2 == 0:
                        rec["tests"].update(passed=rec["tests"]["passed"] + 1, failed=0, flaky_rerun_passed=True)
                        break
        for c in checks:
            t0 = time.time()
            rc, out = sh(f"./check {c} --tier quick", cwd=ROOT, env=dict(ENV, QIB_REPO=str(wt), **({} if c == checks[0] else {"VERIF_NO_DEEPEN": "1"})), timeout=3600)
            v = [l for l in out.splitlines() if l.startswith("VIOLATION")]
            rp = None
            if v:
                m = re.search(r"replay=(\S+)", v[0])
                if m and (ROOT / m.group(1)).exists():
                    d = json.loads((ROOT / m.group(1)).read_text())
                    rp = {"key": d.get("key"), "what": str(d.get("what"))[:300], "failing_input_found": d.get("failing_input_found")}
            rec["checks"][c] = {"rc": rc, "violation_lines": v[:3], "first_replay": rp, "wall_s": round(time.time() - t0)}
    finally:
        sh(f"git -C /repo worktree remove --force {wt}")
        h = hashlib.sha1(str(wt.resolve()).encode()).hexdigest()[:10]
        shutil.rmtree(f"/tmp/verif-lean-scratch/{h}", ignore_errors=True)
        shutil.rmtree(wt.parent, ignore_errors=True)
    ok = rec.get("demo_clean_rc") == 0 and rec.get("apply_rc") == 0 and rec.get("demo_patched_rc", 0) != 0 and \
        (skip_tests or (rec["tests"]["failed"] == 0 and rec["tests"]["passed"] >= 61))
    rec["confirmed"] = ok
    rec["detected_by"] = [c for c, r in rec["checks"].items() if r["rc"] == 1 and r["violation_lines"]]
    dst = ROOT / "seeded" / sid
    if ok:
        dst.mkdir(parents=True, exist_ok=True)
        shutil.copy(src / "patch.diff", dst / "patch.diff")
        shutil.copy(src / "demo.py", dst / "demo.py")
        meta = json.loads((src / "meta.json").read_text()) if (src / "meta.json").exists() else {}
        meta["verification"] = rec
        (dst / "meta.json").write_text(json.dumps(meta, indent=1))
    print(json.dumps(rec, indent=1))


if __name__ == "__main__":
    main()
