"""Re-run the registered checks against every confirmed seeded change under /verif/seeded/ (scratch worktree + scratch Lean project,
/repo itself is never touched) and record what each check reports:  seedrun.py [seed ids...]  ->  seeded/DETECTION.json"""
import hashlib, json, os, re, shutil, subprocess, sys
from concurrent.futures import ThreadPoolExecutor
from pathlib import Path
ROOT = Path(__file__).resolve().parent.parent
ENV = dict(os.environ, OPENBLAS_NUM_THREADS="1", OMP_NUM_THREADS="1", PYTHONWARNINGS="ignore", PYTHONDONTWRITEBYTECODE="1")
EXTRA = {"C07": ["C08"], "C03": ["C05"], "C04": ["C05"], "C01": ["C02"], "C02": ["C01"], "C06": ["C05"], "C08": ["C07"], "C10": ["C11"], "C11": ["C12"]}


def sh(cmd, cwd=None, env=None, timeout=7200):
    p = subprocess.run(cmd, shell=True, cwd=cwd, env=env or ENV, capture_output=True, text=True, timeout=timeout)
    return p.returncode, p.stdout + p.stderr


def one(sid):
    d = ROOT / "seeded" / sid
    meta = json.loads((d / "meta.json").read_text())
    prop = meta.get("property") or sid.split("-")[0]
    ready = (ROOT / "harness" / "READY").read_text().split()
    checks = [c for c in [prop] + EXTRA.get(prop, []) if c in ready]
    wt = Path(f"/tmp/seedrun/{sid}/repo")
    sh(f"git -C /repo worktree remove --force {wt}")
    wt.parent.mkdir(parents=True, exist_ok=True)
    rc, out = sh(f"git -C /repo worktree add --detach {wt} HEAD")
    res = {}
    try:
        rc, out = sh(f"git apply {d/'patch.diff'}", cwd=wt)
        if rc != 0:
            return sid, {"error": "patch does not apply: " + out[-200:]}
        for c in checks:
            rc, out = sh(f"./check {c} --tier quick", cwd=ROOT, env=dict(ENV, QIB_REPO=str(wt), **({} if c == checks[0] else {"VERIF_NO_DEEPEN": "1"})), timeout=3600)
            v = [l for l in out.splitlines() if l.startswith("VIOLATION")]
            key = None
            if v:
                m = re.search(r"replay=(\S+)", v[0])
                if m and (ROOT / m.group(1)).exists():
                    r = json.loads((ROOT / m.group(1)).read_text())
                    key = {"key": r.get("key"), "failing_input_found": r.get("failing_input_found"), "what": str(r.get("what"))[:200]}
                    # the concrete failing input goes to the corpus of that check (replayed first on every run from now on)
                    if r.get("failing_input_found") and isinstance(r.get("case"), dict) and r.get("stage") and os.environ.get("SEED_CORPUS"):
                        cd = ROOT / "harness" / "corpus" / c
                        cd.mkdir(parents=True, exist_ok=True)
                        (cd / f"{sid}.json").write_text(json.dumps({"stage": r["stage"], "from_seed": sid, "key": r.get("key"), "case": r["case"]}, indent=1, default=str))
            res[c] = {"rc": rc, "violations": len(v), "first": key}
    finally:
        sh(f"git -C /repo worktree remove --force {wt}")
        shutil.rmtree(f"/tmp/verif-lean-scratch/{hashlib.sha1(str(wt.resolve()).encode()).hexdigest()[:10]}", ignore_errors=True)
        shutil.rmtree(wt.parent, ignore_errors=True)
    return sid, res


def main():
    ids = sys.argv[1:] or sorted(p.name for p in (ROOT / "seeded").iterdir() if (p / "patch.diff").exists())
    f = ROOT / "seeded" / "DETECTION.json"
    table = json.loads(f.read_text()) if f.exists() else {}
    with ThreadPoolExecutor(4) as ex:
        for sid, res in ex.map(one, ids):
            table[sid] = res
            print(sid, {c: (r["rc"], (r.get("first") or {}).get("key")) for c, r in res.items()} if "error" not in res else res, flush=True)
    f.write_text(json.dumps(table, indent=1, sort_keys=True))


if __name__ == "__main__":
    main()
