"""False-alarm guard: confirm a BEHAVIOUR-PRESERVING change (a harmless rewrite) and run the checks against it; they must stay green.

  benigntool.py <dir with patch.diff, equiv.py, meta.json> <id, e.g. C03-b1> <checks, comma separated> [--skip-tests] [--tier quick]

1. scratch worktree of /repo (HEAD);  2. equiv.py output on the clean tree;  3. `git apply patch.diff`; equiv.py output must be identical;
4. the pinned test-suite must pass (>= 61);  5. every named check is run with QIB_REPO=<worktree>;  6. the change is stored under
/verif/benign/<id>/ with what every check reported (green / red with or without a failing input);  7. scratch data removed.
A red check here is a FALSE ALARM candidate: the recorded replay is examined by hand (either the rewrite is not equivalent after all - then
it is moved to seeded/ - or the check is corrected)."""
import hashlib, json, os, re, shutil, subprocess, sys, time
from pathlib import Path
ROOT = Path(__file__).resolve().parent.parent
ENV = dict(os.environ, OPENBLAS_NUM_THREADS="1", OMP_NUM_THREADS="1", PYTHONWARNINGS="ignore", PYTHONDONTWRITEBYTECODE="1")


def sh(cmd, cwd=None, env=None, timeout=7200):
    p = subprocess.run(cmd, shell=True, cwd=cwd, env=env or ENV, capture_output=True, text=True, timeout=timeout)
    return p.returncode, p.stdout + p.stderr


def main():
    src, sid, checks = Path(sys.argv[1]), sys.argv[2], sys.argv[3].split(",")
    skip_tests = "--skip-tests" in sys.argv
    tier = sys.argv[sys.argv.index("--tier") + 1] if "--tier" in sys.argv else "quick"
    wt = Path(f"/tmp/benignverify/{sid}/repo")
    sh(f"git -C /repo worktree remove --force {wt}")
    wt.parent.mkdir(parents=True, exist_ok=True)
    rc, out = sh(f"git -C /repo worktree add --detach {wt} HEAD")
    assert rc == 0, out
    rec = {"id": sid, "checks": {}, "at_repo_head": sh("git -C /repo rev-parse --short HEAD")[1].strip(), "tier": tier}
    env = dict(ENV, PYTHONPATH=str(wt / "src"))
    try:
        rc0, out0 = sh(f"/venv/bin/python {src/'equiv.py'}", cwd=wt, env=env, timeout=1800)
        rc, out = sh(f"git apply {src/'patch.diff'}", cwd=wt)
        rec["apply_rc"] = rc
        if rc != 0:
            rec["apply_out"] = out[-400:]
        rc1, out1 = sh(f"/venv/bin/python {src/'equiv.py'}", cwd=wt, env=env, timeout=1800)
        rec["equiv"] = {"rc_clean": rc0, "rc_patched": rc1, "identical": out0 == out1, "lines": out0.count("\n")}
        if not skip_tests:
            t0 = time.time()
            rc, out = sh("/venv/bin/python -m pytest -ra -q -p no:cacheprovider --timeout=900 --continue-on-collection-errors", cwd=wt, env=env, timeout=7200)
            m = re.search(r"(\d+) passed", out)
            f = re.search(r"(\d+) failed", out)
            rec["tests"] = {"rc": rc, "passed": int(m.group(1)) if m else 0, "failed": int(f.group(1)) if f else 0,
                            "wall_s": round(time.time() - t0), "failures": re.findall(r"^FAILED (\S+)", out, re.M)[:10]}
            # upstream test with an unseeded RNG and an exact-zero assertion: flaky on the unchanged tree as well; re-run it alone
            FLAKY = "tests/test_compact_encoding.py::test_field_operator_encoding"
            if rec["tests"]["failures"] == [FLAKY]:
                for _ in range(3):
                    rc2, _o = sh(f"/venv/bin/python -m pytest -q -p no:cacheprovider --timeout=900 {FLAKY}", cwd=wt, env=env, timeout=3600)
                    if rc2 == 0:
                        rec["tests"].update(passed=rec["tests"]["passed"] + 1, failed=0, flaky_rerun_passed=True)
                        break
        for c in checks:
            t0 = time.time()
            rc, out = sh(f"./check {c} --tier {tier}", cwd=ROOT, env=dict(ENV, QIB_REPO=str(wt)), timeout=7200)
            v = [l for l in out.splitlines() if l.startswith("VIOLATION")]
            rps = []
            for l in v[:5]:
                m = re.search(r"replay=(\S+)", l)
                if m and (ROOT / m.group(1)).exists():
                    d = json.loads((ROOT / m.group(1)).read_text())
                    rps.append({"key": d.get("key"), "what": str(d.get("what"))[:600], "failing_input_found": d.get("failing_input_found"),
                                "case": json.loads(json.dumps(d.get("case"), default=str)) if d.get("failing_input_found") else None})
            rec["checks"][c] = {"rc": rc, "violation_lines": v[:5], "replays": rps, "wall_s": round(time.time() - t0),
                                "tail": out[-600:] if rc not in (0, 1) else ""}
    finally:
        sh(f"git -C /repo worktree remove --force {wt}")
        h = hashlib.sha1(str(wt.resolve()).encode()).hexdigest()[:10]
        shutil.rmtree(f"/tmp/verif-lean-scratch/{h}", ignore_errors=True)
        shutil.rmtree(wt.parent, ignore_errors=True)
    ok = rec.get("apply_rc") == 0 and rec["equiv"]["identical"] and rec["equiv"]["rc_clean"] == 0 and \
        (skip_tests or (rec["tests"]["failed"] == 0 and rec["tests"]["passed"] >= 61))
    rec["confirmed_equivalent_by_its_own_evidence"] = ok
    rec["alarms"] = [c for c, r in rec["checks"].items() if r["rc"] != 0]
    dst = ROOT / "benign" / sid
    if rec.get("apply_rc") == 0:
        dst.mkdir(parents=True, exist_ok=True)
        shutil.copy(src / "patch.diff", dst / "patch.diff")
        shutil.copy(src / "equiv.py", dst / "equiv.py")
        meta = json.loads((src / "meta.json").read_text()) if (src / "meta.json").exists() else {}
        meta["verification"] = rec
        (dst / "meta.json").write_text(json.dumps(meta, indent=1))
    print(json.dumps(rec, indent=1))


if __name__ == "__main__":
    main()
