"""Core C helpers shared by C07/C08 (and usable by C06/C05): random consistent hypergraph networks,
JSON transport of real qib networks to the Lean driver `drv_tnet`, scaffolds, brute-force values."""
from __future__ import annotations
import copy, itertools
import numpy as np
from common import import_qib

_q = {}


def qib_tn():
    if not _q:
        import_qib()
        from qib.tensor_network import symbolic_network, tensor_network, contraction_tree
        _q.update(sn=symbolic_network, tn=tensor_network, ct=contraction_tree)
    return _q["sn"], _q["tn"], _q["ct"]


ERR = {"ValueError": "ValueError", "RuntimeError": "RuntimeError", "AssertionError": "Assertion", "KeyError": "KeyError",
       "IndexError": "IndexError", "TypeError": "TypeError"}


def err_kind(e):
    for cls in type(e).__mro__:
        if cls.__name__ in ERR:
            return ERR[cls.__name__]
    return "Other:" + type(e).__name__


# ---------------------------------------------------------------------------------------------
# transport
# ---------------------------------------------------------------------------------------------

def net_json(stn):
    return {"tensors": [[int(k), int(t.tid), [int(d) for d in t.shape], [int(b) for b in t.bids], None if t.dataref is None else int(t.dataref)]
                        for k, t in stn.tensors.items()],
            "bonds": [[int(k), int(b.bid), [int(t) for t in b.tids]] for k, b in stn.bonds.items()]}


def data_json(data):
    return [[int(k), np.asarray(v).tolist(), [int(d) for d in np.shape(v)]] for k, v in data.items()]


def dt_np(j):
    """dense tensor reply {"shape", "v"} -> ndarray (object-free, int64)"""
    return np.array(j["v"], dtype=np.int64).reshape(j["shape"])


def build_net(desc):
    """desc = {"tensors": [[key, tid, shape, bids, dataref]...], "bonds": [[key, bid, tids]...]} -> SymbolicTensorNetwork
    (built through the public constructors; the description is the insertion order)."""
    sn, _, _ = qib_tn()
    stn = sn.SymbolicTensorNetwork()
    for k, tid, shape, bids, ref in desc["tensors"]:
        stn.add_tensor(sn.SymbolicTensor(tid, shape, bids, ref))
    for k, bid, tids in desc["bonds"]:
        stn.add_bond(sn.SymbolicBond(bid, tids))
    return stn


def build_tn(desc, data):
    _, tn, _ = qib_tn()
    return tn.TensorNetwork(build_net(desc), {int(k): np.array(v, dtype=np.int64).reshape(sh) for k, v, sh in data})


# ---------------------------------------------------------------------------------------------
# generator
# ---------------------------------------------------------------------------------------------

def gen_network(rng, max_tensors=6, max_bonds=8, max_open=5, max_cost=20000, id_pool=None, dims=(1, 2, 2, 2, 3), min_tensors=1):
    """Random consistent hypergraph network description + integer data.
    Bond multiplicity 2..4, dimensions 1..3, arbitrary shuffled ids (bond ids may be negative), traces,
    multi-edges, shared open legs, scalar tensors, open-only bonds, shared datarefs."""
    while True:
        nt = rng.randint(min_tensors, max_tensors)
        nb = rng.randint(1, max_bonds)
        pool = id_pool if id_pool is not None else list(range(0, 9)) + [11, 17, 40]
        tids = rng.sample(pool, nt)
        bpool = list(range(-4, 10)) + [13, 21]
        bids = rng.sample(bpool, nb)
        legs = {t: [] for t in tids + [-1]}     # tid -> list of (bid, dim)
        cost = 1
        for b in bids:
            m = rng.choice([2, 2, 2, 3, 3, 4])
            d = rng.choice(dims)
            cost *= d
            style = rng.random()
            for _ in range(m):
                if style < 0.06:
                    t = -1                       # open-only bond
                elif rng.random() < 0.22:
                    t = -1
                else:
                    t = rng.choice(tids)
                legs[t].append((b, d))
        if len(legs[-1]) > max_open or cost > max_cost:
            continue
        if any(len(v) > 6 for v in legs.values()):
            continue
        for t in legs:
            rng.shuffle(legs[t])
        order = tids + [-1]
        rng.shuffle(order)
        # datarefs: mostly distinct, sometimes shared between tensors of equal shape
        refs, byshape = {}, {}
        nextref = rng.choice([0, 0, 3, 10])
        for t in tids:
            sh = tuple(d for _, d in legs[t])
            if sh in byshape and rng.random() < 0.3:
                refs[t] = byshape[sh]
            else:
                refs[t] = nextref
                byshape[sh] = nextref
                nextref += rng.choice([1, 1, 2])
        tensors = [[t, t, [d for _, d in legs[t]], [b for b, _ in legs[t]], None if t == -1 else refs[t]] for t in order]
        border = list(bids)
        rng.shuffle(border)
        bonds = []
        for b in border:
            tl = [t for t in order for (bb, _) in legs[t] if bb == b]
            rng.shuffle(tl)
            bonds.append([b, b, sorted(tl)])
        data = {}
        for t in tids:
            if refs[t] not in data:
                sh = [d for _, d in legs[t]]
                n = int(np.prod(sh)) if sh else 1
                data[refs[t]] = [refs[t], np.array([rng.randint(-3, 3) for _ in range(n)], dtype=np.int64).reshape(sh).tolist(), sh]
        return {"tensors": tensors, "bonds": bonds}, list(data.values())


def all_scaffolds(leaves):
    """all (2n-3)!! unordered full binary trees over the labelled leaves (as nested lists / ints)"""
    leaves = list(leaves)
    if len(leaves) == 1:
        return [leaves[0]]
    res = []
    first, rest = leaves[0], leaves[1:]
    # split: the part containing `first` vs. the other part (non-empty)
    for r in range(0, len(rest)):
        for left_extra in itertools.combinations(rest, r):
            right = [x for x in rest if x not in left_extra]
            for a in all_scaffolds([first] + list(left_extra)):
                for b in all_scaffolds(right):
                    res.append([a, b])
    return res


def random_scaffold(rng, leaves):
    items = list(leaves)
    rng.shuffle(items)
    while len(items) > 1:
        i = rng.randrange(len(items))
        a = items.pop(i)
        j = rng.randrange(len(items))
        b = items.pop(j)
        items.append([a, b])
    return items[0]


def orient(rng, s):
    """randomly swap children (the builder distinguishes left/right)"""
    if isinstance(s, int):
        return s
    a, b = orient(rng, s[0]), orient(rng, s[1])
    return [b, a] if rng.random() < 0.5 else [a, b]


def scaffold_nodes(s, path=()):
    """preorder list of (path, is_leaf)"""
    if isinstance(s, int):
        return [(list(path), True)]
    return [(list(path), False)] + scaffold_nodes(s[0], path + (0,)) + scaffold_nodes(s[1], path + (1,))


def tree_nodes(node):
    """preorder list of the five lists of every node of a real ContractionTreeNode"""
    out = [{"tid": int(node.tid), "idxL": [int(x) for x in node.idxL], "idxR": [int(x) for x in node.idxR],
            "idxout": [int(x) for x in node.idxout], "openaxes": [[int(a), int(b)] for a, b in node.openaxes],
            "trackaxes": [int(x) for x in node.trackaxes]}]
    for c in node.children:
        if c:
            out += tree_nodes(c)
    return out


def node_at(root, path):
    n = root
    for b in path:
        n = n.children[b]
    return n


# ---------------------------------------------------------------------------------------------
# independent values
# ---------------------------------------------------------------------------------------------

def brute_value(stn, data):
    """The defining sum, independent of `as_einsum`: one einsum label per bond, open bonds kept once, then the
    Kronecker structure of shared open legs expanded explicitly."""
    v = stn.tensors[-1]
    bl = {b: i for i, b in enumerate(stn.bonds.keys())}
    args = []
    for tid, t in stn.tensors.items():
        if tid == -1:
            continue
        args += [np.asarray(data[t.dataref]), [bl[b] for b in t.bids]]
    openb = list(dict.fromkeys(v.bids))
    used = {bl[b] for tid, t in stn.tensors.items() if tid != -1 for b in t.bids}
    for k, b in enumerate(v.bids):
        if bl[b] not in used:
            args += [np.ones(v.shape[k], dtype=np.int64), [bl[b]]]
            used.add(bl[b])
    args.append([bl[b] for b in openb])
    core = np.einsum(*args)
    out = np.zeros(v.shape, dtype=np.int64)
    for idx in np.ndindex(*v.shape):
        val = {}
        ok = True
        for k, b in enumerate(v.bids):
            if val.setdefault(b, idx[k]) != idx[k]:
                ok = False
                break
        if ok:
            out[idx] = core[tuple(val[b] for b in openb)]
    return out


def brute_value_loops(stn, data, limit=400):
    """Pure-Python defining sum (no einsum at all) for tiny networks; None when too large."""
    v = stn.tensors[-1]
    dims = {}
    for t in stn.tensors.values():
        for b, d in zip(t.bids, t.shape):
            dims[b] = d
    inner = [b for b in stn.bonds if b not in v.bids]
    cost = int(np.prod([dims[b] for b in stn.bonds])) if stn.bonds else 1
    if cost > limit:
        return None
    out = np.zeros(v.shape, dtype=np.int64)
    real = [t for tid, t in stn.tensors.items() if tid != -1]
    for idx in np.ndindex(*v.shape):
        val = {}
        ok = True
        for k, b in enumerate(v.bids):
            if val.setdefault(b, idx[k]) != idx[k]:
                ok = False
                break
        if not ok:
            continue
        s = 0
        for asg in itertools.product(*[range(dims[b]) for b in inner]):
            val.update(zip(inner, asg))
            p = 1
            for t in real:
                p *= int(np.asarray(data[t.dataref])[tuple(val[b] for b in t.bids)])
            s += p
        out[idx] = s
    return out


def cost_of(desc):
    dims = {}
    for _, _, shape, bids, _ in desc["tensors"]:
        for b, d in zip(bids, shape):
            dims[b] = d
    c = 1
    for k, _, _ in desc["bonds"]:
        c *= dims.get(k, 1)
    return c


def value_cost(desc):
    """entries of the logical tensor times the number of internal bond assignments (same rule as the driver)"""
    dims = {}
    vb, vs = [], []
    for k, _, shape, bids, _ in desc["tensors"]:
        for b, d in zip(bids, shape):
            dims.setdefault(b, d)
        if k == -1:
            vb, vs = bids, shape
    c = 1
    for d in vs:
        c *= d
    for k, _, _ in desc["bonds"]:
        if k not in vb:
            c *= dims.get(k, 1)
    return c


def gen_wrapped(rng, max_axes=4):
    """one tensor, every axis open exactly once, the logical axes in a random order (TensorNetwork.wrap + transpose)"""
    k = rng.randint(0, max_axes)
    tid = rng.choice([0, 1, 5, 17])
    bids = rng.sample(list(range(-3, 9)), k)
    shape = [rng.choice([1, 2, 3, 3]) for _ in range(k)]
    perm = list(range(k))
    rng.shuffle(perm)
    tensors = [[tid, tid, shape, bids, 7], [-1, -1, [shape[p] for p in perm], [bids[p] for p in perm], None]]
    if rng.random() < 0.5:
        tensors.reverse()
    bonds = [[b, b, sorted([-1, tid])] for b in bids]
    rng.shuffle(bonds)
    n = int(np.prod(shape)) if shape else 1
    data = [[7, np.array([rng.randint(-3, 3) for _ in range(n)], dtype=np.int64).reshape(shape).tolist(), shape]]
    return {"tensors": tensors, "bonds": bonds}, data
