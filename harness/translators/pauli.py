"""Translator module `pauli`: tables and formulas of qib/operator/pauli_operator.py (C09; reused by C10-C13, C15, C16, C20).

Regenerates lean/QibGen/PauliTables.lean from the *current* source:
  * the phase tables `[1., -1j, -1., 1j]` of `PauliString.as_matrix`, `PauliString.refactor_phase`,
    `WeightedPauliString.is_hermitian` and `WeightedPauliString.__str__` (Gaussian integers),
  * the index expression of the `as_matrix` table lookup, `(q + z.x) % 4` (the Y = -i Z X compensation),
  * the 2x2 matrices X and Z of `as_matrix`,
  * the prefixes printed by `__str__` for q = 0..3,
  * the characters and phase values of the `from_string` decision tree,
  * the letter tables of `from_single_paulis` (letter -> (z, x)) and `get_pauli` ((z, x) -> letter),
  * the mod-4 phase formula of `__matmul__` and the parity formula of `commutes_with` as linear
    combinations of dot products,
  * the thresholds of `is_hermitian` (q % 2 == 0) and `refactor_sign` (q < 2 -> 1 else q %= 2, -1).
Accepted source language: exactly the statement shapes matched below; anything else -> TranslationError.
The front end is validated against the live module (`validate`).
"""
from __future__ import annotations
import ast, itertools, random
from translate import TranslationError, parse_src, find_class, find_func, body_nodoc
from common import LEAN, write_if_changed

SRC = "operator/pauli_operator.py"
VEC = {("self", "z"): "sz", ("self", "x"): "sx", ("other", "z"): "oz", ("other", "x"): "ox"}


def gauss(node):
    """numeric literal with optional leading minus whose value is a Gaussian integer -> (re, im)"""
    sign = 1
    if isinstance(node, ast.UnaryOp) and isinstance(node.op, ast.USub):
        sign, node = -1, node.operand
    elif isinstance(node, ast.UnaryOp) and isinstance(node.op, ast.UAdd):
        node = node.operand
    if not (isinstance(node, ast.Constant) and isinstance(node.value, (int, float, complex)) and not isinstance(node.value, bool)):
        raise TranslationError(f"phase table: unsupported entry {ast.dump(node)}")
    v = complex(node.value) * sign
    if v.real != int(v.real) or v.imag != int(v.imag) or abs(v.real) > 10 or abs(v.imag) > 10:
        raise TranslationError(f"phase table: entry {v} is not a small Gaussian integer")
    return (int(v.real), int(v.imag))


def table_of(node, what):
    if not isinstance(node, ast.List) or len(node.elts) != 4:
        raise TranslationError(f"{what}: expected a list literal with four entries")
    return [gauss(e) for e in node.elts]


def is_attr(node, obj, attr):
    return isinstance(node, ast.Attribute) and isinstance(node.value, ast.Name) and node.value.id == obj and node.attr == attr


def is_self_q(node):
    return is_attr(node, "self", "q")


def is_paulis_q(node):
    return (isinstance(node, ast.Attribute) and node.attr == "q" and is_attr(node.value, "self", "paulis"))


def find_table_subscripts(fn):
    """all `[a,b,c,d][index]` expressions in a function"""
    res = []
    for n in ast.walk(fn):
        if isinstance(n, ast.Subscript) and isinstance(n.value, ast.List):
            res.append(n)
    return res


def vec_name(node, local):
    if isinstance(node, ast.Attribute) and isinstance(node.value, ast.Name) and (node.value.id, node.attr) in VEC:
        return VEC[(node.value.id, node.attr)]
    if isinstance(node, ast.Name) and node.id in local:
        return local[node.id]
    raise TranslationError(f"dot product operand not understood: {ast.dump(node)}")


def int_const(node):
    if isinstance(node, ast.Constant) and isinstance(node.value, int) and not isinstance(node.value, bool):
        return node.value
    if isinstance(node, ast.UnaryOp) and isinstance(node.op, ast.USub):
        return -int_const(node.operand)
    raise TranslationError(f"integer literal expected: {ast.dump(node)}")


def lin_dots(node, local, sign=1):
    """linear combination of np.dot(a, b) terms -> [(coef, a, b)]"""
    if isinstance(node, ast.BinOp) and isinstance(node.op, ast.Add):
        return lin_dots(node.left, local, sign) + lin_dots(node.right, local, sign)
    if isinstance(node, ast.BinOp) and isinstance(node.op, ast.Sub):
        return lin_dots(node.left, local, sign) + lin_dots(node.right, local, -sign)
    if isinstance(node, ast.UnaryOp) and isinstance(node.op, ast.USub):
        return lin_dots(node.operand, local, -sign)
    if isinstance(node, ast.BinOp) and isinstance(node.op, ast.Mult):
        try:
            c = int_const(node.left)
            return [(c * k, a, b) for (k, a, b) in lin_dots(node.right, local, sign)]
        except TranslationError:
            c = int_const(node.right)
            return [(c * k, a, b) for (k, a, b) in lin_dots(node.left, local, sign)]
    if (isinstance(node, ast.Call) and is_attr(node.func, "np", "dot") and len(node.args) == 2 and not node.keywords):
        return [(sign, vec_name(node.args[0], local), vec_name(node.args[1], local))]
    raise TranslationError(f"phase formula: unsupported expression {ast.dump(node)[:120]}")


def is_mod2_sum(node, a, b):
    """np.mod(self.<a> + other.<a>, 2)"""
    return (isinstance(node, ast.Call) and is_attr(node.func, "np", "mod") and len(node.args) == 2
            and isinstance(node.args[1], ast.Constant) and node.args[1].value == 2
            and isinstance(node.args[0], ast.BinOp) and isinstance(node.args[0].op, ast.Add)
            and is_attr(node.args[0].left, "self", a) and is_attr(node.args[0].right, "other", b))


def char_const(node, what):
    if isinstance(node, ast.Constant) and isinstance(node.value, str) and len(node.value) == 1:
        return node.value
    raise TranslationError(f"{what}: one-character string literal expected")


def s_index_eq(test, idx, what):
    """`s[idx] == '<c>'` -> c"""
    if (isinstance(test, ast.Compare) and len(test.ops) == 1 and isinstance(test.ops[0], ast.Eq)
            and isinstance(test.left, ast.Subscript) and isinstance(test.left.value, ast.Name) and test.left.value.id == "s"
            and isinstance(test.left.slice, ast.Constant) and test.left.slice.value == idx):
        return char_const(test.comparators[0], what)
    raise TranslationError(f"{what}: expected `s[{idx}] == '<char>'`")


def s_drop(stmt, k, what):
    """`s = s[k:]`"""
    ok = (isinstance(stmt, ast.Assign) and len(stmt.targets) == 1 and isinstance(stmt.targets[0], ast.Name) and stmt.targets[0].id == "s"
          and isinstance(stmt.value, ast.Subscript) and isinstance(stmt.value.value, ast.Name) and stmt.value.value.id == "s"
          and isinstance(stmt.value.slice, ast.Slice) and stmt.value.slice.upper is None and stmt.value.slice.step is None
          and isinstance(stmt.value.slice.lower, ast.Constant) and stmt.value.slice.lower.value == k)
    if not ok:
        raise TranslationError(f"{what}: expected `s = s[{k}:]`")


def q_assign(stmt, what):
    if (isinstance(stmt, ast.Assign) and len(stmt.targets) == 1 and isinstance(stmt.targets[0], ast.Name) and stmt.targets[0].id == "q"):
        return int_const(stmt.value)
    raise TranslationError(f"{what}: expected `q = <int>`")


def q_and_drop(stmts, k, what):
    if len(stmts) != 2:
        raise TranslationError(f"{what}: expected `q = <int>; s = s[{k}:]`")
    qv = q_assign(stmts[0], what)
    s_drop(stmts[1], k, what)
    return qv


def parse_tree(fn):
    b = body_nodoc(fn)
    if len(b) != 4:
        raise TranslationError("from_string: expected replace / '+' test / prefix decision tree / return")
    st = b[0]
    ok = (isinstance(st, ast.Assign) and isinstance(st.value, ast.Call) and isinstance(st.value.func, ast.Attribute)
          and st.value.func.attr == "replace" and isinstance(st.value.func.value, ast.Name) and st.value.func.value.id == "s"
          and len(st.value.args) == 2 and isinstance(st.value.args[1], ast.Constant) and st.value.args[1].value == "")
    if not ok:
        raise TranslationError("from_string: expected `s = s.replace('<c>', '')`")
    blank = char_const(st.value.args[0], "from_string blank")
    st = b[1]
    if not (isinstance(st, ast.If) and not st.orelse and len(st.body) == 1):
        raise TranslationError("from_string: expected `if s[0] == '+': s = s[1:]`")
    plus = s_index_eq(st.test, 0, "from_string plus")
    s_drop(st.body[0], 1, "from_string plus")
    st = b[2]
    if not (isinstance(st, ast.If) and len(st.body) == 1 and isinstance(st.body[0], ast.If) and len(st.orelse) == 1 and isinstance(st.orelse[0], ast.If)):
        raise TranslationError("from_string: expected the if/elif/else prefix decision tree")
    minus = s_index_eq(st.test, 0, "from_string minus")
    inner = st.body[0]
    minus_i = s_index_eq(inner.test, 1, "from_string minus-i")
    q_mi = q_and_drop(inner.body, 2, "from_string '-i' branch")
    q_m = q_and_drop(inner.orelse, 1, "from_string '-' branch")
    el = st.orelse[0]
    imag = s_index_eq(el.test, 0, "from_string i")
    q_i = q_and_drop(el.body, 1, "from_string 'i' branch")
    if len(el.orelse) != 1:
        raise TranslationError("from_string: expected `else: q = <int>`")
    q_0 = q_assign(el.orelse[0], "from_string default branch")
    ret = b[3]
    want = "cls.from_single_paulis(len(s), *[list(reversed(x)) for x in enumerate(s)], q=q)"
    if not (isinstance(ret, ast.Return) and ast.unparse(ret.value) == want):
        raise TranslationError("from_string: expected `return " + want + "`")
    return {"blank": blank, "plus": plus, "minus": minus, "minus_i": minus_i, "imag": imag,
            "q_minus_i": q_mi, "q_minus": q_m, "q_i": q_i, "q_none": q_0}


def zx_assign(stmts, what):
    """`z[i] = a; x[i] = b` -> (a, b)"""
    got = {}
    for s in stmts:
        if (isinstance(s, ast.Assign) and len(s.targets) == 1 and isinstance(s.targets[0], ast.Subscript)
                and isinstance(s.targets[0].value, ast.Name) and s.targets[0].value.id in ("z", "x")
                and isinstance(s.targets[0].slice, ast.Name) and s.targets[0].slice.id == "i"):
            v = int_const(s.value)
            if v not in (0, 1):
                raise TranslationError(f"{what}: bit value expected")
            got[s.targets[0].value.id] = v
        else:
            raise TranslationError(f"{what}: expected `z[i] = b; x[i] = b`")
    if set(got) != {"z", "x"} or len(stmts) != 2:
        raise TranslationError(f"{what}: expected exactly one assignment to z[i] and one to x[i]")
    return got["z"], got["x"]


def letter_table(fn):
    """if-chain of from_single_paulis inside the `for arg in args` loop"""
    loop = None
    for n in body_nodoc(fn):
        if isinstance(n, ast.For) and isinstance(n.iter, ast.Name) and n.iter.id == "args":
            loop = n
    if loop is None:
        raise TranslationError("from_single_paulis: loop not found")
    chain = [n for n in loop.body if isinstance(n, ast.If) and isinstance(n.test, ast.Compare) and isinstance(n.test.left, ast.Name) and n.test.left.id == "s"]
    if len(chain) != 1:
        raise TranslationError("from_single_paulis: expected one if-chain on the letter")
    node, table = chain[0], []
    while True:
        t = node.test
        if not (isinstance(t, ast.Compare) and isinstance(t.left, ast.Name) and t.left.id == "s" and len(t.ops) == 1 and isinstance(t.ops[0], ast.Eq)):
            raise TranslationError("from_single_paulis: expected `s == '<letter>'`")
        table.append((char_const(t.comparators[0], "from_single_paulis letter"),) + zx_assign(node.body, "from_single_paulis"))
        if len(node.orelse) == 1 and isinstance(node.orelse[0], ast.If):
            node = node.orelse[0]
            continue
        if not (len(node.orelse) == 1 and isinstance(node.orelse[0], ast.Raise)):
            raise TranslationError("from_single_paulis: the chain must end with `else: raise`")
        break
    return table


def get_pauli_table(fn):
    """nested ifs `if self.z[i] == 0: (if self.x[i] == 0: return a else: return b) else: (...)`"""
    def bit_test(t, v):
        return (isinstance(t, ast.Compare) and len(t.ops) == 1 and isinstance(t.ops[0], ast.Eq)
                and isinstance(t.left, ast.Subscript) and is_attr(t.left.value, "self", v)
                and isinstance(t.left.slice, ast.Name) and t.left.slice.id == "i"
                and isinstance(t.comparators[0], ast.Constant) and t.comparators[0].value == 0)

    def ret_char(stmts):
        if len(stmts) == 1 and isinstance(stmts[0], ast.Return):
            return char_const(stmts[0].value, "get_pauli")
        raise TranslationError("get_pauli: expected `return '<letter>'`")

    b = body_nodoc(fn)
    if not (len(b) == 1 and isinstance(b[0], ast.If) and bit_test(b[0].test, "z")):
        raise TranslationError("get_pauli: expected `if self.z[i] == 0:`")
    out = []
    for zval, branch in ((0, b[0].body), (1, b[0].orelse)):
        if not (len(branch) == 1 and isinstance(branch[0], ast.If) and bit_test(branch[0].test, "x")):
            raise TranslationError("get_pauli: expected `if self.x[i] == 0:`")
        out.append((zval, 0, ret_char(branch[0].body)))
        out.append((zval, 1, ret_char(branch[0].orelse)))
    return out


def print_prefixes(fn):
    b = body_nodoc(fn)
    if not (b and isinstance(b[0], ast.If)):
        raise TranslationError("__str__: expected the if-chain on self.q first")
    node, pref = b[0], {}
    while True:
        t = node.test
        if not (isinstance(t, ast.Compare) and is_self_q(t.left) and len(t.ops) == 1 and isinstance(t.ops[0], ast.Eq)):
            raise TranslationError("__str__: expected `self.q == <int>`")
        k = int_const(t.comparators[0])
        if not (len(node.body) == 1 and isinstance(node.body[0], ast.Assign) and isinstance(node.body[0].targets[0], ast.Name)
                and node.body[0].targets[0].id == "s" and isinstance(node.body[0].value, ast.Constant) and isinstance(node.body[0].value.value, str)):
            raise TranslationError("__str__: expected `s = '<prefix>'`")
        pref[k] = node.body[0].value.value
        if len(node.orelse) == 1 and isinstance(node.orelse[0], ast.If):
            node = node.orelse[0]
            continue
        break
    if sorted(pref) != [0, 1, 2, 3]:
        raise TranslationError("__str__: prefixes for q = 0, 1, 2, 3 expected")
    rest = b[1:]
    want = ["for i in range(self.num_qubits):\n    s += self.get_pauli(i)", "return s"]
    if [ast.unparse(x) for x in rest] != want:
        raise TranslationError("__str__: expected the letter loop `s += self.get_pauli(i)` and `return s`")
    return [pref[k] for k in range(4)]


def mat2(node, what):
    """sparse.csr_matrix([[a, b], [c, d]]) with small integer entries"""
    if not (isinstance(node, ast.Call) and is_attr(node.func, "sparse", "csr_matrix") and len(node.args) == 1 and isinstance(node.args[0], ast.List)):
        raise TranslationError(f"{what}: expected sparse.csr_matrix([[..],[..]])")
    rows = node.args[0].elts
    if len(rows) != 2 or any(not isinstance(r, ast.List) or len(r.elts) != 2 for r in rows):
        raise TranslationError(f"{what}: expected a 2x2 literal")
    out = []
    for r in rows:
        row = []
        for e in r.elts:
            re_, im_ = gauss(e)
            if im_ != 0:
                raise TranslationError(f"{what}: real entries expected")
            row.append(re_)
        out.append(row)
    return out


def as_matrix_ir(fn):
    b = body_nodoc(fn)
    X = Z = None
    for s in b:
        if isinstance(s, ast.Assign) and isinstance(s.targets[0], ast.Name) and s.targets[0].id == "X":
            X = mat2(s.value, "as_matrix X")
        if isinstance(s, ast.Assign) and isinstance(s.targets[0], ast.Name) and s.targets[0].id == "Z":
            Z = mat2(s.value, "as_matrix Z")
    if X is None or Z is None:
        raise TranslationError("as_matrix: X / Z literals not found")
    loops = [s for s in b if isinstance(s, ast.For)]
    want_loop = ("for i in range(self.num_qubits):\n    op = sparse.csr_matrix(sparse.kron(op, Z ** self.z[i] @ X ** self.x[i]))\n"
                 "    op.eliminate_zeros()")
    if len(loops) != 1 or ast.unparse(loops[0]) != want_loop:
        raise TranslationError("as_matrix: expected the loop `op = kron(op, Z**z[i] @ X**x[i])`")
    subs = find_table_subscripts(fn)
    if len(subs) != 1:
        raise TranslationError("as_matrix: expected exactly one phase-table lookup")
    table = table_of(subs[0].value, "as_matrix phase table")
    idx = subs[0].slice
    # (self.q + np.dot(self.z, self.x)) % 4
    if not (isinstance(idx, ast.BinOp) and isinstance(idx.op, ast.Mod) and int_const(idx.right) == 4
            and isinstance(idx.left, ast.BinOp) and isinstance(idx.left.op, ast.Add)):
        raise TranslationError("as_matrix: phase index must be `(self.q + <dots>) % 4`")
    l, r = idx.left.left, idx.left.right
    if is_self_q(r):
        l, r = r, l
    if not is_self_q(l):
        raise TranslationError("as_matrix: phase index must contain self.q")
    terms = lin_dots(r, {})
    last = b[-1]
    if not (isinstance(last, ast.Return) and ast.unparse(last.value) == "phase * op"):
        raise TranslationError("as_matrix: expected `return phase * op`")
    return {"X": X, "Z": Z, "table": table, "index_terms": terms}


def matmul_ir(fn):
    b = body_nodoc(fn)
    if len(b) != 4:
        raise TranslationError("__matmul__: expected z_prod, x_prod, q_prod, return")
    names = {}
    for st, v in ((b[0], "z"), (b[1], "x")):
        if not (isinstance(st, ast.Assign) and isinstance(st.targets[0], ast.Name) and is_mod2_sum(st.value, v, v)):
            raise TranslationError(f"__matmul__: expected `{v}_prod = np.mod(self.{v} + other.{v}, 2)`")
        names[st.targets[0].id] = "p" + v
    st = b[2]
    if not (isinstance(st, ast.Assign) and isinstance(st.targets[0], ast.Name)):
        raise TranslationError("__matmul__: expected `q_prod = int(...)`")
    qname = st.targets[0].id
    val = st.value
    if isinstance(val, ast.Call) and isinstance(val.func, ast.Name) and val.func.id == "int" and len(val.args) == 1:
        val = val.args[0]
    terms = lin_dots(val, names)
    zname = [k for k, v in names.items() if v == "pz"][0]
    xname = [k for k, v in names.items() if v == "px"][0]
    rets = {f"PauliString({zname}, {xname}, self.q + other.q + {qname})", f"PauliString({zname}, {xname}, self.q + {qname} + other.q)",
            f"PauliString({zname}, {xname}, {qname} + self.q + other.q)"}
    if not (isinstance(b[3], ast.Return) and ast.unparse(b[3].value) in rets):
        raise TranslationError("__matmul__: expected `return PauliString(z_prod, x_prod, self.q + other.q + q_prod)`")
    return terms


def commutes_ir(fn):
    b = body_nodoc(fn)
    if not (len(b) == 1 and isinstance(b[0], ast.Return)):
        raise TranslationError("commutes_with: expected a single return")
    c = b[0].value
    if not (isinstance(c, ast.Compare) and len(c.ops) == 1 and isinstance(c.ops[0], ast.Eq) and int_const(c.comparators[0]) == 0
            and isinstance(c.left, ast.BinOp) and isinstance(c.left.op, ast.Mod) and int_const(c.left.right) == 2):
        raise TranslationError("commutes_with: expected `(<dots>) % 2 == 0`")
    return lin_dots(c.left.left, {})


def hermitian_ir(fn):
    b = body_nodoc(fn)
    if len(b) == 1 and isinstance(b[0], ast.Return) and ast.unparse(b[0].value) == "self.q % 2 == 0":
        return {"mod": 2, "eq": 0}
    raise TranslationError("PauliString.is_hermitian: expected `return self.q % 2 == 0`")


def refactor_phase_ir(fn):
    subs = find_table_subscripts(fn)
    if len(subs) != 1 or not is_self_q(subs[0].slice):
        raise TranslationError("refactor_phase: expected one lookup `[...][self.q]`")
    src = [ast.unparse(s) for s in body_nodoc(fn) if not isinstance(s, ast.Assert)]
    if len(src) != 3 or not src[0].startswith("phase = [") or src[1] != "self.q = 0" or src[2] != "return phase":
        raise TranslationError("refactor_phase: expected `phase = [..][self.q]; self.q = 0; return phase`")
    return table_of(subs[0].value, "refactor_phase table")


def refactor_sign_ir(fn):
    src = [ast.unparse(s) for s in body_nodoc(fn) if not isinstance(s, ast.Assert)]
    b = [s for s in body_nodoc(fn) if not isinstance(s, ast.Assert)]
    if not (len(b) == 3 and isinstance(b[0], ast.If) and not b[0].orelse and len(b[0].body) == 1 and isinstance(b[0].body[0], ast.Return)
            and isinstance(b[0].test, ast.Compare) and is_self_q(b[0].test.left) and len(b[0].test.ops) == 1 and isinstance(b[0].test.ops[0], ast.Lt)
            and isinstance(b[1], ast.AugAssign) and is_self_q(b[1].target) and isinstance(b[1].op, ast.Mod) and isinstance(b[2], ast.Return)):
        raise TranslationError("refactor_sign: expected `if self.q < k: return a; self.q %= m; return b`; got " + " | ".join(src))
    return {"below": int_const(b[0].test.comparators[0]), "keep_factor": int_const(b[0].body[0].value),
            "mod": int_const(b[1].value), "factor": int_const(b[2].value)}


def weighted_tables(cls):
    out = {}
    for name in ("is_hermitian", "__str__"):
        fn = find_func(cls, name)
        subs = find_table_subscripts(fn)
        if len(subs) != 1 or not is_paulis_q(subs[0].slice):
            raise TranslationError(f"WeightedPauliString.{name}: expected one lookup `[...][self.paulis.q]`")
        out[name] = table_of(subs[0].value, f"WeightedPauliString.{name} table")
    b = body_nodoc(find_func(cls, "is_hermitian"))
    if not (len(b) == 1 and isinstance(b[0], ast.Return) and ast.unparse(b[0].value).endswith("[self.paulis.q] * self.weight).imag == 0")):
        raise TranslationError("WeightedPauliString.is_hermitian: expected `([..][self.paulis.q] * self.weight).imag == 0`")
    b = body_nodoc(find_func(cls, "as_matrix"))
    if not (len(b) == 1 and isinstance(b[0], ast.Return) and ast.unparse(b[0].value) == "self.weight * self.paulis.as_matrix()"):
        raise TranslationError("WeightedPauliString.as_matrix: expected `return self.weight * self.paulis.as_matrix()`")
    return out


def front_end():
    mod = parse_src(SRC)
    ps = find_class(mod, "PauliString")
    wps = find_class(mod, "WeightedPauliString")
    am = as_matrix_ir(find_func(ps, "as_matrix"))
    wt = weighted_tables(wps)
    ir = {
        "phase_as_matrix": am["table"], "as_matrix_index_terms": am["index_terms"], "X": am["X"], "Z": am["Z"],
        "phase_refactor": refactor_phase_ir(find_func(ps, "refactor_phase")),
        "phase_weighted_herm": wt["is_hermitian"], "phase_weighted_str": wt["__str__"],
        "print_prefix": print_prefixes(find_func(ps, "__str__")),
        "parse": parse_tree(find_func(ps, "from_string")),
        "letters": letter_table(find_func(ps, "from_single_paulis")),
        "get_pauli": get_pauli_table(find_func(ps, "get_pauli")),
        "mul_terms": matmul_ir(find_func(ps, "__matmul__")),
        "comm_terms": commutes_ir(find_func(ps, "commutes_with")),
        "herm": hermitian_ir(find_func(ps, "is_hermitian")),
        "refactor_sign": refactor_sign_ir(find_func(ps, "refactor_sign")),
    }
    return ir


# ---------------------------------------------------------------------------------------------
# IR -> Lean
# ---------------------------------------------------------------------------------------------

def lchar(c):
    if c == "'":
        return "'\\''"
    if c == "\\":
        return "'\\\\'"
    if 32 <= ord(c) < 127:
        return f"'{c}'"
    return f"(Char.ofNat {ord(c)})"


def lchars(s):
    return "[" + ", ".join(lchar(c) for c in s) + "]"


def lgauss(t):
    return "[" + ", ".join(f"(({a} : Int), ({b} : Int))" for a, b in t) + "]"


def lterms(t):
    return "[" + ", ".join(f"(({c} : Int), V.{a}, V.{b})" for c, a, b in t) + "]"


def lbool(b):
    return "true" if b else "false"


def to_lean(ir):
    p = ir["parse"]
    s = "-- GENERATED by harness/translators/pauli.py from /repo/src/qib/operator/pauli_operator.py -- do not edit\n"
    s += "namespace QibGen.Pauli\n\n"
    s += "/-- operands of the dot products in the phase formulas: self.z, self.x, other.z, other.x, z_prod, x_prod -/\n"
    s += "inductive V where\n  | sz | sx | oz | ox | pz | px\n  deriving DecidableEq, Repr\n\n"
    s += "/-- `PauliString.as_matrix`: phase table, Gaussian integers (re, im) -/\n"
    s += f"def phaseAsMatrix : List (Int × Int) := {lgauss(ir['phase_as_matrix'])}\n\n"
    s += "/-- `PauliString.as_matrix`: table index is `(q + Σ terms) % 4` -/\n"
    s += f"def asMatrixIndexTerms : List (Int × V × V) := {lterms(ir['as_matrix_index_terms'])}\n\n"
    s += f"def matX : List (List Int) := {ir['X']}\n\ndef matZ : List (List Int) := {ir['Z']}\n\n"
    s += "/-- `PauliString.refactor_phase` -/\n"
    s += f"def phaseRefactor : List (Int × Int) := {lgauss(ir['phase_refactor'])}\n\n"
    s += "/-- `WeightedPauliString.is_hermitian` / `__str__` -/\n"
    s += f"def phaseWeightedHerm : List (Int × Int) := {lgauss(ir['phase_weighted_herm'])}\n\n"
    s += f"def phaseWeightedStr : List (Int × Int) := {lgauss(ir['phase_weighted_str'])}\n\n"
    s += "/-- `PauliString.__str__`: prefix printed for q = 0, 1, 2, 3 -/\n"
    s += "def printPrefix : List (List Char) := [" + ", ".join(lchars(x) for x in ir["print_prefix"]) + "]\n\n"
    s += "/-- `PauliString.from_string`: characters tested and phases assigned by the decision tree -/\n"
    s += f"def parseBlank : Char := {lchar(p['blank'])}\ndef parsePlus : Char := {lchar(p['plus'])}\n"
    s += f"def parseMinus : Char := {lchar(p['minus'])}\ndef parseMinusI : Char := {lchar(p['minus_i'])}\ndef parseImag : Char := {lchar(p['imag'])}\n"
    s += f"def parseQMinusI : Int := {p['q_minus_i']}\ndef parseQMinus : Int := {p['q_minus']}\ndef parseQImag : Int := {p['q_i']}\ndef parseQNone : Int := {p['q_none']}\n\n"
    s += "/-- `PauliString.from_single_paulis`: letter -> (z, x), in the order of the if-chain -/\n"
    s += "def letterTable : List (Char × Bool × Bool) := [" + ", ".join(f"({lchar(c)}, {lbool(z)}, {lbool(x)})" for c, z, x in ir["letters"]) + "]\n\n"
    s += "/-- `PauliString.get_pauli`: (z, x) -> letter -/\n"
    s += "def getPauliTable : List ((Bool × Bool) × Char) := [" + ", ".join(f"(({lbool(z)}, {lbool(x)}), {lchar(c)})" for z, x, c in ir["get_pauli"]) + "]\n\n"
    s += "/-- `PauliString.__matmul__`: q_prod = Σ coef · dot(a, b) -/\n"
    s += f"def mulPhaseTerms : List (Int × V × V) := {lterms(ir['mul_terms'])}\n\n"
    s += "/-- `PauliString.commutes_with`: (Σ coef · dot(a, b)) % 2 == 0 -/\n"
    s += f"def commTerms : List (Int × V × V) := {lterms(ir['comm_terms'])}\n\n"
    r = ir["refactor_sign"]
    s += "/-- `PauliString.refactor_sign`: `if q < below then keepFactor (q unchanged) else (q %= mod; factor)` -/\n"
    s += f"def signBelow : Nat := {r['below']}\ndef signKeepFactor : Int := {r['keep_factor']}\ndef signMod : Nat := {r['mod']}\ndef signFactor : Int := {r['factor']}\n\n"
    s += "/-- `PauliString.is_hermitian`: `q % hermMod == hermEq` -/\n"
    s += f"def hermMod : Nat := {ir['herm']['mod']}\ndef hermEq : Nat := {ir['herm']['eq']}\n\n"
    s += "end QibGen.Pauli\n"
    return s


# ---------------------------------------------------------------------------------------------
# front-end validation against the live module
# ---------------------------------------------------------------------------------------------

def validate(ir):
    from common import import_qib
    import_qib()
    import numpy as np
    from qib.operator import PauliString, WeightedPauliString
    errs = []
    g = lambda t: complex(t[0], t[1])
    dots = lambda terms, env: sum(c * int(np.dot(env[a], env[b])) for c, a, b in terms)
    rnd = random.Random(12345)
    try:
        # phase tables, X/Z, index expression: single-site and two-site matrices
        for n in (1, 2):
            for bits in itertools.product((0, 1), repeat=2 * n):
                z, x = list(bits[:n]), list(bits[n:])
                for q in range(4):
                    P = PauliString(z, x, q)
                    M = np.asarray(P.as_matrix().todense(), dtype=complex)
                    env = {"sz": np.array(z), "sx": np.array(x)}
                    ph = g(ir["phase_as_matrix"][(q + dots(ir["as_matrix_index_terms"], env)) % 4])
                    K = np.eye(1)
                    for k in range(n):
                        A = np.linalg.matrix_power(np.array(ir["Z"], dtype=float), z[k]) @ np.linalg.matrix_power(np.array(ir["X"], dtype=float), x[k])
                        K = np.kron(K, A)
                    if not np.array_equal(M, ph * K):
                        errs.append(f"as_matrix IR differs from live as_matrix at z={z} x={x} q={q}")
                    if n == 1:
                        s = str(P)
                        want = ir["print_prefix"][q] + [c for zz, xx, c in ir["get_pauli"] if (zz, xx) == (z[0], x[0])][0]
                        if s != want:
                            errs.append(f"__str__ IR: {want!r} vs live {s!r}")
                        if complex(PauliString(z, x, q).refactor_phase()) != g(ir["phase_refactor"][q]):
                            errs.append(f"refactor_phase table differs at q={q}")
                        R = PauliString(z, x, q)
                        f = R.refactor_sign()
                        r = ir["refactor_sign"]
                        wantf, wantq = (r["keep_factor"], q) if q < r["below"] else (r["factor"], q % r["mod"])
                        if (f, R.q) != (wantf, wantq):
                            errs.append(f"refactor_sign IR differs at q={q}")
                        if P.is_hermitian() != (q % ir["herm"]["mod"] == ir["herm"]["eq"]):
                            errs.append(f"is_hermitian IR differs at q={q}")
                        for w in (1.0, 1j, -2.0, 0.5 - 0.5j):
                            W = WeightedPauliString(PauliString(z, x, q), w)
                            if W.is_hermitian() != ((g(ir["phase_weighted_herm"][q]) * w).imag == 0):
                                errs.append(f"WeightedPauliString.is_hermitian table differs at q={q} w={w}")
                            if complex(str(W).split("*")[0]) != g(ir["phase_weighted_str"][q]) * w:
                                errs.append(f"WeightedPauliString.__str__ table differs at q={q} w={w}")
        # parse tree
        p = ir["parse"]
        L = ir["letters"][1][0] if len(ir["letters"]) > 1 else "X"
        for text, qv in ((L, p["q_none"]), (p["plus"] + L, p["q_none"]), (p["minus"] + p["minus_i"] + L, p["q_minus_i"]),
                         (p["minus"] + L, p["q_minus"]), (p["imag"] + L, p["q_i"]), (p["plus"] + p["minus"] + p["blank"] + L, p["q_minus"])):
            got = PauliString.from_string(text)
            if got.q != qv % 4 or got.num_qubits != 1:
                errs.append(f"from_string IR: {text!r} -> q={got.q}, IR says {qv}")
        for c, z, x in ir["letters"]:
            P = PauliString.from_single_paulis(2, (c, 1))
            if (int(P.z[1]), int(P.x[1])) != (z, x):
                errs.append(f"letter table differs at {c!r}")
        for z, x, c in ir["get_pauli"]:
            if PauliString([z], [x], 0).get_pauli(0) != c:
                errs.append(f"get_pauli table differs at {(z, x)}")
        # mul / commutation formulas on random strings
        for _ in range(200):
            n = rnd.randint(1, 6)
            a = [[rnd.randint(0, 1) for _ in range(n)] for _ in range(4)]
            qa, qb = rnd.randint(0, 3), rnd.randint(0, 3)
            A, B = PauliString(a[0], a[1], qa), PauliString(a[2], a[3], qb)
            env = {"sz": np.array(a[0]), "sx": np.array(a[1]), "oz": np.array(a[2]), "ox": np.array(a[3])}
            env["pz"] = (env["sz"] + env["oz"]) % 2
            env["px"] = (env["sx"] + env["ox"]) % 2
            C = A @ B
            if C.q != (qa + qb + dots(ir["mul_terms"], env)) % 4 or list(C.z) != list(env["pz"]) or list(C.x) != list(env["px"]):
                errs.append("__matmul__ IR differs from live result")
                break
            if bool(A.commutes_with(B)) != (dots(ir["comm_terms"], env) % 2 == 0):
                errs.append("commutes_with IR differs from live result")
                break
    except TranslationError:
        raise
    except Exception as e:  # the live module misbehaves on the validation inputs
        errs.append(f"live module raised during validation: {type(e).__name__}: {e}")
    return errs


def reference_ir():
    return front_end()


def run():
    from translate import with_reference
    ir = with_reference("pauli", front_end, validate)
    write_if_changed(LEAN / "QibGen" / "PauliTables.lean", to_lean(ir))
    return ir
