"""Translator module `vqe`: the shapes of qib/algorithms/vqe/vqe.py and qib/algorithms/vqe/ansatz/ansatz.py that C20 is about.

Regenerates lean/QibGen/VqeTables.lean from the *current* source:
  * `measure_expectation_statevector`: which of the two state factors of the product `state' @ M @ state''` is conjugated and
    which product is formed first (`expectConjLeft`, `expectConjRight`, `expectLeftFirst`);
  * `qUCC.__init__`: the accepted `excitations` settings (`excSettings`);
  * `qUCC.num_parameters`: per setting the exponents `k` of `sum nqubits**k` (`numParamExps`, last entry = else branch);
  * `qUCC.as_matrix`: per `self.excitations == "<setting>"` branch the operator kinds (creation / annihilation) of the cluster
    terms in the order in which their exponentials are multiplied (`branches`), and the exponent handed to `expm`:
    `T_mat <sign> T_mat.conjugate().T` (`genAdjointSign`, `genAdjointConj`).
Accepted source language: exactly the statement shapes matched below; anything else -> TranslationError.
The front end is validated against the live module (`validate`): the IR is evaluated with NumPy/SciPy on seeded inputs and
compared with the live functions.
"""
from __future__ import annotations
import ast, random
from translate import TranslationError, parse_src, find_class, find_func, body_nodoc
from common import LEAN, write_if_changed

SRC_VQE = "algorithms/vqe/vqe.py"
SRC_ANS = "algorithms/vqe/ansatz/ansatz.py"


# ---------------------------------------------------------------------------------------------
# measure_expectation_statevector
# ---------------------------------------------------------------------------------------------

def _state_factor(node, env):
    """state | <f>.conj() | <f>.conjugate() | <f>.T | np.conj(<f>) | np.conjugate(<f>)  ->  number of conjugations mod 2"""
    if isinstance(node, ast.Name) and env.get(node.id) == "state":
        return 0
    if isinstance(node, ast.Attribute) and node.attr == "T":
        return _state_factor(node.value, env)
    if isinstance(node, ast.Call) and not node.keywords:
        f = node.func
        if isinstance(f, ast.Attribute) and f.attr in ("conj", "conjugate") and not node.args:
            if isinstance(f.value, ast.Name) and f.value.id == "np":
                raise TranslationError("expectation: np.conj without argument")
            return 1 - _state_factor(f.value, env)
        if isinstance(f, ast.Attribute) and f.attr in ("conj", "conjugate") and isinstance(f.value, ast.Name) and f.value.id == "np" and len(node.args) == 1:
            return 1 - _state_factor(node.args[0], env)
    raise TranslationError(f"expectation: state factor not understood: {ast.unparse(node)}")


def _is_matrix(node, env):
    if isinstance(node, ast.Name) and env.get(node.id) == "matrix":
        return True
    return ast.unparse(node) in ("pauli_op.as_matrix().toarray()", "pauli_op.as_matrix().todense()")


def _matmul(node):
    return isinstance(node, ast.BinOp) and isinstance(node.op, ast.MatMult)


def expectation_ir(fn):
    args = [a.arg for a in fn.args.args]
    if args != ["pauli_op", "state"]:
        raise TranslationError("measure_expectation_statevector: expected the arguments (pauli_op, state)")
    env = {"state": "state"}
    body = body_nodoc(fn)
    if not body or not isinstance(body[-1], ast.Return):
        raise TranslationError("measure_expectation_statevector: expected straight-line code ending in a return")
    for st in body[:-1]:
        if not (isinstance(st, ast.Assign) and len(st.targets) == 1 and isinstance(st.targets[0], ast.Name)):
            raise TranslationError("measure_expectation_statevector: only simple assignments are supported before the return")
        name, val = st.targets[0].id, st.value
        src = ast.unparse(val)
        if src in ("np.asarray(state)", "np.array(state)", "np.asarray(state, dtype=complex)") and env.get("state") == "state":
            env[name] = "state"
        elif _is_matrix(val, env):
            env[name] = "matrix"
        else:
            raise TranslationError(f"measure_expectation_statevector: unsupported assignment `{ast.unparse(st)}`")
    e = body[-1].value
    # np.vdot(a, M @ b): conjugates its first argument
    if isinstance(e, ast.Call) and ast.unparse(e.func) == "np.vdot" and len(e.args) == 2 and not e.keywords:
        a, mb = e.args
        if _matmul(mb) and _is_matrix(mb.left, env):
            return {"conj_left": 1 - _state_factor(a, env), "conj_right": _state_factor(mb.right, env), "left_first": False}
        raise TranslationError("measure_expectation_statevector: expected np.vdot(<state>, <matrix> @ <state>)")
    if not _matmul(e):
        raise TranslationError("measure_expectation_statevector: expected a product `a @ M @ b`")
    if _matmul(e.left) and _is_matrix(e.left.right, env):         # (a @ M) @ b
        return {"conj_left": _state_factor(e.left.left, env), "conj_right": _state_factor(e.right, env), "left_first": True}
    if _matmul(e.right) and _is_matrix(e.right.left, env):        # a @ (M @ b)
        return {"conj_left": _state_factor(e.left, env), "conj_right": _state_factor(e.right.right, env), "left_first": False}
    raise TranslationError(f"measure_expectation_statevector: product not understood: {ast.unparse(e)}")


# ---------------------------------------------------------------------------------------------
# qUCC
# ---------------------------------------------------------------------------------------------

def _str_consts(node, what):
    if isinstance(node, (ast.Tuple, ast.List, ast.Set)) and all(isinstance(e, ast.Constant) and isinstance(e.value, str) for e in node.elts):
        return [e.value for e in node.elts]
    raise TranslationError(f"{what}: expected a literal collection of strings")


def settings_ir(init):
    for st in body_nodoc(init):
        if isinstance(st, ast.If) and len(st.body) == 1 and isinstance(st.body[0], ast.Raise) and not st.orelse:
            t = st.test
            # excitations not in (...)   |   not excitations in (...)
            if isinstance(t, ast.UnaryOp) and isinstance(t.op, ast.Not):
                t2 = t.operand
                if isinstance(t2, ast.Compare) and len(t2.ops) == 1 and isinstance(t2.ops[0], ast.In) and ast.unparse(t2.left) == "excitations":
                    return _str_consts(t2.comparators[0], "qUCC.__init__ excitations check")
            if isinstance(t, ast.Compare) and len(t.ops) == 1 and isinstance(t.ops[0], ast.NotIn) and ast.unparse(t.left) == "excitations":
                return _str_consts(t.comparators[0], "qUCC.__init__ excitations check")
            if "excitations" in ast.unparse(t):
                raise TranslationError(f"qUCC.__init__: excitations check not understood: `{ast.unparse(t)}`")
    raise TranslationError("qUCC.__init__: no check of `excitations` found")


def _poly_exps(node, what):
    """self.nqubits**a + self.nqubits**b + ...  ->  [a, b, ...]"""
    if isinstance(node, ast.BinOp) and isinstance(node.op, ast.Add):
        return _poly_exps(node.left, what) + _poly_exps(node.right, what)
    if (isinstance(node, ast.BinOp) and isinstance(node.op, ast.Pow) and ast.unparse(node.left) == "self.nqubits"
            and isinstance(node.right, ast.Constant) and isinstance(node.right.value, int) and 0 <= node.right.value <= 8):
        return [node.right.value]
    raise TranslationError(f"{what}: expected a sum of self.nqubits**k, got `{ast.unparse(node)}`")


def _exc_test(test):
    """self.excitations == "<lit>" -> lit"""
    if (isinstance(test, ast.Compare) and len(test.ops) == 1 and isinstance(test.ops[0], ast.Eq) and ast.unparse(test.left) == "self.excitations"
            and isinstance(test.comparators[0], ast.Constant) and isinstance(test.comparators[0].value, str)):
        return test.comparators[0].value
    raise TranslationError(f"expected `self.excitations == \"<setting>\"`, got `{ast.unparse(test)}`")


def _if_chain(stmt, what):
    """if/elif/.../else chain on self.excitations -> [(setting | None, body)]"""
    out = []
    while True:
        if not isinstance(stmt, ast.If):
            raise TranslationError(f"{what}: expected an if/elif chain on self.excitations")
        out.append((_exc_test(stmt.test), stmt.body))
        if not stmt.orelse:
            return out
        if len(stmt.orelse) == 1 and isinstance(stmt.orelse[0], ast.If):
            stmt = stmt.orelse[0]
            continue
        out.append((None, stmt.orelse))
        return out


def num_parameters_ir(fn):
    b = body_nodoc(fn)
    if len(b) != 1:
        raise TranslationError("qUCC.num_parameters: expected a single if/elif/else chain")
    out = []
    for lit, body in _if_chain(b[0], "qUCC.num_parameters"):
        if not (len(body) == 1 and isinstance(body[0], ast.Return)):
            raise TranslationError("qUCC.num_parameters: every branch must be a single return")
        out.append((lit, _poly_exps(body[0].value, "qUCC.num_parameters")))
    return out


KIND = {"IFOType.FERMI_CREATE": True, "IFOType.FERMI_ANNIHIL": False}


def _term_kinds(call):
    """FieldOperatorTerm([IFODesc(self.field, IFOType.X), ...], coeffs) -> [bool]"""
    if not (len(call.args) == 2 and isinstance(call.args[0], ast.List)):
        raise TranslationError("qUCC.as_matrix: FieldOperatorTerm must be called with a list literal of IFODesc and a coefficient array")
    kinds = []
    for d in call.args[0].elts:
        if not (isinstance(d, ast.Call) and ast.unparse(d.func) == "IFODesc" and len(d.args) == 2 and ast.unparse(d.args[0]) == "self.field"
                and ast.unparse(d.args[1]) in KIND):
            raise TranslationError(f"qUCC.as_matrix: operator description not understood: `{ast.unparse(d)}`")
        kinds.append(KIND[ast.unparse(d.args[1])])
    return kinds


def _gen_expr(node):
    """A - A.conjugate().T  |  A + A.conj().T  |  A - A.T  |  -(A.conj().T - A)   ->  (sign of the adjoint part, conjugated?)"""
    def adj(n):
        # returns (base name, conj?) for <name>.conjugate().T / <name>.conj().T / <name>.T / <name>.T.conj()
        if isinstance(n, ast.Attribute) and n.attr == "T":
            v = n.value
            if isinstance(v, ast.Name):
                return v.id, False
            if isinstance(v, ast.Call) and not v.args and isinstance(v.func, ast.Attribute) and v.func.attr in ("conj", "conjugate") and isinstance(v.func.value, ast.Name):
                return v.func.value.id, True
        if (isinstance(n, ast.Call) and not n.args and isinstance(n.func, ast.Attribute) and n.func.attr in ("conj", "conjugate")
                and isinstance(n.func.value, ast.Attribute) and n.func.value.attr == "T" and isinstance(n.func.value.value, ast.Name)):
            return n.func.value.value.id, True
        return None
    if isinstance(node, ast.UnaryOp) and isinstance(node.op, ast.USub) and isinstance(node.operand, ast.BinOp) and isinstance(node.operand.op, ast.Sub):
        a = adj(node.operand.left)
        if a and isinstance(node.operand.right, ast.Name) and node.operand.right.id == a[0]:
            return {"sign": -1, "conj": a[1]}
    if isinstance(node, ast.BinOp) and isinstance(node.op, (ast.Sub, ast.Add)) and isinstance(node.left, ast.Name):
        a = adj(node.right)
        if a and a[0] == node.left.id:
            return {"sign": -1 if isinstance(node.op, ast.Sub) else 1, "conj": a[1]}
    raise TranslationError(f"qUCC.as_matrix: exponent not understood: `{ast.unparse(node)}`")


def as_matrix_ir(fn):
    b = body_nodoc(fn)
    if not (len(b) == 2 and ast.unparse(b[0]) in ("params = np.array(params)", "params = np.asarray(params)")):
        raise TranslationError("qUCC.as_matrix: expected `params = np.array(params)` followed by the if/elif chain")
    branches, gens = [], []
    for lit, body in _if_chain(b[1], "qUCC.as_matrix"):
        if lit is None:
            raise TranslationError("qUCC.as_matrix: an else branch is not supported")
        calls = [n for st in body for n in ast.walk(st) if isinstance(n, ast.Call)]
        terms = sorted((n for n in calls if ast.unparse(n.func) == "FieldOperatorTerm"), key=lambda n: (n.lineno, n.col_offset))
        kinds = [_term_kinds(t) for t in terms]
        expms = [n for n in calls if ast.unparse(n.func) == "expm"]
        if not kinds or not expms or any(len(e.args) != 1 for e in expms):
            raise TranslationError(f"qUCC.as_matrix[{lit}]: expected FieldOperatorTerm(...) and expm(<exponent>) calls")
        gens += [_gen_expr(e.args[0]) for e in expms]
        ret = body[-1]
        if not isinstance(ret, ast.Return):
            raise TranslationError(f"qUCC.as_matrix[{lit}]: branch must end in a return")
        rsrc = ast.unparse(ret.value)
        if len(kinds) == 1:
            if not (rsrc.startswith("sparse.csr_matrix(expm(") and len(expms) == 1):
                raise TranslationError(f"qUCC.as_matrix[{lit}]: expected `return sparse.csr_matrix(expm(<exponent>))`")
        elif len(kinds) == 2:
            if rsrc not in ("sparse.csr_matrix(U[0] @ U[1])", "sparse.csr_matrix(np.einsum('ij,jk->ik', U[0], U[1]))", "sparse.csr_matrix(np.matmul(U[0], U[1]))"):
                raise TranslationError(f"qUCC.as_matrix[{lit}]: expected `return sparse.csr_matrix(U[0]@U[1])`, got `{rsrc}`")
            loops = [st for st in body if isinstance(st, ast.For)]
            if not (len(loops) == 1 and ast.unparse(loops[0].iter) == "range(2)" and len(expms) == 1):
                raise TranslationError(f"qUCC.as_matrix[{lit}]: expected one loop `for i in range(2)` appending expm(...) to U")
        else:
            raise TranslationError(f"qUCC.as_matrix[{lit}]: more than two cluster terms are not supported")
        # length test of this branch
        tests = [st for st in body if isinstance(st, ast.If) and len(st.body) == 1 and isinstance(st.body[0], ast.Raise)]
        exps = None
        for t in tests:
            s = t.test
            if (isinstance(s, ast.UnaryOp) and isinstance(s.op, ast.Not) and isinstance(s.operand, ast.Compare) and ast.unparse(s.operand.left) == "len(params)"
                    and len(s.operand.ops) == 1 and isinstance(s.operand.ops[0], ast.Eq)):
                exps = _poly_exps(s.operand.comparators[0], f"qUCC.as_matrix[{lit}] length test")
        branches.append({"setting": lit, "kinds": kinds, "length_exps": exps})
    if any(g != gens[0] for g in gens):
        raise TranslationError("qUCC.as_matrix: the branches use different exponent expressions")
    return branches, gens[0]


def front_end():
    vq = parse_src(SRC_VQE)
    fn = None
    for n in vq.body:
        if isinstance(n, ast.FunctionDef) and n.name == "measure_expectation_statevector":
            fn = n
    if fn is None:
        raise TranslationError("measure_expectation_statevector not found")
    an = parse_src(SRC_ANS)
    cls = find_class(an, "qUCC")
    branches, gen = as_matrix_ir(find_func(cls, "as_matrix"))
    ir = {"expect": expectation_ir(fn), "settings": settings_ir(find_func(cls, "__init__")),
          "num_params": num_parameters_ir(find_func(cls, "num_parameters")), "branches": branches, "gen": gen}
    for br in ir["branches"]:
        want = [len(k) for k in br["kinds"]]
        if br["length_exps"] is not None and sorted(br["length_exps"]) != sorted(want):
            raise TranslationError(f"qUCC.as_matrix[{br['setting']}]: length test n**{br['length_exps']} does not match the coefficient arrays of the terms ({want})")
    return ir


# ---------------------------------------------------------------------------------------------
# IR -> Lean
# ---------------------------------------------------------------------------------------------

def lbool(b):
    return "true" if b else "false"


def lstr(s):
    if not all(32 <= ord(c) < 127 and c not in '"\\' for c in s):
        raise TranslationError(f"setting literal {s!r} contains characters outside the supported set")
    return '"' + s + '"'


def to_lean(ir):
    e = ir["expect"]
    s = "-- GENERATED by harness/translators/vqe.py from /repo/src/qib/algorithms/vqe/{vqe.py, ansatz/ansatz.py} -- do not edit\n"
    s += "namespace QibGen.Vqe\n\n"
    s += "/-- `measure_expectation_statevector`: the product `a @ M @ b`; is the left / right state factor conjugated, and is `a @ M` formed first -/\n"
    s += f"def expectConjLeft : Bool := {lbool(e['conj_left'])}\ndef expectConjRight : Bool := {lbool(e['conj_right'])}\ndef expectLeftFirst : Bool := {lbool(e['left_first'])}\n\n"
    s += "/-- `qUCC.__init__`: accepted values of `excitations` -/\n"
    s += "def excSettings : List String := [" + ", ".join(lstr(x) for x in ir["settings"]) + "]\n\n"
    s += "/-- `qUCC.num_parameters`: per setting the exponents `k` of `Σ nqubits**k`; `none` = the else branch -/\n"
    s += "def numParamExps : List (Option String × List Nat) := [" + ", ".join(
        f"({'none' if lit is None else 'some ' + lstr(lit)}, {exps})" for lit, exps in ir["num_params"]) + "]\n\n"
    s += "/-- `qUCC.as_matrix`: per branch `self.excitations == <setting>` the operator kinds (true = creation, false = annihilation)\nof the cluster terms, in the order in which their exponentials are multiplied -/\n"
    s += "def branches : List (String × List (List Bool)) := [" + ", ".join(
        f"({lstr(b['setting'])}, [" + ", ".join("[" + ", ".join(lbool(k) for k in ks) + "]" for ks in b["kinds"]) + "])" for b in ir["branches"]) + "]\n\n"
    s += "/-- exponent handed to `expm`: `T_mat + genAdjointSign * (T_mat.conjugate() if genAdjointConj else T_mat).T` -/\n"
    s += f"def genAdjointSign : Int := {ir['gen']['sign']}\ndef genAdjointConj : Bool := {lbool(ir['gen']['conj'])}\n\n"
    s += "end QibGen.Vqe\n"
    return s


# ---------------------------------------------------------------------------------------------
# front-end validation against the live module
# ---------------------------------------------------------------------------------------------

def eval_expect(e, M, psi):
    import numpy as np
    a = psi.conj() if e["conj_left"] else psi
    b = psi.conj() if e["conj_right"] else psi
    return (a @ M) @ b if e["left_first"] else a @ (M @ b)


def validate(ir):
    from common import import_qib
    qib = import_qib()
    import numpy as np
    from scipy.linalg import expm
    import qib.algorithms.vqe.vqe as vq
    import qib.algorithms.vqe.ansatz.ansatz as an
    from qib.operator import PauliString, WeightedPauliString, PauliOperator, FieldOperator, FieldOperatorTerm, IFODesc, IFOType
    errs = []
    rnd = random.Random(2020)
    try:
        op = PauliOperator([WeightedPauliString(PauliString([0, 1], [1, 1], 0), 0.5 - 0.25j), WeightedPauliString(PauliString([1, 0], [0, 0], 1), 1.5)])
        M = op.as_matrix().toarray()
        for _ in range(5):
            psi = np.array([complex(rnd.uniform(-1, 1), rnd.uniform(-1, 1)) for _ in range(4)])
            live = complex(vq.measure_expectation_statevector(op, psi))
            if abs(live - eval_expect(ir["expect"], M, psi)) > 1e-12:
                errs.append("measure_expectation_statevector: IR differs from the live function")
                break
        for L, draws in ((1, 2), (2, 3), (3, 1)):
            field = qib.field.Field(qib.field.ParticleType.FERMION, qib.lattice.IntegerLattice((L,), pbc=False))
            by_setting = {b["setting"]: b for b in ir["branches"]}
            for s in ir["settings"]:
                a = an.qUCC(field, s)
                exps = dict((k, v) for k, v in ir["num_params"] if k is not None).get(s, dict((k, v) for k, v in ir["num_params"]).get(None))
                if exps is None or a.num_parameters != sum(L ** k for k in exps):
                    errs.append(f"num_parameters IR differs for {s!r}")
                    continue
                if s not in by_setting:
                    errs.append(f"as_matrix has no branch for the accepted setting {s!r}")
                    continue
                if L == 3 and a.num_parameters > 20:
                    continue
                for _ in range(draws):
                    params = np.array([rnd.uniform(-1, 1) for _ in range(a.num_parameters)])
                    live = a.as_matrix(params).toarray()
                    U, off = np.eye(2 ** L, dtype=complex), 0
                    for kinds in by_setting[s]["kinds"]:
                        k = len(kinds)
                        co = params[off:off + L ** k].reshape((L,) * k)
                        off += L ** k
                        T = FieldOperator([FieldOperatorTerm([IFODesc(field, IFOType.FERMI_CREATE if c else IFOType.FERMI_ANNIHIL) for c in kinds], co)]).as_matrix().toarray()
                        A = T.conj().T if ir["gen"]["conj"] else T.T
                        U = U @ expm(T + ir["gen"]["sign"] * A)
                    if np.max(np.abs(U - live)) > 1e-9:
                        errs.append(f"as_matrix IR differs from the live matrix for {s!r} (L = {L})")
                        break
        for bad in ("sd ", "ds", "x", ""):
            if bad in ir["settings"]:
                continue
            try:
                an.qUCC(field, bad)
                errs.append(f"constructor accepts {bad!r}, which is not in the translated settings")
            except ValueError:
                pass
    except TranslationError:
        raise
    except Exception as e:
        errs.append(f"live module raised during validation: {type(e).__name__}: {e}")
    return errs


def reference_ir():
    return front_end()


def run():
    from translate import with_reference
    ir = with_reference("vqe", front_end, validate)
    write_if_changed(LEAN / "QibGen" / "VqeTables.lean", to_lean(ir))
    return ir
