"""Translator module `wmiconfig`: the two shipped WMI processor configurations (C18).

Source: `WMIQSimProcessor.configuration()` / `WMIQCProcessor.configuration()` (a single
`return ProcessorConfiguration(kw=...)`), `ProcessorConfiguration.generate_map` and `util/const.py`.
Accepted expression language (anything else => TranslationError):

    value   ::= int literal | int '**' int | str literal | 'const.'NAME (str/int literal in util/const.py)
              | '[' value,* ']' | 'ProcessorConfiguration.generate_map(' int ')'
    gate    ::= 'GateProperties(' value ',' value [',' value] ')'      (name, qubits, parameters=[])
    gmap    ::= body of generate_map must be exactly
                `return [[q1, q2] for q1 in range(n_qubits) for q2 in range(n_qubits) if q1 != q2]`

Artefact: lean/QibGen/WmiConfig.lean (raw tables only, no imports); `QibModel/Validate.lean` wraps them
into `ProcConfig` values.  Front end validated against the live `configuration()` objects.
"""
from __future__ import annotations
import ast, json
from translate import TranslationError, parse_src, find_class, find_func, body_nodoc
from common import LEAN, write_if_changed

GENMAP_DUMP = ("ListComp(elt=List(elts=[Name(id='q1', ctx=Load()), Name(id='q2', ctx=Load())], ctx=Load()), "
               "generators=[comprehension(target=Name(id='q1', ctx=Store()), iter=Call(func=Name(id='range', ctx=Load()), "
               "args=[Name(id='ARG', ctx=Load())], keywords=[]), ifs=[], is_async=0), "
               "comprehension(target=Name(id='q2', ctx=Store()), iter=Call(func=Name(id='range', ctx=Load()), "
               "args=[Name(id='ARG', ctx=Load())], keywords=[]), ifs=[Compare(left=Name(id='q1', ctx=Load()), ops=[NotEq()], "
               "comparators=[Name(id='q2', ctx=Load())])], is_async=0)])")

PROCESSORS = (("wmiqsim", "backend/wmi/wmi_qsim_processor.py", "WMIQSimProcessor"),
              ("wmiqc", "backend/wmi/wmi_qc_processor.py", "WMIQCProcessor"))


def consts():
    out = {}
    for n in parse_src("util/const.py").body:
        tgt = val = None
        if isinstance(n, ast.AnnAssign) and isinstance(n.target, ast.Name):
            tgt, val = n.target.id, n.value
        elif isinstance(n, ast.Assign) and len(n.targets) == 1 and isinstance(n.targets[0], ast.Name):
            tgt, val = n.targets[0].id, n.value
        if tgt is not None and isinstance(val, ast.Constant) and isinstance(val.value, (str, int, float)) and not isinstance(val.value, bool):
            out[tgt] = val.value
    return out


def check_generate_map():
    cls = find_class(parse_src("backend/processor_configuration.py"), "ProcessorConfiguration")
    fn = find_func(cls, "generate_map")
    if len(fn.args.args) != 1 or fn.args.vararg or fn.args.kwarg or fn.args.kwonlyargs:
        raise TranslationError("generate_map: expected exactly one positional parameter")
    arg = fn.args.args[0].arg
    body = body_nodoc(fn)
    if len(body) != 1 or not isinstance(body[0], ast.Return):
        raise TranslationError("generate_map: expected a single return statement")
    if ast.dump(body[0].value) != GENMAP_DUMP.replace("ARG", arg):
        raise TranslationError("generate_map: body is not the all-ordered-pairs comprehension this translator understands")


def generate_map(k):
    return [[a, b] for a in range(k) for b in range(k) if a != b]


class Ev:
    def __init__(self, cs, where):
        self.cs, self.where = cs, where
        self.used_genmap = False

    def fail(self, node, msg):
        raise TranslationError(f"{self.where}: line {getattr(node, 'lineno', '?')}: {msg}")

    def value(self, e):
        if isinstance(e, ast.Constant) and isinstance(e.value, (int, str)) and not isinstance(e.value, bool):
            return e.value
        if isinstance(e, ast.BinOp) and isinstance(e.op, ast.Pow):
            a, b = self.value(e.left), self.value(e.right)
            if isinstance(a, int) and isinstance(b, int) and 0 <= b <= 64 and a >= 0:
                return a ** b
            self.fail(e, "unsupported power expression")
        if isinstance(e, ast.Attribute) and isinstance(e.value, ast.Name) and e.value.id == "const":
            if e.attr not in self.cs:
                self.fail(e, f"const.{e.attr} is not a literal in util/const.py")
            return self.cs[e.attr]
        if isinstance(e, ast.List):
            return [self.value(x) for x in e.elts]
        if (isinstance(e, ast.Call) and isinstance(e.func, ast.Attribute) and e.func.attr == "generate_map"
                and isinstance(e.func.value, ast.Name) and e.func.value.id == "ProcessorConfiguration"
                and len(e.args) == 1 and not e.keywords):
            k = self.value(e.args[0])
            if not isinstance(k, int) or not 0 <= k <= 64:
                self.fail(e, "generate_map argument must be a small non-negative int")
            self.used_genmap = True
            return generate_map(k)
        self.fail(e, f"unsupported expression {ast.dump(e)[:80]}")

    def gate(self, e):
        if not (isinstance(e, ast.Call) and isinstance(e.func, ast.Name) and e.func.id == "GateProperties"):
            self.fail(e, "expected GateProperties(...)")
        names = ["name", "qubits", "parameters"]
        vals = {}
        if len(e.args) > 3:
            self.fail(e, "too many arguments to GateProperties")
        for n, a in zip(names, e.args):
            vals[n] = self.value(a)
        for kw in e.keywords:
            if kw.arg not in names or kw.arg in vals:
                self.fail(e, "unexpected keyword in GateProperties")
            vals[kw.arg] = self.value(kw.value)
        vals.setdefault("parameters", [])
        if set(vals) != set(names):
            self.fail(e, "GateProperties needs name and qubits")
        if not isinstance(vals["name"], str):
            self.fail(e, "gate name must be a string")
        qs = vals["qubits"]
        if not (isinstance(qs, list) and all(isinstance(t, list) and all(isinstance(i, int) for i in t) for t in qs)):
            self.fail(e, "gate qubits must be a list of lists of ints")
        if not (isinstance(vals["parameters"], list) and all(isinstance(p, str) for p in vals["parameters"])):
            self.fail(e, "gate parameters must be a list of strings")
        return {"name": vals["name"], "qubits": qs, "nparams": len(vals["parameters"])}


def processor(rel, clsname, cs):
    cls = find_class(parse_src(rel), clsname)
    fn = find_func(cls, "configuration")
    body = body_nodoc(fn)
    if len(body) != 1 or not isinstance(body[0], ast.Return):
        raise TranslationError(f"{clsname}.configuration: expected a single return statement")
    call = body[0].value
    if not (isinstance(call, ast.Call) and isinstance(call.func, ast.Name) and call.func.id == "ProcessorConfiguration"
            and not call.args):
        raise TranslationError(f"{clsname}.configuration: expected `return ProcessorConfiguration(keyword=..., ...)`")
    kws = {}
    for kw in call.keywords:
        if kw.arg is None or kw.arg in kws:
            raise TranslationError(f"{clsname}.configuration: **kwargs / repeated keyword")
        kws[kw.arg] = kw.value
    ev = Ev(cs, f"{clsname}.configuration")
    need = ["basis_gates", "coupling_map", "gates", "max_shots", "n_qubits"]
    for k in need:
        if k not in kws:
            raise TranslationError(f"{clsname}.configuration: keyword {k} missing")
    basis = ev.value(kws["basis_gates"])
    if not (isinstance(basis, list) and all(isinstance(b, str) for b in basis)):
        raise TranslationError(f"{clsname}.configuration: basis_gates must be a list of strings")
    cmap = ev.value(kws["coupling_map"])
    if not (isinstance(cmap, list) and all(isinstance(t, list) and all(isinstance(i, int) for i in t) for t in cmap)):
        raise TranslationError(f"{clsname}.configuration: coupling_map must be a list of lists of ints")
    if not isinstance(kws["gates"], ast.List):
        raise TranslationError(f"{clsname}.configuration: gates must be a list literal")
    gates = [ev.gate(g) for g in kws["gates"].elts]
    n = ev.value(kws["n_qubits"])
    ms = ev.value(kws["max_shots"])
    if not (isinstance(n, int) and n >= 0 and isinstance(ms, int) and ms >= 0):
        raise TranslationError(f"{clsname}.configuration: n_qubits / max_shots must be non-negative ints")
    if ev.used_genmap:
        check_generate_map()
    return {"basis": basis, "coupling": cmap, "gates": gates, "n_qubits": n, "max_shots": ms}


def lean_ints(l):
    return "[" + ", ".join(str(i) if i >= 0 else f"({i})" for i in l) + "]"


def lean_tuples(ts):
    return "[" + ", ".join(lean_ints(t) for t in ts) + "]"


def front_end():
    cs = consts()
    return {key: processor(rel, clsname, cs) for key, rel, clsname in PROCESSORS}


def to_lean(ir):
    s = "-- GENERATED by harness/translators/wmiconfig.py from /repo/src/qib -- do not edit\nnamespace QibGen\n"
    for key, rel, clsname in PROCESSORS:
        p = ir[key]
        s += f"\n/-- `{clsname}.configuration()` -/\n"
        s += f"def {key}BasisGates : List String := [" + ", ".join(json.dumps(b) for b in p["basis"]) + "]\n\n"
        s += f"def {key}Gates : List (String × List (List Int) × Nat) :=\n  [" + ",\n   ".join(
            f"({json.dumps(g['name'])}, {lean_tuples(g['qubits'])}, {g['nparams']})" for g in p["gates"]) + "]\n\n"
        s += f"def {key}CouplingMap : List (List Int) := {lean_tuples(p['coupling'])}\n\n"
        s += f"def {key}NQubits : Nat := {p['n_qubits']}\n\n"
        s += f"def {key}MaxShots : Nat := {p['max_shots']}\n"
    s += "\nend QibGen\n"
    return s


def gen():
    ir = front_end()
    return to_lean(ir), ir


def validate(ir):
    """Front-end validation: the translated tables equal the live configuration objects."""
    from common import import_qib
    import_qib()
    from qib.backend.wmi import WMIQSimProcessor, WMIQCProcessor
    errs = []
    for key, live in (("wmiqsim", WMIQSimProcessor.configuration()), ("wmiqc", WMIQCProcessor.configuration())):
        p = ir[key]
        if list(live.basis_gates) != p["basis"]:
            errs.append(f"{key}: basis_gates differ from live configuration")
        if [list(t) for t in live.coupling_map] != p["coupling"]:
            errs.append(f"{key}: coupling_map differs from live configuration")
        lg = [{"name": g.name, "qubits": [list(t) for t in g.qubits], "nparams": len(g.parameters)} for g in live.gates]
        if lg != p["gates"]:
            errs.append(f"{key}: gate properties differ from live configuration")
        if live.n_qubits != p["n_qubits"] or live.max_shots != p["max_shots"]:
            errs.append(f"{key}: n_qubits/max_shots differ from live configuration")
        if type(live.n_qubits) is not int or type(live.max_shots) is not int:
            errs.append(f"{key}: n_qubits/max_shots are not ints")
    return errs


def reference_ir():
    return front_end()


def run():
    from translate import with_reference
    ir = with_reference("wmiconfig", front_end, validate)
    write_if_changed(LEAN / "QibGen" / "WmiConfig.lean", to_lean(ir))
    return ir
