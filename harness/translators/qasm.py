"""Translator module `qasm`: the translation  gate / instruction object -> Qobj instruction dictionary  (`as_qasm()`, C18).

Source: every class of `operator/gates.py` and `operator/control_instructions.py` (their `as_qasm` and `__init__`), names resolved
through `util/const.py`. Artefact: lean/QibGen/QasmTable.lean (core Lean only: row types + tables); the executable model
`QibModel/Qasm.lean` interprets the tables, the theorems of `QibProofs/Properties/C18Qasm.lean` are about them.

Accepted source language (anything else => TranslationError, then the reference IR of the pinned commit is tried, see translate.py):

    base default   ::= body of `Gate.as_qasm` / `ControlInstruction.as_qasm` is a single `raise <Exception>(...)`
    leaf class     ::= a class of gates.py (not ControlledGate) defining `as_qasm` whose body is a single `return { ... }`
                       'name'   : const.NAME | str literal
                       'params' : [ self.A | self.A[k], ... ]              (A a numeric attribute set in __init__)
                       'qubits' : [ self.Q.index, ... ]                    (Q a qubit attribute set in __init__)
    __init__       ::= parameters annotated `Qubit` (qubit attribute), `float` (scalar), `Sequence[float]` (vector, its length from
                       `if self.A.shape != (n,): raise ...`), stored by `self.A = p` | `self.A = np.asarray(p)` | `np.array(p, ...)`
    ControlledGate ::= `if self.ncontrols == n: <type chain> elif self.ncontrols == m: ...` followed by `return super().as_qasm()`
                       type chain ::= `if type(self.tgate) is C: return {...} elif ...` (no else)
                       'params' : [ self.tgate.A | self.tgate.A[k], ... ]  (an attribute class C does not have = AttributeError)
                       'qubits' : [ self.control_qubits[k].index | self.tgate.Q.index, ... ]
    instructions   ::= MeasureInstruction / BarrierInstruction / DelayInstruction, `return { ... }` with
                       'qubits' : [q.index for q in self.qubits], 'memory' : [c for c in self.clbits], 'duration' : self.duration
                       and the defaults of the qubit arguments of `__init__` / `on` (None | [] | required)

The IR is validated against the live classes on every run: objects of every class (bound, unbound, every (number of controls, target
class) combination, every instruction form) are built, `as_qasm()` is called and compared with what the IR predicts (`ir_eval`).
"""
from __future__ import annotations
import ast, json
from translate import TranslationError, parse_src, find_class, find_func, body_nodoc
from common import LEAN, write_if_changed
from translators.wmiconfig import consts

KEYS = ("params", "qubits", "memory", "duration")
EXC = ("NotImplementedError", "AttributeError", "IndexError", "TypeError", "ValueError")
INSTR = (("measure", "MeasureInstruction"), ("barrier", "BarrierInstruction"), ("delay", "DelayInstruction"))
CTRL = "ControlledGate"


def fail(where, node, msg):
    raise TranslationError(f"{where}: line {getattr(node, 'lineno', '?')}: {msg}")


# ---------------------------------------------------------------------------------------------
# helpers on the AST
# ---------------------------------------------------------------------------------------------

def methods(cls):
    return {n.name: n for n in cls.body if isinstance(n, ast.FunctionDef)}


def base_names(cls):
    out = []
    for b in cls.bases:
        if isinstance(b, ast.Name):
            out.append(b.id)
        elif isinstance(b, ast.Attribute):
            out.append(b.attr)
    return out


def self_attr(e):
    """`self.A` -> 'A'"""
    if isinstance(e, ast.Attribute) and isinstance(e.value, ast.Name) and e.value.id == "self":
        return e.attr
    return None


def name_value(e, cs, where):
    if isinstance(e, ast.Constant) and isinstance(e.value, str):
        return e.value
    if isinstance(e, ast.Attribute) and isinstance(e.value, ast.Name) and e.value.id == "const":
        if e.attr not in cs or not isinstance(cs[e.attr], str):
            fail(where, e, f"const.{e.attr} is not a string literal of util/const.py")
        return cs[e.attr]
    fail(where, e, "the name must be `const.NAME` or a string literal")


def default_raise(cls, where):
    fn = methods(cls).get("as_qasm")
    if fn is None:
        fail(where, cls, "the base class has no as_qasm")
    body = body_nodoc(fn)
    if len(body) != 1 or not isinstance(body[0], ast.Raise) or not isinstance(body[0].exc, (ast.Call, ast.Name)):
        fail(where, fn, "the default as_qasm is not a single raise statement")
    exc = body[0].exc.func if isinstance(body[0].exc, ast.Call) else body[0].exc
    if not isinstance(exc, ast.Name) or exc.id not in EXC:
        fail(where, fn, "the default as_qasm raises an exception this translator does not know")
    return exc.id


def single_return_dict(fn, where):
    body = body_nodoc(fn)
    if len(body) != 1 or not isinstance(body[0], ast.Return) or not isinstance(body[0].value, ast.Dict):
        fail(where, fn, "as_qasm is not a single `return {...}`")
    return body[0].value


def dict_items(d, where):
    items = []
    for k, v in zip(d.keys, d.values):
        if not (isinstance(k, ast.Constant) and isinstance(k.value, str)):
            fail(where, d, "dictionary key is not a string literal (or ** expansion)")
        if k.value in [x for x, _ in items]:
            fail(where, d, f"key {k.value!r} repeated")
        items.append((k.value, v))
    names = [k for k, _ in items]
    if "name" not in names or "qubits" not in names:
        fail(where, d, "the dictionary has no 'name' / 'qubits' entry")
    for k in names:
        if k != "name" and k not in KEYS:
            fail(where, d, f"unknown key {k!r}")
    return items


# ---------------------------------------------------------------------------------------------
# class layouts from __init__
# ---------------------------------------------------------------------------------------------

def layout(cls):
    """numeric parameters (flattened: [attr, None] scalar / [attr, k] k-th entry of a vector) and qubit attributes of a leaf class, in the
    order of the parameters of `__init__`; `args` = kinds of the constructor parameters in order (used by the live validation)."""
    where = f"{cls.name}.__init__"
    fn = methods(cls).get("__init__")
    if fn is None:
        fail(where, cls, "no __init__")
    a = fn.args
    if a.vararg or a.kwarg or a.kwonlyargs or a.posonlyargs:
        fail(where, fn, "unsupported parameter kinds")
    kinds = {}
    order = []
    for p in a.args[1:]:
        ann = p.annotation
        if isinstance(ann, ast.Name) and ann.id == "Qubit":
            kinds[p.arg] = "qubit"
        elif isinstance(ann, ast.Name) and ann.id == "float":
            kinds[p.arg] = "scalar"
        elif (isinstance(ann, ast.Subscript) and isinstance(ann.value, ast.Name) and ann.value.id == "Sequence"
              and isinstance(ann.slice, ast.Name) and ann.slice.id == "float"):
            kinds[p.arg] = "vector"
        else:
            fail(where, p, f"parameter {p.arg}: annotation is not Qubit / float / Sequence[float]")
        order.append(p.arg)
    held = {}       # constructor parameter -> attribute
    shapes = {}     # attribute -> length
    for st in ast.walk(fn):
        if isinstance(st, ast.Assign) and len(st.targets) == 1 and self_attr(st.targets[0]) is not None:
            v = st.value
            if (isinstance(v, ast.Call) and isinstance(v.func, ast.Attribute) and isinstance(v.func.value, ast.Name) and v.func.value.id == "np"
                    and v.func.attr in ("asarray", "array") and v.args and isinstance(v.args[0], ast.Name)):
                v = v.args[0]
            if isinstance(v, ast.Name) and v.id in kinds:
                if v.id in held:
                    fail(where, st, f"parameter {v.id} stored twice")
                held[v.id] = self_attr(st.targets[0])
        if (isinstance(st, ast.Compare) and len(st.ops) == 1 and isinstance(st.ops[0], ast.NotEq) and isinstance(st.left, ast.Attribute)
                and st.left.attr == "shape" and self_attr(st.left.value) is not None and isinstance(st.comparators[0], ast.Tuple)
                and len(st.comparators[0].elts) == 1 and isinstance(st.comparators[0].elts[0], ast.Constant)
                and isinstance(st.comparators[0].elts[0].value, int)):
            shapes[self_attr(st.left.value)] = st.comparators[0].elts[0].value
    params, qubits, args = [], [], []
    for p in order:
        if p not in held:
            fail(where, fn, f"parameter {p} is not stored in an attribute")
        if kinds[p] == "qubit":
            qubits.append(held[p]); args.append(["qubit"])
        elif kinds[p] == "scalar":
            params.append([held[p], None]); args.append(["scalar"])
        else:
            if held[p] not in shapes or not 0 < shapes[held[p]] <= 16:
                fail(where, fn, f"length of the vector parameter {p} not found (`if self.{held[p]}.shape != (n,)`)")
            params += [[held[p], k] for k in range(shapes[held[p]])]
            args.append(["vector", shapes[held[p]]])
    return {"params": params, "qubits": qubits, "args": args}


def param_src(e, prefix, lay, where):
    """`<prefix>.A` / `<prefix>.A[k]` -> index into the flattened parameter layout, or None when the class has no such attribute."""
    idx = None
    if isinstance(e, ast.Subscript):
        if not (isinstance(e.slice, ast.Constant) and isinstance(e.slice.value, int) and not isinstance(e.slice.value, bool) and e.slice.value >= 0):
            fail(where, e, "subscript of a parameter is not a non-negative int literal")
        idx, e = e.slice.value, e.value
    if not (isinstance(e, ast.Attribute) and prefix(e.value)):
        fail(where, e, "unsupported parameter expression " + ast.unparse(e)[:60])
    if [e.attr, idx] in lay["params"]:
        return lay["params"].index([e.attr, idx])
    if e.attr in lay["qubits"] or any(a == e.attr for a, _ in lay["params"]):
        fail(where, e, f"attribute {e.attr} is used with the wrong shape")
    return None


def is_self(e):
    return isinstance(e, ast.Name) and e.id == "self"


def is_tgate(e):
    return self_attr(e) == "tgate"


# ---------------------------------------------------------------------------------------------
# front end
# ---------------------------------------------------------------------------------------------

def leaf_row(cls, cs):
    where = f"{cls.name}.as_qasm"
    lay = layout(cls)
    items = dict_items(single_return_dict(methods(cls)["as_qasm"], where), where)
    row = {"cls": cls.name, "nparams": len(lay["params"]), "nqubits": len(lay["qubits"]), "keys": [k for k, _ in items if k != "name"],
           "params": [], "qubits": []}
    for k, v in items:
        if k == "name":
            row["name"] = name_value(v, cs, where)
        elif k == "params":
            if not isinstance(v, ast.List):
                fail(where, v, "'params' is not a list display")
            row["params"] = [param_src(e, is_self, lay, where) for e in v.elts]
        elif k == "qubits":
            if not isinstance(v, ast.List):
                fail(where, v, "'qubits' is not a list display")
            for e in v.elts:
                if not (isinstance(e, ast.Attribute) and e.attr == "index" and self_attr(e.value) in lay["qubits"]):
                    fail(where, e, "entry of 'qubits' is not `self.<qubit attribute>.index`")
                row["qubits"].append(["own", lay["qubits"].index(self_attr(e.value))])
        else:
            fail(where, v, f"key {k!r} in a gate dictionary")
    return row, lay


def ctrl_rows(cls, layouts, cs):
    where = f"{cls.name}.as_qasm"
    ms = methods(cls)
    body = body_nodoc(ms["as_qasm"])
    if len(body) != 2 or not isinstance(body[0], ast.If) or not isinstance(body[1], ast.Return):
        fail(where, ms["as_qasm"], "expected one if/elif chain followed by `return super().as_qasm()`")
    r = body[1].value
    if not (isinstance(r, ast.Call) and not r.args and not r.keywords and isinstance(r.func, ast.Attribute) and r.func.attr == "as_qasm"
            and isinstance(r.func.value, ast.Call) and isinstance(r.func.value.func, ast.Name) and r.func.value.func.id == "super"
            and not r.func.value.args):
        fail(where, body[1], "the fall-through is not `return super().as_qasm()`")
    if base_names(cls) != ["Gate"]:
        fail(where, cls, "ControlledGate does not derive from Gate alone")
    # the attributes the decision tree reads must be the ones the constructor / set_control store
    init = ast.unparse(ms["__init__"]) if "__init__" in ms else ""
    for need in ("self.tgate = tgate", "self.ncontrols = ncontrols", "self.control_qubits = []"):
        if need not in init:
            fail(where, cls, f"__init__ lacks `{need}`")
    rows, seen_n = [], []
    node = body[0]
    while True:
        t = node.test
        if not (isinstance(t, ast.Compare) and self_attr(t.left) == "ncontrols" and len(t.ops) == 1 and isinstance(t.ops[0], ast.Eq)
                and isinstance(t.comparators[0], ast.Constant) and isinstance(t.comparators[0].value, int)
                and not isinstance(t.comparators[0].value, bool) and t.comparators[0].value >= 0):
            fail(where, node, "outer test is not `self.ncontrols == <int>`")
        n = t.comparators[0].value
        if n in seen_n:
            fail(where, node, f"number of controls {n} tested twice")
        seen_n.append(n)
        if len(node.body) != 1 or not isinstance(node.body[0], ast.If):
            fail(where, node, "body of a `self.ncontrols == n` branch is not one if/elif chain")
        inner, seen_t = node.body[0], []
        while True:
            tt = inner.test
            if not (isinstance(tt, ast.Compare) and len(tt.ops) == 1 and isinstance(tt.ops[0], ast.Is) and isinstance(tt.left, ast.Call)
                    and isinstance(tt.left.func, ast.Name) and tt.left.func.id == "type" and len(tt.left.args) == 1
                    and is_tgate(tt.left.args[0]) and isinstance(tt.comparators[0], ast.Name)):
                fail(where, inner, "inner test is not `type(self.tgate) is <Class>`")
            tcls = tt.comparators[0].id
            if tcls not in layouts:
                fail(where, inner, f"target class {tcls} is not a leaf class with a known layout")
            if len(inner.body) != 1 or not isinstance(inner.body[0], ast.Return) or not isinstance(inner.body[0].value, ast.Dict):
                fail(where, inner, "branch is not a single `return {...}`")
            if tcls not in seen_t:       # a repeated type test is unreachable
                seen_t.append(tcls)
                lay = layouts[tcls]
                items = dict_items(inner.body[0].value, where)
                row = {"ncontrols": n, "tcls": tcls, "tnparams": len(lay["params"]), "tnqubits": len(lay["qubits"]),
                       "keys": [k for k, _ in items if k != "name"], "params": [], "qubits": []}
                for k, v in items:
                    if k == "name":
                        row["name"] = name_value(v, cs, where)
                    elif k == "params":
                        if not isinstance(v, ast.List):
                            fail(where, v, "'params' is not a list display")
                        row["params"] = [param_src(e, is_tgate, lay, where) for e in v.elts]
                    elif k == "qubits":
                        if not isinstance(v, ast.List):
                            fail(where, v, "'qubits' is not a list display")
                        for e in v.elts:
                            if not (isinstance(e, ast.Attribute) and e.attr == "index"):
                                fail(where, e, "entry of 'qubits' is not an `.index`")
                            b = e.value
                            if (isinstance(b, ast.Subscript) and self_attr(b.value) == "control_qubits" and isinstance(b.slice, ast.Constant)
                                    and isinstance(b.slice.value, int) and not isinstance(b.slice.value, bool) and b.slice.value >= 0):
                                row["qubits"].append(["ctrl", b.slice.value])
                            elif isinstance(b, ast.Attribute) and is_tgate(b.value) and b.attr in lay["qubits"]:
                                row["qubits"].append(["own", lay["qubits"].index(b.attr)])
                            else:
                                fail(where, e, "entry of 'qubits' is neither `self.control_qubits[k].index` nor `self.tgate.<qubit attribute>.index`")
                    else:
                        fail(where, v, f"key {k!r} in a gate dictionary")
                rows.append(row)
            if len(inner.orelse) == 1 and isinstance(inner.orelse[0], ast.If):
                inner = inner.orelse[0]
                continue
            if inner.orelse:
                fail(where, inner, "the type chain has an else branch")
            break
        if len(node.orelse) == 1 and isinstance(node.orelse[0], ast.If):
            node = node.orelse[0]
            continue
        if node.orelse:
            fail(where, node, "the chain over the number of controls has an else branch")
        break
    return rows


def arg_default(fn, pos, where):
    """default of the positional parameter number `pos` (0 = first after self): 'required' | 'none' | 'empty'"""
    a = fn.args
    ps = a.args[1:]
    if pos >= len(ps):
        fail(where, fn, "parameter missing")
    nd = len(a.defaults)
    k = pos + 1 - (len(a.args) - nd)
    if k < 0:
        return "required"
    d = a.defaults[k]
    if isinstance(d, ast.Constant) and d.value is None:
        return "none"
    if isinstance(d, (ast.List, ast.Tuple)) and not d.elts:
        return "empty"
    fail(where, fn, "unsupported default value")


def instr_row(mod, key, clsname, cs):
    cls = find_class(mod, clsname)
    where = f"{clsname}.as_qasm"
    if base_names(cls) != ["ControlInstruction"]:
        fail(where, cls, "does not derive from ControlInstruction alone")
    ms = methods(cls)
    if "as_qasm" not in ms:
        fail(where, cls, "no as_qasm")
    items = dict_items(single_return_dict(ms["as_qasm"], where), where)
    row = {"cls": clsname, "keys": [k for k, _ in items if k != "name"]}
    for k, v in items:
        if k == "name":
            row["name"] = name_value(v, cs, where)
        elif k in ("qubits", "memory"):
            attr, elt = ("qubits", "index") if k == "qubits" else ("clbits", None)
            ok = (isinstance(v, ast.ListComp) and len(v.generators) == 1 and not v.generators[0].ifs and not v.generators[0].is_async
                  and isinstance(v.generators[0].target, ast.Name) and self_attr(v.generators[0].iter) == attr)
            if ok:
                x = v.generators[0].target.id
                if elt is None:
                    ok = isinstance(v.elt, ast.Name) and v.elt.id == x
                else:
                    ok = isinstance(v.elt, ast.Attribute) and v.elt.attr == elt and isinstance(v.elt.value, ast.Name) and v.elt.value.id == x
            if not ok:
                fail(where, v, f"{k!r} is not the comprehension over self.{attr} this translator understands")
        elif k == "duration":
            if self_attr(v) != "duration":
                fail(where, v, "'duration' is not self.duration")
            dp = [n for n in cls.body if isinstance(n, ast.FunctionDef) and n.name == "duration"
                  and any(isinstance(d, ast.Name) and d.id == "property" for d in n.decorator_list)]
            if len(dp) != 1 or ast.unparse(body_nodoc(dp[0])[0]) != "return self._duration":
                fail(where, cls, "the duration property does not return self._duration")
        else:
            fail(where, v, f"key {k!r} in an instruction dictionary")
    # which attribute each instruction class has is fixed by the model; which KEYS it emits is what the table says
    allowed = {"measure": ("qubits", "memory"), "barrier": ("qubits",), "delay": ("qubits", "duration")}[key]
    for k in row["keys"]:
        if k not in allowed:
            fail(where, cls, f"{clsname} has no attribute behind key {k!r}")
    # defaults of the qubit arguments
    if "__init__" not in ms or "on" not in ms:
        fail(where, cls, "no __init__ / on")
    qpos = 1 if key == "delay" else 0
    row["ctor_default"] = arg_default(ms["__init__"], qpos, f"{clsname}.__init__")
    row["on_default"] = arg_default(ms["on"], 0, f"{clsname}.on")
    if key == "measure":
        row["ctor_clbits_default"] = arg_default(ms["__init__"], 1, f"{clsname}.__init__")
        row["on_clbits_default"] = arg_default(ms["on"], 1, f"{clsname}.on")
        if row["ctor_clbits_default"] == "required" or row["on_clbits_default"] == "required":
            fail(where, cls, "clbits without default")
    return row


def front_end():
    cs = consts()
    gm = parse_src("operator/gates.py")
    classes = [n for n in gm.body if isinstance(n, ast.ClassDef)]
    byname = {c.name: c for c in classes}
    if "Gate" not in byname or CTRL not in byname:
        raise TranslationError("gates.py: class Gate / ControlledGate not found")
    ir = {"ctrl_cls": CTRL, "gate_default": default_raise(byname["Gate"], "Gate.as_qasm")}

    def is_gate(c, depth=0):
        if depth > 8:
            return False
        return any(b == "Gate" or (b in byname and is_gate(byname[b], depth + 1)) for b in base_names(c))
    leaf, layouts, noqasm = [], {}, []
    for c in classes:
        if c.name in ("Gate", CTRL) or not is_gate(c):
            continue
        if "as_qasm" in methods(c):
            if base_names(c) != ["Gate"]:
                fail(c.name, c, "a serialisable class that does not derive from Gate alone")
            row, lay = leaf_row(c, cs)
            leaf.append(row)
            layouts[c.name] = lay
        else:
            if any(b != "Gate" for b in base_names(c)):
                fail(c.name, c, "a class without as_qasm that may inherit one from a class other than Gate")
            noqasm.append(c.name)
    ir["leaf"] = leaf
    ir["layouts"] = layouts
    ir["noqasm"] = noqasm
    ir["ctrl"] = ctrl_rows(byname[CTRL], layouts, cs)
    im = parse_src("operator/control_instructions.py")
    iclasses = [n for n in im.body if isinstance(n, ast.ClassDef)]
    ir["instr_default"] = default_raise(find_class(im, "ControlInstruction"), "ControlInstruction.as_qasm")
    known = {c for _, c in INSTR} | {"ControlInstruction"}
    for c in iclasses:
        if c.name not in known:
            fail(c.name, c, "an instruction class the model does not know")
    ir["instr"] = {key: instr_row(im, key, c, cs) for key, c in INSTR}
    return ir


# ---------------------------------------------------------------------------------------------
# IR evaluator (used only to validate the front end against the live classes)
# ---------------------------------------------------------------------------------------------

class Raised(Exception):
    pass


def _assemble(name, keys, get):
    d = {"name": name}
    for k in keys:
        d[k] = get(k)
    return d


def _params(srcs, ps):
    out = []
    for s in srcs:
        if s is None or s >= len(ps):
            raise Raised("AttributeError")
        out.append(ps[s])
    return out


def _qubits(srcs, ctrls, own):
    out = []
    for kind, k in srcs:
        if kind == "ctrl":
            if k >= len(ctrls):
                raise Raised("IndexError")
            out.append(ctrls[k])
        else:
            if k >= len(own) or own[k] is None:
                raise Raised("AttributeError")
            out.append(own[k])
    return out


def ir_eval(ir, o):
    """o: {'k':'leaf','cls','params','qubits'} | {'k':'ctrl','target':o,'n','controls'} | {'k':'measure'|'barrier'|'delay','qubits','clbits','duration'}
    | {'k':'instr'} -> dictionary or raises Raised(kind)"""
    if o["k"] == "leaf":
        row = next((r for r in ir["leaf"] if r["cls"] == o["cls"]), None)
        if row is None:
            raise Raised(ir["gate_default"])
        return _assemble(row["name"], row["keys"], lambda k: _params(row["params"], o["params"]) if k == "params" else _qubits(row["qubits"], [], o["qubits"]))
    if o["k"] == "ctrl":
        t = o["target"]
        tcls = t["cls"] if t["k"] == "leaf" else ir["ctrl_cls"]
        row = next((r for r in ir["ctrl"] if r["ncontrols"] == o["n"] and r["tcls"] == tcls), None)
        if row is None:
            raise Raised(ir["gate_default"])
        return _assemble(row["name"], row["keys"], lambda k: _params(row["params"], t["params"]) if k == "params" else _qubits(row["qubits"], o["controls"], t["qubits"]))
    if o["k"] == "instr":
        raise Raised(ir["instr_default"])
    row = ir["instr"][o["k"]]

    def get(k):
        if k == "duration":
            return o["duration"]
        v = o["qubits"] if k == "qubits" else o["clbits"]
        if v is None:
            raise Raised("TypeError")
        return list(v)
    return _assemble(row["name"], row["keys"], get)


def validate(ir):
    from common import import_qib
    qib = import_qib()
    import numpy as np
    from qib.operator import gates as G
    from qib.operator import control_instructions as CI
    errs = []
    field = qib.field.Field(qib.field.ParticleType.QUBIT, qib.lattice.IntegerLattice((8,), pbc=False))
    Q = lambda i: qib.field.Qubit(field, i)

    def live(obj):
        try:
            d = obj.as_qasm()
        except Exception as e:      # noqa
            return ("raised", type(e).__name__)
        if not isinstance(d, dict):
            return ("other", repr(d)[:60])
        out = {}
        for k, v in d.items():
            out[k] = [float(x) if k == "params" else x for x in v] if isinstance(v, list) else v
        return ("ok", out)

    def model(o):
        try:
            return ("ok", ir_eval(ir, o))
        except Raised as r:
            return ("raised", str(r))

    def check(what, obj, o):
        a, b = live(obj), model(o)
        if a != b:
            errs.append(f"{what}: live {a} != IR {b}")

    # 1. the classes of the module are exactly the ones the IR knows
    gate_classes = [n for n, c in vars(G).items() if isinstance(c, type) and issubclass(c, G.Gate) and c.__module__ == G.__name__ and c is not G.Gate]
    known = [r["cls"] for r in ir["leaf"]] + ir["noqasm"] + [ir["ctrl_cls"]]
    if sorted(gate_classes) != sorted(known):
        errs.append(f"gate classes of the live module {sorted(gate_classes)} != classes of the IR {sorted(known)}")
    for c in ir["noqasm"]:
        if getattr(G, c, None) is None or getattr(G, c).as_qasm is not G.Gate.as_qasm:
            errs.append(f"{c}: as_qasm is not the inherited default")
    icl = [n for n, c in vars(CI).items() if isinstance(c, type) and issubclass(c, CI.ControlInstruction) and c.__module__ == CI.__name__ and c is not CI.ControlInstruction]
    if sorted(icl) != sorted(r["cls"] for r in ir["instr"].values()):
        errs.append(f"instruction classes of the live module {sorted(icl)} != IR")
    try:
        class _G(G.Gate):
            is_unitary = is_hermitian = as_matrix = as_circuit_matrix = as_tensornet = inverse = fields = particles = lambda self, *a: None
            num_wires = 0
            def __copy__(self): return self
            def __eq__(self, o): return self is o
        try:
            _G().as_qasm()
            errs.append("Gate.as_qasm default did not raise")
        except Exception as e:  # noqa
            if type(e).__name__ != ir["gate_default"]:
                errs.append(f"Gate.as_qasm default raises {type(e).__name__}, IR says {ir['gate_default']}")
    except TypeError as e:
        errs.append(f"cannot instantiate a plain Gate subclass: {e}")
    if errs:
        return errs

    # 2. leaf classes: layout and dictionary, bound / unbound
    vals = [0.25, -1.5, 3.0, 0.125, 7.0]

    def build_leaf(cls, lay, qs, shift=0):
        args, ps, qi, pi = [], [], 0, shift
        for a in lay["args"]:
            if a[0] == "qubit":
                args.append(None if qs[qi] is None else Q(qs[qi])); qi += 1
            elif a[0] == "scalar":
                args.append(vals[pi % 5]); ps.append(vals[pi % 5]); pi += 1
            else:
                v = [vals[(pi + j) % 5] for j in range(a[1])]
                args.append(list(v)); ps += v; pi += a[1]
        return getattr(G, cls)(*args), ps

    for row in ir["leaf"]:
        lay = ir["layouts"][row["cls"]]
        nq = len(lay["qubits"])
        try:
            qs = [5, 2, 7, 0][:nq]
            obj, ps = build_leaf(row["cls"], lay, qs)
            for (attr, k), v in zip(lay["params"], ps):
                got = getattr(obj, attr) if k is None else getattr(obj, attr)[k]
                if float(got) != v:
                    errs.append(f"{row['cls']}: attribute {attr}{'' if k is None else [k]} = {got}, layout says {v}")
            for attr, i in zip(lay["qubits"], qs):
                if getattr(obj, attr).index != i:
                    errs.append(f"{row['cls']}: qubit attribute {attr} differs from the layout")
            check(row["cls"], obj, {"k": "leaf", "cls": row["cls"], "params": ps, "qubits": qs})
            obj2, ps2 = build_leaf(row["cls"], lay, [None] * nq, shift=2)
            check(row["cls"] + " (unbound)", obj2, {"k": "leaf", "cls": row["cls"], "params": ps2, "qubits": [None] * nq})
        except Exception as e:      # noqa
            errs.append(f"{row['cls']}: cannot build the class from its layout: {type(e).__name__}: {e}")
    if errs:
        return errs

    # 3. controlled gates: every number of controls 0..3 x every leaf class (+ a class without serialisation, + a nested controlled gate)
    maxn = max([r["ncontrols"] for r in ir["ctrl"]] + [2]) + 1
    for n in range(0, maxn + 1):
        for row in ir["leaf"]:
            lay = ir["layouts"][row["cls"]]
            if len(lay["qubits"]) != 1:
                tq = [6, 7][:len(lay["qubits"])]
            else:
                tq = [6]
            for bound in (True, False):
                t, ps = build_leaf(row["cls"], lay, tq if bound else [None] * len(tq), shift=n)
                for ctrls in ([1, 4, 0][:n], []):
                    g = G.ControlledGate(t, n)
                    if ctrls or n == 0:
                        g.set_control(*[Q(i) for i in ctrls])
                    check(f"ControlledGate({row['cls']}, {n}) bound={bound} controls={ctrls}", g,
                          {"k": "ctrl", "n": n, "controls": ctrls, "target": {"k": "leaf", "cls": row["cls"], "params": ps, "qubits": tq if bound else [None] * len(tq)}})
        inner = G.ControlledGate(G.PauliXGate(Q(3)), 1).set_control(Q(2))
        g = G.ControlledGate(inner, n).set_control(*[Q(i) for i in [1, 4, 0][:n]])
        check(f"ControlledGate(ControlledGate, {n})", g, {"k": "ctrl", "n": n, "controls": [1, 4, 0][:n],
                                                          "target": {"k": "ctrl", "n": 1, "controls": [2], "target": {"k": "leaf", "cls": "PauliXGate", "params": [], "qubits": [3]}, "params": [], "qubits": []}})
        if "RzzGate" in ir["noqasm"]:
            g = G.ControlledGate(G.RzzGate(0.5, Q(5), Q(6)), n).set_control(*[Q(i) for i in [1, 4, 0][:n]])
            check(f"ControlledGate(RzzGate, {n})", g, {"k": "ctrl", "n": n, "controls": [1, 4, 0][:n], "target": {"k": "leaf", "cls": "RzzGate", "params": [0.5], "qubits": [5, 6]}})

    # 4. instructions
    M, B, D = CI.MeasureInstruction, CI.BarrierInstruction, CI.DelayInstruction
    qs = [Q(3), Q(0), Q(6)]
    check("Measure(qs)", M(qs), {"k": "measure", "qubits": [3, 0, 6], "clbits": [3, 0, 6]})
    check("Measure(qs, cs)", M(qs, [2, 2, 9]), {"k": "measure", "qubits": [3, 0, 6], "clbits": [2, 2, 9]})
    check("Measure()", M(), {"k": "measure", "qubits": None, "clbits": None})
    check("Measure().on(qs, cs)", M().on(qs[:1], [4]), {"k": "measure", "qubits": [3], "clbits": [4]})
    check("Barrier()", B(), {"k": "barrier", "qubits": []})
    check("Barrier(qs)", B(qs), {"k": "barrier", "qubits": [3, 0, 6]})
    check("Barrier(None)", B(None), {"k": "barrier", "qubits": None})
    check("Delay(5)", D(5), {"k": "delay", "qubits": [], "duration": 5})
    check("Delay(2.5, qs)", D(2.5, qs), {"k": "delay", "qubits": [3, 0, 6], "duration": 2.5})
    check("Delay(5, None)", D(5, None), {"k": "delay", "qubits": None, "duration": 5})
    dflt = {"none": None, "empty": []}
    for key, cls in (("measure", M), ("barrier", B), ("delay", D)):
        row = ir["instr"][key]
        try:
            if row["ctor_default"] != "required":
                obj = cls(7) if key == "delay" else cls()
                if obj.qubits != dflt[row["ctor_default"]]:
                    errs.append(f"{row['cls']}(): qubits = {obj.qubits!r}, IR default {row['ctor_default']}")
            if row["on_default"] != "required":
                obj = (cls(7, qs) if key == "delay" else cls(qs)).on()
                if obj.qubits != dflt[row["on_default"]]:
                    errs.append(f"{row['cls']}.on(): qubits = {obj.qubits!r}, IR default {row['on_default']}")
            else:
                try:
                    (cls(7, qs) if key == "delay" else cls(qs)).on()
                    errs.append(f"{row['cls']}.on() accepted although the IR says the argument is required")
                except TypeError:
                    pass
        except Exception as e:      # noqa
            errs.append(f"{row['cls']}: defaults: {type(e).__name__}: {e}")
    try:
        class _I(CI.ControlInstruction):
            num_wires = 0
            particles = fields = on = lambda self, *a: None
            def __copy__(self): return self
            def __eq__(self, o): return self is o
        try:
            _I().as_qasm()
            errs.append("ControlInstruction.as_qasm default did not raise")
        except Exception as e:  # noqa
            if type(e).__name__ != ir["instr_default"]:
                errs.append(f"ControlInstruction.as_qasm default raises {type(e).__name__}, IR says {ir['instr_default']}")
    except TypeError as e:
        errs.append(f"cannot instantiate a plain ControlInstruction subclass: {e}")
    return errs


# ---------------------------------------------------------------------------------------------
# back end
# ---------------------------------------------------------------------------------------------

HEADER = '''-- GENERATED by harness/translators/qasm.py from /repo/src/qib -- do not edit
/-! Tables of `as_qasm()` of every gate / instruction class (`operator/gates.py`, `operator/control_instructions.py`), names resolved
through `util/const.py`. Row types first (fixed text), then the tables (regenerated from the current source). -/
namespace QibGen.Qasm

/-- the exception classes `as_qasm` can end in -/
inductive Exc where
  | NotImplementedError | AttributeError | IndexError | TypeError | ValueError
  deriving DecidableEq, Repr

/-- keys of the returned dictionary besides `name`, in the order of the dictionary display (= order of evaluation) -/
inductive Key where
  | params | qubits | memory | duration
  deriving DecidableEq, Repr

/-- an entry of a `qubits` list: `self.control_qubits[k].index`, or `.index` of the k-th qubit attribute of the gate itself
(leaf classes) / of `self.tgate` (controlled gates) -/
inductive QSrc where
  | ctrl (k : Nat)
  | own (k : Nat)
  deriving DecidableEq, Repr

/-- how an omitted qubit argument of a constructor / of `on` is filled in -/
inductive Dflt where
  | required | none | empty
  deriving DecidableEq, Repr

/-- a leaf class: `nparams` numeric parameters (flattened, order of `__init__`), `nqubits` qubit attributes; `params` lists which of the
numeric parameters are emitted (`none` = the expression reads an attribute the class does not have: AttributeError) -/
structure LeafRow where
  cls : String
  name : String
  nparams : Nat
  nqubits : Nat
  keys : List Key
  params : List (Option Nat)
  qubits : List QSrc
  deriving DecidableEq, Repr

/-- one branch of `ControlledGate.as_qasm`: `self.ncontrols == ncontrols` and `type(self.tgate) is tcls`; parameter / qubit sources
refer to the target gate (`tnparams`, `tnqubits` = layout of the target class) -/
structure CtrlRow where
  ncontrols : Nat
  tcls : String
  tnparams : Nat
  tnqubits : Nat
  name : String
  keys : List Key
  params : List (Option Nat)
  qubits : List QSrc
  deriving DecidableEq, Repr

/-- a control instruction class: `qubits` = `[q.index for q in self.qubits]`, `memory` = `[c for c in self.clbits]`,
`duration` = `self.duration` -/
structure InstrRow where
  cls : String
  name : String
  keys : List Key
  ctorDefault : Dflt
  onDefault : Dflt
  deriving DecidableEq, Repr
'''


def lstr(s):
    return json.dumps(s, ensure_ascii=True)


def lkeys(ks):
    return "[" + ", ".join("." + k for k in ks) + "]"


def lparams(ps):
    return "[" + ", ".join("none" if p is None else f"some {p}" for p in ps) + "]"


def lqubits(qs):
    return "[" + ", ".join(f".{k} {i}" for k, i in qs) + "]"


def to_lean(ir):
    s = HEADER
    s += "\n/-- the leaf classes that implement `as_qasm` -/\ndef leafRows : List LeafRow :=\n  [" + ",\n   ".join(
        f"⟨{lstr(r['cls'])}, {lstr(r['name'])}, {r['nparams']}, {r['nqubits']}, {lkeys(r['keys'])}, {lparams(r['params'])}, {lqubits(r['qubits'])}⟩"
        for r in ir["leaf"]) + "]\n"
    s += "\n/-- the decision tree of `ControlledGate.as_qasm`, flattened in source order -/\ndef ctrlRows : List CtrlRow :=\n  [" + ",\n   ".join(
        f"⟨{r['ncontrols']}, {lstr(r['tcls'])}, {r['tnparams']}, {r['tnqubits']}, {lstr(r['name'])}, {lkeys(r['keys'])}, {lparams(r['params'])}, {lqubits(r['qubits'])}⟩"
        for r in ir["ctrl"]) + "]\n"
    s += f"\n/-- class of the controlled gate -/\ndef ctrlCls : String := {lstr(ir['ctrl_cls'])}\n"
    s += "\n/-- gate classes that inherit `Gate.as_qasm` -/\ndef noQasmClasses : List String := [" + ", ".join(lstr(c) for c in ir["noqasm"]) + "]\n"
    s += f"\n/-- what `Gate.as_qasm` (and the fall-through of `ControlledGate.as_qasm`) raises -/\ndef gateDefault : Exc := .{ir['gate_default']}\n"
    s += f"\n/-- what `ControlInstruction.as_qasm` raises -/\ndef instrDefault : Exc := .{ir['instr_default']}\n"
    for key, _ in INSTR:
        r = ir["instr"][key]
        s += f"\ndef {key}Row : InstrRow := ⟨{lstr(r['cls'])}, {lstr(r['name'])}, {lkeys(r['keys'])}, .{r['ctor_default']}, .{r['on_default']}⟩\n"
    m = ir["instr"]["measure"]
    s += f"\n/-- defaults of the `clbits` argument of `MeasureInstruction.__init__` / `.on` -/\ndef measureClbitsCtorDefault : Dflt := .{m['ctor_clbits_default']}\n"
    s += f"def measureClbitsOnDefault : Dflt := .{m['on_clbits_default']}\n"
    s += "\nend QibGen.Qasm\n"
    return s


def reference_ir():
    return front_end()


def run():
    from translate import with_reference
    ir = with_reference("qasm", front_end, validate)
    write_if_changed(LEAN / "QibGen" / "QasmTable.lean", to_lean(ir))
    return ir
