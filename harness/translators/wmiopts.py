"""Translator module `wmiopts`: experiment options, the complete Qobj and the request that carries it (C18, stage `qobj`).

Source: `WMIOptions.__init__` / `WMIOptions.optional` (`backend/wmi/wmi_options.py`), `WMIExperiment.as_qasm` / `_initialize` /
`__init__` (`backend/wmi/wmi_experiment.py`), `ExperimentType` (`backend/experiment.py`), `__init__` / `configuration` /
`_send_request` of the two processors, `networking.http_put` / `_http_request`, `util/const.py`.
Artefact: lean/QibGen/WmiOptions.lean (core Lean only; fixed text = value type + row types, then the regenerated tables and the Qobj
skeleton as a Lean term). Accepted source language (anything else => TranslationError, then the reference IR of the pinned commit is
tried, see translate.py; both are validated against the live module):

    WMIOptions.__init__   ::= parameters with a literal default (None | bool | int | float | str), body only `self.A[: T] = p`
    WMIOptions.optional   ::= `optional[: dict] = {}`  { `if self.A: optional['K'] = self.B` }  `return optional`
    WMIExperiment.as_qasm ::= `qubits[: T] = self.circuit.particles()`  `clbits[: T] = self.circuit.clbits()`
                              `qobj = <node>`  { `qobj['k']...['k'].update(self.options.optional())` }  `return qobj`
        node  ::= '{' 'key' : node, ... '}' | '[' node, ... ']' | literal | `{}` | `[]`
                | str(self.qobj_id) | self.type.value | self.schema_version | self.name | self.instructions
                | len(qubits) | len(clbits) | [['t', qubit.index] for qubit in qubits] | [['t', clbit] for clbit in clbits]
                | self.configuration.A | self.options.A | self.credentials.A
    _initialize           ::= must contain `self.instructions = self.circuit.as_qasm()`, `self.qobj_id = uuid.uuid4()`,
                              `self.schema_version = const.NAME`
    processor.__init__    ::= `self.credentials = ProcessorCredentials(url=const.NAME, access_token=access_token)`
    processor.configuration ::= `return ProcessorConfiguration(kw=...)`; the scalar keywords (literal | const.NAME | int ** int) are kept
    processor._send_request ::= `http_headers = {'k': self.credentials.A | 'literal', ...}`
                              `return networking.http_put(url=f'{self.credentials.A}literal', headers=http_headers,
                                                          body={'k': experiment.as_qasm() | self.credentials.A | 'literal'}, title=...)`
    networking            ::= `http_put` returns `_http_request(requests.put, url, headers, body, title)`; `_http_request` calls
                              `request(url, headers=headers, json=body, timeout=...)`
"""
from __future__ import annotations
import ast, json
from fractions import Fraction
from translate import TranslationError, parse_src, find_class, find_func, body_nodoc
from common import LEAN, write_if_changed
from translators.wmiconfig import consts

PROCESSORS = (("qsim", "backend/wmi/wmi_qsim_processor.py", "WMIQSimProcessor"),
              ("qc", "backend/wmi/wmi_qc_processor.py", "WMIQCProcessor"))


def fail(where, node, msg):
    raise TranslationError(f"{where}: line {getattr(node, 'lineno', '?')}: {msg}")


# ---------------------------------------------------------------------------------------------
# values:  ["none"] | ["bool", b] | ["int", i] | ["float", "p/q"] | ["str", s] | ["list", [v..]] | ["dict", [[k, v]..]]
# ---------------------------------------------------------------------------------------------

def lit(where, e, cs=None):
    if isinstance(e, ast.Constant):
        v = e.value
        if v is None:
            return ["none"]
        if isinstance(v, bool):
            return ["bool", v]
        if isinstance(v, int):
            return ["int", v]
        if isinstance(v, float) and v == v and v not in (float("inf"), float("-inf")):
            f = Fraction(*v.as_integer_ratio())
            return ["float", f"{f.numerator}/{f.denominator}"]
        if isinstance(v, str):
            return ["str", v]
    if isinstance(e, ast.UnaryOp) and isinstance(e.op, ast.USub) and isinstance(e.operand, ast.Constant) \
            and isinstance(e.operand.value, (int, float)) and not isinstance(e.operand.value, bool):
        return lit(where, ast.Constant(value=-e.operand.value), cs)
    if isinstance(e, ast.Dict) and not e.keys:
        return ["dict", []]
    if isinstance(e, ast.List) and not e.elts:
        return ["list", []]
    if cs is not None and isinstance(e, ast.Attribute) and isinstance(e.value, ast.Name) and e.value.id == "const":
        if e.attr not in cs:
            fail(where, e, f"const.{e.attr} is not a literal in util/const.py")
        return lit(where, ast.Constant(value=cs[e.attr]))
    if cs is not None and isinstance(e, ast.BinOp) and isinstance(e.op, ast.Pow):
        a, b = lit(where, e.left), lit(where, e.right)
        if a[0] == "int" and b[0] == "int" and a[1] >= 0 and 0 <= b[1] <= 64:
            return ["int", a[1] ** b[1]]
    fail(where, e, f"not a literal this translator understands: {ast.dump(e)[:80]}")


def self_attr(e, obj="self"):
    """`self.A` -> 'A'"""
    if isinstance(e, ast.Attribute) and isinstance(e.value, ast.Name) and e.value.id == obj:
        return e.attr
    return None


def self_attr2(e):
    """`self.A.B` -> ('A', 'B')"""
    if isinstance(e, ast.Attribute):
        a = self_attr(e.value)
        if a is not None:
            return a, e.attr
    return None


def assign_parts(st):
    """`t = v` / `t: T = v` -> (target, value)"""
    if isinstance(st, ast.AnnAssign) and st.value is not None:
        return st.target, st.value
    if isinstance(st, ast.Assign) and len(st.targets) == 1:
        return st.targets[0], st.value
    return None, None


# ---------------------------------------------------------------------------------------------
# WMIOptions
# ---------------------------------------------------------------------------------------------

def options():
    where = "WMIOptions.__init__"
    cls = find_class(parse_src("backend/wmi/wmi_options.py"), "WMIOptions")
    fn = find_func(cls, "__init__")
    a = fn.args
    if a.vararg or a.kwarg or a.kwonlyargs or a.posonlyargs or not a.args or a.args[0].arg != "self":
        fail(where, fn, "unexpected parameter kinds")
    params = [x.arg for x in a.args[1:]]
    if len(a.defaults) != len(params):
        fail(where, fn, "every option must have a default")
    init_params = [[p, lit(where, d)] for p, d in zip(params, a.defaults)]
    assign = []
    for st in body_nodoc(fn):
        t, v = assign_parts(st)
        attr = self_attr(t) if t is not None else None
        if attr is None or not isinstance(v, ast.Name) or v.id not in params:
            fail(where, st, "only `self.A = parameter` statements are understood")
        if attr in [x[0] for x in assign]:
            fail(where, st, f"attribute {attr} assigned twice")
        assign.append([attr, v.id])
    where = "WMIOptions.optional"
    fn = find_func(cls, "optional")
    body = body_nodoc(fn)
    if len(fn.args.args) != 1 or len(body) < 2:
        fail(where, fn, "unexpected shape")
    t, v = assign_parts(body[0])
    if not (isinstance(t, ast.Name) and isinstance(v, ast.Dict) and not v.keys):
        fail(where, body[0], "expected `optional = {}`")
    dname = t.id
    if not (isinstance(body[-1], ast.Return) and isinstance(body[-1].value, ast.Name) and body[-1].value.id == dname):
        fail(where, body[-1], f"expected `return {dname}`")
    rows = []
    for st in body[1:-1]:
        if not (isinstance(st, ast.If) and not st.orelse and len(st.body) == 1):
            fail(where, st, "expected `if self.A: optional['K'] = self.B`")
        test = self_attr(st.test)
        t, v = assign_parts(st.body[0])
        if (test is None or not isinstance(t, ast.Subscript) or not isinstance(t.value, ast.Name) or t.value.id != dname
                or not isinstance(t.slice, ast.Constant) or not isinstance(t.slice.value, str) or self_attr(v) is None):
            fail(where, st, "expected `if self.A: optional['K'] = self.B`")
        rows.append([test, t.slice.value, self_attr(v)])
    return {"init_params": init_params, "init_assign": assign, "optional_rows": rows}


# ---------------------------------------------------------------------------------------------
# WMIExperiment.as_qasm
# ---------------------------------------------------------------------------------------------

def label_comp(where, e, qn, cn):
    """[['t', v.index] for v in qubits] / [['t', v] for v in clbits]"""
    if not (isinstance(e, ast.ListComp) and len(e.generators) == 1):
        return None
    g = e.generators[0]
    if g.ifs or g.is_async or not isinstance(g.target, ast.Name) or not isinstance(g.iter, ast.Name):
        return None
    var, it = g.target.id, g.iter.id
    el = e.elt
    if not (isinstance(el, ast.List) and len(el.elts) == 2 and isinstance(el.elts[0], ast.Constant) and isinstance(el.elts[0].value, str)):
        return None
    tag, second = el.elts[0].value, el.elts[1]
    if it == qn and self_attr(second, var) == "index":
        return {"src": "qubitLabels", "arg": tag}
    if it == cn and isinstance(second, ast.Name) and second.id == var:
        return {"src": "clbitLabels", "arg": tag}
    return None


def node(where, e, qn, cn):
    if isinstance(e, ast.Dict) and e.keys:
        out = []
        for k, v in zip(e.keys, e.values):
            if not (isinstance(k, ast.Constant) and isinstance(k.value, str)):
                fail(where, e, "dictionary keys must be string literals")
            if k.value in [x[0] for x in out]:
                fail(where, e, f"key {k.value!r} twice in one dictionary display")
            out.append([k.value, node(where, v, qn, cn)])
        return {"dict": out}
    if isinstance(e, ast.List) and e.elts:
        return {"list": [node(where, x, qn, cn) for x in e.elts]}
    if isinstance(e, ast.Call) and isinstance(e.func, ast.Name) and len(e.args) == 1 and not e.keywords:
        if e.func.id == "str" and self_attr(e.args[0]) == "qobj_id":
            return {"src": "qobjId"}
        if e.func.id == "len" and isinstance(e.args[0], ast.Name) and e.args[0].id in (qn, cn):
            return {"src": "nQubits" if e.args[0].id == qn else "nClbits"}
    lc = label_comp(where, e, qn, cn)
    if lc is not None:
        return lc
    a = self_attr(e)
    if a in ("schema_version", "name", "instructions"):
        return {"src": {"schema_version": "schemaVersion", "name": "name", "instructions": "instructions"}[a]}
    a2 = self_attr2(e)
    if a2 == ("type", "value"):
        return {"src": "typeValue"}
    if a2 is not None and a2[0] in ("configuration", "options", "credentials"):
        return {"src": {"configuration": "cfg", "options": "opt", "credentials": "cred"}[a2[0]], "arg": a2[1]}
    return {"const": lit(where, e)}


def experiment(cs):
    mod = parse_src("backend/wmi/wmi_experiment.py")
    cls = find_class(mod, "WMIExperiment")
    where = "WMIExperiment.as_qasm"
    fn = find_func(cls, "as_qasm")
    body = body_nodoc(fn)
    if len(body) < 4:
        fail(where, fn, "unexpected shape")
    names = {}
    for st, meth in zip(body[:2], ("particles", "clbits")):
        t, v = assign_parts(st)
        ok = (isinstance(t, ast.Name) and isinstance(v, ast.Call) and not v.args and not v.keywords
              and isinstance(v.func, ast.Attribute) and v.func.attr == meth and self_attr(v.func.value) == "circuit")
        if not ok:
            fail(where, st, f"expected `x = self.circuit.{meth}()`")
        names[meth] = t.id
    t, v = assign_parts(body[2])
    if not (isinstance(t, ast.Name) and isinstance(v, ast.Dict)):
        fail(where, body[2], "expected `qobj = { ... }`")
    qname = t.id
    skeleton = node(where, v, names["particles"], names["clbits"])
    updates = []
    for st in body[3:-1]:
        c = st.value if isinstance(st, ast.Expr) else None
        ok = (isinstance(c, ast.Call) and isinstance(c.func, ast.Attribute) and c.func.attr == "update" and len(c.args) == 1 and not c.keywords)
        arg = c.args[0] if ok else None
        ok = ok and isinstance(arg, ast.Call) and not arg.args and not arg.keywords and isinstance(arg.func, ast.Attribute) \
            and arg.func.attr == "optional" and self_attr(arg.func.value) == "options"
        if not ok:
            fail(where, st, "expected `qobj[...].update(self.options.optional())`")
        path, cur = [], c.func.value
        while isinstance(cur, ast.Subscript):
            if not (isinstance(cur.slice, ast.Constant) and isinstance(cur.slice.value, str)):
                fail(where, st, "update path must consist of string keys")
            path.insert(0, cur.slice.value)
            cur = cur.value
        if not (isinstance(cur, ast.Name) and cur.id == qname):
            fail(where, st, "update target must be a part of the Qobj")
        updates.append(path)
    if not (isinstance(body[-1], ast.Return) and isinstance(body[-1].value, ast.Name) and body[-1].value.id == qname):
        fail(where, body[-1], f"expected `return {qname}`")
    # _initialize: where the attributes the skeleton reads come from
    where = "WMIExperiment._initialize"
    init = {}
    for st in body_nodoc(find_func(cls, "_initialize")):
        t, v = assign_parts(st)
        a = self_attr(t) if t is not None else None
        if a is not None:
            init[a] = v
    v = init.get("instructions")
    if not (isinstance(v, ast.Call) and not v.args and isinstance(v.func, ast.Attribute) and v.func.attr == "as_qasm" and self_attr(v.func.value) == "circuit"):
        fail(where, fn, "expected `self.instructions = self.circuit.as_qasm()`")
    v = init.get("qobj_id")
    if not (isinstance(v, ast.Call) and not v.args and isinstance(v.func, ast.Attribute) and v.func.attr == "uuid4"):
        fail(where, fn, "expected `self.qobj_id = uuid.uuid4()`")
    if "schema_version" not in init:
        fail(where, fn, "schema_version is not set")
    schema = lit(where, init["schema_version"], cs)
    if schema[0] != "str":
        fail(where, fn, "schema_version must be a string constant")
    # __init__: stores its arguments under the names as_qasm reads; default experiment type
    where = "WMIExperiment.__init__"
    fn = find_func(cls, "__init__")
    params = [x.arg for x in fn.args.args[1:]]
    stored = {}
    for st in body_nodoc(fn):
        t, v = assign_parts(st)
        a = self_attr(t) if t is not None else None
        if a is not None and isinstance(v, ast.Name):
            stored[a] = v.id
    for a in ("name", "circuit", "options", "type", "configuration", "credentials"):
        if stored.get(a) != a or a not in params:
            fail(where, fn, f"expected `self.{a} = {a}`")
    if params != ["name", "circuit", "options", "configuration", "credentials", "type"] or len(fn.args.defaults) != 1:
        fail(where, fn, "unexpected parameter list")
    d = fn.args.defaults[0]
    if not (isinstance(d, ast.Attribute) and isinstance(d.value, ast.Name) and d.value.id == "ExperimentType"):
        fail(where, fn, "default experiment type must be ExperimentType.NAME")
    et = find_class(parse_src("backend/experiment.py"), "ExperimentType")
    tval = None
    for st in et.body:
        t, v = assign_parts(st)
        if isinstance(t, ast.Name) and t.id == d.attr:
            tval = lit("ExperimentType", v)
    if tval is None or tval[0] != "str":
        fail(where, fn, f"ExperimentType.{d.attr} is not a string literal")
    return {"skeleton": skeleton, "updates": updates, "schema_version": schema[1], "type_default": tval[1]}


# ---------------------------------------------------------------------------------------------
# processors and the request
# ---------------------------------------------------------------------------------------------

def rsrc(where, e, expname):
    """value of a header / body entry"""
    a2 = self_attr2(e)
    if a2 is not None and a2[0] == "credentials":
        return ["cred", a2[1]]
    if isinstance(e, ast.Constant) and isinstance(e.value, str):
        return ["const", e.value]
    if (isinstance(e, ast.Call) and not e.args and not e.keywords and isinstance(e.func, ast.Attribute) and e.func.attr == "as_qasm"
            and isinstance(e.func.value, ast.Name) and e.func.value.id == expname):
        return ["asQasm"]
    fail(where, e, f"header/body value not understood: {ast.dump(e)[:80]}")


def rdict(where, e, expname):
    if not isinstance(e, ast.Dict):
        fail(where, e, "expected a dictionary display")
    out = []
    for k, v in zip(e.keys, e.values):
        if not (isinstance(k, ast.Constant) and isinstance(k.value, str)) or k.value in [x[0] for x in out]:
            fail(where, e, "keys must be distinct string literals")
        out.append([k.value, rsrc(where, v, expname)])
    return out


def check_networking():
    mod = parse_src("util/networking.py")
    where = "networking.http_put"
    fn = find_func(mod, "http_put")
    body = body_nodoc(fn)
    want = "Call(func=Name(id='_http_request', ctx=Load()), args=[Attribute(value=Name(id='requests', ctx=Load()), attr='put', ctx=Load()), " \
           "Name(id='url', ctx=Load()), Name(id='headers', ctx=Load()), Name(id='body', ctx=Load()), Name(id='title', ctx=Load())], keywords=[])"
    if len(body) != 1 or not isinstance(body[0], ast.Return) or ast.dump(body[0].value) != want:
        fail(where, fn, "expected `return _http_request(requests.put, url, headers, body, title)`")
    where = "networking._http_request"
    fn = find_func(mod, "_http_request")
    if [a.arg for a in fn.args.args] != ["request", "url", "headers", "body", "title"]:
        fail(where, fn, "unexpected parameter list")
    calls = [n for n in ast.walk(fn) if isinstance(n, ast.Call) and isinstance(n.func, ast.Name) and n.func.id == "request"]
    if len(calls) != 1:
        fail(where, fn, "expected exactly one call of `request`")
    c = calls[0]
    kws = {k.arg: k.value for k in c.keywords}
    ok = (len(c.args) == 1 and isinstance(c.args[0], ast.Name) and c.args[0].id == "url" and set(kws) == {"headers", "json", "timeout"}
          and isinstance(kws["headers"], ast.Name) and kws["headers"].id == "headers" and isinstance(kws["json"], ast.Name) and kws["json"].id == "body")
    if not ok:
        fail(where, c, "expected `request(url, headers=headers, json=body, timeout=...)`")
    return "PUT"


def processor(rel, clsname, cs):
    cls = find_class(parse_src(rel), clsname)
    # credentials
    where = f"{clsname}.__init__"
    fn = find_func(cls, "__init__")
    if [a.arg for a in fn.args.args] != ["self", "access_token"]:
        fail(where, fn, "expected __init__(self, access_token)")
    cred = None
    for st in body_nodoc(fn):
        t, v = assign_parts(st)
        if t is not None and self_attr(t) == "credentials":
            if not (isinstance(v, ast.Call) and isinstance(v.func, ast.Name) and v.func.id == "ProcessorCredentials" and not v.args):
                fail(where, st, "expected `ProcessorCredentials(url=..., access_token=...)`")
            kws = {k.arg: k.value for k in v.keywords}
            if set(kws) != {"url", "access_token"} or not (isinstance(kws["access_token"], ast.Name) and kws["access_token"].id == "access_token"):
                fail(where, st, "expected `ProcessorCredentials(url=const.NAME, access_token=access_token)`")
            cred = lit(where, kws["url"], cs)
    if cred is None or cred[0] != "str":
        fail(where, fn, "credentials url must be a string constant")
    # scalar configuration attributes
    where = f"{clsname}.configuration"
    body = body_nodoc(find_func(cls, "configuration"))
    if len(body) != 1 or not isinstance(body[0], ast.Return) or not isinstance(body[0].value, ast.Call) or body[0].value.args:
        fail(where, cls, "expected `return ProcessorConfiguration(keyword=..., ...)`")
    attrs = []
    for kw in body[0].value.keywords:
        if kw.arg is None:
            fail(where, kw, "**kwargs")
        if kw.arg in ("basis_gates", "coupling_map", "gates"):
            continue
        attrs.append([kw.arg, lit(where, kw.value, cs)])
    # submit_experiment hands its arguments to WMIExperiment in this order
    where = f"{clsname}.submit_experiment"
    fn = find_func(cls, "submit_experiment")
    pnames = [a.arg for a in fn.args.args]
    if pnames != ["self", "name", "circ", "options"]:
        fail(where, fn, "unexpected parameter list")
    ctor = [n for n in ast.walk(fn) if isinstance(n, ast.Call) and isinstance(n.func, ast.Name) and n.func.id == "WMIExperiment"]
    want = "[Name(id='name', ctx=Load()), Name(id='circ', ctx=Load()), Name(id='options', ctx=Load()), " \
           "Call(func=Attribute(value=Name(id='self', ctx=Load()), attr='configuration', ctx=Load()), args=[], keywords=[]), " \
           "Attribute(value=Name(id='self', ctx=Load()), attr='credentials', ctx=Load())]"
    if len(ctor) != 1 or ctor[0].keywords or "[" + ", ".join(ast.dump(a) for a in ctor[0].args) + "]" != want:
        fail(where, fn, "expected `WMIExperiment(name, circ, options, self.configuration(), self.credentials)`")
    # the request
    where = f"{clsname}._send_request"
    fn = find_func(cls, "_send_request")
    if len(fn.args.args) != 2:
        fail(where, fn, "expected _send_request(self, experiment)")
    expname = fn.args.args[1].arg
    body = body_nodoc(fn)
    if len(body) != 2:
        fail(where, fn, "expected a header assignment and a return")
    t, v = assign_parts(body[0])
    if not isinstance(t, ast.Name):
        fail(where, body[0], "expected `http_headers = {...}`")
    headers = rdict(where, v, expname)
    r = body[1]
    c = r.value if isinstance(r, ast.Return) else None
    ok = (isinstance(c, ast.Call) and isinstance(c.func, ast.Attribute) and c.func.attr == "http_put"
          and isinstance(c.func.value, ast.Name) and c.func.value.id == "networking" and not c.args)
    if not ok:
        fail(where, r, "expected `return networking.http_put(url=..., headers=..., body=..., title=...)`")
    kws = {k.arg: k.value for k in c.keywords}
    if set(kws) != {"url", "headers", "body", "title"} or not (isinstance(kws["headers"], ast.Name) and kws["headers"].id == t.id):
        fail(where, r, "unexpected keywords of http_put")
    u = kws["url"]
    parts = []
    if isinstance(u, ast.JoinedStr):
        for p in u.values:
            if isinstance(p, ast.Constant) and isinstance(p.value, str):
                parts.append(["const", p.value])
            elif isinstance(p, ast.FormattedValue) and p.conversion == -1 and p.format_spec is None and self_attr2(p.value) is not None \
                    and self_attr2(p.value)[0] == "credentials":
                parts.append(["cred", self_attr2(p.value)[1]])
            else:
                fail(where, u, "url f-string part not understood")
    else:
        parts.append(rsrc(where, u, expname))
    if any(p[0] == "asQasm" for p in parts):
        fail(where, u, "url must not contain the Qobj")
    return {"url": cred[1], "cfg_attrs": attrs, "url_parts": parts, "headers": headers, "body": rdict(where, kws["body"], expname),
            "method": check_networking()}


def front_end():
    cs = consts()
    ir = options()
    ir.update(experiment(cs))
    ir["procs"] = {key: processor(rel, clsname, cs) for key, rel, clsname in PROCESSORS}
    return ir


# ---------------------------------------------------------------------------------------------
# Python evaluation of the IR (front-end validation; also used by the harness stage as the reading of the tables)
# ---------------------------------------------------------------------------------------------

def py_val(v):
    t = v[0]
    if t == "none":
        return None
    if t in ("bool", "int", "str"):
        return v[1]
    if t == "float":
        return float(Fraction(v[1]))
    if t == "list":
        return [py_val(x) for x in v[1]]
    if t == "dict":
        return {k: py_val(x) for k, x in v[1]}
    raise TranslationError(f"bad IR value {v!r}")


def ir_options(ir, kw):
    """attribute dictionary of WMIOptions(**kw) according to the IR"""
    dflt = {p: py_val(d) for p, d in ir["init_params"]}
    return {attr: (kw[p] if p in kw else dflt[p]) for attr, p in ir["init_assign"]}


def ir_optional(ir, attrs):
    out = {}
    for test, key, val in ir["optional_rows"]:
        if attrs[test]:
            out[key] = attrs[val]
    return out


def ir_qobj(ir, env):
    """env: qobjId, typeValue, name, instructions, qubits (indices), clbits, cfg (dict), opt (dict), cred (dict)"""
    def ev(n):
        if "dict" in n:
            return {k: ev(x) for k, x in n["dict"]}
        if "list" in n:
            return [ev(x) for x in n["list"]]
        if "const" in n:
            return py_val(n["const"])
        s, a = n["src"], n.get("arg")
        if s == "qubitLabels":
            return [[a, i] for i in env["qubits"]]
        if s == "clbitLabels":
            return [[a, i] for i in env["clbits"]]
        if s == "nQubits":
            return len(env["qubits"])
        if s == "nClbits":
            return len(env["clbits"])
        if s == "schemaVersion":
            return ir["schema_version"]
        if s in ("cfg", "opt", "cred"):
            return env[s][a]
        return env[s]
    qobj = ev(ir["skeleton"])
    for path in ir["updates"]:
        cur = qobj
        for k in path:
            cur = cur[k]
        cur.update(ir_optional(ir, env["opt"]))
    return qobj


def ir_request(ir, proc, token, qobj):
    p = ir["procs"][proc]
    cred = {"url": p["url"], "access_token": token}
    rs = lambda s: cred[s[1]] if s[0] == "cred" else s[1] if s[0] == "const" else qobj
    return {"method": p["method"], "url": "".join(rs(x) for x in p["url_parts"]), "headers": {k: rs(s) for k, s in p["headers"]},
            "body": {k: rs(s) for k, s in p["body"]}}


TRUTHY = {"str": "v", "int": 3, "float": 0.5, "bool": True}


def validate(ir):
    """Front-end validation: the IR, evaluated in Python, equals what the live classes do."""
    import inspect, types, uuid
    from common import import_qib
    qib = import_qib()
    from qib.backend.wmi import WMIOptions, WMIQSimProcessor, WMIQCProcessor, wmi_experiment
    from qib.util import networking
    errs = []
    sig = inspect.signature(WMIOptions.__init__)
    live_params = [[n, p.default] for n, p in list(sig.parameters.items())[1:]]
    if live_params != [[n, py_val(d)] for n, d in ir["init_params"]] or \
            any(type(p[1]) is not type(py_val(d[1])) for p, d in zip(live_params, ir["init_params"])):
        errs.append("WMIOptions.__init__ parameters / defaults differ from the live signature")
        return errs
    names = [n for n, _ in ir["init_params"]]
    kws = [{}, {n: f"<{n}>" for n in names}, {n: 0 for n in names}, {n: [] for n in names[::2]}, {n: {"k": n} for n in names[1::2]}]
    for kw in kws:
        live = WMIOptions(**kw)
        attrs = ir_options(ir, kw)
        if vars(live) != attrs or list(vars(live)) != list(attrs):
            errs.append(f"WMIOptions(**{kw}) attributes differ from the translated __init__")
            break
        lo = live.optional()
        io = ir_optional(ir, attrs)
        if lo != io or list(lo) != list(io):
            errs.append(f"WMIOptions(**{kw}).optional() differs from the translated rows")
            break
    # one row at a time (which attribute is tested, which is copied, under which key)
    for n in names:
        for val in (f"<{n}>", 0):
            live = WMIOptions(**{n: val})
            lo, io = live.optional(), ir_optional(ir, ir_options(ir, {n: val}))
            if lo != io:
                errs.append(f"WMIOptions({n}={val!r}).optional() = {lo}, translated rows give {io}")
    if errs:
        return errs
    # the Qobj and the request of both processors on two small circuits
    f = qib.field.Field(qib.field.ParticleType.QUBIT, qib.lattice.IntegerLattice((4,), pbc=False))
    qb = lambda i: qib.field.Qubit(f, i)
    circs = [([qib.PauliXGate(qb(0))], [0], []),
             ([qib.IdentityGate(qb(0)), qib.operator.MeasureInstruction([qb(0), qb(2)], [5, 1]), qib.PauliYGate(qb(0))], [0, 2], [1, 5])]
    fixed = uuid.UUID("00000000-1111-2222-3333-444444444444")
    old_uuid, old_put = wmi_experiment.uuid, networking.http_put
    wmi_experiment.uuid = types.SimpleNamespace(uuid4=lambda: fixed, UUID=uuid.UUID)
    sent = []

    class Resp:
        def json(self):
            return {"job_id": "j", "status": "pending", "execution_datetime": "now"}

    def fake_put(**kw):
        sent.append(kw)
        return Resp()
    networking.http_put = fake_put
    try:
        for key, P in (("qsim", WMIQSimProcessor), ("qc", WMIQCProcessor)):
            live_cfg = P.configuration()
            for a, v in ir["procs"][key]["cfg_attrs"]:
                if getattr(live_cfg, a, "<missing>") != py_val(v) or type(getattr(live_cfg, a)) is not type(py_val(v)):
                    errs.append(f"{key}: configuration attribute {a} differs from the live configuration")
            if P("tok").credentials.url != ir["procs"][key]["url"]:
                errs.append(f"{key}: credentials url differs")
            for (gates, qs, cs_), kw in zip(circs, ({}, {"shots": 7, "chip": "c", "relax": True, "debug": False, "loops": {"a": 1}})):
                del sent[:]
                opts = WMIOptions(**kw)
                exp = P("tok-" + key).submit_experiment("nm", qib.Circuit(gates), opts)
                live_q = exp.as_qasm()
                env = {"qobjId": str(fixed), "typeValue": ir["type_default"], "name": "nm", "instructions": exp.instructions, "qubits": qs, "clbits": cs_,
                       "cfg": {a: py_val(v) for a, v in ir["procs"][key]["cfg_attrs"]}, "opt": ir_options(ir, kw),
                       "cred": {"url": ir["procs"][key]["url"], "access_token": "tok-" + key}}
                iq = ir_qobj(ir, env)
                if live_q != iq or json.dumps(live_q) != json.dumps(iq):
                    errs.append(f"{key}: as_qasm() differs from the translated skeleton (including key order)")
                want = ir_request(ir, key, "tok-" + key, iq)
                if len(sent) != 1 or set(sent[0]) != {"url", "headers", "body", "title"} or sent[0]["url"] != want["url"] \
                        or sent[0]["headers"] != want["headers"] or json.dumps(sent[0]["body"]) != json.dumps(want["body"]):
                    errs.append(f"{key}: the request of _send_request differs from the translated one")
    except Exception as e:     # noqa
        errs.append(f"live validation raised {type(e).__name__}: {e}")
    finally:
        wmi_experiment.uuid, networking.http_put = old_uuid, old_put
    return errs


# ---------------------------------------------------------------------------------------------
# Lean
# ---------------------------------------------------------------------------------------------

FIXED = '''-- GENERATED by harness/translators/wmiopts.py from /repo/src/qib -- do not edit
/-! Options, complete Qobj and request of the WMI backends (`backend/wmi/wmi_options.py`, `wmi_experiment.py: as_qasm`,
`wmi_q*_processor.py: _send_request`). Value and row types first (fixed text), then the tables and the Qobj skeleton
(regenerated from the current source). -/
namespace QibGen.Wmi

/-- a Python value as far as JSON and truthiness can see it: `None`, `bool`, `int`, a finite `float` (exact rational `num/den`),
a non-finite float, `str`, `list`, `dict` (insertion-ordered) -/
inductive Val where
  | none
  | bool (b : Bool)
  | int (i : Int)
  | float (num : Int) (den : Nat)
  | special (s : String)
  | str (s : String)
  | list (l : List Val)
  | dict (d : List (String × Val))
  deriving Repr, Inhabited

/-- `[[tag, i] for i in l]` -/
def labels (tag : String) (l : List Int) : Val := .list (l.map fun i => .list [.str tag, .int i])

/-- `len(l)` -/
def len (l : List Int) : Val := .int l.length

/-- what `as_qasm` reads: attributes of the experiment, `circuit.particles()` (indices) / `circuit.clbits()`,
`self.configuration.<a>`, `self.options.<a>`, `self.credentials.<a>` -/
structure QEnv where
  qobjId : Val
  typeValue : Val
  name : Val
  instructions : Val
  qubits : List Int
  clbits : List Int
  cfg : String → Val
  opt : String → Val
  cred : String → Val

/-- a value of a request header / body entry / url part: an attribute of the credentials, a literal, the Qobj -/
inductive RSrc where
  | cred (a : String)
  | const (s : String)
  | asQasm
  deriving DecidableEq, Repr

structure Proc where
  /-- `credentials.url` -/
  url : String
  /-- the scalar attributes of `configuration()` -/
  cfgAttrs : List (String × Val)
  method : String
  urlParts : List RSrc
  headers : List (String × RSrc)
  body : List (String × RSrc)

'''


def lean_str(s):
    return json.dumps(s, ensure_ascii=False)


def lean_val(v):
    t = v[0]
    if t == "none":
        return ".none"
    if t == "bool":
        return f"(.bool {'true' if v[1] else 'false'})"
    if t == "int":
        return f"(.int ({v[1]}))"
    if t == "float":
        fr = Fraction(v[1])
        return f"(.float ({fr.numerator}) {fr.denominator})"
    if t == "str":
        return f"(.str {lean_str(v[1])})"
    if t == "list":
        return "(.list [" + ", ".join(lean_val(x) for x in v[1]) + "])"
    if t == "dict":
        return "(.dict [" + ", ".join(f"({lean_str(k)}, {lean_val(x)})" for k, x in v[1]) + "])"
    raise TranslationError(f"bad IR value {v!r}")


def lean_node(ir, n, ind):
    pad = "  " * ind
    if "dict" in n:
        return ".dict [\n" + ",\n".join(f"{pad}  ({lean_str(k)}, {lean_node(ir, x, ind + 1)})" for k, x in n["dict"]) + "]"
    if "list" in n:
        return ".list [\n" + ",\n".join(f"{pad}  {lean_node(ir, x, ind + 1)}" for x in n["list"]) + "]"
    if "const" in n:
        return lean_val(n["const"])
    s, a = n["src"], n.get("arg")
    if s == "qubitLabels":
        return f"labels {lean_str(a)} e.qubits"
    if s == "clbitLabels":
        return f"labels {lean_str(a)} e.clbits"
    if s == "nQubits":
        return "len e.qubits"
    if s == "nClbits":
        return "len e.clbits"
    if s == "schemaVersion":
        return f"(.str {lean_str(ir['schema_version'])})"
    if s in ("cfg", "opt", "cred"):
        return f"e.{s} {lean_str(a)}"
    return f"e.{s}"


def lean_rsrc(s):
    return f".cred {lean_str(s[1])}" if s[0] == "cred" else f".const {lean_str(s[1])}" if s[0] == "const" else ".asQasm"


def to_lean(ir):
    s = FIXED
    s += "/-- parameters of `WMIOptions.__init__` with their defaults, in order -/\ndef initParams : List (String × Val) :=\n  [" + \
        ",\n   ".join(f"({lean_str(p)}, {lean_val(d)})" for p, d in ir["init_params"]) + "]\n\n"
    s += "/-- `self.<attribute> = <parameter>` statements of `WMIOptions.__init__`, in order -/\ndef initAssign : List (String × String) :=\n  [" + \
        ",\n   ".join(f"({lean_str(a)}, {lean_str(p)})" for a, p in ir["init_assign"]) + "]\n\n"
    s += "/-- `if self.<test>: optional[<key>] = self.<value>` statements of `WMIOptions.optional`, in order -/\n" \
         "def optionalRows : List (String × String × String) :=\n  [" + \
        ",\n   ".join(f"({lean_str(t)}, {lean_str(k)}, {lean_str(v)})" for t, k, v in ir["optional_rows"]) + "]\n\n"
    s += f"/-- `.value` of the default `type` of a `WMIExperiment` -/\ndef typeDefault : String := {lean_str(ir['type_default'])}\n\n"
    s += f"/-- `const` behind `self.schema_version` -/\ndef schemaVersion : String := {lean_str(ir['schema_version'])}\n\n"
    s += "/-- the dictionary display of `WMIExperiment.as_qasm` -/\ndef qobjSkeleton (e : QEnv) : Val :=\n  " + lean_node(ir, ir["skeleton"], 1) + "\n\n"
    s += "/-- the paths `p` of the statements `qobj[p]....update(self.options.optional())` that follow it, in order -/\n" \
         "def qobjUpdates : List (List String) := [" + ", ".join("[" + ", ".join(lean_str(k) for k in p) + "]" for p in ir["updates"]) + "]\n"
    for key, rel, clsname in PROCESSORS:
        p = ir["procs"][key]
        s += f"\n/-- `{clsname}`: credentials, scalar configuration attributes, `_send_request` -/\ndef {key} : Proc where\n"
        s += f"  url := {lean_str(p['url'])}\n"
        s += "  cfgAttrs := [" + ", ".join(f"({lean_str(a)}, {lean_val(v)})" for a, v in p["cfg_attrs"]) + "]\n"
        s += f"  method := {lean_str(p['method'])}\n"
        s += "  urlParts := [" + ", ".join(lean_rsrc(x) for x in p["url_parts"]) + "]\n"
        s += "  headers := [" + ", ".join(f"({lean_str(k)}, {lean_rsrc(x)})" for k, x in p["headers"]) + "]\n"
        s += "  body := [" + ", ".join(f"({lean_str(k)}, {lean_rsrc(x)})" for k, x in p["body"]) + "]\n"
    s += "\nend QibGen.Wmi\n"
    return s


def reference_ir():
    return front_end()


def run():
    from translate import with_reference
    ir = with_reference("wmiopts", front_end, validate)
    write_if_changed(LEAN / "QibGen" / "WmiOptions.lean", to_lean(ir))
    return ir
