"""Translator module `gates`: closed-form leaf gates of src/qib/operator/gates.py -> lean/QibGen/GatesReal.lean.

For every leaf class (a `Gate` subclass whose `as_matrix` is a closed form) the methods `as_matrix`,
`inverse`, `is_hermitian`, `num_wires` are translated into an expression IR and printed as Lean
definitions over R / C (`Real.cos`, `Real.sin`, `Complex.exp`, `Real.sqrt`, `Complex.I`).
Accepted source language: DESIGN.md Appendix A.  Anything else -> TranslationError (= broken tie).
The front end is validated on every run by evaluating the IR numerically against the live class.
"""
from __future__ import annotations
import ast, cmath, math
from fractions import Fraction
from translate import TranslationError, parse_src, find_class, find_func, body_nodoc
from common import LEAN, write_if_changed

# class -> ordered parameters (name, kind) that are NOT particles.  kind: R real, V3 real 3-vector, N nat
LEAVES = {
    "IdentityGate": [], "PauliXGate": [], "PauliYGate": [], "PauliZGate": [], "HadamardGate": [], "SxGate": [],
    "RxGate": [("theta", "R")], "RyGate": [("theta", "R")], "RzGate": [("theta", "R")],
    "RotationGate": [("ntheta", "V3")],
    "SGate": [], "SAdjGate": [], "TGate": [], "TAdjGate": [],
    "PhaseFactorGate": [("phi", "R"), ("nwires", "N")],
    "RxxGate": [("theta", "R")], "RyyGate": [("theta", "R")], "RzzGate": [("theta", "R")],
    "ISwapGate": [],
}
PARTICLE_ATTRS = {"qubit", "q1", "q2", "prtcl", "qubits"}


# ---------------------------------------------------------------------------------------------
# IR:  tuples  (tag, type, ...)   types: "R" real, "C" complex, "V" real 3-vector, "M<d>" d x d complex matrix,
#                                       "MP<name>" identity-like matrix of dimension 2^name
# ---------------------------------------------------------------------------------------------

def ty(e):
    return e[1]


def is_mat(t):
    return t.startswith("M")


class Ctx:
    def __init__(self, cls, params):
        self.cls, self.params = cls, dict(params)
        self.locals = {}


def tr_expr(n, cx: Ctx):
    if isinstance(n, ast.Constant):
        v = n.value
        if isinstance(v, bool):
            raise TranslationError("bool constant in expression")
        if isinstance(v, int):
            return ("num", "R", Fraction(v))
        if isinstance(v, float):
            return ("num", "R", Fraction(*v.as_integer_ratio()))
        if isinstance(v, complex) and v.real == 0:
            return ("mul", "C", ("num", "R", Fraction(*v.imag.as_integer_ratio())), ("I", "C"))
        raise TranslationError(f"constant {v!r}")
    if isinstance(n, ast.Name):
        if n.id in cx.locals:
            return ("var", ty(cx.locals[n.id]), n.id)
        raise TranslationError(f"unknown name {n.id}")
    if isinstance(n, ast.Attribute):
        if isinstance(n.value, ast.Name) and n.value.id == "self":
            if n.attr in cx.params:
                k = cx.params[n.attr]
                return ("param", {"R": "R", "V3": "V", "N": "N"}[k], n.attr)
            raise TranslationError(f"self.{n.attr} is not a declared parameter of {cx.cls}")
        if isinstance(n.value, ast.Name) and n.value.id in ("np", "math", "cmath") and n.attr == "pi":
            return ("pi", "R")
        if n.attr == "T":
            inner = tr_expr(n.value, cx)
            if not is_mat(ty(inner)):
                raise TranslationError(".T of a non-matrix")
            return ("transpose", ty(inner), inner)
        raise TranslationError(f"attribute {ast.unparse(n)}")
    if isinstance(n, ast.UnaryOp) and isinstance(n.op, ast.USub):
        a = tr_expr(n.operand, cx)
        return ("neg", ty(a), a)
    if isinstance(n, ast.BinOp):
        a, b = tr_expr(n.left, cx), tr_expr(n.right, cx)
        op = {ast.Add: "add", ast.Sub: "sub", ast.Mult: "mul", ast.Div: "div", ast.Pow: "pow"}.get(type(n.op))
        if op is None:
            raise TranslationError(f"operator {ast.dump(n.op)}")
        ta, tb = ty(a), ty(b)
        if op == "pow":
            if ta == "R" and a[0] == "num" and a[2] == 2 and tb == "N":
                return ("pow2", "N", b)
            raise TranslationError("only 2**self.<nat> is supported")
        if is_mat(ta) or is_mat(tb):
            if op in ("add", "sub") and ta == tb:
                return (op, ta, a, b)
            if op == "mul" and is_mat(tb) and ta in ("R", "C"):
                return ("smul", tb, a, b)
            if op == "mul" and is_mat(ta) and tb in ("R", "C"):
                return ("smul", ta, b, a)
            if op == "div" and is_mat(ta) and tb in ("R", "C"):
                return ("smul", ta, ("div", tb, ("num", "R", Fraction(1)), b), a)
            raise TranslationError(f"matrix operation {op} on {ta},{tb}")
        if ta == "V" or tb == "V":
            if op == "div" and ta == "V" and tb == "R":
                return ("vdiv", "V", a, b)
            raise TranslationError("vector operation")
        if "N" in (ta, tb):
            raise TranslationError("nat in arithmetic")
        t = "C" if "C" in (ta, tb) else "R"
        return (op, t, a, b)
    if isinstance(n, ast.Subscript):
        v = tr_expr(n.value, cx)
        if ty(v) == "V" and isinstance(n.slice, ast.Constant) and n.slice.value in (0, 1, 2):
            return ("idx", "R", v, n.slice.value)
        raise TranslationError(f"subscript {ast.unparse(n)}")
    if isinstance(n, ast.Call):
        f = n.func
        fn = ast.unparse(f)
        if fn in ("np.cos", "np.sin", "np.sqrt", "np.exp", "np.abs") and len(n.args) == 1 and not n.keywords:
            a = tr_expr(n.args[0], cx)
            name = fn[3:]
            if name in ("cos", "sin", "sqrt", "abs"):
                if ty(a) != "R":
                    raise TranslationError(f"{fn} of a non-real")
                return (name, "R", a)
            return ("exp", ty(a) if ty(a) in ("R", "C") else "C", a)
        if fn == "np.linalg.norm" and len(n.args) == 1 and not n.keywords:
            a = tr_expr(n.args[0], cx)
            if ty(a) != "V":
                raise TranslationError("norm of a non-vector")
            return ("norm", "R", a)
        if isinstance(f, ast.Attribute) and f.attr in ("conj", "conjugate") and not n.args and not n.keywords:
            a = tr_expr(f.value, cx)
            return ("conj", ty(a), a)
        if fn in ("np.conj", "np.conjugate") and len(n.args) == 1 and not n.keywords:
            a = tr_expr(n.args[0], cx)
            return ("conj", ty(a), a)
        if (isinstance(f, ast.Attribute) and f.attr == "transpose" and not n.args and not n.keywords) or \
                (fn == "np.transpose" and len(n.args) == 1 and not n.keywords):
            inner = tr_expr(f.value if fn != "np.transpose" else n.args[0], cx)
            if not is_mat(ty(inner)):
                raise TranslationError("transpose of a non-matrix")
            return ("transpose", ty(inner), inner)
        if fn in ("math.cos", "math.sin", "math.sqrt") and len(n.args) == 1 and not n.keywords:
            a = tr_expr(n.args[0], cx)
            if ty(a) != "R":
                raise TranslationError(f"{fn} of a non-real")
            return (fn[5:], "R", a)
        if fn in ("cmath.exp", "math.exp") and len(n.args) == 1 and not n.keywords:
            a = tr_expr(n.args[0], cx)
            return ("exp", ty(a) if ty(a) in ("R", "C") else "C", a)
        if fn in ("np.identity", "np.eye") and len(n.args) == 1 and all(k.arg == "dtype" for k in n.keywords):
            d = n.args[0]
            if isinstance(d, ast.Constant) and isinstance(d.value, int):
                return ("one", f"M{d.value}")
            dd = tr_expr(d, cx)
            if dd[0] == "pow2" and dd[2][0] == "param":
                return ("one", "MP" + dd[2][2])
            raise TranslationError("np.identity dimension")
        if fn == "np.diag" and len(n.args) == 1 and isinstance(n.args[0], (ast.List, ast.Tuple)) and not n.keywords:
            ds = [tr_expr(e, cx) for e in n.args[0].elts]
            if not ds or any(ty(e) not in ("R", "C") for e in ds):
                raise TranslationError("np.diag needs a non-empty list of scalars")
            zero = ("num", "R", Fraction(0))
            return ("mat", f"M{len(ds)}", [[ds[i] if i == j else zero for j in range(len(ds))] for i in range(len(ds))])
        if fn == "np.array" and len(n.args) == 1 and isinstance(n.args[0], ast.List) and all(k.arg == "dtype" for k in n.keywords):
            rows = n.args[0].elts
            if not rows or not all(isinstance(r, ast.List) and len(r.elts) == len(rows) for r in rows):
                raise TranslationError("np.array must be a square nested list literal")
            ents = [[tr_expr(e, cx) for e in r.elts] for r in rows]
            for r in ents:
                for e in r:
                    if ty(e) not in ("R", "C"):
                        raise TranslationError("matrix entry must be scalar")
            return ("mat", f"M{len(rows)}", ents)
        if fn == "self.as_matrix" and not n.args:
            return ("selfmat", "MSELF")
        raise TranslationError(f"call {fn}")
    raise TranslationError(f"expression {ast.unparse(n)}")


def tr_body(fn, cx: Ctx):
    """straight-line assignments, at most one `if <name> == 0: return <expr>` guard, final return"""
    lets, guard = [], None
    body = body_nodoc(fn)
    for s in body[:-1]:
        if isinstance(s, ast.Assign) and len(s.targets) == 1 and isinstance(s.targets[0], ast.Name):
            e = tr_expr(s.value, cx)
            cx.locals[s.targets[0].id] = e
            lets.append((s.targets[0].id, e))
        elif (isinstance(s, ast.If) and not s.orelse and len(s.body) == 1 and isinstance(s.body[0], ast.Return)
              and isinstance(s.test, ast.Compare) and len(s.test.ops) == 1 and isinstance(s.test.ops[0], ast.Eq)
              and isinstance(s.test.comparators[0], ast.Constant) and s.test.comparators[0].value == 0 and guard is None):
            guard = (tr_expr(s.test.left, cx), tr_expr(s.body[0].value, cx), len(lets))
        else:
            raise TranslationError(f"{cx.cls}.{fn.name}: unsupported statement `{ast.unparse(s)[:60]}`")
    if not body or not isinstance(body[-1], ast.Return):
        raise TranslationError(f"{cx.cls}.{fn.name}: must end with return")
    ret = tr_expr(body[-1].value, cx)
    return {"lets": lets, "guard": guard, "ret": ret}


def _is_adjoint_of_self(n):
    """`self.as_matrix()` wrapped in exactly one conjugation and one transposition, in either order and any spelling"""
    conj = tr = 0
    while True:
        if isinstance(n, ast.Attribute) and n.attr == "T":
            tr += 1
            n = n.value
        elif isinstance(n, ast.Call) and isinstance(n.func, ast.Attribute) and n.func.attr in ("conj", "conjugate", "transpose") \
                and not n.args and not n.keywords and not (isinstance(n.func.value, ast.Name) and n.func.value.id == "np"):
            if n.func.attr == "transpose":
                tr += 1
            else:
                conj += 1
            n = n.func.value
        elif isinstance(n, ast.Call) and ast.unparse(n.func) in ("np.conj", "np.conjugate", "np.transpose") and len(n.args) == 1 and not n.keywords:
            if ast.unparse(n.func) == "np.transpose":
                tr += 1
            else:
                conj += 1
            n = n.args[0]
        else:
            break
    return conj == 1 and tr == 1 and ast.unparse(n) == "self.as_matrix()"


def tr_inverse(cls, fn, params):
    """-> ("self",) | ("class", K2, [arg IR ...]) | ("adjoint-general",)"""
    body = body_nodoc(fn)
    cx = Ctx(cls, params)

    def ctor(call):
        if not (isinstance(call, ast.Call) and isinstance(call.func, ast.Name)):
            raise TranslationError(f"{cls}.inverse: unsupported constructor call")
        k2 = call.func.id
        if k2 == "GeneralGate":
            if len(call.args) == 2 and _is_adjoint_of_self(call.args[0]):
                return ("adjoint-general",)
            raise TranslationError(f"{cls}.inverse: GeneralGate(...) form not recognised")
        if k2 not in LEAVES:
            raise TranslationError(f"{cls}.inverse returns non-leaf {k2}")
        args = []
        for a in call.args:
            if isinstance(a, ast.Attribute) and isinstance(a.value, ast.Name) and a.value.id == "self" and a.attr in PARTICLE_ATTRS:
                continue
            args.append(tr_expr(a, cx))
        if call.keywords:
            raise TranslationError(f"{cls}.inverse: keyword arguments")
        if len(args) != len(LEAVES[k2]):
            raise TranslationError(f"{cls}.inverse: {k2} expects {len(LEAVES[k2])} non-particle arguments")
        return ("class", k2, args)

    if len(body) == 1 and isinstance(body[0], ast.Return):
        v = body[0].value
        if isinstance(v, ast.Name) and v.id == "self":
            return ("self",)
        return ctor(v)
    # invgate = K(...); [if self.<particles>: invgate.on(...)]; return invgate
    if (len(body) in (2, 3) and isinstance(body[0], ast.Assign) and isinstance(body[0].targets[0], ast.Name)
            and isinstance(body[-1], ast.Return) and isinstance(body[-1].value, ast.Name)
            and body[-1].value.id == body[0].targets[0].id):
        if len(body) == 3:
            mid = body[1]
            ok = (isinstance(mid, ast.If) and not mid.orelse and len(mid.body) == 1 and isinstance(mid.body[0], ast.Expr)
                  and isinstance(mid.body[0].value, ast.Call) and ast.unparse(mid.body[0].value.func) == body[0].targets[0].id + ".on")
            if not ok:
                raise TranslationError(f"{cls}.inverse: unsupported middle statement")
        return ctor(body[0].value)
    raise TranslationError(f"{cls}.inverse: unsupported body")


def tr_flag(cls, fn):
    body = body_nodoc(fn)
    if len(body) == 1 and isinstance(body[0], ast.Return) and isinstance(body[0].value, ast.Constant) and isinstance(body[0].value.value, bool):
        return body[0].value.value
    raise TranslationError(f"{cls}.is_hermitian: expected `return True|False`")


def tr_wires(cls, fn, params):
    body = body_nodoc(fn)
    if len(body) == 1 and isinstance(body[0], ast.Return):
        v = body[0].value
        if isinstance(v, ast.Constant) and isinstance(v.value, int):
            return ("const", v.value)
        if isinstance(v, ast.Attribute) and isinstance(v.value, ast.Name) and v.value.id == "self" and dict(params).get(v.attr) == "N":
            return ("param", v.attr)
    raise TranslationError(f"{cls}.num_wires: unsupported")


def tr_composite_flags(mod):
    """is_hermitian of the composite classes: delegation expressions, constants, method switch"""
    out = {}
    for cls in ("ControlledGate", "MultiplexedGate", "TimeEvolutionGate", "PrepareGate", "BlockEncodingGate", "GeneralGate"):
        fn = find_func(find_class(mod, cls), "is_hermitian")
        body = [s for s in body_nodoc(fn)]
        src = [ast.unparse(s) for s in body]
        if len(body) == 1 and isinstance(body[0], ast.Return):
            v = body[0].value
            u = ast.unparse(v)
            if isinstance(v, ast.Constant) and isinstance(v.value, bool):
                out[cls] = ("const", v.value)
            elif u == "self.tgate.is_hermitian()":
                out[cls] = ("target",)
            elif u == "all((g.is_hermitian() for g in self.tgates))":
                out[cls] = ("all-targets",)
            elif u == "np.allclose(self.mat, self.mat.conj().T)":
                out[cls] = ("matrix-test",)
            else:
                raise TranslationError(f"{cls}.is_hermitian: unsupported `{u}`")
        elif cls == "BlockEncodingGate":
            tab = {}
            for s in body:
                if (isinstance(s, ast.If) and not s.orelse and len(s.body) == 1 and isinstance(s.body[0], ast.Return)
                        and isinstance(s.body[0].value, ast.Constant) and isinstance(s.body[0].value.value, bool)
                        and isinstance(s.test, ast.Compare) and ast.unparse(s.test.left) == "self.method"
                        and isinstance(s.test.ops[0], ast.Eq) and ast.unparse(s.test.comparators[0]).startswith("BlockEncodingMethod.")):
                    tab[ast.unparse(s.test.comparators[0]).split(".")[1]] = s.body[0].value.value
                elif isinstance(s, ast.Raise):
                    pass
                else:
                    raise TranslationError(f"BlockEncodingGate.is_hermitian: unsupported `{ast.unparse(s)[:50]}`")
            if set(tab) != {"Wx", "Wxi", "R"}:
                raise TranslationError("BlockEncodingGate.is_hermitian: methods differ from {Wx, Wxi, R}")
            out[cls] = ("method", tab)
        else:
            raise TranslationError(f"{cls}.is_hermitian: unsupported body")
    return out


def frontend_class(mod, cls, params):
    c = find_class(mod, cls)
    return {
        "params": params,
        "mat": tr_body(find_func(c, "as_matrix"), Ctx(cls, params)),
        "inverse": tr_inverse(cls, find_func(c, "inverse"), params),
        "flag": tr_flag(cls, find_func(c, "is_hermitian")),
        "wires": tr_wires(cls, find_func(c, "num_wires"), params),
    }


REFUSED = {}
HINTS = []     # parameter points at which the live class deviates from the IR (used by the generators of the gate checks as extra boundary points)


def frontend(strict=False):
    """IR of every leaf class. A class whose source left the accepted language gets the reference IR of the pinned commit
    (see translate.with_reference); `validate` then checks it against the live class like any translated IR."""
    from translate import load_ref
    mod = parse_src("operator/gates.py")
    ir = {}
    REFUSED.clear()
    ref = None
    for cls, params in LEAVES.items():
        try:
            ir[cls] = frontend_class(mod, cls, [list(p) for p in params])
        except TranslationError as e:
            if strict:
                raise
            ref = ref if ref is not None else (load_ref("gates") or {})
            if cls not in ref.get("leaves", {}):
                raise
            ir[cls] = ref["leaves"][cls]
            REFUSED[cls] = str(e)[:200]
    return ir


def composite_flags(strict=False):
    from translate import load_ref
    try:
        return tr_composite_flags(parse_src("operator/gates.py"))
    except TranslationError as e:
        ref = None if strict else load_ref("gates")
        if not ref or "composite_flags" not in ref:
            raise
        REFUSED["<composite is_hermitian>"] = str(e)[:200]
        return ref["composite_flags"]


def validate_composite(cf):
    """the delegation rules of the composite `is_hermitian` answers, against live objects"""
    import numpy as np
    from common import import_qib
    import_qib()
    import qib.operator.gates as G
    import qib
    errs = []
    X, Z, S, Rx = G.PauliXGate(), G.PauliZGate(), G.SGate(), G.RxGate(0.3)
    herm = np.array([[1., 2.], [2., -1.]]) / np.sqrt(5.)
    nonherm = np.array([[1., 0.], [0., 1j]])

    def expect(cls, live, model):
        if bool(live) != bool(model):
            errs.append(f"{cls}.is_hermitian: rule read from the source gives {model}, live object answers {live}")
    try:
        k = cf["ControlledGate"]
        for t in (X, S, Rx, Z):
            expect("ControlledGate", G.ControlledGate(t, 1).is_hermitian(), t.is_hermitian() if k[0] == "target" else k[1])
        k = cf["MultiplexedGate"]
        for ts in ([X, Z], [X, S], [S, X], [Rx, Rx]):
            expect("MultiplexedGate", G.MultiplexedGate(ts, 1).is_hermitian(), all(t.is_hermitian() for t in ts) if k[0] == "all-targets" else k[1])
        k = cf["GeneralGate"]
        for m in (herm, nonherm):
            expect("GeneralGate", G.GeneralGate(m, 1).is_hermitian(), bool(np.allclose(m, m.conj().T)) if k[0] == "matrix-test" else k[1])
        latt = qib.lattice.IntegerLattice((2,), pbc=False)
        field = qib.field.Field(qib.field.ParticleType.QUBIT, latt)
        H = qib.operator.IsingHamiltonian(field, 0.3, 0.2, 0.1)
        k = cf["TimeEvolutionGate"]
        expect("TimeEvolutionGate", G.TimeEvolutionGate(H, 0.5).is_hermitian(), k[1])
        k = cf["PrepareGate"]
        expect("PrepareGate", G.PrepareGate(np.array([0.5, 0.5]), 1).is_hermitian(), k[1])
        k = cf["BlockEncodingGate"]
        for mname, val in k[1].items():
            expect("BlockEncodingGate", G.BlockEncodingGate(H, getattr(G.BlockEncodingMethod, mname)).is_hermitian(), val)
    except Exception as e:
        errs.append(f"live module raised while the composite is_hermitian rules were validated: {type(e).__name__}: {e}")
    return errs


# ---------------------------------------------------------------------------------------------
# IR evaluator (front-end validation)
# ---------------------------------------------------------------------------------------------

def ev(e, env):
    import numpy as np
    t = e[0]
    if t == "num":
        return float(e[2])
    if t == "I":
        return 1j
    if t == "pi":
        return math.pi
    if t in ("var", "param"):
        return env[e[2]]
    if t == "neg":
        return -ev(e[2], env)
    if t in ("add", "sub", "mul", "div"):
        a, b = ev(e[2], env), ev(e[3], env)
        return {"add": a + b, "sub": a - b, "mul": a * b, "div": a / b if t == "div" else None}[t]
    if t == "smul":
        return ev(e[2], env) * ev(e[3], env)
    if t == "vdiv":
        return ev(e[2], env) / ev(e[3], env)
    if t == "idx":
        return ev(e[2], env)[e[3]]
    if t in ("cos", "sin", "sqrt", "abs"):
        return getattr(np, t)(ev(e[2], env))
    if t == "exp":
        return np.exp(ev(e[2], env))
    if t == "norm":
        return float(np.linalg.norm(ev(e[2], env)))
    if t == "conj":
        return np.conj(ev(e[2], env))
    if t == "transpose":
        return ev(e[2], env).T
    if t == "one":
        d = int(e[1][1:]) if not e[1].startswith("MP") else 2 ** env[e[1][2:]]
        return np.identity(d)
    if t == "mat":
        return np.array([[ev(x, env) for x in r] for r in e[2]], dtype=complex)
    if t == "pow2":
        return 2 ** ev(e[2], env)
    raise TranslationError(f"eval {t}")


def ev_body(b, env):
    env = dict(env)
    for i, (name, e) in enumerate(b["lets"]):
        if b["guard"] and b["guard"][2] == i and ev(b["guard"][0], env) == 0:
            return ev(b["guard"][1], env)
        env[name] = ev(e, env)
    if b["guard"] and b["guard"][2] == len(b["lets"]) and ev(b["guard"][0], env) == 0:
        return ev(b["guard"][1], env)
    return ev(b["ret"], env)


SAMPLE_R = [0.0, 0.5, -0.5, math.pi, -math.pi, math.pi / 2, 2 * math.pi, 1e-9, 1e-300, 3.7, -12.25, 1e6 + 0.1, 1e12]
SAMPLE_V = [(0.0, 0.0, 0.0), (1.0, 0.0, 0.0), (0.0, -2.0, 0.0), (0.0, 0.0, 0.5), (0.3, -0.4, 1.2), (1e-200, 0.0, 0.0), (5.0, 4.0, -3.0)]


def harvest_constants(cls):
    """numeric literals that occur in the class body: a rewrite that special-cases a parameter value (`if theta == 0.25: ...`) names that
    value in its text, so the validation points include every literal, its negative, double and half"""
    out = []
    try:
        c = find_class(parse_src("operator/gates.py"), cls)
    except TranslationError:
        return out
    for n in ast.walk(c):
        if isinstance(n, ast.Constant) and isinstance(n.value, (int, float)) and not isinstance(n.value, bool):
            v = float(n.value)
            if math.isfinite(v) and abs(v) < 1e15:
                for w in (v, -v, 2 * v, v / 2, v * math.pi, v + 1e-9):
                    if w not in out:
                        out.append(w)
    return out[:40]


def sample_envs(params, rng, extra=()):
    import itertools
    pools = []
    for name, k in params:
        if k == "R":
            pools.append([(name, v) for v in SAMPLE_R + list(extra) + [rng.uniform(-10, 10) for _ in range(6)]])
        elif k == "V3":
            pools.append([(name, v) for v in SAMPLE_V + [(w, 0.0, 0.0) for w in extra] + [(0.0, w * 0.6, w * 0.8) for w in extra]
                          + [tuple(rng.uniform(-3, 3) for _ in range(3)) for _ in range(6)]])
        elif k == "N":
            pools.append([(name, v) for v in (0, 1, 2, 3)])
    if not pools:
        return [{}]
    envs = [dict(c) for c in itertools.product(*pools)]
    return envs[:150]


def validate(ir):
    import random
    import numpy as np
    from common import import_qib
    import_qib()
    import qib.operator.gates as G
    rng = random.Random(12345)
    errs = []
    for cls, d in ir.items():
        K = getattr(G, cls)
        for env in sample_envs(d["params"], rng, harvest_constants(cls)):
            args = [np.array(env[n]) if k == "V3" else env[n] for n, k in d["params"]]
            import inspect
            kw = {n: a for (n, _), a in zip(d["params"], args)}
            for pn, pp in inspect.signature(K.__init__).parameters.items():
                if pn != "self" and pn not in kw and pp.default is inspect.Parameter.empty:
                    kw[pn] = None
            g = K(**kw)
            env2 = {n: (np.array(env[n], dtype=float) if k == "V3" else env[n]) for n, k in d["params"]}
            want = np.asarray(g.as_matrix(), dtype=complex)
            got = np.asarray(ev_body(d["mat"], env2), dtype=complex)
            if want.shape != got.shape or not np.allclose(want, got, rtol=0, atol=1e-13):
                errs.append(f"{cls}.as_matrix IR differs at {env}")
                HINTS.append({"cls": cls, "env": dict(env)})
                break
            inv = d["inverse"]
            iw = np.asarray(g.inverse().as_matrix(), dtype=complex)
            if inv[0] == "self":
                ig = got
            elif inv[0] == "adjoint-general":
                ig = got.conj().T
            else:
                k2 = inv[1]
                e3 = {n: ev(a, env2) for (n, _), a in zip(ir[k2]["params"], inv[2])}
                ig = np.asarray(ev_body(ir[k2]["mat"], e3), dtype=complex)
            if iw.shape != ig.shape or not np.allclose(iw, ig, rtol=0, atol=1e-13):
                errs.append(f"{cls}.inverse IR differs at {env}")
                HINTS.append({"cls": cls, "env": dict(env)})
                break
            if bool(g.is_hermitian()) != d["flag"]:
                errs.append(f"{cls}.is_hermitian IR differs")
                break
            w = d["wires"][1] if d["wires"][0] == "const" else env[d["wires"][1]]
            if g.num_wires != w:
                errs.append(f"{cls}.num_wires IR differs")
                break
    return errs


# ---------------------------------------------------------------------------------------------
# Lean printer (trusted part)
# ---------------------------------------------------------------------------------------------

def frac(f: Fraction, t="ℝ"):
    if f.denominator == 1:
        return f"({f.numerator} : {t})" if f.numerator >= 0 else f"(-{-f.numerator} : {t})"
    s = f"({abs(f.numerator)} / {f.denominator} : {t})"
    return s if f >= 0 else f"(-{s})"


def pr(e, want):
    """print IR expression `e` as a Lean term of type `want` (R: ℝ, C: ℂ, V, M*)"""
    t, tag = ty(e), e[0]
    if want == "C" and t == "R":
        return f"(({pr(e, 'R')} : ℝ) : ℂ)"
    if want == "R" and t == "C":
        raise TranslationError("complex where real expected")
    if tag == "num":
        return frac(e[2])
    if tag == "I":
        return "Complex.I"
    if tag == "pi":
        return "Real.pi"
    if tag == "var":
        return e[2]
    if tag == "param":
        return e[2]
    if tag == "neg":
        return f"(-{pr(e[2], t)})"
    if tag in ("add", "sub", "mul", "div"):
        op = {"add": "+", "sub": "-", "mul": "*", "div": "/"}[tag]
        if is_mat(t):
            return f"({pr(e[2], t)} {op} {pr(e[3], t)})"
        return f"({pr(e[2], t)} {op} {pr(e[3], t)})"
    if tag == "smul":
        return f"({pr(e[2], 'C')} • {pr(e[3], t)})"
    if tag == "vdiv":
        return f"(fun k => {pr(e[2], 'V')} k / {pr(e[3], 'R')})"
    if tag == "idx":
        return f"({pr(e[2], 'V')} {e[3]})"
    if tag == "cos":
        return f"Real.cos {pr(e[2], 'R')}"
    if tag == "sin":
        return f"Real.sin {pr(e[2], 'R')}"
    if tag == "sqrt":
        return f"Real.sqrt {pr(e[2], 'R')}"
    if tag == "abs":
        return f"|{pr(e[2], 'R')}|"
    if tag == "exp":
        return f"Real.exp {pr(e[2], 'R')}" if t == "R" else f"Complex.exp {pr(e[2], 'C')}"
    if tag == "norm":
        v = pr(e[2], "V")
        return f"Real.sqrt (({v} 0)^2 + ({v} 1)^2 + ({v} 2)^2)"
    if tag == "conj":
        return f"(starRingEnd ℂ {pr(e[2], 'C')})" if t == "C" else pr(e[2], "R")
    if tag == "one":
        return "(1 : " + mat_type(t) + ")"
    if tag == "mat":
        return "!![" + "; ".join(", ".join(pr(x, "C") for x in r) for r in e[2]) + "]"
    if tag == "transpose":
        return f"({pr(e[2], t)})ᵀ"
    raise TranslationError(f"print {tag}")


def mat_type(t):
    if t.startswith("MP"):
        return f"Matrix (Fin (2 ^ {t[2:]})) (Fin (2 ^ {t[2:]})) ℂ"
    return f"Matrix (Fin {t[1:]}) (Fin {t[1:]}) ℂ"


def binder(params):
    out = []
    for n, k in params:
        out.append({"R": f"({n} : ℝ)", "V3": f"({n} : Fin 3 → ℝ)", "N": f"({n} : ℕ)"}[k])
    return " ".join(out)


def argnames(params):
    return " ".join(n for n, _ in params)


def print_lean(ir):
    L = ["-- GENERATED by harness/translators/gates.py from /repo/src/qib/operator/gates.py -- do not edit",
         "import Mathlib.LinearAlgebra.Matrix.Notation", "import Mathlib.Data.Complex.Basic", "import Mathlib.Analysis.SpecialFunctions.Trigonometric.Basic",
         "import Mathlib.Analysis.SpecialFunctions.Sqrt", "import Mathlib.Analysis.SpecialFunctions.Exp",
         "import QibGen.GateFlags", "open Matrix", "namespace QibSrc", ""]
    F = ["-- GENERATED by harness/translators/gates.py from /repo/src/qib/operator/gates.py -- do not edit",
         "/-! `is_hermitian` answers and `num_wires` of the gate classes (core Lean only) -/", "namespace QibGen", ""]
    for cls, d in ir.items():
        b = d["mat"]
        mt = ty(b["ret"])
        T = mat_type(mt)
        body = []
        lets = list(b["lets"])
        g = b["guard"]
        for i, (name, e) in enumerate(lets):
            if g and g[2] == i:
                body.append(f"if {pr(g[0], ty(g[0]))} = 0 then {pr(g[1], mt)} else")
            tt = {"R": "ℝ", "C": "ℂ", "V": "Fin 3 → ℝ"}[ty(e)]
            body.append(f"let {name} : {tt} := {pr(e, ty(e))}")
        if g and g[2] == len(lets):
            body.append(f"if {pr(g[0], ty(g[0]))} = 0 then {pr(g[1], mt)} else")
        body.append(pr(b["ret"], mt))
        L.append(f"/-- `{cls}.as_matrix` -/")
        L.append(f"noncomputable def {cls}.mat {binder(d['params'])} : {T} :=")
        L += ["  " + x for x in body]
        F.append(f"def {cls}.hermitianFlag : Bool := {'true' if d['flag'] else 'false'}")
        if d["wires"][0] == "const":
            F.append(f"def {cls}.wires : Nat := {d['wires'][1]}")
        else:
            nb = " ".join(f"({n} : Nat)" for n, k in d["params"] if k == "N")
            F.append(f"def {cls}.wires {nb} : Nat := {d['wires'][1]}")
        L.append("")
    for cls, d in ir.items():
        T = mat_type(ty(d["mat"]["ret"]))
        inv = d["inverse"]
        L.append(f"/-- matrix of `{cls}.inverse()` -/")
        L.append(f"noncomputable def {cls}.inv {binder(d['params'])} : {T} :=")
        if inv[0] == "self":
            L.append(f"  {cls}.mat {argnames(d['params'])}")
        elif inv[0] == "adjoint-general":
            L.append(f"  ({cls}.mat {argnames(d['params'])})ᴴ")
        else:
            k2 = inv[1]
            args = []
            for (n, k), a in zip(ir[k2]["params"], inv[2]):
                if k == "N":
                    args.append(pr(a, "N") if a[0] == "param" else None)
                elif k == "V3":
                    args.append(f"(fun k => -({pr(a[2], 'V')} k))" if a[0] == "neg" else pr(a, "V"))
                else:
                    args.append(f"({pr(a, 'R')})")
            if any(a is None for a in args):
                raise TranslationError(f"{cls}.inverse: unsupported nat argument")
            L.append(f"  {k2}.mat " + " ".join(args))
    L.append("")
    F.append("/-! composite `is_hermitian` answers (delegation read from the source) -/")
    cf = COMPOSITE_FLAGS
    def cflag(c, arg):
        k = cf[c]
        if k[0] == "const":
            return "true" if k[1] else "false"
        if k[0] == "target":
            return "tgateFlag"
        if k[0] == "all-targets":
            return "tflags.all id"
        if k[0] == "matrix-test":
            return "matIsHermitian"
        raise TranslationError(f"flag kind {k}")
    F.append(f"def ControlledGate.hermitianFlag (tgateFlag : Bool) : Bool := {cflag('ControlledGate', None)}")
    F.append(f"def MultiplexedGate.hermitianFlag (tflags : List Bool) : Bool := {cflag('MultiplexedGate', None)}")
    F.append(f"def TimeEvolutionGate.hermitianFlag : Bool := {cflag('TimeEvolutionGate', None)}")
    F.append(f"def PrepareGate.hermitianFlag : Bool := {cflag('PrepareGate', None)}")
    F.append(f"def GeneralGate.hermitianFlag (matIsHermitian : Bool) : Bool := {cflag('GeneralGate', None)}")
    F.append("inductive BlockEncodingMethod where | Wx | Wxi | R deriving DecidableEq, Repr")
    tab = cf["BlockEncodingGate"][1]
    F.append("def BlockEncodingGate.hermitianFlag : BlockEncodingMethod → Bool")
    for m in ("Wx", "Wxi", "R"):
        F.append(f"  | .{m} => {'true' if tab[m] else 'false'}")
    F.append("")
    F.append("def leafFlags : List (String × Bool) := [" + ", ".join(f'("{c}", {"true" if d["flag"] else "false"})' for c, d in ir.items()) + "]")
    F.append("")
    F.append("end QibGen")
    FLAGS_TEXT.clear(); FLAGS_TEXT.append("\n".join(F) + "\n")
    L.append("")
    L.append("end QibSrc")
    return "\n".join(L) + "\n"


COMPOSITE_FLAGS = {}
FLAGS_TEXT = []


def reference_ir():
    return {"leaves": frontend(strict=True), "composite_flags": tr_composite_flags(parse_src("operator/gates.py"))}


def run():
    import translate
    COMPOSITE_FLAGS.clear()
    COMPOSITE_FLAGS.update(composite_flags())
    if COMPOSITE_FLAGS["BlockEncodingGate"][0] != "method":
        raise TranslationError("BlockEncodingGate.is_hermitian must switch on the method")
    for c in ("ControlledGate", "MultiplexedGate", "GeneralGate"):
        if COMPOSITE_FLAGS[c][0] == "matrix-test" and c != "GeneralGate":
            raise TranslationError(f"{c}.is_hermitian: matrix test not supported")
    ir = frontend()
    errs = validate(ir) + validate_composite(COMPOSITE_FLAGS)
    if REFUSED:
        translate.MODES["gates"] = {"mode": "reference IR of the pinned commit for: " + ", ".join(sorted(REFUSED)) + " (validated against the live module); the other classes translated from the current source text",
                                    "front_end_refused": dict(REFUSED)}
    else:
        translate.MODES["gates"] = {"mode": "translated from the current source text"}
    if errs:
        pre = "front-end validation failed: " if not REFUSED else \
            f"source left the translator's language ({dict(REFUSED)}) and the reference forms do not describe the live module: "
        raise TranslationError(pre + "; ".join(errs[:5]))
    txt = print_lean(ir)
    write_if_changed(LEAN / "QibGen" / "GateFlags.lean", FLAGS_TEXT[0])
    write_if_changed(LEAN / "QibGen" / "GatesReal.lean", txt)
    return {k: {"inverse": list(v["inverse"][0:2]), "flag": v["flag"], "wires": list(v["wires"])} for k, v in ir.items()}
