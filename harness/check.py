"""Entry point:  ./check <Cxx> [--tier quick|thorough] [--seed N]

exit 0: property held on everything explored (KNOWN-FINDING lines may be printed);
exit 1: `VIOLATION property=<id> replay=<path>` printed; exit 2: infrastructure problem / timeout.
"""
from __future__ import annotations
import argparse, importlib, os, random, sys, time, traceback
from pathlib import Path
sys.path.insert(0, str(Path(__file__).resolve().parent))
import common
from common import Report, lake_build, audit_axioms, forbidden_tokens, lean_closure, property_theorems, failing_decls, Driver, TRUSTED_BASE_COMMON, LEAN, sh, Lock


def deepen(rep, mod, a, tier, drv):
    """Deepened failing-input search. Triggered (quick tier only) when no concrete failing input has been found yet and either (a) a proof
    obligation / translation / correspondence broke, or (b) the source files the property depends on differ from the pinned tree
    (harness/fingerprint.py; never an alarm by itself). Then: further passes of the quick generator with fresh seeds (about 2 minutes),
    followed by a prefix of the thorough generator with every stage time-boxed. On the unchanged tree nothing is triggered."""
    if tier != "quick" or rep.violations or rep.replay is not None or os.environ.get("VERIF_NO_DEEPEN"):
        return
    import fingerprint
    changed = fingerprint.changed_files(a.prop)
    if not changed and not rep.broken:
        return
    rep.cov["deepened_search"] = {"source_files_changed": changed, "broken_ties": [b["broken"] for b in rep.broken][:10], "passes": []}
    t0 = time.time()
    budget = float(os.environ.get("VERIF_DEEPEN_S", "120"))
    rep.global_deadline = t0 + float(os.environ.get("VERIF_DEEPEN_TOTAL_S", "300"))      # the whole deepened search is bounded
    j = 0
    while not rep.violations and time.time() - t0 < budget and j < 6:
        j += 1
        rep.stage_deadline = max(30.0, budget - (time.time() - t0))
        mod.run(rep, "quick", random.Random((a.seed + 7919 * j) * 1000003 + 17), drv)
        rep.cov["deepened_search"]["passes"].append({"generator": "quick", "seed_offset": 7919 * j, "elapsed_s": round(time.time() - t0, 1)})
    if not rep.violations:
        rep.stage_deadline = float(os.environ.get("VERIF_DEEPEN_STAGE_S", "75"))
        mod.run(rep, "thorough", random.Random((a.seed + 104729) * 1000003 + 17), drv)
        rep.cov["deepened_search"]["passes"].append({"generator": "thorough (every stage time-boxed)", "elapsed_s": round(time.time() - t0, 1)})
    rep.stage_deadline = None
    rep.global_deadline = None


def main():
    ap = argparse.ArgumentParser()
    ap.add_argument("prop")
    ap.add_argument("--tier", default=os.environ.get("VERIF_TIER", "quick"))
    ap.add_argument("--seed", type=int, default=int(os.environ.get("VERIF_SEED", "0") or 0))
    ap.add_argument("--replay")
    a = ap.parse_args()
    tier = "thorough" if a.tier == "thorough" else "quick"
    mod = importlib.import_module("props." + a.prop.lower())
    rep = Report(a.prop, tier, a.seed)
    rep.replay = None
    if a.replay:
        import json
        rp = Path(a.replay)
        rp = rp if rp.is_absolute() else (common.ROOT / rp)
        rep.replay = json.loads(rp.read_text())
        if not isinstance(rep.replay.get("case"), dict):
            rep.replay = None      # a broken obligation without a concrete input: the whole check is the replay
    rng = random.Random(a.seed * 1000003 + 17)
    thms = []
    obligations = discharged = 0

    # 1. regenerate the generated Lean files from /repo's working tree
    try:
        import translate
        translate.regenerate(mod.GEN)
    except translate.TranslationError as e:
        rep.tie_broken("translator", "translation", str(e))
    except Exception as e:
        rep.tie_broken("translator", "translation", f"{type(e).__name__}: {e}\n{traceback.format_exc()[-800:]}")

    # 2. proof obligations: build the property modules
    targets = [f[:-5].replace("/", ".") for f in mod.LEAN_FILES]
    try:
        thms = [n for _, ns in property_theorems(mod.LEAN_FILES) for n in ns]
        obligations = len(thms)
        ok, log = lake_build(targets)
        if not ok:
            fd = failing_decls(log)
            names = sorted({d["decl"] or d["file"] for d in fd}) or ["lake build"]
            for n in names[:10]:
                rep.tie_broken(n, "proof-obligation", "theorem/definition no longer checks: " + "; ".join(
                    f"{d['file']}:{d['line']} {d['msg']}" for d in fd if (d["decl"] or d["file"]) == n)[:600])
            discharged = 0
        else:
            hits = forbidden_tokens(lean_closure(mod.LEAN_FILES))
            if hits:
                rep.tie_broken("forbidden-token", "proof-obligation", "; ".join(hits[:5]))
            aok, per, alog = audit_axioms(a.prop, mod.LEAN_FILES)
            discharged = sum(1 for n in thms if n in per and set(per[n]) <= common.ALLOWED_AXIOMS)
            if not aok:
                rep.tie_broken("axiom-audit", "proof-obligation", ("axioms outside the allowed set or theorem missing: " + alog)[:600])
            rep.cov["axioms"] = {n: per.get(n) for n in thms[:200]}
            if tier == "thorough":
                t0 = time.time()
                rc, out = 0, ""
                for tg in targets:      # one run per property module (modules of different cores need not be importable together)
                    with Lock():
                        r1, o1 = sh(["lake", "env", "leanchecker", tg], cwd=LEAN, timeout=3000)
                    rc, out = max(rc, r1), out + o1[-200:]
                rep.cov["leanchecker"] = {"rc": rc, "wall_s": round(time.time() - t0, 1), "tail": out[-300:]}
                if rc != 0:
                    rep.tie_broken("leanchecker", "proof-obligation", out[-600:])
    except Exception as e:
        rep.tie_broken("lake build", "proof-obligation", f"{type(e).__name__}: {e}")

    # 3. driver (model executable); if it cannot be built only the direct oracle runs
    drv = None
    try:
        ok, log = lake_build([mod.DRIVER])
        if ok:
            drv = Driver(mod.DRIVER)
        else:
            rep.tie_broken(mod.DRIVER, "correspondence", "model driver does not build: " + log[-600:])
    except Exception as e:
        rep.tie_broken(mod.DRIVER, "correspondence", f"{type(e).__name__}: {e}")

    # 4./5. correspondence + failing-input search on the real implementation
    try:
        mod.run(rep, tier, rng, drv)
        deepen(rep, mod, a, tier, drv)
    except Exception as e:
        # a crash of the generator / runner itself (exceptions of the code under test are caught per case and compared) is an
        # infrastructure problem of the check, never a violation: exit 2
        print(f"INFRA: harness crashed: {type(e).__name__}: {e}\n{traceback.format_exc()}", file=sys.stderr)
        sys.exit(2)

    checker = f"cd lean && lake build {' '.join(targets)} && #print axioms on {obligations} property theorems (harness/common.py audit_axioms)"
    rc = rep.finish("proof", max(obligations, 1), discharged, checker,
                    TRUSTED_BASE_COMMON + getattr(mod, "TRUSTED", []) + ["translator back end (IR -> Lean text); its front end is validated against the live module on every run"],
                    mod.ASSUMPTIONS, mod.RULE, extra={"theorems": thms, "level_text": mod.LEVEL_TEXT})
    sys.exit(rc)


if __name__ == "__main__":
    try:
        main()
    except SystemExit:
        raise
    except BaseException as e:
        print(f"INFRA: {type(e).__name__}: {e}\n{traceback.format_exc()}", file=sys.stderr)
        sys.exit(2)
