"""Stage shared by C16 (Hermiticity answers) and C01 (unitarity claims): Pauli strings, weighted Pauli strings, Pauli operators.

Correspondence: `PauliString.is_hermitian`, `WeightedPauliString.is_hermitian/is_unitary`, `PauliOperator.is_hermitian` of the real code
against the executable model (`QibModel/Pauli.lean`: isHermitian / wpsIsHermitian / wpsIsUnitary / PauliOp.isHermitian) through
`drv_pauli`; direct oracle: flag => |M - M^dagger| = 0 (soundness), Hermitian matrix => flag for strings and weighted strings
(completeness), unitary claim => |M^dagger M - 1| <= 1e-9."""
from __future__ import annotations
import itertools
import numpy as np
from common import cq, run_correspondence, lake_build, Driver

WEIGHTS = [1, -1, 1j, -1j, 0.5, -2.0, 0.5j, 1 + 1j, 1 - 1j, 0, 0j, 3, 1e-300, 1e-300j, 0.6 + 0.8j, -0.8 + 0.6j, 2.5 - 0.5j, 1e8j]


def _cases(tier, rng):
    from props import c09
    nmax = 3 if tier == "thorough" else 2
    for n in range(0, nmax + 1):
        for p in c09.strings(n):
            yield {"op": "ps.flags", "a": p}
            for w in (WEIGHTS if n <= 1 else rng.sample(WEIGHTS, 4)):
                yield {"op": "wps.flags", "a": p, "w": [complex(w).real, complex(w).imag]}
    for _ in range(3000 if tier == "thorough" else 400):
        n = rng.randint(1, 6)
        p = c09.rand_ps(rng, n)
        w = rng.choice(WEIGHTS) if rng.random() < 0.6 else complex(rng.choice([0, 1, -1, 0.5, rng.uniform(-2, 2)]), rng.choice([0, 1, -1, 0.25, rng.uniform(-2, 2)]))
        yield {"op": "wps.flags", "a": p, "w": [complex(w).real, complex(w).imag]}
    for _ in range(1500 if tier == "thorough" else 250):
        n = rng.randint(1, 4)
        k = rng.randint(0, 5)
        items = []
        for _ in range(k):
            p = c09.rand_ps(rng, n)
            # mostly Hermitian-looking entries so that the conjunction is often True
            if rng.random() < 0.75:
                w = complex(rng.choice([1, -1, 0.5, 2, 0])) * [1, 1j, -1, -1j][p["q"]]
            else:
                w = complex(rng.choice(WEIGHTS))
            items.append([p, [w.real, w.imag]])
        yield {"op": "pop.flags", "items": items}


def _impl(case):
    from props import c09
    PS, WPS, PO = c09._ctx["PS"], c09._ctx["WPS"], c09._ctx["PO"]
    op = case["op"]
    if op == "ps.flags":
        P = c09.mk(case["a"])
        out = {"herm": bool(P.is_hermitian()), "unitary": bool(P.is_unitary())}
        if len(case["a"]["z"]) <= 5:
            out["_M"] = c09.dense_of(P.as_matrix())
        return out
    if op == "wps.flags":
        w = complex(*case["w"])
        W = WPS(c09.mk(case["a"]), w)
        out = {"herm": bool(W.is_hermitian()), "unitary": bool(W.is_unitary())}
        if len(case["a"]["z"]) <= 5:
            out["_M"] = c09.dense_of(W.as_matrix())
        return out
    items = [WPS(c09.mk(p), complex(*w)) for p, w in case["items"]]
    O = PO(items)
    out = {"herm": bool(O.is_hermitian())}
    if items:
        out["_M"] = c09.dense_of(O.as_matrix())
    return out


def _req(case):
    op = case["op"]
    if op == "ps.flags":
        return {"op": "ps.herm", "a": case["a"]}
    if op == "wps.flags":
        return {"op": "wps.flags", "a": case["a"], "w": cq(complex(*case["w"]))}
    return {"op": "pop.history", "init": [[p, cq(complex(*w))] for p, w in case["items"]], "steps": [], "mat": False}


def _compare(which):
    def compare(case, o, m):
        if "harness_exception" in o:
            return "harness exception: " + o["harness_exception"] + o.get("tb", "")[-300:]
        if "raised" in m:
            return f"model raised {m['raised']}"
        v = m["val"]
        op = case["op"]
        mh = v if op == "ps.flags" else v["herm"]
        if o["herm"] != mh:
            return f"is_hermitian: impl {o['herm']} != model {mh}"
        if op == "wps.flags" and (case["w"][0] == 0 or case["w"][1] == 0):      # abs() of a float weight is exact on the axes only
            if o["unitary"] != v["unitary"]:
                return f"is_unitary: impl {o['unitary']} != model {v['unitary']}"
        return None
    return compare


def _oracle(which):
    def oracle(case, o):
        if "harness_exception" in o or "_M" not in o:
            return []
        M = o["_M"]
        bad = []
        op = case["op"]
        cls = {"ps.flags": "PauliString", "wps.flags": "WeightedPauliString", "pop.flags": "PauliOperator"}[op]
        herm = bool(np.array_equal(M, M.conj().T))
        if which == "C16":
            if o["herm"] and not herm:
                bad.append((f"C16:unsound-flag:{cls}", f"{case}: is_hermitian() is True but M != M^dagger"))
            if op in ("ps.flags", "wps.flags") and herm and not o["herm"]:
                bad.append((f"C16:incomplete-flag:{cls}", f"{case}: Hermitian matrix reported as non-Hermitian"))
        else:
            if o.get("unitary"):
                e = float(np.max(np.abs(M.conj().T @ M - np.identity(len(M)))))
                if e > 1e-9:
                    bad.append((f"C01:unitary-claim:{cls}", f"{case}: is_unitary() is True but |M^dagger M - 1| = {e:.3e}"))
        return bad
    return oracle


def run_pauli_flags(rep, tier, rng, which):
    from props import c09
    c09.setup()
    drv = None
    ok, log = lake_build(["drv_pauli"])
    if ok:
        drv = Driver("drv_pauli")
    else:
        rep.tie_broken("drv_pauli", "correspondence", "Pauli model driver does not build: " + log[-400:])

    def counted():
        for c in _cases(tier, rng):
            rep.count("pauli:" + c["op"])
            yield c
    run_correspondence(rep, drv, counted(), _impl, _req, _compare(which), _oracle(which), "pauli.flags", batch=2000)
