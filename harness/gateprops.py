"""Cases, implementation adapter, model request, comparisons and direct oracles shared by the gate checks
C01 (unitarity/size), C02 (definitions), C03 (inverse), C16 (Hermiticity flags)."""
from __future__ import annotations
import itertools, math, random
import numpy as np
import gatelib as GL
from gatelib import ctx, to_tree, mat_from_json, describe, class_key, particles_roles

TOL = 1e-9


def build(case):
    """deterministically rebuild the gate object of a case"""
    c = ctx()
    G = c["G"]
    k = case["kind"]
    if k == "random":
        rng = random.Random(case["seed"])
        pool = GL.QubitPool(rng, bound=case.get("bound", True))
        g = GL.make_gate(rng, case["depth"], pool)
        if case.get("reuse"):
            # the object is used once, then re-parametrised in place, then observed: a gate object must not keep stale state
            GL.warm_up(g)
            GL.reparam(g, rng)
        return g
    if k == "leaf":
        rng = random.Random(case["seed"])
        g = GL.make_leaf(case["cls"], rng, GL.QubitPool(rng, bound=case.get("bound", True)))
        if "theta" in case and hasattr(g, "theta"):
            g.theta = case["theta"]
        if "phi" in case and hasattr(g, "phi"):
            g.phi = case["phi"]
        if "v" in case and hasattr(g, "ntheta"):
            dt = case.get("vdtype", "float")
            v = list(case["v"]) if dt == "pyint" else np.array(case["v"], dtype={"float": float, "int64": np.int64, "int32": np.int32, "int16": np.int16}[dt])
            g = G.RotationGate(v, g.qubit)
        return g
    if k == "ctrl":
        qs = c["qubits"]
        tk = case["target"]
        if tk == "general2":
            u = GL.random_unitary(2, random.Random(case["seed"]), exact=True)
            t = G.GeneralGate(u, 2).on(qs[6], qs[7])
        elif tk == "ry":
            t = G.RyGate(case.get("theta", 0.7), qs[7])
        elif tk == "sgate":
            t = G.SGate(qs[7])
        elif tk == "cnot-inner":
            t = G.ControlledGate(G.RyGate(0.4, qs[7]), 1, [case.get("inner", 1)]).set_control(qs[6])
        else:
            t = G.HadamardGate(qs[7])
        # the control pattern in the argument form of the case: list (default), tuple, integer ndarray, list of bools, int8 ndarray
        form = case.get("csform", "list")
        cs = {"list": lambda v: list(v), "tuple": lambda v: tuple(v), "ndarray": lambda v: np.array(v, dtype=int),
              "bools": lambda v: [bool(b) for b in v], "int8": lambda v: np.array(v, dtype=np.int8)}[form](case["cs"])
        g = G.ControlledGate(t, len(case["cs"]), cs)
        g.set_control(qs[:len(case["cs"])])
        return g
    if k == "mplx-sameobj":
        # ONE gate object used for several control values (slots `same`), other objects elsewhere: block k is still the k-th target
        qs = c["qubits"]
        shared_g = G.IdentityGate(qs[7]) if case["shared"] == "id" else G.RyGate(0.9, qs[7])
        others = iter([G.RyGate(0.7, qs[7]), G.SGate(qs[7]), G.HadamardGate(qs[7]), G.RzGate(-0.4, qs[7])])
        ts = [shared_g if i in case["same"] else next(others) for i in range(2 ** case["nc"])]
        g = G.MultiplexedGate(ts, case["nc"])
        g.set_control(qs[:case["nc"]])
        return g
    if k == "mplx-near":
        # different targets that the library's own `==` (np.allclose) calls equal: block k must still be the k-th target
        qs = c["qubits"]
        if case["tcls"] == "rotation":
            ts = [G.RotationGate(np.array(v, dtype=float), qs[7]) for v in case["vs"]]
        elif case["tcls"] == "prepare":
            ts = [G.PrepareGate(np.array(v, dtype=float), 1).on([qs[7]]) for v in case["vs"]]
        else:
            base = GL.random_unitary(1, random.Random(case["seed"]))
            ts = [G.GeneralGate(base @ np.diag([1.0, np.exp(1j * e)]), 1).on(qs[7]) for e in case["vs"]]
        g = G.MultiplexedGate(ts, case["nc"])
        g.set_control(qs[:case["nc"]])
        return g
    if k == "prepare-buffer":
        # the caller builds the gate from a work buffer (float ndarray) and then reuses the buffer: the gate keeps the vector it was
        # built from (the constructor copies: `np.array(vec)`)
        buf = np.array(case["v"], dtype=float)
        g = G.PrepareGate(buf, case["n"], transpose=case["tr"])
        buf[:] = np.array(case["v2"], dtype=float)
        g._built_from = np.array(case["v"], dtype=float)
        return g
    if k == "mplx-herm":
        # targets of ONE class whose answer depends on the instance: user-defined / controlled gates, Hermitian and not, in a given order
        qs = c["qubits"]
        H2 = {"X": np.array([[0, 1], [1, 0]], dtype=complex), "Z": np.diag([1, -1]).astype(complex), "S": np.diag([1, 1j]),
              "Y": np.array([[0, -1j], [1j, 0]]), "T": np.diag([1, np.exp(0.25j * np.pi)]), "I": np.identity(2, dtype=complex)}
        if case["tcls"] == "general":
            ts = [G.GeneralGate(H2[n], 1).on(qs[7]) for n in case["names"]]
        else:
            ts = [G.ControlledGate(G.GeneralGate(H2[n], 1).on(qs[7]), 1).set_control(qs[6]) for n in case["names"]]
        g = G.MultiplexedGate(ts, case["nc"])
        g.set_control(qs[:case["nc"]])
        return g
    if k == "mplx":
        qs = c["qubits"]
        rng = random.Random(case["seed"])
        nc = case["nc"]
        ts = [G.RotationGate(np.array([rng.uniform(-2, 2) for _ in range(3)]), qs[7]) if case["w"] == 1 else
              G.GeneralGate(GL.random_unitary(2, rng, exact=True), 2).on(qs[6], qs[7]) for _ in range(2 ** nc)]
        g = G.MultiplexedGate(ts, nc)
        g.set_control(qs[:nc])
        return g
    raise AssertionError(k)


INVALID_UNITARIES = {
    "scaled": lambda: 1.001 * np.identity(2),          # (deviations inside the constructor's np.allclose tolerance are accepted by design)
    "shear": lambda: np.array([[1, 1], [0, 1]], dtype=complex),
    "zero": lambda: np.zeros((2, 2)),
    "nan": lambda: np.array([[1, 0], [0, np.nan]], dtype=complex),
    "nan-offdiag": lambda: np.array([[1, np.nan], [0, 1]], dtype=complex),
    "inf": lambda: np.array([[np.inf, 0], [0, 1]], dtype=complex),
    "nan-4x4": lambda: np.diag([1, 1, np.nan, 1]).astype(complex),
    "almost": lambda: np.array([[1, 1e-4], [0, 1]], dtype=complex),
}


def impl(case):
    if case.get("kind") == "block-boundary":
        # ||H|| = 1: sqrtm(1 - H^2) is singular there and accurate to ~1e-8 only, so this edge is checked by the oracle alone, with
        # tolerance 1e-6 (finite, unitary, top-left block = H, inverse() inverts); no exact model comparison
        c = ctx(); qib, G = c["qib"], c["G"]
        rng = random.Random(1000 + case["seed"])
        L = case["nsites"]
        f = qib.field.Field(qib.field.ParticleType.QUBIT, qib.lattice.IntegerLattice((L,), pbc=False))
        J, h, g_ = rng.uniform(-1, 1), rng.uniform(-1, 1), rng.uniform(-1, 1)
        H0 = qib.operator.IsingHamiltonian(f, J, h, g_)
        nrm = np.linalg.norm(H0.as_matrix().toarray(), ord=2)
        H = qib.operator.IsingHamiltonian(f, J / nrm, h / nrm, g_ / nrm)
        gate = G.BlockEncodingGate(H, getattr(G.BlockEncodingMethod, case["method"]))
        m = np.asarray(gate.as_matrix(), dtype=complex)
        mi = np.asarray(gate.inverse().as_matrix(), dtype=complex)
        return {"boundary": True, "_mb": m, "_mib": mi, "_hb": H.as_matrix().toarray(), "herm": bool(gate.is_hermitian()), "desc": f"BlockEncoding[{case['method']}](Ising/||Ising||, {L} sites)"}
    if case.get("kind") == "general-invalid":
        # the constructor must refuse a matrix that is not unitary (also one with non-finite entries); if it accepts, the claims are checked
        G = ctx()["G"]
        u = INVALID_UNITARIES[case["what"]]()
        try:
            g = G.GeneralGate(u, 1 if len(u) == 2 else 2)
        except ValueError:
            return {"rejected": True}
        m = np.asarray(g.as_matrix(), dtype=complex)
        return {"rejected": False, "unitary_claim": bool(g.is_unitary()), "_minv": m, "desc": f"GeneralGate(<{case['what']}>)"}
    g = build(case)
    out = {"desc": describe(g), "ckey": class_key(g)}
    m = np.asarray(g.as_matrix(), dtype=complex)
    tree, notes = to_tree(g)
    try:
        inv = g.inverse()
        mi = np.asarray(inv.as_matrix(), dtype=complex)
    except Exception as e:
        # the gate exists and has a matrix, but asking for its inverse fails: a failing input of C03 (reported by its oracle)
        e.inverse_raised = f"{describe(g)} (bound={all(p is not None for p in g.particles()) if hasattr(g, 'particles') else '?'}): inverse() raised {type(e).__name__}: {e}"
        e.ckey = class_key(g)
        raise
    out["wires"] = int(g.num_wires)
    out["invwires"] = int(inv.num_wires)
    out["herm"] = bool(g.is_hermitian())
    out["invherm"] = bool(inv.is_hermitian())
    out["unitary_claim"] = bool(g.is_unitary())
    out["notes"] = notes
    out["roles_equal"] = particles_roles(inv) == particles_roles(g)
    out["roles"] = [r[0] for r in particles_roles(g)]
    out["invtype"] = type(inv).__name__
    out["_g"] = g
    out["_tree"] = tree
    out["_m"], out["_mi"] = m, mi
    out["_mii"] = np.asarray(inv.inverse().as_matrix(), dtype=complex)
    out["finite"] = bool(np.all(np.isfinite(m)) and np.all(np.isfinite(mi)))
    return out


def model_req(case_and_out):
    raise NotImplementedError  # requests are built from the impl output, see run()


def close(a, b, tol=1e-12):
    return a.shape == b.shape and bool(np.all(np.isfinite(a))) and float(np.max(np.abs(a - b), initial=0.0)) <= tol * (1 + float(np.max(np.abs(b), initial=0.0)))


def compare(case, o, m, what=("mat", "inv", "herm", "wires")):
    if case.get("kind") in ("general-invalid", "block-boundary"):
        return None
    if "harness_exception" in o:
        return "harness exception: " + o["harness_exception"]
    if "mat" in what:
        mm = mat_from_json(m["mat"])
        if not close(o["_m"], mm):
            return f"as_matrix of {o['desc']} differs from the model's assembly (max diff {np.max(np.abs(o['_m'] - mm)) if o['_m'].shape == mm.shape else 'shape'})"
    if "wires" in what and (o["wires"] != m["wires"] or o["invwires"] != m["invwires"]):
        return f"num_wires of {o['desc']}: impl {o['wires']}/{o['invwires']} model {m['wires']}/{m['invwires']}"
    if "inv" in what:
        mm = mat_from_json(m["inv"])
        if not close(o["_mi"], mm):
            return f"inverse().as_matrix of {o['desc']} differs from the model's inverse tree"
        mm = mat_from_json(m["invinv"])
        if not close(o["_mii"], mm):
            return f"inverse().inverse().as_matrix of {o['desc']} differs from the model"
    if "herm" in what and (o["herm"] != m["herm"] or o["invherm"] != m["invherm"]):
        return f"is_hermitian of {o['desc']}: impl {o['herm']}/{o['invherm']} model {m['herm']}/{m['invherm']}"
    return None


# ---------------------------------------------------------------------------------------------
# direct oracles (property on the implementation only)
# ---------------------------------------------------------------------------------------------

def _boundary_findings(pid, case, o):
    """block encoding of an operator of norm exactly 1 (tolerance 1e-6, see impl)"""
    if not o.get("boundary"):
        return []
    m, mi, h = o["_mb"], o["_mib"], o["_hb"]
    d = len(h)
    if not (np.all(np.isfinite(m)) and np.all(np.isfinite(mi))):
        return [(f"{pid}:block-encoding-at-norm-1:non-finite:{case['method']}", f"{o['desc']}: matrix (or its inverse) contains NaN/Inf")]
    bad = []
    tol = 1e-6
    if pid == "C01" and (m.shape != (2 * d, 2 * d) or np.max(np.abs(m @ m.conj().T - np.identity(2 * d))) > tol):
        bad.append((f"C01:block-encoding-at-norm-1:non-unitary:{case['method']}", f"{o['desc']}: |U U^dagger - 1| = {np.max(np.abs(m @ m.conj().T - np.identity(2 * d))):.3e}"))
    if pid == "C02" and np.max(np.abs(m[:d, :d] - h)) > tol:
        bad.append((f"C02:block-encoding-at-norm-1:top-left:{case['method']}", f"{o['desc']}: top-left block is not the encoded operator"))
    if pid == "C03" and np.max(np.abs(mi @ m - np.identity(2 * d))) > tol:
        bad.append((f"C03:block-encoding-at-norm-1:inverse:{case['method']}", f"{o['desc']}: inverse().as_matrix() @ as_matrix() != 1"))
    if pid == "C16" and o["herm"] and np.max(np.abs(m - m.conj().T)) > tol:
        bad.append((f"C16:block-encoding-at-norm-1:unsound-flag:{case['method']}", f"{o['desc']}: is_hermitian() True but M != M^dagger"))
    return bad


def oracle_c01(case, o):
    if case.get("kind") == "block-boundary":
        return _boundary_findings("C01", case, o)
    if case.get("kind") == "general-invalid":
        if o.get("rejected") is False:
            return [(f"C01:general-gate-accepts-non-unitary:{case['what']}", f"GeneralGate accepted a matrix that is not unitary ({case['what']}); "
                     f"is_unitary() = {o.get('unitary_claim')}, matrix = {np.array2string(o['_minv'], precision=3)}")]
        return []
    if "harness_exception" in o:
        return []
    bad = []
    m = o["_m"]
    d = 2 ** o["wires"]
    if m.shape != (d, d):
        bad.append((f"C01:shape:{o['ckey']}", f"{o['desc']}: shape {m.shape} but num_wires={o['wires']}"))
        return bad
    if not o["finite"]:
        bad.append((f"C01:non-finite:{o['ckey']}", f"{o['desc']}: NaN/Inf in matrix"))
        return bad
    e = float(np.max(np.abs(m @ m.conj().T - np.identity(d))))
    if e > TOL:
        bad.append((f"C01:non-unitary:{o['ckey']}", f"{o['desc']}: |U U^dagger - 1| = {e:.3e}"))
    return bad


X = np.array([[0, 1], [1, 0]], dtype=complex)
Y = np.array([[0, -1j], [1j, 0]], dtype=complex)
Z = np.array([[1, 0], [0, -1]], dtype=complex)
I2 = np.identity(2, dtype=complex)


def rot_ref(theta, P):
    return math.cos(theta / 2) * np.identity(len(P)) - 1j * math.sin(theta / 2) * P


def reference_matrix(g):
    """the mathematical definition of the gate's matrix, computed independently of gates.py; None = no reference"""
    from scipy.linalg import expm
    n = type(g).__name__
    s2 = math.sqrt(2)
    fixed = {"IdentityGate": I2, "PauliXGate": X, "PauliYGate": Y, "PauliZGate": Z, "HadamardGate": (X + Z) / s2,
             "SGate": np.diag([1, 1j]), "SAdjGate": np.diag([1, -1j]), "TGate": np.diag([1, np.exp(1j * math.pi / 4)]),
             "TAdjGate": np.diag([1, np.exp(-1j * math.pi / 4)]), "SxGate": rot_ref(math.pi / 2, X),
             "ISwapGate": np.array([[1, 0, 0, 0], [0, 0, 1j, 0], [0, 1j, 0, 0], [0, 0, 0, 1]], dtype=complex)}
    if n in fixed:
        return fixed[n]
    if n in ("RxGate", "RyGate", "RzGate"):
        return rot_ref(g.theta, {"RxGate": X, "RyGate": Y, "RzGate": Z}[n])
    if n in ("RxxGate", "RyyGate", "RzzGate"):
        P = {"RxxGate": X, "RyyGate": Y, "RzzGate": Z}[n]
        return rot_ref(g.theta, np.kron(P, P))
    if n == "RotationGate":
        v = np.asarray(g.ntheta, dtype=float)
        t = float(np.linalg.norm(v))
        if t == 0:
            return I2
        nn = v / t
        return rot_ref(t, nn[0] * X + nn[1] * Y + nn[2] * Z)
    if n == "PhaseFactorGate":
        return np.exp(1j * g.phi) * np.identity(2 ** g.nwires)
    if n == "GeneralGate":
        return np.asarray(g.mat, dtype=complex)
    if n == "TimeEvolutionGate":
        h = g.h.as_matrix().toarray()
        w, v = np.linalg.eigh(h)
        return (v * np.exp(-1j * g.t * w)) @ v.conj().T
    if n == "ControlledGate":
        u = reference_matrix(g.tgate)
        if u is None:
            return None
        nc, d = g.ncontrols, len(u)
        m = np.identity(2 ** nc * d, dtype=complex)
        ic = int("".join(str(int(b)) for b in g.ctrl_state), 2) if nc else 0  # first control = most significant bit
        m[ic * d:(ic + 1) * d, ic * d:(ic + 1) * d] = u
        return m
    if n == "MultiplexedGate":
        us = [reference_matrix(t) for t in g.tgates]
        if any(u is None for u in us):
            return None
        d = len(us[0])
        m = np.zeros((len(us) * d, len(us) * d), dtype=complex)
        for k, u in enumerate(us):
            m[k * d:(k + 1) * d, k * d:(k + 1) * d] = u
        return m
    return None


def oracle_c02(case, o):
    if case.get("kind") == "block-boundary":
        return _boundary_findings("C02", case, o)
    if case.get("kind") == "general-invalid":
        return []
    if "harness_exception" in o:
        return []
    g, m = o["_g"], o["_m"]
    bad = []
    ref = reference_matrix(g)
    if ref is not None:
        if ref.shape != m.shape or not np.all(np.isfinite(m)) or float(np.max(np.abs(ref - m))) > TOL:
            bad.append((f"C02:definition:{o['ckey']}", f"{o['desc']}: as_matrix differs from the definition (max diff {float(np.max(np.abs(ref - m))) if ref.shape == m.shape else 'shape'})"))
    n = type(g).__name__
    if n == "BlockEncodingGate":
        h = g.h.as_matrix().toarray()
        d = len(h)
        if m.shape != (2 * d, 2 * d) or float(np.max(np.abs(m[:d, :d] - h))) > TOL:
            bad.append((f"C02:block-topleft:{o['ckey']}", f"{o['desc']}: top-left block is not the encoded operator"))
    if n == "PrepareGate":
        v = np.asarray(getattr(g, "_built_from", g.vec), dtype=float)
        col = np.sign(v) * np.sqrt(np.abs(v) / np.sum(np.abs(v)))
        got = m[0, :] if g.transpose else m[:, 0]
        if float(np.max(np.abs(got - col))) > TOL:
            bad.append((f"C02:prepare-column:{'T' if g.transpose else 'N'}", f"{o['desc']}: first column/row is not sign(v) sqrt|v|/sqrt|v|_1"))
    return bad


def oracle_c03(case, o):
    if case.get("kind") == "block-boundary":
        return _boundary_findings("C03", case, o)
    if case.get("kind") == "general-invalid":
        return []
    if "inverse_raised" in o:
        return [(f"C03:inverse-raised:{o.get('ckey')}", o["inverse_raised"])]
    if "harness_exception" in o:
        return []
    bad = []
    m, mi = o["_m"], o["_mi"]
    if m.shape != mi.shape or not o["finite"] or float(np.max(np.abs(mi @ m - np.identity(len(m))))) > TOL:
        bad.append((f"C03:inverse-matrix:{o['ckey']}", f"{o['desc']}: inverse().as_matrix() @ as_matrix() != 1"))
    if not o["roles_equal"]:
        bad.append((f"C03:inverse-particles:{o['ckey']}", f"{o['desc']}: inverse() acts on different particles/roles"))
    return bad


def oracle_c16(case, o):
    if case.get("kind") == "block-boundary":
        return _boundary_findings("C16", case, o)
    if case.get("kind") == "general-invalid":
        return []
    if "harness_exception" in o:
        return []
    bad = []
    for flag, m, tag in ((o["herm"], o["_m"], ""), (o["invherm"], o["_mi"], " (inverse)")):
        dev = float(np.max(np.abs(m - m.conj().T)))
        if flag and dev > TOL:
            bad.append((f"C16:unsound-flag:{o['ckey']}", f"{o['desc']}{tag}: is_hermitian() is True but |M - M^dagger| = {dev:.3e}"))
    g = o["_g"]
    if type(g).__name__ == "GeneralGate" and float(np.max(np.abs(o["_m"] - o["_m"].conj().T))) < 1e-13 and not o["herm"]:
        bad.append(("C16:incomplete-flag:GeneralGate", f"{o['desc']}: Hermitian user matrix reported as non-Hermitian"))
    return bad


# ---------------------------------------------------------------------------------------------
# generator
# ---------------------------------------------------------------------------------------------

def gen_cases(tier, rng):
    thorough = tier == "thorough"
    # every leaf class at boundary parameters
    for cls in GL.LEAF_KINDS:
        for a in GL.ANGLES:
            yield {"kind": "leaf", "cls": cls, "seed": rng.randrange(10 ** 9), "theta": a, "phi": a, "bound": rng.random() < 0.7}
            if cls not in ("RxGate", "RyGate", "RzGate", "RxxGate", "RyyGate", "RzzGate", "PhaseFactorGate"):
                break
    for v in GL.VECS:
        yield {"kind": "leaf", "cls": "RotationGate", "seed": rng.randrange(10 ** 9), "v": list(v)}
    # integer-typed rotation vectors (array-likes are accepted as they are): small, and large enough that integer arithmetic on them wraps
    for v, dt in (([3, -4, 12], "pyint"), ([5_000_000_000, 0, 0], "pyint"), ([0, 3_100_000_000, -7], "int64"), ([60000, 0, 1], "int32"),
                  ([200, -150, 0], "int16"), ([1, 0, 0], "int16")):
        yield {"kind": "leaf", "cls": "RotationGate", "seed": rng.randrange(10 ** 9), "v": v, "vdtype": dt}
    # all control patterns exhaustively, non-symmetric targets
    maxc = 4 if thorough else 3
    for nc in range(1, maxc + 1):
        for cs in itertools.product([0, 1], repeat=nc):
            for tk in (["ry", "sgate", "general2", "cnot-inner"] if nc <= 3 else ["ry"]):
                yield {"kind": "ctrl", "cs": list(cs), "target": tk, "seed": rng.randrange(10 ** 9), "inner": rng.randint(0, 1), "theta": rng.uniform(-3, 3)}
    for nc in (1, 2, 3):
        for w in (1, 2):
            if nc == 3 and w == 2 and not thorough:
                continue
            yield {"kind": "mplx", "nc": nc, "w": w, "seed": rng.randrange(10 ** 9)}
    for w in INVALID_UNITARIES:
        yield {"kind": "general-invalid", "what": w}
    for nc, same, sh in ((2, [0, 2, 3], "id"), (1, [0, 1], "ry"), (2, [1, 2], "ry"), (2, [0, 1, 2, 3], "id"), (3, [0, 3, 5, 6], "ry")):
        yield {"kind": "mplx-sameobj", "nc": nc, "same": same, "shared": sh}
    # block encodings at the EDGE of the domain: operators rescaled by their own spectral norm (||H|| = 1 up to rounding)
    for sd in range(60 if thorough else 24):
        for meth in ("Wx", "Wxi", "R"):
            yield {"kind": "block-boundary", "seed": sd, "method": meth, "nsites": 1 + sd % 3}
    for form in ("tuple", "ndarray", "bools", "int8"):
        for cs in ([0], [1], [0, 1], [1, 0], [0, 0, 1]):
            yield {"kind": "ctrl", "cs": cs, "csform": form, "target": rng.choice(["ry", "sgate"]), "seed": rng.randrange(10 ** 9), "theta": rng.uniform(-3, 3)}
    for nc, vs in ((1, [[0, 0, 400.0], [0, 0, 400.003]]), (1, [[1.0, 2.0, 2.0], [1.0, 2.0, 2.0 + 3e-8]]), (2, [[0.3, 0, 0], [0.3, 1e-9, 0], [0.3, 0, 0], [0.3, 0, 2e-9]])):
        yield {"kind": "mplx-near", "tcls": "rotation", "vs": vs, "nc": nc}
        yield {"kind": "mplx-near", "tcls": "rotation", "vs": vs[::-1], "nc": nc}
    yield {"kind": "mplx-near", "tcls": "prepare", "vs": [[0.5, 0.5], [0.5, 0.5 + 1e-9]], "nc": 1}
    yield {"kind": "mplx-near", "tcls": "prepare", "vs": [[1.0, 0.0], [1.0, 1e-9]], "nc": 1}
    yield {"kind": "mplx-near", "tcls": "general", "vs": [0.0, 1e-9], "nc": 1, "seed": rng.randrange(10 ** 9)}
    yield {"kind": "mplx-near", "tcls": "general", "vs": [2e-9, 0.0, 0.0, 1e-9], "nc": 2, "seed": rng.randrange(10 ** 9)}
    for n_, v, v2 in ((2, [4, -3, 2, 1], [1, 1, 1, 1]), (1, [0.25, 0.75], [0.9, -0.1]), (2, [0, 0.5, 0.25, 0.25], [1, 0, 0, 0])):
        for tr in (False, True):
            yield {"kind": "prepare-buffer", "n": n_, "v": v, "v2": v2, "tr": tr}
    for tcls in ("general", "controlled"):
        for names in (["X", "Z"], ["X", "S"], ["S", "X"], ["Z", "Y", "X", "I"], ["X", "Z", "Y", "T"], ["X", "S", "Z", "Z"], ["T", "X", "X", "X"]):
            yield {"kind": "mplx-herm", "tcls": tcls, "names": names, "nc": 1 if len(names) == 2 else 2}
    # random nested trees
    n = 3000 if thorough else 400
    for i in range(n):
        yield {"kind": "random", "seed": rng.randrange(10 ** 12), "depth": rng.choice([1, 2, 2, 3] if not thorough else [1, 2, 3, 4]), "bound": rng.random() < 0.7,
               "reuse": i % 3 == 0}


def run_gate_check(rep, drv, tier, rng, oracle, what, opname):
    """drive `gate.all` for every case; `what` = which parts of the model reply are compared"""
    from common import run_correspondence
    ctx()
    opname_prop = [rep.prop]

    def mreq(case, o):
        if "_tree" not in o:   # implementation crashed on this case: send an empty leaf so the batch stays aligned
            return {"op": "gate.ctrlindex", "cs": []}
        return {"op": "gate.all", "tree": o["_tree"]}

    def orc(case, o):
        out = oracle(case, o)
        if "harness_exception" in o and case.get("kind") != "random":
            # the fixed-form cases are all valid constructions: an exception while building or viewing one is a failing input
            pid = opname_prop[0]
            out = list(out) + [(f"{pid}:valid-gate-raised:{case.get('kind')}:{case.get('cls', case.get('tcls', case.get('csform', '')))}",
                                f"constructing / viewing the valid gate of case {case} raised {o['harness_exception']}")]
        if case.get("kind") == "ctrl" and "_g" in o and [int(b) for b in o["_g"].ctrl_state] != [int(b) for b in case["cs"]]:
            out = list(out) + [(f"{opname_prop[0]}:control-pattern-not-the-given-one:{case.get('csform', 'list')}",
                                f"ControlledGate built with ctrl_state={case['cs']} (passed as {case.get('csform', 'list')}) acts on pattern {list(o['_g'].ctrl_state)}")]
        for nt in o.get("notes", []):
            rep.count("assumption:" + nt)
        rep.count("class:" + (o.get("ckey") or "?").split("<")[0])
        return out

    run_correspondence(rep, drv, gen_cases(tier, rng), impl, mreq, lambda c, o, m: compare(c, o, m, what), orc, opname, batch=200, req_uses_output=True)
