"""C14 - lattices: index/coordinate maps are inverse; adjacency = nearest neighbours.

Correspondence (real qib lattice classes vs. the Lean model `QibModel/Lattice.lean`, exact integers) and the
direct oracle (the property itself, recomputed geometrically from `index_to_coord`, independent of the model).

Lattice descriptions (JSON):
  {"cls":"integer"|"triangular"|"ofc", "shape":[..], "pbc": bool | [bool..]}
  {"cls":"brick", "shape":[m,n], "pbc":false, "delete":bool, "conv":"cols"|"rows"}
  {"cls":"hex",   "shape":[m,n], "pbc":false, "conv":"cols"|"rows"}
  {"cls":"full",  "shape":[..]}           {"cls":"custom", "shape":[..], "adj":[[int..]..]}
  {"cls":"layered", "base":<desc>, "nlayers":k}
Exact coordinate encoding (lists of integers):
  integer/triangular/brick/full/custom: the coordinate itself; ofc: doubled coordinates (vertex (x,y) -> [2x,2y],
  face centre (x+1/2,y+1/2) -> [2x+1,2y+1]); hex: cols convention [row, 2y] (x = row*sqrt(3)/2), rows convention
  [2x, col] (y = col*sqrt(3)/2); layered: [layer] + encoding of the base coordinate.
"""
from __future__ import annotations
import itertools, json, math
from common import import_qib, run_correspondence

PROP = "C14"
LEAN_FILES = ["QibProofs/Properties/C14.lean", "QibProofs/Properties/C14Shift.lean"]
GEN = ()
DRIVER = "drv_lattice"
LEVEL_TEXT = ("Lean 4 theorems over a hand-written Mathlib-free model of the index arithmetic of every lattice class "
              "(mixed-radix ravel/unravel, roll pairing with boundary cut, brick embedding with surplus points, "
              "hexagonal coordinates as exact integer pairs, odd-face numbering by a counter loop, layered blocks), "
              "valid for all shapes/flags/conventions; the model is tied to the code by exact comparison of nsites, "
              "the whole adjacency matrix and every index<->coordinate map, exhaustive over the small shapes. "
              "IntegerLattice.adjacency_matrix_axis_shift(d, s) (C14Shift.lean): accepted iff s is 1 or -1; the adjacency matrix is the entrywise OR of "
              "the 2 ndim axis/shift matrices; each of them is a partial permutation described in coordinates; the opposite shift gives the transpose; "
              "tied by comparing every axis/shift matrix of all small grids with all boundary flags.")
ASSUMPTIONS = ["np.roll / reshape / unravel_index / ravel_multi_index / np.delete / np.block are modelled by their index formulas",
               "hexagonal float coordinates are compared after exact recovery of (row, 2y) resp. (2x, col); recovery tolerance 1e-9",
               "extents >= 1 (extent 0 gives an empty lattice and is not exercised)",
               "brick/hexagonal lattices exist only with open boundaries (the constructor refuses pbc=True)"]
RULE = ("one case = (lattice, operation) with operation in nsites/adjacency/all index->coord/coord->index over a box of "
        "coordinates; exhaustive over 1-D extents 1..6, 2-D extents 1..5, 3-D extents 1..4 (thorough: 1..10, 1..7, 1..5) with "
        "all 2^d boundary flags, both conventions, delete on/off, layered 1..3 layers; a case is non-trivial if the lattice "
        "was constructed; distinct = distinct (lattice, operation, arguments)")

SQ3 = math.sqrt(3.0)
_ctx = {}
_cache = {}


def kind_of(e):
    if isinstance(e, AssertionError):
        return "Assertion"
    if isinstance(e, NotImplementedError):
        return "NotImplemented"
    if isinstance(e, ValueError):
        return "ValueError"
    if isinstance(e, RuntimeError):
        return "RuntimeError"
    return "Other"


def cls_name(desc):
    return {"integer": "IntegerLattice", "triangular": "TriangularLattice", "ofc": "OddFaceCenteredLattice",
            "brick": "BrickLattice", "hex": "HexagonalLattice", "full": "FullyConnectedLattice",
            "custom": "CustomizedLattice", "layered": "LayeredLattice"}[desc["cls"]]


def pbc_arg(p):
    return p if isinstance(p, bool) else tuple(p)


def build(desc):
    """Construct the real lattice object (may raise)."""
    import numpy as np
    L = _ctx["qib"].lattice
    c = desc["cls"]
    if c == "integer":
        return L.IntegerLattice(tuple(desc["shape"]), pbc=pbc_arg(desc["pbc"]))
    if c == "triangular":
        return L.TriangularLattice(tuple(desc["shape"]), pbc=pbc_arg(desc["pbc"]))
    if c == "ofc":
        return L.OddFaceCenteredLattice(tuple(desc["shape"]), pbc=pbc_arg(desc["pbc"]))
    conv = {"cols": L.ShiftedLatticeConvention.COLS_SHIFTED_UP, "rows": L.ShiftedLatticeConvention.ROWS_SHIFTED_LEFT}
    if c == "brick":
        return L.BrickLattice(tuple(desc["shape"]), pbc=desc["pbc"], delete=desc["delete"], convention=conv[desc["conv"]])
    if c == "hex":
        return L.HexagonalLattice(tuple(desc["shape"]), pbc=desc["pbc"], convention=conv[desc["conv"]])
    if c == "full":
        return L.FullyConnectedLattice(tuple(desc["shape"]))
    if c == "custom":
        return L.CustomizedLattice(tuple(desc["shape"]), np.array(desc["adj"], dtype=int))
    if c == "layered":
        return L.LayeredLattice(build(desc["base"]), desc["nlayers"])
    raise KeyError(c)


def get(desc):
    k = json.dumps(desc, sort_keys=True)
    if k not in _cache:
        if len(_cache) > 64:
            _cache.clear()
        try:
            _cache[k] = ("ok", build(desc))
        except Exception as e:
            _cache[k] = ("err", kind_of(e))
    return _cache[k]


# ---------------------------------------------------------------------------------------------
# exact coordinate encoding
# ---------------------------------------------------------------------------------------------

class Inexact(Exception):
    pass


def _exint(x, what):
    r = round(float(x))
    if abs(float(x) - r) > 1e-9:
        raise Inexact(f"{what}: {x!r} is not within 1e-9 of an integer")
    return int(r)


def enc_coord(desc, c):
    cl = desc["cls"]
    if cl in ("integer", "triangular", "brick", "full", "custom"):
        return [_exint(x, "integer coordinate") for x in c]
    if cl == "ofc":
        return [_exint(2 * float(x), "doubled coordinate") for x in c]
    if cl == "hex":
        if len(c) != 2:
            raise Inexact("hexagonal coordinate of length != 2")
        if desc["conv"] == "cols":
            return [_exint(float(c[0]) * 2.0 / SQ3, "row"), _exint(2 * float(c[1]), "2y")]
        return [_exint(2 * float(c[0]), "2x"), _exint(float(c[1]) * 2.0 / SQ3, "col")]
    if cl == "layered":
        return [_exint(c[0], "layer")] + enc_coord(desc["base"], c[1:])
    raise KeyError(cl)


def dec_coord(desc, e, flt):
    """Real argument for coord_to_index from an encoded coordinate."""
    cl = desc["cls"]
    if cl in ("integer", "triangular", "brick", "full", "custom"):
        return tuple(e)
    if cl == "ofc":
        if flt:
            return tuple(x / 2.0 for x in e)
        assert all(x % 2 == 0 for x in e)
        return tuple(x // 2 for x in e)
    if cl == "hex":
        if desc["conv"] == "cols":
            return (e[0] * SQ3 / 2.0, e[1] / 2.0)
        return (e[0] / 2.0, e[1] * SQ3 / 2.0)
    if cl == "layered":
        return (e[0],) + dec_coord(desc["base"], e[1:], flt)
    raise KeyError(cl)


# ---------------------------------------------------------------------------------------------
# implementation side
# ---------------------------------------------------------------------------------------------

def call(f):
    try:
        return ("ok", f())
    except Exception as e:
        return ("err", kind_of(e))


def canon_adj(a):
    import numpy as np
    a = np.asarray(a)
    if a.ndim != 2:
        return {"bad": f"adjacency has ndim {a.ndim}"}
    vals = set(np.unique(a).tolist())
    if not vals <= {0, 1, False, True}:
        return {"bad": f"entries {sorted(vals)[:5]} outside 0/1", "shape": list(a.shape)}
    return [[int(x) for x in row] for row in a]


def impl(case):
    st, lat = get(case["lat"])
    if st == "err":
        return {"raised": lat}
    desc, op = case["lat"], case["op"]
    if op == "lat.nsites":
        s, v = call(lambda: int(lat.nsites))
        return {"raised": v} if s == "err" else {"nsites": v}
    if op == "lat.adj":
        s, v = call(lambda: lat.adjacency_matrix())
        if s == "err":
            return {"raised_adj": v}
        out = {"adj": canon_adj(v), "nsites": int(lat.nsites)}
        # raw coordinates for the oracle (not compared with the model here)
        coords = []
        for i in range(lat.nsites):
            s, c = call(lambda: lat.index_to_coord(i))
            coords.append([float(x) for x in c] if s == "ok" else None)
        out["coords"] = coords
        return out
    if op == "lat.i2c":
        res, back = [], []
        for i in case["args"]:
            s, c = call(lambda: lat.index_to_coord(i))
            if s == "err":
                res.append({"raised": c}); back.append(None)
                continue
            try:
                res.append(enc_coord(desc, c))
            except Inexact as e:
                res.append({"inexact": str(e), "raw": [float(x) for x in c]})
            s2, k = call(lambda: lat.coord_to_index(c))
            back.append({"raised": k} if s2 == "err" else ("None" if k is None else int(k)))
        return {"coords": res, "back": back, "nsites": int(lat.nsites)}
    if op == "lat.c2i":
        res = []
        for a in case["args"]:
            arg = dec_coord(desc, a["c"], a.get("f", False))
            s, k = call(lambda: lat.coord_to_index(arg))
            res.append({"raised": k} if s == "err" else ("None" if k is None else int(k)))
        return {"idx": res}
    raise KeyError(op)


def model_req(case):
    r = {"op": case["op"], "lat": case["lat"]}
    if "args" in case:
        r["args"] = case["args"]
    return r


def compare(case, o, m):
    if "harness_exception" in o:
        return "harness exception: " + o["harness_exception"] + o.get("tb", "")
    if "raised" in o:
        if m != {"raised": o["raised"]}:
            return f"constructor/nsites raised {o['raised']}, model {str(m)[:200]}"
        return None
    if isinstance(m, dict) and "raised" in m:
        return f"model rejects the lattice ({m['raised']}), implementation accepts it"
    op = case["op"]
    if op == "lat.nsites":
        return None if o["nsites"] == m else f"nsites: impl {o['nsites']} != model {m}"
    if op == "lat.adj":
        if "raised_adj" in o:
            return f"adjacency_matrix raised {o['raised_adj']}"
        a = o["adj"]
        if isinstance(a, dict):
            return f"adjacency not a 0/1 matrix: {a}"
        if a == m:
            return None
        if len(a) != len(m):
            return f"adjacency size: impl {len(a)} != model {len(m)}"
        for i, (ra, rm) in enumerate(zip(a, m)):
            if ra != rm:
                js = [j for j in range(min(len(ra), len(rm))) if ra[j] != rm[j]]
                return f"adjacency row {i}: impl != model at columns {js[:6]} (impl {[ra[j] for j in js[:6]]})"
        return "adjacency differs"
    if op == "lat.i2c":
        for i, a, b in zip(case["args"], o["coords"], m):
            if a != b:
                return f"index_to_coord({i}): impl {a} != model {b}"
        return None if len(o["coords"]) == len(m) else "i2c reply length"
    if op == "lat.c2i":
        for c, a, b in zip(case["args"], o["idx"], m):
            if a != b:
                return f"coord_to_index({c}): impl {a} != model {b}"
        return None if len(o["idx"]) == len(m) else "c2i reply length"
    return "unknown op"


# ---------------------------------------------------------------------------------------------
# direct oracle: the property, recomputed geometrically from index_to_coord
# ---------------------------------------------------------------------------------------------

def flat_pbc(desc):
    p = desc.get("pbc", False)
    return [p] * len(desc["shape"]) if isinstance(p, bool) else list(p)


def axis_step(n, per, a, b):
    """unit step along one axis; wrapping only if the axis is periodic. A site is never its own neighbour
    (extent 1 with wrap would reach the site itself; extent 2 with wrap reaches the same neighbour twice)."""
    if a == b:
        return False
    if abs(a - b) == 1:
        return True
    return bool(per) and (a - b) % n in (1, n - 1)


def honeycomb_pos(conv, r, c):
    """position of square-grid point (r,c) of the brick embedding in the honeycomb with unit edges"""
    long = 1.5 * (c if conv == "cols" else r) + (0.5 if (r + c) % 2 == 0 else 0.0)
    short = (r if conv == "cols" else c) * SQ3 / 2.0
    return (short, long) if conv == "cols" else (long, short)


def unit_dist(p, q):
    return abs(math.dist(p, q) - 1.0) <= 1e-9


def nn_matrix(desc, coords):
    """Nearest-neighbour relation of the coordinates, as the property words it, for lattice `desc`;
    returns the expected 0/1 matrix or None when the class fixes no geometric relation (custom)."""
    n = len(coords)
    cl = desc["cls"]
    E = [[0] * n for _ in range(n)]
    if cl == "custom":
        return None
    if cl in ("integer", "triangular"):
        shape, pbc = desc["shape"], flat_pbc(desc)
        for i in range(n):
            for j in range(n):
                if i == j:
                    continue
                a, b = coords[i], coords[j]
                diff = [e for e in range(len(shape)) if a[e] != b[e]]
                ok = len(diff) == 1 and axis_step(shape[diff[0]], pbc[diff[0]], a[diff[0]], b[diff[0]])
                if not ok and cl == "triangular" and len(shape) == 2:
                    for s in (1, -1):
                        good = True
                        for e in range(2):
                            t = a[e] + s
                            if not (b[e] == t or (pbc[e] and b[e] == t % shape[e])):
                                good = False
                        ok = ok or good
                E[i][j] = int(ok)
        return E
    if cl == "full":
        return [[int(i != j) for j in range(n)] for i in range(n)]
    if cl == "hex":
        for i in range(n):
            for j in range(n):
                E[i][j] = int(i != j and unit_dist(coords[i], coords[j]))
        return E
    if cl == "brick":
        conv = desc["conv"]
        pos = [honeycomb_pos(conv, int(c[0]), int(c[1])) for c in coords]
        for i in range(n):
            for j in range(n):
                E[i][j] = int(i != j and unit_dist(pos[i], pos[j]))
        if not desc["delete"]:
            # the surplus grid points (dangling ends of the brick wall) are kept but isolated
            dang = [i for i in range(n) if sum(E[i]) <= 1]
            for i in dang:
                for j in range(n):
                    E[i][j] = E[j][i] = 0
        return E
    if cl == "ofc":
        shape, pbc = desc["shape"], flat_pbc(desc)
        isv = [all(float(x) == int(x) for x in c) for c in coords]
        for i in range(n):
            for j in range(n):
                if i == j:
                    continue
                a, b = coords[i], coords[j]
                if isv[i] and isv[j]:
                    diff = [e for e in range(2) if a[e] != b[e]]
                    E[i][j] = int(len(diff) == 1 and axis_step(shape[diff[0]], pbc[diff[0]], int(a[diff[0]]), int(b[diff[0]])))
                elif isv[i] != isv[j]:
                    E[i][j] = int(abs(a[0] - b[0]) == 0.5 and abs(a[1] - b[1]) == 0.5)
        return E
    if cl == "layered":
        base = desc["base"]
        nl = desc["nlayers"]
        nb = n // nl
        # base relation from the base coordinates of the sites of layer 0 (layer coordinate stripped);
        # a site of another layer is identified with a base site through its base coordinate only
        lay0 = [i for i in range(n) if coords[i][0] == 0]
        if len(lay0) != nb:
            return [[-1] * n for _ in range(n)]
        if base["cls"] == "custom":
            Eb = [[int(bool(x)) for x in r] for r in base["adj"]]
            if len(Eb) != nb:
                return None
        else:
            Eb = nn_matrix(base, [coords[i][1:] for i in lay0])
        if Eb is None:
            return None
        where = {tuple(coords[i][1:]): u for u, i in enumerate(lay0)}
        for i in range(n):
            for j in range(n):
                a, b = coords[i], coords[j]
                if a[0] == b[0]:
                    u, v = where.get(tuple(a[1:])), where.get(tuple(b[1:]))
                    E[i][j] = -1 if u is None or v is None else Eb[u][v]
                else:
                    E[i][j] = int(a[1:] == b[1:])
        return E
    raise KeyError(cl)


def oracle(case, o):
    if "harness_exception" in o or "raised" in o:
        return []
    desc, op = case["lat"], case["op"]
    C = cls_name(desc)
    bad = []
    if op == "lat.i2c":
        n = o["nsites"]
        seen = {}
        for i, c, b in zip(case["args"], o["coords"], o["back"]):
            if not (0 <= i < n):
                continue
            if isinstance(c, dict):
                bad.append((f"C14:index-to-coord-failed:{C}", f"index_to_coord({i}) of a valid site: {c}"))
                continue
            if b != i:
                bad.append((f"C14:roundtrip:{C}", f"coord_to_index(index_to_coord({i})) = {b} (coordinate {c})"))
            k = tuple(c)
            if k in seen:
                bad.append((f"C14:coords-not-distinct:{C}", f"sites {seen[k]} and {i} share coordinate {c}"))
            seen[k] = i
        return bad
    if op != "lat.adj":
        return []
    if "raised_adj" in o:
        return [(f"C14:adjacency-raised:{C}", f"adjacency_matrix raised {o['raised_adj']}")]
    a, n = o["adj"], o["nsites"]
    if isinstance(a, dict):
        return [(f"C14:adj-not-binary:{C}", str(a))]
    if len(a) != n or any(len(r) != n for r in a):
        return [(f"C14:adj-shape:{C}", f"adjacency is {len(a)}x{len(a[0]) if a else 0}, nsites = {n}")]
    for i in range(n):
        if a[i][i] != 0:
            bad.append((f"C14:adj-diagonal:{C}", f"adj[{i},{i}] = 1 (site {o['coords'][i]} is its own neighbour)"))
            break
    for i in range(n):
        js = [j for j in range(n) if a[i][j] != a[j][i]]
        if js:
            bad.append((f"C14:adj-not-symmetric:{C}", f"adj[{i},{js[0]}] = {a[i][js[0]]} but adj[{js[0]},{i}] = {a[js[0]][i]}"))
            break
    if any(c is None for c in o["coords"]):
        bad.append((f"C14:index-to-coord-failed:{C}", "index_to_coord raised for a valid site"))
        return bad
    if desc["cls"] == "custom":
        want = [[int(bool(x)) for x in r] for r in desc["adj"]]
        if a != want:
            bad.append((f"C14:adj-nn:{C}", "adjacency_matrix() differs from the matrix the lattice was built from"))
        return bad
    E = nn_matrix(desc, o["coords"])
    if E is not None:
        for i in range(n):
            for j in range(n):
                if i != j and a[i][j] != E[i][j]:
                    kind = "spurious-link" if a[i][j] else "missing-link"
                    bad.append((f"C14:adj-nn:{kind}:{C}",
                                f"sites {i} {o['coords'][i]} and {j} {o['coords'][j]}: adjacency {a[i][j]}, nearest-neighbour relation {E[i][j]}"))
                    return bad
    return bad


# ---------------------------------------------------------------------------------------------
# generator
# ---------------------------------------------------------------------------------------------

def nsites_guess(desc):
    """Upper bound of the number of sites, from the description alone (for choosing query ranges)."""
    cl = desc["cls"]
    sh = desc.get("shape", [])
    if cl in ("integer", "triangular", "full", "custom"):
        return math.prod(sh)
    if cl == "ofc":
        return math.prod(sh) + ((sh[0] - 1) * (sh[1] - 1) + 1) // 2 if len(sh) == 2 else math.prod(sh)
    if cl in ("brick", "hex"):
        return 2 * sh[0] * sh[1] + 2 * (sh[0] + sh[1]) + 2 if len(sh) == 2 else 0
    if cl == "layered":
        return max(desc["nlayers"], 0) * nsites_guess(desc["base"])
    return 0


def coord_box(desc, rng, limit=400):
    """Encoded coordinates for coord_to_index: a box around the valid region (valid, surplus, out of range,
    negative), plus wrong lengths."""
    cl = desc["cls"]
    out = []
    if cl in ("brick", "hex", "ofc") and len(desc["shape"]) != 2:
        return [{"c": [0, 0], "f": False}]
    if cl in ("integer", "triangular", "full", "custom"):
        sh = desc["shape"]
        box = list(itertools.product(*[range(-1, n + 2) for n in sh]))
        if len(box) > limit:
            box = rng.sample(box, limit)
        out = [{"c": list(c)} for c in box]
        if sh:
            out += [{"c": [0] * (len(sh) - 1)}, {"c": [0] * (len(sh) + 1)}]
    elif cl == "brick":
        m, n = desc["shape"][:2]
        R, Cc = (2 * m + 2, n + 1) if desc["conv"] == "cols" else (m + 1, 2 * n + 2)
        box = list(itertools.product(range(-1, R + 1), range(-1, Cc + 1)))
        if len(box) > limit:
            box = rng.sample(box, limit)
        out = [{"c": list(c)} for c in box] + [{"c": [0]}, {"c": [0, 0, 0]}]
    elif cl == "hex":
        m, n = desc["shape"][:2]
        if desc["conv"] == "cols":
            box = list(itertools.product(range(-1, 2 * m + 3), range(-2, 6 * (n + 1) + 3)))
        else:
            box = list(itertools.product(range(-2, 6 * (m + 1) + 3), range(-1, 2 * n + 3)))
        if len(box) > limit:
            box = rng.sample(box, limit)
        out = [{"c": list(c)} for c in box]
    elif cl == "ofc":
        sh = desc["shape"]
        box = list(itertools.product(*[range(-2, 2 * n + 2) for n in sh]))
        if len(box) > limit:
            box = rng.sample(box, limit)
        for c in box:
            if all(x % 2 == 0 for x in c):
                out.append({"c": list(c), "f": False})
            out.append({"c": list(c), "f": True})
        out += [{"c": [0], "f": False}, {"c": [1], "f": True}, {"c": [0, 0, 0], "f": False}, {"c": [1, 1, 1], "f": True}]
    elif cl == "layered":
        inner = coord_box(desc["base"], rng, limit=60)
        for l in range(-1, desc["nlayers"] + 1):
            for a in (inner if l in (0, desc["nlayers"] - 1) else inner[::3]):
                out.append({"c": [l] + a["c"], "f": a.get("f", False)})
    return out


def ops_for(desc, rng):
    yield {"op": "lat.nsites", "lat": desc}
    yield {"op": "lat.adj", "lat": desc}
    n = nsites_guess(desc)
    yield {"op": "lat.i2c", "lat": desc, "args": [-1] + list(range(n + 2))}
    yield {"op": "lat.c2i", "lat": desc, "args": coord_box(desc, rng)}


def flagsets(d):
    return [list(p) for p in itertools.product([False, True], repeat=d)]


def sym_matrix(n, rng, dens=0.4):
    a = [[0] * n for _ in range(n)]
    for i in range(n):
        for j in range(i + 1, n):
            if rng.random() < dens:
                a[i][j] = a[j][i] = rng.choice([1, 1, 1, 2, -1])
    return a


def lattices(tier, rng):
    thorough = tier == "thorough"
    e1, e2, e3 = (10, 7, 5) if thorough else (6, 5, 4)     # exhaustive extents 1..e per dimension
    # ---- integer / triangular / odd-face-centred: exhaustive small shapes, all boundary flags
    for n in range(1, e1 + 1):
        for p in flagsets(1):
            yield {"cls": "integer", "shape": [n], "pbc": p}
            yield {"cls": "triangular", "shape": [n], "pbc": p}
        yield {"cls": "integer", "shape": [n], "pbc": True}
    for a in range(1, e2 + 1):
        for b in range(1, e2 + 1):
            for p in flagsets(2):
                yield {"cls": "integer", "shape": [a, b], "pbc": p}
                yield {"cls": "triangular", "shape": [a, b], "pbc": p}
                yield {"cls": "ofc", "shape": [a, b], "pbc": p}
            yield {"cls": "triangular", "shape": [a, b], "pbc": True}
            yield {"cls": "ofc", "shape": [a, b], "pbc": False}
            for conv in ("cols", "rows"):
                for dele in (False, True):
                    yield {"cls": "brick", "shape": [a, b], "pbc": False, "delete": dele, "conv": conv}
                yield {"cls": "hex", "shape": [a, b], "pbc": False, "conv": conv}
    for a in range(1, e3 + 1):
        for b in range(1, e3 + 1):
            for c in range(1, e3 + 1):
                for p in flagsets(3):
                    yield {"cls": "integer", "shape": [a, b, c], "pbc": p}
    yield {"cls": "integer", "shape": [], "pbc": []}
    yield {"cls": "triangular", "shape": [], "pbc": []}
    for sh in ([2, 1, 2, 2], [1, 2, 3, 2], [3, 2, 2, 1], [2, 2, 2, 2]):
        for p in (flagsets(4) if thorough else rng.sample(flagsets(4), 4)):
            yield {"cls": "integer", "shape": sh, "pbc": p}
    # ---- fully connected
    for sh in ([1], [2], [5], [2, 3], [3, 1, 2], [1, 1], []):
        yield {"cls": "full", "shape": sh}
    # ---- customized: valid and invalid matrices
    for sh in ([1], [3], [2, 2], [2, 3], [5]):
        n = math.prod(sh)
        for _ in range(3):
            yield {"cls": "custom", "shape": sh, "adj": sym_matrix(n, rng)}
        a = sym_matrix(n, rng, 0.7)
        if n >= 2:
            b = [r[:] for r in a]; b[0][1] = 1; b[1][0] = 0
            yield {"cls": "custom", "shape": sh, "adj": b}                     # not symmetric
            b = [r[:] for r in a]; b[0][1] = 1; b[1][0] = 2
            yield {"cls": "custom", "shape": sh, "adj": b}                     # symmetric as booleans
        b = [r[:] for r in a]; b[n - 1][n - 1] = rng.choice([1, 3])
        yield {"cls": "custom", "shape": sh, "adj": b}                         # non-zero diagonal
        yield {"cls": "custom", "shape": sh, "adj": [r + [0] for r in a]}      # not square
        yield {"cls": "custom", "shape": sh, "adj": sym_matrix(n + 1, rng)}    # wrong size
    # ---- layered, 1..3 layers over small base lattices
    bases = [{"cls": "integer", "shape": [1], "pbc": [False]}, {"cls": "integer", "shape": [3], "pbc": [True]},
             {"cls": "integer", "shape": [2, 3], "pbc": [True, False]}, {"cls": "integer", "shape": [2, 2], "pbc": [True, True]},
             {"cls": "triangular", "shape": [2, 3], "pbc": [False, True]}, {"cls": "triangular", "shape": [3, 2], "pbc": [True, False]},
             {"cls": "ofc", "shape": [3, 3], "pbc": [False, False]}, {"cls": "ofc", "shape": [2, 4], "pbc": [True, True]},
             {"cls": "full", "shape": [3]}, {"cls": "custom", "shape": [3], "adj": [[0, 1, 0], [1, 0, 2], [0, 2, 0]]},
             {"cls": "hex", "shape": [1, 2], "pbc": False, "conv": "cols"}, {"cls": "hex", "shape": [2, 1], "pbc": False, "conv": "rows"}]
    for conv in ("cols", "rows"):
        for dele in (False, True):
            bases.append({"cls": "brick", "shape": [2, 2], "pbc": False, "delete": dele, "conv": conv})
            bases.append({"cls": "brick", "shape": [1, 3], "pbc": False, "delete": dele, "conv": conv})
    for b in bases:
        for nl in (1, 2, 3):
            yield {"cls": "layered", "base": b, "nlayers": nl}
    yield {"cls": "layered", "base": {"cls": "layered", "base": bases[2], "nlayers": 2}, "nlayers": 2}
    # ---- refused constructions
    yield {"cls": "layered", "base": bases[0], "nlayers": 0}
    yield {"cls": "layered", "base": {"cls": "brick", "shape": [2, 2], "pbc": True, "delete": False, "conv": "cols"}, "nlayers": 2}
    yield {"cls": "brick", "shape": [2, 2], "pbc": True, "delete": False, "conv": "cols"}
    yield {"cls": "hex", "shape": [2, 2], "pbc": True, "conv": "rows"}
    yield {"cls": "brick", "shape": [2, 2, 2], "pbc": False, "delete": False, "conv": "cols"}
    yield {"cls": "brick", "shape": [2], "pbc": False, "delete": True, "conv": "rows"}
    yield {"cls": "hex", "shape": [3], "pbc": False, "conv": "cols"}
    yield {"cls": "triangular", "shape": [2, 2, 2], "pbc": [False, False, False]}
    yield {"cls": "ofc", "shape": [2, 2, 2], "pbc": [False, False, False]}
    yield {"cls": "ofc", "shape": [4], "pbc": [False]}
    yield {"cls": "integer", "shape": [2, 2], "pbc": [True]}
    yield {"cls": "triangular", "shape": [2, 2], "pbc": [True, False, True]}
    yield {"cls": "ofc", "shape": [2, 2], "pbc": [True]}
    # ---- long thin shapes (large row/column indices at small cost: float coordinate recovery, counter loops, parity patterns far out)
    for a, b in [[14, 2], [2, 14], [28, 1], [1, 28], [27, 2]] + ([[55, 1], [1, 55], [2, 52], [40, 3]] if thorough else []):
        for conv in ("cols", "rows"):
            yield {"cls": "hex", "shape": [a, b], "pbc": False, "conv": conv}
            yield {"cls": "brick", "shape": [a, b], "pbc": False, "delete": (a + b) % 2 == 0, "conv": conv}
        yield {"cls": "triangular", "shape": [a, b], "pbc": [a % 2 == 0, b % 2 == 1]}
        yield {"cls": "ofc", "shape": [a, b], "pbc": [a % 2 == 0, False]}
        yield {"cls": "integer", "shape": [a, b], "pbc": [True, b > 1]}
    # ---- random larger shapes
    nrand = 300 if thorough else 12
    hi = 12 if thorough else 9
    for _ in range(nrand):
        a, b = rng.randint(1, hi), rng.randint(1, hi)
        p = [rng.random() < 0.5, rng.random() < 0.5]
        yield {"cls": rng.choice(["integer", "triangular"]), "shape": [a, b], "pbc": p}
        yield {"cls": "ofc", "shape": [a, b], "pbc": [p[0] and a % 2 == 0, p[1] and b % 2 == 0]}
        conv = rng.choice(["cols", "rows"])
        yield {"cls": "brick", "shape": [a, b], "pbc": False, "delete": rng.random() < 0.5, "conv": conv}
        yield {"cls": "hex", "shape": [a, b], "pbc": False, "conv": rng.choice(["cols", "rows"])}
    for _ in range(nrand // 3):
        while True:
            sh = [rng.randint(1, hi) for _ in range(rng.choice([3, 3, 4]))]
            if math.prod(sh) <= 300:
                break
        yield {"cls": "integer", "shape": sh, "pbc": [rng.random() < 0.5 for _ in sh]}
        yield {"cls": "integer", "shape": [rng.randint(7, 40)], "pbc": [rng.random() < 0.5]}
    if thorough:
        for _ in range(20):
            b = rng.choice(bases)
            yield {"cls": "layered", "base": b, "nlayers": rng.randint(2, 5)}


def gen_cases(tier, rng):
    for desc in lattices(tier, rng):
        yield from ops_for(desc, rng)


def setup():
    _ctx["qib"] = import_qib()


# ---------------------------------------------------------------------------------------------
# stage lat.shift: IntegerLattice.adjacency_matrix_axis_shift(d, s), the per-axis / per-shift summands of the adjacency matrix
# (model QibModel/LatticeShift.lean, theorems C14Shift.lean)
# ---------------------------------------------------------------------------------------------

def shift_impl(case):
    st, lat = get(case["lat"])
    if st == "err":
        return {"raised": lat}
    out = []
    for a in case["args"]:
        s_, v = call(lambda: lat.adjacency_matrix_axis_shift(a["d"], a["s"]))
        out.append({"raised": v} if s_ == "err" else canon_adj(v))
    s_, v = call(lambda: lat.adjacency_matrix())
    return {"shifts": out, "_adj": None if s_ == "err" else canon_adj(v), "nsites": int(lat.nsites)}


def shift_req(case):
    return {"op": "lat.shift", "lat": case["lat"], "args": case["args"]}


def shift_compare(case, o, m):
    if "harness_exception" in o:
        return "harness exception: " + o["harness_exception"] + o.get("tb", "")
    if "raised" in o:
        return None if m == {"raised": o["raised"]} else f"constructor raised {o['raised']}, model {str(m)[:120]}"
    for a, x, y in zip(case["args"], o["shifts"], m):
        if x != y:
            return f"adjacency_matrix_axis_shift(d={a['d']}, s={a['s']}): impl {str(x)[:150]} != model {str(y)[:150]}"
    return None


def shift_oracle(case, o):
    """the statements of C14Shift on the implementation: guard, decomposition of the adjacency matrix, transposes, at most one 1 per row"""
    if "shifts" not in o:
        return []
    bad = []
    nd, n = len(case["lat"]["shape"]), o["nsites"]
    mats = {}
    for a, x in zip(case["args"], o["shifts"]):
        ok_arg = a["s"] in (1, -1)
        if isinstance(x, dict):
            if ok_arg:
                bad.append(("C14:axis-shift:valid-arguments-rejected", f"adjacency_matrix_axis_shift({a['d']}, {a['s']}) raised {x['raised']} on shape {case['lat']['shape']}"))
            elif x["raised"] != "ValueError":
                bad.append(("C14:axis-shift:wrong-rejection", f"s = {a['s']} raised {x['raised']}, documented ValueError"))
            continue
        if not ok_arg:
            bad.append(("C14:axis-shift:invalid-shift-accepted", f"adjacency_matrix_axis_shift({a['d']}, {a['s']}) returned a matrix"))
            continue
        mats[(a["d"], a["s"])] = x
        if any(sum(row) > 1 for row in x):
            bad.append(("C14:axis-shift:row-not-functional", f"a row of the (d={a['d']}, s={a['s']}) matrix has more than one entry 1"))
    if o["_adj"] is not None and len(mats) == 2 * nd and n > 0:
        union = [[int(any(mats[k][i][j] for k in mats)) for j in range(n)] for i in range(n)]
        if union != o["_adj"]:
            bad.append(("C14:axis-shift:adjacency-is-not-the-union", f"OR over all axes and shifts != adjacency_matrix() for shape {case['lat']['shape']} pbc {case['lat']['pbc']}"))
        for d in range(nd):
            A, B = mats[(d, 1)], mats[(d, -1)]
            if any(A[i][j] != B[j][i] for i in range(n) for j in range(n)):
                bad.append(("C14:axis-shift:opposite-shift-is-not-the-transpose", f"axis {d} of shape {case['lat']['shape']} pbc {case['lat']['pbc']}"))
    return bad


def gen_shift(tier, rng):
    T = tier == "thorough"
    shapes = [[n] for n in range(1, 8 if T else 6)] + [[a, b] for a in range(1, 6 if T else 5) for b in range(1, 6 if T else 5)] + \
             [[a, b, c] for a in range(1, 4) for b in range(1, 4) for c in range(1, 4 if T else 3)]
    for shape in shapes:
        nd = len(shape)
        flagsets_ = [[bool((k >> t) & 1) for t in range(nd)] for k in range(2 ** nd)]
        for pbc in flagsets_ + [True, False]:
            args = [{"d": d, "s": s_} for d in range(nd) for s_ in (1, -1)] + [{"d": rng.randrange(nd), "s": s_} for s_ in (0, 2, -2)]
            yield {"op": "lat.shift", "lat": {"cls": "integer", "shape": shape, "pbc": pbc}, "args": args}


def run(rep, tier, rng, drv):
    setup()
    ext = "1-D extents 1..10, 2-D extents 1..7, 3-D integer extents 1..5" if tier == "thorough" else \
          "1-D extents 1..6, 2-D extents 1..5, 3-D integer extents 1..4"
    rep.cov["exhaustive"] = (ext + " (2-D: integer, triangular, odd-face-centred with all 4 flag pairs; brick: both conventions x "
                             "delete on/off; hexagonal: both conventions; 3-D: all 8 flag triples); layered 1..3 layers over 20 base lattices")

    def counted(cases):
        for c in cases:
            rep.count(c["lat"]["cls"] + ":" + c["op"])
            yield c

    run_correspondence(rep, drv, counted(gen_cases(tier, rng)), impl, model_req, compare, oracle,
                       "lat.nsites/adj/i2c/c2i", batch=400, nontrivial=lambda c, o: "raised" not in o and "harness_exception" not in o)

    def counted_shift(cases):
        for c in cases:
            rep.count("integer:lat.shift:ndim=%d" % len(c["lat"]["shape"]))
            yield c
    run_correspondence(rep, drv, counted_shift(gen_shift(tier, rng)), shift_impl, shift_req, shift_compare, shift_oracle, "lat.shift", batch=200)
