"""C04 - embedding a gate into a register acts on exactly its wires: correspondence + direct oracle.

ops (all compared EXACTLY - `_distribute_to_wires` only moves values around):
  embed                 `_distribute_to_wires(n, iw, csr_matrix(g))` on dense non-symmetric Gaussian-integer matrices,
                        exhaustive over all ordered selections of m distinct wires out of n (tier bounds)
  gate.circuit_matrix   the public path `gate.as_circuit_matrix(fields)` (1..3 fields, all orders, particles spread)
  permute               `qib.util.permute_gate_wires(u, perm)`, all permutations
  wire                  `qib.util.map_particle_to_wire(fields, p)`
plus a malformed stream for each (duplicate wires, out-of-range wire, foreign field, local dimension != 2, wrong
shape, non-permutation): the error kinds are compared.
The oracle is independent of the Lean model: it applies the gate to every basis vector by plain bit manipulation.
"""
from __future__ import annotations
import itertools
import numpy as np
from common import import_qib, run_correspondence, q

PROP = "C04"
LEAN_FILES = ["QibProofs/Properties/C04.lean"]
GEN = ()
DRIVER = "drv_circuit"
LEVEL_TEXT = ("Lean 4 theorems for ALL register sizes, all ordered duplicate-free wire lists and all gate matrices: the algorithmic "
              "mirror of the bit-scatter loop (_distribute_to_wires) denotes the embedding (C04_distribute_denote, full, not partial), "
              "has no duplicate positions, rejects exactly the malformed wire lists; the embedding is multiplicative, unital, "
              "*-compatible (hence preserves inverses and unitarity), equals g (x) 1 on leading wires and a conjugate of it by a wire "
              "permutation otherwise; permute_gate_wires and map_particle_to_wire specifications. The hand-written mirror is tied to "
              "the running code by an exact correspondence that is exhaustive over all ordered wire selections up to the tier bounds.")
ASSUMPTIONS = ["the Lean mirror of _distribute_to_wires / as_circuit_matrix / permute_gate_wires / map_particle_to_wire is hand-written; "
               "its agreement with the code is established by the exact (bit-for-bit) correspondence, not by translation",
               "CPython iterates set(range(n)).difference(iwire) in ascending order (only the order of the replicated blocks depends on it; "
               "outputs are compared as sorted COO triplets)",
               "scipy's csr_matrix(dense) stores exactly the non-zero entries row by row, and csr_matrix((v,(r,c))) sums duplicates",
               "particle indices outside their lattice are the caller's error: the code does not check them and the model mirrors that "
               "(compared, but no claim); negative entries in the perm argument of permute_gate_wires are outside the domain",
               "floating-point values are only copied by the code under test, so they cross the boundary as exact rationals"]
RULE = ("embed: every ordered selection of m distinct wires out of n within the tier bounds (exhaustive: quick n<=5,m<=3; thorough n<=7,m<=4), "
        "two random non-symmetric Gaussian-integer matrices each (one dense, one with zeros); as_circuit_matrix: seeded random field "
        "layouts in all orders x gate classes; permute: all permutations of <=3 (quick) / <=4 (thorough) wires; wire: all particles of "
        "all small layouts; a case is non-trivial if the implementation returned a matrix/wire (not an error); distinct = distinct inputs")

_ctx = {}


def setup():
    qib = import_qib()
    from qib.operator.gates import _distribute_to_wires
    from scipy.sparse import csr_matrix
    _ctx.update(qib=qib, dist=_distribute_to_wires, csr=csr_matrix)


def kind_of(e):
    if isinstance(e, AssertionError):
        return "Assertion"
    if isinstance(e, NotImplementedError):
        return "NotImplemented"
    if isinstance(e, RuntimeError):
        return "RuntimeError"
    if isinstance(e, ValueError):
        return "ValueError"
    return "Other"


def cz(z):
    z = complex(z)
    return [q(z.real), q(z.imag)]


def dense_json(a):
    return [[cz(z) for z in row] for row in np.asarray(a)]


def coo_canon(sp):
    """sorted (row, col, [re, im]) triplets of a scipy sparse matrix, values as exact rationals"""
    co = sp.tocoo()
    trip = sorted(zip(co.row.tolist(), co.col.tolist(), co.data.tolist()))
    return [[r, c, cz(v)] for r, c, v in trip if v != 0]


# ---------------------------------------------------------------------------------------------
# independent reference: apply the gate to every basis vector by bit manipulation
# ---------------------------------------------------------------------------------------------

def ref_embed(n, iw, g):
    """dict (R, C) -> value of `g on wires iw (first listed = most significant gate bit), identity elsewhere`;
    wire 0 is the most significant bit of the flat index."""
    m = len(iw)
    g = np.asarray(g)
    out = {}
    for C in range(2 ** n):
        c = 0
        for a in range(m):
            c = (c << 1) | ((C >> (n - 1 - iw[a])) & 1)
        base = C
        for a in range(m):
            base &= ~(1 << (n - 1 - iw[a]))
        for r in range(2 ** m):
            v = g[r, c]
            if v == 0:
                continue
            R = base
            for a in range(m):
                if (r >> (m - 1 - a)) & 1:
                    R |= 1 << (n - 1 - iw[a])
            out[(R, C)] = complex(v)
    return out


def coo_to_dict(trip):
    d = {}
    for r, c, v in trip:
        d[(r, c)] = d.get((r, c), 0) + complex(float(_fr(v[0])), float(_fr(v[1])))
    return d


def _fr(s):
    from fractions import Fraction
    a, _, b = s.partition("/")
    return Fraction(int(a), int(b or 1))


# ---------------------------------------------------------------------------------------------
# implementation adapters
# ---------------------------------------------------------------------------------------------

def to_np(gj):
    return np.array([[complex(float(_fr(z[0])), float(_fr(z[1]))) for z in row] for row in gj])


LAYOUTS = ("C", "F", "T", "H", "strided")


def relayout(a, layout):
    """the same matrix in a different memory layout (values identical): C-contiguous, Fortran-contiguous copy, transposed view of a
    C-contiguous copy (F-contiguous view), conjugate-transpose view chain as produced by `u.conj().T`, non-contiguous strided view"""
    a = np.asarray(a)
    if layout in (None, "C") or a.ndim != 2 or a.size == 0:
        return a
    if layout == "F":
        return np.asfortranarray(a)
    if layout == "T":
        return np.ascontiguousarray(a.T).T
    if layout == "H":
        return np.ascontiguousarray(a.conj().T).conj().T
    big = np.zeros((2 * a.shape[0], 2 * a.shape[1]), dtype=a.dtype)
    big[::2, ::2] = a
    return big[::2, ::2]


def build_fields(case):
    """-> (list of Field objects in the order of case['fields'], dict id -> Field)"""
    qib = _ctx["qib"]
    objs = {}
    shared = {}      # fields of equal size are built on ONE shared lattice object (a system and an ancilla register of the same geometry):
    for fid, ns, ld in case["field_defs"]:      # distinct Field objects stay distinct registers whatever their lattices are
        if ld == 2:
            pt = qib.field.ParticleType.QUBIT if fid % 2 == 0 else qib.field.ParticleType.FERMION
            if case.get("share_lattice", True):
                latt = shared.setdefault(ns, qib.lattice.IntegerLattice((ns,), pbc=False))
            else:
                latt = qib.lattice.IntegerLattice((ns,), pbc=False)
            objs[fid] = qib.field.Field(pt, latt)
        else:
            objs[fid] = qib.field.Field(qib.field.ParticleType.BOSON, qib.lattice.IntegerLattice((ns,), pbc=False), maxocc=ld - 1)
    return [objs[fid] for fid in case["order"]], objs


def mk_particle(objs, fid, idx):
    qib = _ctx["qib"]
    return qib.field.Particle(objs[fid], idx)


def build_gate(case, objs):
    """construct the real gate object described by case['gate'] bound to case['particles']"""
    qib = _ctx["qib"]
    gd = case["gate"]
    ps = [mk_particle(objs, fid, idx) for fid, idx in case["particles"]]
    k = gd["kind"]
    if k == "general":
        g = qib.GeneralGate(relayout(to_np(gd["mat"]), gd.get("layout")), gd["m"])
        if ps:
            g.on(ps)
        return g
    if k == "iswap":
        return qib.ISwapGate(ps[0], ps[1])
    if k == "single":
        cls = getattr(qib.operator, gd["cls"])
        if gd["cls"] == "RotationGate":
            return cls(np.array(gd["args"][0], dtype=float), ps[0])
        return cls(*gd.get("args", []), ps[0])
    if k == "timeevo":
        # exp(-i t H) of a real-weighted Pauli operator on ALL sites of one field (the gate's particles are the field's sites)
        op = qib.operator
        fld = objs[gd["fid"]]
        h = op.PauliOperator([op.WeightedPauliString(op.PauliString.from_string(s_), w) for s_, w in gd["terms"]])
        h.set_field(fld)
        return qib.TimeEvolutionGate(h, gd["t"])
    if k == "rzz":
        return getattr(qib.operator, gd["cls"])(gd["theta"], ps[0], ps[1])
    if k == "phase":
        g = qib.PhaseFactorGate(gd["phi"], gd["m"])
        g.on(ps)
        return g
    if k == "prepare":
        g = qib.PrepareGate(np.array(gd["vec"], dtype=float), gd["m"], transpose=gd["transpose"])
        if ps:
            g.on(ps)
        return g
    if k == "controlled":
        nc = gd["nc"]
        tg = build_gate({"gate": gd["target"], "particles": case["particles"][nc:]}, objs)
        g = qib.ControlledGate(tg, nc, gd["ctrl_state"])
        g.set_control(ps[:nc])
        return g
    if k == "multiplexed":
        nc = gd["nc"]
        tgs = [build_gate({"gate": t, "particles": case["particles"][nc:]}, objs) for t in gd["targets"]]
        g = qib.MultiplexedGate(tgs, nc)
        g.set_control(ps[:nc])
        return g
    raise ValueError(k)


def impl(case):
    op = case["op"]
    try:
        if op == "embed":
            g = np.array([[complex(a, b) for a, b in row] for row in case["g"]]) if case["g"] else np.zeros((0, 0))
            sp = _ctx["dist"](case["n"], list(case["iw"]), _ctx["csr"](relayout(g, case.get("layout"))))
            return {"coo": coo_canon(sp), "shape": list(sp.shape)}
        if op == "gate.circuit_matrix":
            fields, objs = build_fields(case)
            gate = build_gate(case, objs)
            gm = np.asarray(gate.as_matrix())
            extra = {"_g": dense_json(gm), "_particles": [[_fid_of(objs, p.field), int(p.index)] for p in gate.particles()]}
            for pre in case.get("pre_orders", []):      # the same gate object was embedded into other registers before
                try:
                    gate.as_circuit_matrix([objs[fid] for fid in pre])
                except Exception:
                    pass
            try:
                sp = gate.as_circuit_matrix(fields)
            except Exception as e:
                return {"raised": kind_of(e), "msg": f"{type(e).__name__}: {e}"[:160], **extra}
            return {"coo": coo_canon(sp), "shape": list(sp.shape), **extra}
        if op == "permute":
            u = relayout(np.array([[complex(a, b) for a, b in row] for row in case["u"]]), case.get("layout"))
            form = case.get("permform", "list")      # the permutation as a list, a tuple, an integer array or a range object: the same permutation
            perm = {"list": list, "tuple": tuple, "array": lambda v: np.array(v, dtype=int), "int8": lambda v: np.array(v, dtype=np.int8),
                    "range": lambda v: range(len(v))}[form](case["perm"])
            r = _ctx["qib"].util.permute_gate_wires(u, perm)
            return {"mat": dense_json(r)}
        if op == "wire":
            fields, objs = build_fields(case)
            fid, idx = case["particle"]
            if fid not in objs:
                objs[fid] = _ctx["qib"].field.Field(_ctx["qib"].field.ParticleType.QUBIT, _ctx["qib"].lattice.IntegerLattice((3,), pbc=False))
            return {"wire": int(_ctx["qib"].util.map_particle_to_wire(fields, mk_particle(objs, fid, idx)))}
    except Exception as e:  # the code under test raised
        if op == "gate.circuit_matrix":
            raise  # construction problem in the harness, not in as_circuit_matrix
        return {"raised": kind_of(e), "msg": f"{type(e).__name__}: {e}"[:160]}
    raise ValueError(op)


def _fid_of(objs, f):
    for k, v in objs.items():
        if v is f:
            return k
    return 10 ** 6


def model_req(case, o):
    op = case["op"]
    if "harness_exception" in o:
        return {"op": "wire", "fields": [], "particle": [0, 0]}
    if op == "embed":
        return {"op": "embed", "n": case["n"], "iw": case["iw"], "g": case["g"]}
    if op == "gate.circuit_matrix":
        defs = {fid: (ns, ld) for fid, ns, ld in case["field_defs"]}
        return {"op": "gate.circuit_matrix", "fields": [[fid, defs[fid][0], defs[fid][1]] for fid in case["order"]],
                "particles": o["_particles"], "g": o["_g"]}
    if op == "permute":
        return {"op": "permute", "perm": case["perm"], "u": case["u"]}
    if op == "wire":
        defs = {fid: (ns, ld) for fid, ns, ld in case["field_defs"]}
        return {"op": "wire", "fields": [[fid, defs[fid][0], defs[fid][1]] for fid in case["order"]], "particle": case["particle"]}
    raise ValueError(op)


def compare(case, o, m):
    if "harness_exception" in o:
        return "harness exception: " + o["harness_exception"]
    op = case["op"]
    if op == "wire":
        return None if o.get("wire") == m else f"impl {o} != model {m}"
    if "raised" in o or "raised" in m:
        if o.get("raised") != m.get("raised"):
            return f"impl {o.get('raised', 'returned a value')} ({o.get('msg', '')}) != model {m.get('raised', 'returned a value')}"
        return None
    if op in ("embed", "gate.circuit_matrix"):
        if o["coo"] != m["coo"]:
            a, b = o["coo"], m["coo"]
            if len(a) != len(b):
                return f"number of stored entries: impl {len(a)} != model {len(b)}"
            for x, y in zip(a, b):
                if x != y:
                    return f"first differing entry: impl {x} != model {y}"
        if op == "gate.circuit_matrix" and o["shape"] != [2 ** m["n"]] * 2:
            return f"shape: impl {o['shape']} != model 2^{m['n']}"
        return None
    if op == "permute":
        return None if o["mat"] == m["mat"] else "permuted matrices differ"
    return None


# ---------------------------------------------------------------------------------------------
# the property itself, on what the implementation did
# ---------------------------------------------------------------------------------------------

def wires_expected(case, o):
    """independent wire computation for the public path: offset of the field in the given order + index"""
    out = o
    defs = {fid: (ns, ld) for fid, ns, ld in case["field_defs"]}
    off, o = {}, 0
    for fid in case["order"]:
        if fid not in off:
            off[fid] = o
        o += defs[fid][0]
    return o, [(off[fid] + idx) if fid in off else None for fid, idx in out["_particles"]], defs


def oracle(case, o):
    if "harness_exception" in o:
        return []
    op = case["op"]
    bad = []
    if op == "embed":
        n, iw = case["n"], case["iw"]
        m = len(iw)
        valid = (len(set(iw)) == m and all(0 <= w < n for w in iw) and len(case["g"]) == 2 ** m
                 and all(len(r) == 2 ** m for r in case["g"]))
        if not valid:
            if "raised" not in o:
                bad.append(("C04:distribute:invalid-wires-accepted", f"n={n} iw={iw} shape={len(case['g'])} returned a matrix"))
            return bad
        if "raised" in o:
            return [("C04:distribute:valid-input-rejected", f"n={n} iw={iw}: {o['msg']}")]
        g = np.array([[complex(a, b) for a, b in row] for row in case["g"]]).reshape(2 ** m, 2 ** m)
        exp = ref_embed(n, iw, g)
        got = coo_to_dict(o["coo"])
        if o["shape"] != [2 ** n, 2 ** n]:
            bad.append(("C04:distribute:shape", f"n={n} iw={iw}: shape {o['shape']}"))
        elif exp != got:
            diff = [(k, exp.get(k), got.get(k)) for k in sorted(set(exp) | set(got)) if exp.get(k) != got.get(k)][:3]
            bad.append(("C04:distribute:wrong-matrix", f"n={n} iw={iw}: (row,col): expected vs got {diff}"))
        return bad
    if op == "gate.circuit_matrix":
        n, wires, defs = wires_expected(case, o)
        parts = o["_particles"]
        kind = case["gate"]["kind"]
        must_reject = None
        if any(defs[fid][1] != 2 for fid in case["order"]):
            must_reject = "NotImplemented"
        elif not parts or any(w is None for w in wires):
            must_reject = "RuntimeError"
        elif any(idx < 0 or idx >= defs[fid][0] for fid, idx in parts):
            return []   # particle outside its lattice: caller's error, no claim
        elif len(set(wires)) != len(wires):
            must_reject = "Assertion"
        if must_reject:
            if "raised" not in o:
                bad.append((f"C04:as_circuit_matrix:{kind}:malformed-accepted", f"expected {must_reject}, got a matrix; particles={parts} order={case['order']}"))
            elif o["raised"] != must_reject:
                bad.append((f"C04:as_circuit_matrix:{kind}:wrong-error-kind", f"expected {must_reject}, got {o['msg']}"))
            return bad
        if "raised" in o:
            return [(f"C04:as_circuit_matrix:{kind}:valid-input-rejected", f"{o['msg']}; particles={parts} order={case['order']}")]
        exp = ref_embed(n, wires, to_np(o["_g"]))
        got = coo_to_dict(o["coo"])
        if o["shape"] != [2 ** n, 2 ** n]:
            bad.append((f"C04:as_circuit_matrix:{kind}:shape", f"shape {o['shape']} for {n} wires"))
        elif exp != got:
            diff = [(k, exp.get(k), got.get(k)) for k in sorted(set(exp) | set(got)) if exp.get(k) != got.get(k)][:3]
            bad.append((f"C04:as_circuit_matrix:{kind}:wrong-matrix", f"wires={wires} of {n} (fields order {case['order']}): expected vs got {diff}"))
        return bad
    if op == "permute":
        perm = case["perm"]
        u = np.array([[complex(a, b) for a, b in row] for row in case["u"]])
        nw = len(perm)
        valid = sorted(perm) == list(range(nw)) and u.shape == (2 ** nw, 2 ** nw)
        if not valid:
            if "raised" not in o:
                bad.append(("C04:permute:malformed-accepted", f"perm={perm} shape={u.shape} returned a matrix"))
            return bad
        if "raised" in o:
            return [("C04:permute:valid-input-rejected", f"perm={perm}: {o['msg']}")]
        got = to_np(o["mat"])

        def src(R):  # bit of wire perm[a] of the source = bit of wire a of R
            x = 0
            for a in range(nw):
                if (R >> (nw - 1 - a)) & 1:
                    x |= 1 << (nw - 1 - perm[a])
            return x
        exp = np.array([[u[src(R), src(C)] for C in range(2 ** nw)] for R in range(2 ** nw)])
        if not np.array_equal(exp, got):
            bad.append(("C04:permute:wrong-matrix", f"perm={perm}: result is not the axis transposition"))
        # the matching conjugation: placing the permuted gate on wires iw = placing u on the wires iw[perm^-1]
        n = nw + 1
        iw = [nw - a for a in range(nw)]
        if True:
            inv = [perm.index(k) for k in range(nw)]
            a1 = _ctx["dist"](n, iw, _ctx["csr"](got)).toarray()
            a2 = _ctx["dist"](n, [iw[inv[k]] for k in range(nw)], _ctx["csr"](u)).toarray()
            if not np.array_equal(a1, a2):
                bad.append(("C04:permute:not-matching-embedding", f"perm={perm}: embed(iw, permuted) != embed(iw o perm^-1, u)"))
        return bad
    if op == "wire":
        defs = {fid: (ns, ld) for fid, ns, ld in case["field_defs"]}
        fid, idx = case["particle"]
        off, acc = None, 0
        for f in case["order"]:
            if f == fid:
                off = acc
                break
            acc += defs[f][0]
        exp = -1 if off is None else off + idx
        if o.get("wire") != exp:
            bad.append(("C04:wire:wrong-offset", f"order={case['order']} sizes={defs} particle={case['particle']}: got {o.get('wire')}, expected {exp}"))
        return bad
    return bad


# ---------------------------------------------------------------------------------------------
# generators
# ---------------------------------------------------------------------------------------------

def rand_gauss(rng, d, sparse=False):
    rows = []
    for _ in range(d):
        row = []
        for _ in range(d):
            if sparse and rng.random() < 0.55:
                row.append([0, 0])
            else:
                row.append([rng.randint(-9, 9), rng.randint(-9, 9)])
        rows.append(row)
    if all(v == [0, 0] for r in rows for v in r):
        rows[rng.randrange(d)][rng.randrange(d)] = [1, -2]
    return rows


def gen_embed(tier, rng):
    N, M = (7, 4) if tier == "thorough" else (5, 3)
    for n in range(1, N + 1):
        for m in range(0, min(n, M) + 1):
            for iw in itertools.permutations(range(n), m):
                yield {"op": "embed", "n": n, "iw": list(iw), "g": rand_gauss(rng, 2 ** m)}
                yield {"op": "embed", "n": n, "iw": list(iw), "g": rand_gauss(rng, 2 ** m, sparse=True), "layout": rng.choice(LAYOUTS)}
    # wider gates in both tiers: every ordering of 4 (and a sample of 5) CONTIGUOUS wires at every offset (structure that a fast path for
    # "neighbouring wires" would key on), and random non-contiguous selections
    for n, m in ((4, 4), (5, 4), (6, 4), (6, 5)) + (((7, 5), (8, 5), (7, 6)) if tier == "thorough" else ()):
        for start in range(0, n - m + 1):
            perms = list(itertools.permutations(range(start, start + m)))
            for iw in (perms if m == 4 else rng.sample(perms, 12)):
                yield {"op": "embed", "n": n, "iw": list(iw), "g": rand_gauss(rng, 2 ** m)}
        for _ in range(6):
            yield {"op": "embed", "n": n, "iw": rng.sample(range(n), m), "g": rand_gauss(rng, 2 ** m, sparse=True)}
    # n = 0: the empty register
    yield {"op": "embed", "n": 0, "iw": [], "g": [[[3, -1]]]}
    # malformed stream
    for n in range(1, 5):
        for m in range(1, 4):
            for _ in range(6 if tier == "thorough" else 3):
                iw = [rng.randrange(n) for _ in range(m)]
                kind = rng.choice(["dup", "range", "neg", "shape", "toolong"])
                if kind == "dup" and m >= 2:
                    iw[rng.randrange(1, m)] = iw[0]
                elif kind == "range":
                    iw[rng.randrange(m)] = n + rng.randrange(3)
                elif kind == "neg":
                    iw[rng.randrange(m)] = -1 - rng.randrange(2)
                d = 2 ** m
                if kind == "shape":
                    if m > n:
                        continue
                    d = 2 ** (m + 1) if rng.random() < 0.5 else max(1, 2 ** (m - 1))
                    iw = rng.sample(range(n), m)
                if kind == "toolong":
                    iw = list(range(n)) + [rng.randrange(n)]
                    d = 2 ** len(iw)
                    if d > 32:
                        continue
                yield {"op": "embed", "n": n, "iw": iw, "g": rand_gauss(rng, d), "malformed": kind}


def rand_unitary(rng, m):
    """exact-enough random unitary (passes the constructor's allclose check), dense and non-symmetric"""
    nprng = np.random.default_rng(rng.randrange(2 ** 32))
    d = 2 ** m
    a = nprng.normal(size=(d, d)) + 1j * nprng.normal(size=(d, d))
    qm, r = np.linalg.qr(a)
    return qm * (np.diag(r) / np.abs(np.diag(r)))


def rand_gate_desc(rng, max_m):
    """-> (descriptor, number of wires)"""
    kinds = ["general", "general", "iswap", "single", "rzz", "phase", "controlled", "controlled", "multiplexed", "prepare"]
    while True:
        k = rng.choice(kinds)
        if k == "general":
            m = rng.randint(1, min(3, max_m))
            return {"kind": "general", "m": m, "mat": dense_json(rand_unitary(rng, m))}, m
        if k == "iswap" and max_m >= 2:
            return {"kind": "iswap"}, 2
        if k == "single":
            cls, args = rng.choice([("HadamardGate", []), ("PauliYGate", []), ("SGate", []), ("TGate", []), ("SxGate", []),
                                    ("RxGate", [rng.uniform(-3, 3)]), ("RyGate", [rng.uniform(-3, 3)]), ("RzGate", [rng.uniform(-3, 3)]),
                                    ("SAdjGate", []), ("TAdjGate", []), ("PauliXGate", []), ("PauliZGate", []), ("IdentityGate", []),
                                    ("RotationGate", [[rng.uniform(-3, 3), rng.uniform(-3, 3), rng.uniform(-3, 3)]]),
                                    ("RotationGate", [[rng.uniform(-3, 3), rng.uniform(-3, 3), rng.uniform(-3, 3)]])])
            return {"kind": "single", "cls": cls, "args": args}, 1
        if k == "rzz" and max_m >= 2:
            return {"kind": "rzz", "cls": rng.choice(["RxxGate", "RyyGate", "RzzGate"]), "theta": rng.uniform(-3, 3)}, 2
        if k == "phase":
            m = rng.randint(1, min(2, max_m))
            return {"kind": "phase", "phi": rng.uniform(-3, 3), "m": m}, m
        if k == "prepare":
            m = rng.randint(1, min(2, max_m))
            v = [rng.choice([0.0, rng.uniform(-2, 2), rng.uniform(0.1, 1)]) for _ in range(2 ** m)]
            if sum(abs(x) for x in v) == 0:
                v[rng.randrange(len(v))] = 1.0
            return {"kind": "prepare", "m": m, "vec": v, "transpose": rng.random() < 0.5}, m
        if k == "controlled" and max_m >= 2:
            nc = rng.randint(1, min(2, max_m - 1))
            tk = rng.choice(["general", "single", "iswap", "nested", "nested"])
            if tk == "nested" and max_m - nc >= 2:
                # a controlled gate whose target is itself a controlled gate, with independent control patterns on both levels
                nc2 = rng.randint(1, min(2, max_m - nc - 1))
                inner = {"kind": "controlled", "nc": nc2, "ctrl_state": [rng.randint(0, 1) for _ in range(nc2)],
                         "target": {"kind": "single", "cls": rng.choice(["RyGate", "RxGate"]), "args": [rng.uniform(-3, 3)]}}
                return {"kind": "controlled", "nc": nc, "ctrl_state": [rng.randint(0, 1) for _ in range(nc)], "target": inner}, nc + nc2 + 1
            if tk == "general":
                tm = rng.randint(1, min(2, max_m - nc))
                t = {"kind": "general", "m": tm, "mat": dense_json(rand_unitary(rng, tm))}
            elif tk == "iswap" and max_m - nc >= 2:
                t, tm = {"kind": "iswap"}, 2
            else:
                t, tm = {"kind": "single", "cls": "RyGate", "args": [rng.uniform(-3, 3)]}, 1
            return {"kind": "controlled", "nc": nc, "ctrl_state": [rng.randint(0, 1) for _ in range(nc)], "target": t}, nc + tm
        if k == "multiplexed" and max_m >= 2:
            nc = rng.randint(1, min(2, max_m - 1))
            if rng.random() < 0.15:
                nc = 0          # the degenerate multiplexer without control: one target, the gate acts like its target (particles() = the target's)
            ts = [{"kind": "single", "cls": "RyGate", "args": [rng.uniform(-3, 3)]} for _ in range(2 ** nc)]
            return {"kind": "multiplexed", "nc": nc, "targets": ts}, nc + 1


def gen_public(tier, rng):
    thorough = tier == "thorough"
    cap = 9 if thorough else 7
    layouts = 160 if thorough else 40
    for _ in range(layouts):
        nf = rng.randint(1, 3)
        while True:
            sizes = [rng.randint(1, 4) for _ in range(nf)]
            if sum(sizes) <= cap:
                break
        ids = rng.sample([0, 2, 4, 1, 3], nf)          # even id: qubit field, odd id: fermion field (both local_dim 2)
        defs = [[fid, s, 2] for fid, s in zip(ids, sizes)]
        allp = [(fid, i) for fid, s, _ in defs for i in range(s)]
        gates = []
        for _ in range(7 if thorough else 6):
            gd, m = rand_gate_desc(rng, min(len(allp), 4))
            gates.append((gd, rng.sample(allp, m)))
        orders = list(itertools.permutations(ids))
        for order in orders:
            for gd, ps in gates:
                c = {"op": "gate.circuit_matrix", "field_defs": defs, "order": list(order), "gate": gd, "particles": [list(p) for p in ps]}
                if rng.random() < 0.35:
                    # the same gate object is first embedded into other registers (other field orders / sub-lists / a field listed twice)
                    pre = [list(rng.choice(orders)) for _ in range(rng.randint(1, 2))]
                    if rng.random() < 0.3 and len(ids) >= 2:
                        pre.append(list(order)[:-1])
                    c["pre_orders"] = pre
                if gd["kind"] == "general" and rng.random() < 0.5:
                    c["gate"] = dict(gd, layout=rng.choice(LAYOUTS))
                yield c
        # ---- malformed stream on this layout
        order = list(ids)
        gd2 = {"kind": "iswap"}
        if len(allp) >= 2:
            p0, p1 = rng.sample(allp, 2)
            # duplicate wire
            yield {"op": "gate.circuit_matrix", "field_defs": defs, "order": order, "gate": gd2, "particles": [list(p0), list(p0)], "malformed": "dup"}
            # particle of a field that is not listed
            if nf >= 2:
                missing = [f for f in ids if f != p0[0]]
                if p1[0] != p0[0]:
                    yield {"op": "gate.circuit_matrix", "field_defs": defs, "order": [f for f in ids if f != p1[0]], "gate": gd2,
                           "particles": [list(p0), list(p1)], "malformed": "foreign"}
                del missing
            # a field with local dimension 3 in the list
            bdefs = defs + [[7, 2, 3]]
            yield {"op": "gate.circuit_matrix", "field_defs": bdefs, "order": order + [7], "gate": gd2, "particles": [list(p0), list(p1)], "malformed": "localdim"}
            yield {"op": "gate.circuit_matrix", "field_defs": bdefs, "order": [7] + order, "gate": gd2, "particles": [list(p0), list(p1)], "malformed": "localdim"}
            # particle index outside its lattice (unchecked by the code; wire may land in the next field or out of range)
            f0 = defs[0]
            yield {"op": "gate.circuit_matrix", "field_defs": defs, "order": order, "gate": gd2,
                   "particles": [[f0[0], f0[1] + rng.randrange(3)], list(p1)], "malformed": "index"}
            yield {"op": "gate.circuit_matrix", "field_defs": defs, "order": order, "gate": gd2,
                   "particles": [[order[-1], dict((d[0], d[1]) for d in defs)[order[-1]]], list(p0)], "malformed": "index-last"}
            yield {"op": "gate.circuit_matrix", "field_defs": defs, "order": order, "gate": gd2,
                   "particles": [[order[0], -1], list(p1)], "malformed": "index-neg"}
        # unbound gate
        yield {"op": "gate.circuit_matrix", "field_defs": defs, "order": order, "gate": {"kind": "general", "m": 1, "mat": dense_json(rand_unitary(rng, 1))},
               "particles": [], "malformed": "unbound"}
        # the same field object listed twice (first match wins, register is larger)
        if len(allp) >= 2 and sum(sizes) + sizes[0] <= cap:
            p0, p1 = rng.sample(allp, 2)
            yield {"op": "gate.circuit_matrix", "field_defs": defs, "order": order + [order[0]], "gate": gd2, "particles": [list(p0), list(p1)], "malformed": "twice"}


def gen_permute(tier, rng):
    NW = 4 if tier == "thorough" else 3
    for nw in range(0, NW + 1):
        for perm in itertools.permutations(range(nw)):
            for lay in (LAYOUTS if nw >= 1 else ("C",)):
                yield {"op": "permute", "perm": list(perm), "u": rand_gauss(rng, 2 ** nw), "layout": lay}
            if nw >= 1:
                for form in ("tuple", "array", "int8") + (("range",) if list(perm) == list(range(nw)) else ()):
                    yield {"op": "permute", "perm": list(perm), "u": rand_gauss(rng, 2 ** nw), "layout": "C", "permform": form}
    for nw in range(1, 4):
        for _ in range(6):
            perm = [rng.randrange(nw + 1) for _ in range(nw)]
            if sorted(perm) == list(range(nw)):
                perm[0] = nw
            yield {"op": "permute", "perm": perm, "u": rand_gauss(rng, 2 ** nw), "malformed": "notperm"}
        yield {"op": "permute", "perm": list(range(nw)), "u": rand_gauss(rng, 2 ** (nw + 1)), "malformed": "shape"}
        yield {"op": "permute", "perm": list(range(nw)) + [0], "u": rand_gauss(rng, 2 ** nw), "malformed": "shape"}


def gen_wire(tier, rng):
    S = 4 if tier == "thorough" else 3
    for nf in range(0, 4):
        for sizes in itertools.product(range(1, S + 1), repeat=nf):
            if nf == 3 and tier != "thorough" and rng.random() < 0.5:
                continue
            ids = [0, 2, 4][:nf]
            defs = [[fid, s, 2] for fid, s in zip(ids, sizes)]
            orders = set(itertools.permutations(ids))
            if nf >= 1:
                orders.add(tuple(ids) + (ids[0],))
            for order in sorted(orders):
                for fid in ids + [6]:
                    ns = dict((d[0], d[1]) for d in defs).get(fid, 2)
                    for idx in range(-1, ns + 1):
                        yield {"op": "wire", "field_defs": defs, "order": list(order), "particle": [fid, idx]}


def gen_cases(tier, rng):
    yield from gen_wire(tier, rng)
    yield from gen_permute(tier, rng)
    yield from gen_public(tier, rng)
    yield from gen_embed(tier, rng)


def run(rep, tier, rng, drv):
    setup()

    def counted():
        for c in gen_cases(tier, rng):
            rep.count(c["op"] + (":malformed" if "malformed" in c else ""))
            yield c
    run_correspondence(rep, drv, counted(), impl, model_req, compare, oracle,
                       "embed/gate.circuit_matrix/permute/wire", batch=250, req_uses_output=True,
                       nontrivial=lambda c, o: "raised" not in o and "harness_exception" not in o)
    N, M = (7, 4) if tier == "thorough" else (5, 3)
    rep.cov["exhaustive"] = {"embed": f"all ordered selections of m<={M} distinct wires out of n<={N}",
                             "permute": f"all permutations of <= {4 if tier == 'thorough' else 3} wires",
                             "wire": "all particles (index -1..nsites) of all layouts of <=3 fields with small sizes, all orders"}
